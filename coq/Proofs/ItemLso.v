(* Proofs/ItemLso.v — preservation of I-lso (the subscribe-outcome flag is a
   function of the history) and the adapter-call discipline (monitor calls_ok:
   calls never overlap, unsubscribe only after a subscribe that returned). *)
From Coq Require Import String List Ascii NArith ZArith Bool Arith Lia.
From LS Require Import Model.Bytes Model.Tags Gen.Consts Model.Codec Model.Writers Model.AriReply
  Model.Item Model.ItemSpec.
Import ListNotations.

Opaque error_reply write_update_map write_eos write_cls void_reply.

(* ================================================================== *)
(* 1. Small library                                                     *)
(* ================================================================== *)

Lemma length_upd {A} n (x : A) l : List.length (upd n x l) = List.length l.
Proof.
  revert n; induction l as [|y r IH]; intros [|n]; simpl; auto.
Qed.

Lemma nth_error_upd_eq {A} n (x y : A) l :
  nth_error l n = Some y -> nth_error (upd n x l) n = Some x.
Proof.
  revert n; induction l as [|z r IH]; intros [|n] H; simpl in *; try discriminate; auto.
Qed.

Lemma nth_error_upd_neq {A} n k (x : A) l :
  n <> k -> nth_error (upd n x l) k = nth_error l k.
Proof.
  revert n k; induction l as [|z r IH]; intros [|n] [|k] H; simpl; auto; try congruence.
Qed.

Lemma upd_same {A} n (x : A) l : nth_error l n = Some x -> upd n x l = l.
Proof.
  revert n; induction l as [|z r IH]; intros [|n] H; simpl in *; try discriminate; auto.
  - congruence.
  - f_equal; auto.
Qed.

Lemma nth_error_snoc_len {A} (l : list A) x : nth_error (l ++ [x]) (List.length l) = Some x.
Proof. induction l as [|y r IH]; simpl; auto. Qed.

Lemma nth_error_snoc_lt {A} (l : list A) x n y :
  nth_error l n = Some y -> nth_error (l ++ [x]) n = Some y.
Proof.
  intros H. rewrite nth_error_app1; auto. apply nth_error_Some. congruence.
Qed.

Lemma is_nil_true {A} (l : list A) : is_nil l = true -> l = [].
Proof. destruct l; simpl; congruence. Qed.

(* ---------- inloop / live ---------- *)
Lemma inloop_live d : inloop d = true -> live_dq d = true.
Proof. unfold inloop, live_dq. destruct (d_pc d); simpl; congruence. Qed.

Lemma count0_find l : count_inloop l = 0 -> find inloop l = None.
Proof.
  induction l as [|x r IH]; simpl; auto.
  destruct (inloop x); simpl; intros H; try discriminate; auto.
Qed.

Lemma count_ge l j d : nth_error l j = Some d -> inloop d = true -> 1 <= count_inloop l.
Proof.
  revert j; induction l as [|x r IH]; intros [|j] H Hi; simpl in *; try discriminate.
  - inversion H; subst. rewrite Hi. lia.
  - specialize (IH _ H Hi). lia.
Qed.

Lemma count0_all l j d : count_inloop l = 0 -> nth_error l j = Some d -> inloop d = false.
Proof.
  intros H0 Hd. destruct (inloop d) eqn:E; auto.
  pose proof (count_ge _ _ _ Hd E). lia.
Qed.

Lemma count_upd l j d d' :
  nth_error l j = Some d ->
  count_inloop (upd j d' l) + (if inloop d then 1 else 0) =
  count_inloop l + (if inloop d' then 1 else 0).
Proof.
  revert j; induction l as [|x r IH]; intros [|j] H; simpl in *; try discriminate.
  - inversion H; subst. lia.
  - specialize (IH _ H). lia.
Qed.

Lemma count_app l x : count_inloop (l ++ [x]) = count_inloop l + (if inloop x then 1 else 0).
Proof. induction l as [|y r IH]; simpl; lia. Qed.

(* the unique in-loop job determines find / existsb / flat_map *)
Lemma find_upd_uniq l j d d' :
  count_inloop l <= 1 -> nth_error l j = Some d -> inloop d = true ->
  find inloop (upd j d' l) = if inloop d' then Some d' else None.
Proof.
  revert j; induction l as [|x r IH]; intros [|j] Hc H Hi; simpl in *; try discriminate.
  - inversion H; subst. rewrite Hi in Hc.
    destruct (inloop d'); auto. apply count0_find. lia.
  - pose proof (count_ge _ _ _ H Hi).
    destruct (inloop x); [lia|]. apply IH; auto.
Qed.

Lemma existsb_upd_uniq (f : dq -> bool) l j d d' :
  (forall x, inloop x = false -> f x = false) ->
  count_inloop l <= 1 -> nth_error l j = Some d -> inloop d = true ->
  existsb f (upd j d' l) = f d'.
Proof.
  intros Hf. assert (H0 : forall r, count_inloop r = 0 -> existsb f r = false).
  { induction r as [|x r IH]; simpl; auto. destruct (inloop x) eqn:E; try discriminate.
    intros Hr. rewrite (Hf _ E), IH; auto. }
  revert j; induction l as [|x r IH]; intros [|j] Hc H Hi; simpl in *; try discriminate.
  - inversion H; subst. rewrite Hi in Hc. rewrite H0; [apply orb_false_r|lia].
  - pose proof (count_ge _ _ _ H Hi).
    destruct (inloop x) eqn:E; [lia|]. rewrite (Hf _ E). apply IH; auto.
Qed.

Lemma flat_map_upd_uniq {B} (g : dq -> list B) l j d d' :
  (forall x, inloop x = false -> g x = []) ->
  count_inloop l <= 1 -> nth_error l j = Some d -> inloop d = true ->
  flat_map g (upd j d' l) = g d'.
Proof.
  intros Hg. assert (H0 : forall r, count_inloop r = 0 -> flat_map g r = []).
  { induction r as [|x r IH]; simpl; auto. destruct (inloop x) eqn:E; try discriminate.
    intros Hr. rewrite (Hg _ E), IH; auto. }
  revert j; induction l as [|x r IH]; intros [|j] Hc H Hi; simpl in *; try discriminate.
  - inversion H; subst. rewrite Hi in Hc. rewrite H0; [apply app_nil_r|lia].
  - pose proof (count_ge _ _ _ H Hi).
    destruct (inloop x) eqn:E; [lia|]. rewrite (Hg _ E). apply IH; auto.
Qed.

(* replacing a job outside the loop by one outside the loop *)
Lemma find_upd_out l j d d' :
  nth_error l j = Some d -> inloop d = false -> inloop d' = false ->
  find inloop (upd j d' l) = find inloop l.
Proof.
  revert j; induction l as [|x r IH]; intros [|j] H Hi Hi'; simpl in *; try discriminate.
  - inversion H; subst. rewrite Hi, Hi'. reflexivity.
  - rewrite (IH _ H Hi Hi'). reflexivity.
Qed.

Lemma existsb_upd_same {A} (f : A -> bool) l j d d' :
  nth_error l j = Some d -> f d' = f d -> existsb f (upd j d' l) = existsb f l.
Proof.
  revert j; induction l as [|x r IH]; intros [|j] H Hf; simpl in *; try discriminate.
  - inversion H; subst. rewrite Hf. reflexivity.
  - rewrite (IH _ H Hf). reflexivity.
Qed.

Lemma flat_map_upd_same {A B} (g : A -> list B) l j d d' :
  nth_error l j = Some d -> g d' = g d -> flat_map g (upd j d' l) = flat_map g l.
Proof.
  revert j; induction l as [|x r IH]; intros [|j] H Hg; simpl in *; try discriminate.
  - inversion H; subst. rewrite Hg. reflexivity.
  - rewrite (IH _ H Hg). reflexivity.
Qed.

Lemma find_app_none {A} (f : A -> bool) l x :
  find f l = None -> find f (l ++ [x]) = if f x then Some x else None.
Proof.
  induction l as [|y r IH]; simpl; auto. destruct (f y); try discriminate. auto.
Qed.

(* ---------- splitting the invariant ---------- *)
Lemma inv_all_split s :
  inv_all s = true ->
  inv_gen s = true /\ inv_single s = true /\ inv_count s = true /\ inv_start s = true /\
  inv_rids s = true /\ inv_fifo s = true /\ inv_last s = true /\ inv_code s = true /\
  inv_lso s = true.
Proof. unfold inv_all, inv_struct. rewrite !andb_true_iff. tauto. Qed.

Ltac split_inv H :=
  let Hgen := fresh "Hgen" in let Hsingle := fresh "Hsingle" in let Hcount := fresh "Hcount" in
  let Hstart := fresh "Hstart" in let Hrids := fresh "Hrids" in let Hfifo := fresh "Hfifo" in
  let Hlast := fresh "Hlast" in let Hcode := fresh "Hcode" in let Hlso := fresh "Hlso" in
  destruct (inv_all_split _ H) as
    (Hgen & Hsingle & Hcount & Hstart & Hrids & Hfifo & Hlast & Hcode & Hlso).

(* ---------- Prop readings of the structural invariants ---------- *)
Lemma gen_live s j d :
  inv_gen s = true -> nth_error (s_dqs s) j = Some d -> live_dq d = true ->
  s_active s = Some (d_gen d) /\ exists m, nth_error (s_mgrs s) (d_gen d) = Some m.
Proof.
  unfold inv_gen, cur_gen. intros H Hd Hl.
  destruct (List.length (s_mgrs s)) as [|c] eqn:Hlen.
  - rewrite !andb_true_iff in H. destruct H as [_ Hn]. apply is_nil_true in Hn.
    rewrite Hn in Hd. destruct j; discriminate.
  - rewrite !andb_true_iff in H. destruct H as [[Ha Hf] Hp].
    rewrite forallb_forall in Hf. specialize (Hf d (nth_error_In _ _ Hd)).
    rewrite Hl in Hf. simpl in Hf. rewrite andb_true_iff in Hf. destruct Hf as [Hg Hact].
    apply Nat.eqb_eq in Hg. destruct (s_active s) as [g|]; [|discriminate].
    apply Nat.eqb_eq in Hact. subst. split; auto.
    destruct (nth_error (s_mgrs s) (d_gen d)) eqn:E; eauto.
    apply nth_error_None in E. lia.
Qed.

Lemma gen_pending s t g :
  inv_gen s = true -> s_pending s = Some (t, g) -> s_active s = Some g.
Proof.
  unfold inv_gen, cur_gen. intros H Hp. rewrite Hp in H.
  destruct (List.length (s_mgrs s)) as [|c].
  - rewrite !andb_true_iff in H. destruct H as [[_ H] _]. discriminate.
  - rewrite !andb_true_iff in H. destruct H as [_ [Hg Hact]].
    apply Nat.eqb_eq in Hg. destruct (s_active s) as [a|]; [|discriminate].
    apply Nat.eqb_eq in Hact. congruence.
Qed.

Lemma single_le s : inv_single s = true -> count_inloop (s_dqs s) <= 1.
Proof. unfold inv_single. rewrite andb_true_iff. intros [H _]. apply Nat.leb_le; auto. Qed.

Lemma single_none s :
  inv_single s = true -> active_mgr s = None -> count_inloop (s_dqs s) = 0.
Proof.
  unfold inv_single. rewrite andb_true_iff. intros [_ H] E. rewrite E in H.
  apply Nat.eqb_eq; auto.
Qed.

Lemma single_running s m :
  inv_single s = true -> active_mgr s = Some m ->
  m_running m = Nat.eqb (count_inloop (s_dqs s)) 1.
Proof.
  unfold inv_single. rewrite andb_true_iff. intros [_ H] E. rewrite E in H.
  apply eqb_prop; auto.
Qed.

Lemma start_at s j d :
  inv_start s = true -> nth_error (s_dqs s) j = Some d ->
  match d_pc d with
  | PDone => True
  | PQueued | PTop =>
      (0 <= d_dequeued d)%Z /\
      (d_dequeued d = 0%Z ->
       exists m, nth_error (s_mgrs s) (d_gen d) = Some m /\ m_deq m <> [])
  | _ => (1 <= d_dequeued d)%Z
  end.
Proof.
  unfold inv_start. intros H Hd. rewrite forallb_forall in H.
  specialize (H d (nth_error_In _ _ Hd)).
  assert (X : forall z, (Z.leb 0 z &&
                 (negb (Z.eqb z 0) ||
                  match nth_error (s_mgrs s) (d_gen d) with
                  | Some m => negb (is_nil (m_deq m))
                  | None => false
                  end)) = true ->
              (0 <= z)%Z /\ (z = 0%Z ->
                exists m, nth_error (s_mgrs s) (d_gen d) = Some m /\ m_deq m <> [])).
  { intros z Hz. rewrite andb_true_iff in Hz. destruct Hz as [H0 H1].
    apply Z.leb_le in H0. split; auto. intros ->. simpl in H1.
    destruct (nth_error (s_mgrs s) (d_gen d)) as [m|]; try discriminate.
    exists m; split; auto. destruct (m_deq m); simpl in H1; congruence. }
  destruct (d_pc d); auto; try (apply Z.leb_le; exact H).
Qed.

(* ---------- hist_lso over appended events ---------- *)
Lemma hist_lso_from_app h es b :
  hist_lso_from b (h ++ es) = hist_lso_from (hist_lso_from b h) es.
Proof.
  revert b; induction h as [|e r IH]; intros b; simpl; auto.
  destruct e; auto. destruct c; auto; destruct o; auto.
Qed.

Lemma hist_lso_app h es : hist_lso (h ++ es) = hist_lso_from (hist_lso h) es.
Proof. apply hist_lso_from_app. Qed.

(* ================================================================== *)
(* 2. I-lso                                                             *)
(* ================================================================== *)

Definition lso_of (d : dq) (m : mgr) : bool :=
  if Z.eqb (d_dequeued d) 0 then m_last_ok m else d_lso d.

Lemma active_mgr_at s g : s_active s = Some g -> active_mgr s = nth_error (s_mgrs s) g.
Proof. unfold active_mgr. intros ->. reflexivity. Qed.

(* the value of next_lso when job j is the one in the loop *)
Lemma next_lso_at s j d m :
  inv_gen s = true -> inv_single s = true ->
  nth_error (s_dqs s) j = Some d -> inloop d = true ->
  nth_error (s_mgrs s) (d_gen d) = Some m ->
  next_lso s = lso_of d m.
Proof.
  intros Hg Hs Hd Hi Hm.
  destruct (gen_live _ _ _ Hg Hd (inloop_live _ Hi)) as [Ha _].
  pose proof (find_upd_uniq _ _ _ d (single_le _ Hs) Hd Hi) as Hf.
  rewrite (upd_same _ _ _ Hd), Hi in Hf.
  unfold next_lso. rewrite Hf, (active_mgr_at _ _ Ha), Hm. reflexivity.
Qed.

(* a step of the job that is in the loop *)
Lemma lso_job s s' j d d' m m' es :
  inv_gen s = true -> inv_single s = true -> inv_lso s = true ->
  nth_error (s_dqs s) j = Some d -> inloop d = true ->
  nth_error (s_mgrs s) (d_gen d) = Some m ->
  s_dqs s' = upd j d' (s_dqs s) -> s_active s' = s_active s ->
  nth_error (s_mgrs s') (d_gen d) = Some m' ->
  s_hist s' = s_hist s ++ es ->
  hist_lso_from (lso_of d m) es = (if inloop d' then lso_of d' m' else m_last_ok m') ->
  inv_lso s' = true.
Proof.
  intros Hg Hs Hl Hd Hi Hm Hdq Hact Hm' Hh Hev.
  unfold inv_lso in *. apply eqb_prop in Hl.
  rewrite (next_lso_at _ _ _ _ Hg Hs Hd Hi Hm) in Hl.
  destruct (gen_live _ _ _ Hg Hd (inloop_live _ Hi)) as [Ha _].
  rewrite Hh, hist_lso_app, <- Hl, Hev.
  unfold next_lso. rewrite Hdq, (find_upd_uniq _ _ _ d' (single_le _ Hs) Hd Hi).
  rewrite <- Hact in Ha. rewrite (active_mgr_at _ _ Ha), Hm'.
  destruct (inloop d'); apply eqb_reflx.
Qed.

(* a step that does not move the job in the loop *)
Lemma lso_same s s' es :
  inv_lso s = true ->
  find inloop (s_dqs s') = find inloop (s_dqs s) ->
  option_map m_last_ok (active_mgr s') = option_map m_last_ok (active_mgr s) ->
  s_hist s' = s_hist s ++ es ->
  (forall b, hist_lso_from b es = b) ->
  inv_lso s' = true.
Proof.
  intros Hl Hf Hm Hh Hev. unfold inv_lso in *.
  rewrite Hh, hist_lso_app, Hev.
  replace (next_lso s') with (next_lso s); auto.
  unfold next_lso. rewrite Hf.
  destruct (active_mgr s') as [m'|], (active_mgr s) as [m|]; simpl in Hm; try discriminate;
    try reflexivity.
  inversion Hm as [Hm1]. rewrite Hm1. reflexivity.
Qed.

Lemma inv_lso_init : forall item, inv_lso (init_state item) = true.
Proof. reflexivity. Qed.

(* ---------- per-label lemmas ---------- *)
Ltac dq_inv H s j d Hd Hpc :=
  destruct (nth_error (s_dqs s) j) as [d|] eqn:Hd; try discriminate H;
  destruct (d_pc d) eqn:Hpc; try discriminate H.

Ltac get_inloop d Hpc Hi :=
  assert (Hi : inloop d = true) by (unfold inloop; rewrite Hpc; reflexivity).

Ltac lso_job_tac s j d m :=
  match goal with
  | Hgen : inv_gen s = true, Hsingle : inv_single s = true, Hlso : inv_lso s = true,
    Hd : nth_error (s_dqs s) j = Some d, Hi : inloop d = true,
    Hm : nth_error (s_mgrs s) (d_gen d) = Some m |- _ =>
      eapply (lso_job s _ j d _ m);
      [exact Hgen|exact Hsingle|exact Hlso|exact Hd|exact Hi|exact Hm
      |reflexivity|reflexivity
      |first [exact Hm | eapply nth_error_upd_eq; exact Hm]
      |first [reflexivity | symmetry; apply app_nil_r]
      |]
  end.

Lemma lso_JobStart s j s' :
  inv_all s = true -> step_JobStart s j = Some s' -> inv_lso s' = true.
Proof.
  intros Hinv H. split_inv Hinv. unfold step_JobStart in H.
  dq_inv H s j d Hd Hpc. inversion H; subst; clear H.
  get_inloop d Hpc Hi.
  destruct (gen_live _ _ _ Hgen Hd (inloop_live _ Hi)) as [Ha [m Hm]].
  lso_job_tac s j d m. reflexivity.
Qed.

Ltac destr_H H :=
  repeat match type of H with
         | match (match ?x with _ => _ end) with _ => _ end = Some _ =>
             let E := fresh "E" in destruct x eqn:E; try discriminate H
         | match ?x with _ => _ end = Some _ =>
             let E := fresh "E" in destruct x eqn:E; try discriminate H
         end.

(* common prelude of a step of the in-loop job j *)
Ltac job_prelude H s j d m :=
  let Hd := fresh "Hd" in let Hpc := fresh "Hpc" in let Hi := fresh "Hi" in
  let Ha := fresh "Ha" in let Hm := fresh "Hm" in
  dq_inv H s j d Hd Hpc;
  get_inloop d Hpc Hi;
  match goal with
  | Hgen : inv_gen s = true |- _ =>
      destruct (gen_live _ _ _ Hgen Hd (inloop_live _ Hi)) as [Ha [m Hm]]
  end;
  try rewrite Hm in H.

Lemma dequeued_pos s j d :
  inv_start s = true -> nth_error (s_dqs s) j = Some d ->
  match d_pc d with PDone | PQueued | PTop => False | _ => True end ->
  Z.eqb (d_dequeued d) 0 = false.
Proof.
  intros Hs Hd Hp. pose proof (start_at _ _ _ Hs Hd) as X.
  destruct (d_pc d); try contradiction; apply Z.eqb_neq; lia.
Qed.

Lemma lso_Put s j s' :
  inv_all s = true -> step_Put s j = Some s' -> inv_lso s' = true.
Proof.
  intros Hinv H. split_inv Hinv. unfold step_Put, listener_put in H.
  job_prelude H s j d m; destr_H H; inversion H; subst; clear H;
    lso_job_tac s j d m; try reflexivity.
  - destruct insub; reflexivity.
  - destruct (t_sub t); reflexivity.
Qed.

Lemma lso_CallB s j s' :
  inv_all s = true -> step_CallB s j = Some s' -> inv_lso s' = true.
Proof.
  intros Hinv H. split_inv Hinv. unfold step_CallB in H.
  job_prelude H s j d m; inversion H; subst; clear H;
    lso_job_tac s j d m; reflexivity.
Qed.

Lemma lso_Nest s j k s' :
  inv_all s = true -> step_Nest s j k = Some s' -> inv_lso s' = true.
Proof.
  intros Hinv H. split_inv Hinv. unfold step_Nest in H.
  job_prelude H s j d m; inversion H; subst; clear H;
    lso_job_tac s j d m; reflexivity.
Qed.

Lemma lso_CallE s j o s' :
  inv_all s = true -> step_CallE s j o = Some s' -> inv_lso s' = true.
Proof.
  intros Hinv H. split_inv Hinv. unfold step_CallE in H.
  job_prelude H s j d m; inversion H; subst; clear H;
    assert (Hz : Z.eqb (d_dequeued d) 0 = false)
      by (apply (dequeued_pos _ _ _ Hstart Hd); rewrite Hpc; exact I);
    lso_job_tac s j d m.
  - destruct o as [[|]|e]; try reflexivity.
    unfold lso_of; cbn. rewrite Hz. reflexivity.
  - destruct o as [b|e]; unfold lso_of; cbn; rewrite Hz; reflexivity.
  - destruct o as [b|e]; reflexivity.
Qed.

Lemma lso_LockI s j s' :
  inv_all s = true -> step_LockI s j = Some s' -> inv_lso s' = true.
Proof.
  intros Hinv H. split_inv Hinv. unfold step_LockI in H.
  job_prelude H s j d m.
  pose proof (start_at _ _ _ Hstart Hd) as Hst. rewrite Hpc in Hst. destruct Hst as [Hge _].
  assert (Hz : Z.eqb (d_dequeued d + 1) 0 = false) by (apply Z.eqb_neq; lia).
  destruct (m_deq m) as [|t rest] eqn:Hdeq.
  - inversion H; subst; clear H. lso_job_tac s j d m. reflexivity.
  - destruct (t_sub t) eqn:Hsub; [destruct rest as [|t2 rest2]|];
      cbn [is_nil negb andb] in H; inversion H; subst; clear H;
      lso_job_tac s j d m; unfold lso_of; cbn; rewrite Hz; try reflexivity.
    destruct (if Z.eqb (d_dequeued d) 0 then m_last_ok m else d_lso d); reflexivity.
Qed.

(* ---------- the counter: a job at PDec whose subtraction gives 0 is alone ---------- *)
Definition nonneg_dqs (l : list dq) : Prop :=
  forall i x, nth_error l i = Some x -> live_dq x = true -> (0 <= d_dequeued x)%Z.

Lemma nonneg_tail x r : nonneg_dqs (x :: r) -> nonneg_dqs r.
Proof. intros H i y Hy. apply (H (S i) y Hy). Qed.

Lemma sum_nonneg l : nonneg_dqs l -> (0 <= sum_dequeued l)%Z.
Proof.
  induction l as [|x r IH]; intros Hn; simpl; [lia|].
  specialize (IH (nonneg_tail _ _ Hn)).
  destruct (live_dq x) eqn:E; auto. specialize (Hn 0 x eq_refl E). lia.
Qed.

Lemma sum_ge l i x :
  nonneg_dqs l -> nth_error l i = Some x -> live_dq x = true ->
  (d_dequeued x <= sum_dequeued l)%Z.
Proof.
  revert i; induction l as [|y r IH]; intros [|i] Hn Hx Hl; simpl in *; try discriminate.
  - inversion Hx; subst. rewrite Hl. pose proof (sum_nonneg _ (nonneg_tail _ _ Hn)). lia.
  - specialize (IH _ (nonneg_tail _ _ Hn) Hx Hl).
    destruct (live_dq y) eqn:E; auto. specialize (Hn 0 y eq_refl E). lia.
Qed.

Lemma sum_two l i j x y :
  nonneg_dqs l -> i <> j -> nth_error l i = Some x -> nth_error l j = Some y ->
  live_dq x = true -> live_dq y = true ->
  (d_dequeued x + d_dequeued y <= sum_dequeued l)%Z.
Proof.
  revert i j; induction l as [|z r IH]; intros [|i] [|j] Hn Hij Hx Hy Lx Ly; simpl in *;
    try discriminate; try congruence.
  - inversion Hx; subst. rewrite Lx.
    pose proof (sum_ge _ _ _ (nonneg_tail _ _ Hn) Hy Ly). lia.
  - inversion Hy; subst. rewrite Ly.
    pose proof (sum_ge _ _ _ (nonneg_tail _ _ Hn) Hx Lx). lia.
  - assert (Hij' : i <> j) by congruence.
    specialize (IH _ _ (nonneg_tail _ _ Hn) Hij' Hx Hy Lx Ly).
    destruct (live_dq z) eqn:E; auto. specialize (Hn 0 z eq_refl E). lia.
Qed.

Lemma start_nonneg s : inv_start s = true -> nonneg_dqs (s_dqs s).
Proof.
  intros Hs i x Hx Hl. pose proof (start_at _ _ _ Hs Hx) as X.
  unfold live_dq in Hl. destruct (d_pc x); simpl in Hl; try discriminate; lia.
Qed.

Lemma count_at s m :
  inv_count s = true -> active_mgr s = Some m ->
  m_queued m = (Z.of_nat (List.length (m_deq m)) + (if is_some (s_pending s) then 1 else 0)
                + sum_dequeued (s_dqs s))%Z.
Proof. unfold inv_count. intros H E. rewrite E in H. apply Z.eqb_eq; auto. Qed.

(* when the job at PDec brings the counter to 0 nobody is in the loop *)
Lemma dec_zero_alone s j d m :
  inv_gen s = true -> inv_count s = true -> inv_start s = true ->
  nth_error (s_dqs s) j = Some d -> d_pc d = PDec ->
  nth_error (s_mgrs s) (d_gen d) = Some m ->
  (m_queued m - d_dequeued d = 0)%Z ->
  find inloop (s_dqs s) = None.
Proof.
  intros Hgen Hcount Hstart Hd Hpc Hm Hq.
  assert (Hl : live_dq d = true) by (unfold live_dq; rewrite Hpc; reflexivity).
  destruct (gen_live _ _ _ Hgen Hd Hl) as [Ha _].
  assert (Hact : active_mgr s = Some m) by (rewrite (active_mgr_at _ _ Ha); exact Hm).
  pose proof (count_at _ _ Hcount Hact) as Hc.
  destruct (find inloop (s_dqs s)) as [x|] eqn:Hf; auto. exfalso.
  apply find_some in Hf. destruct Hf as [Hin Hix].
  apply In_nth_error in Hin. destruct Hin as [i Hx].
  assert (Hij : i <> j).
  { intros ->. rewrite Hd in Hx. inversion Hx; subst. unfold inloop in Hix.
    rewrite Hpc in Hix. discriminate. }
  pose proof (sum_two _ _ _ _ _ (start_nonneg _ Hstart) Hij Hx Hd (inloop_live _ Hix) Hl) as H2.
  pose proof (start_nonneg _ Hstart _ _ Hx (inloop_live _ Hix)) as H0.
  assert (Hlen : List.length (m_deq m) = 0 /\ d_dequeued x = 0%Z).
  { destruct (is_some (s_pending s)); lia. }
  destruct Hlen as [Hlen Hx0].
  destruct (gen_live _ _ _ Hgen Hx (inloop_live _ Hix)) as [Hax _].
  assert (Hg : d_gen x = d_gen d) by congruence.
  pose proof (start_at _ _ _ Hstart Hx) as X.
  unfold inloop in Hix.
  destruct (d_pc x); try discriminate; try lia;
    destruct X as [_ X]; destruct (X Hx0) as [m2 [Hm2 Hne]];
    rewrite Hg, Hm in Hm2; inversion Hm2; subst;
    destruct (m_deq m2); simpl in Hlen; congruence.
Qed.

Lemma lso_LockM s j s' :
  inv_all s = true -> step_LockM s j = Some s' -> inv_lso s' = true.
Proof.
  intros Hinv H. split_inv Hinv. unfold step_LockM in H.
  destruct (nth_error (s_dqs s) j) as [d|] eqn:Hd; try discriminate H.
  destruct (d_pc d) eqn:Hpc; try discriminate H.
  5: { (* PDec *)
    assert (Hl : live_dq d = true) by (unfold live_dq; rewrite Hpc; reflexivity).
    assert (Hi : inloop d = false) by (unfold inloop; rewrite Hpc; reflexivity).
    destruct (gen_live _ _ _ Hgen Hd Hl) as [Ha [m Hm]].
    rewrite Hm, Ha, Nat.eqb_refl, andb_true_r in H.
    match type of H with (if ?c then _ else _) = _ => destruct c eqn:Edel end;
      inversion H; subst; clear H.
    - rewrite andb_true_iff in Edel. destruct Edel as [_ Eq]. apply Z.eqb_eq in Eq.
      pose proof (dec_zero_alone _ _ _ _ Hgen Hcount Hstart Hd Hpc Hm Eq) as Hf.
      unfold inv_lso, next_lso, active_mgr. cbn [s_dqs s_active s_hist log set_dq set_mgr].
      rewrite (find_upd_out _ _ _ (with_pc d PDone) Hd Hi eq_refl), Hf, hist_lso_app. reflexivity.
    - eapply (lso_same s _ []); auto.
      + cbn. apply (find_upd_out _ _ _ (with_pc d PDone) Hd Hi eq_refl).
      + unfold active_mgr. cbn. rewrite Ha, (nth_error_upd_eq _ _ _ _ Hm), Hm. reflexivity.
      + cbn. symmetry; apply app_nil_r. }
  all: get_inloop d Hpc Hi;
    destruct (gen_live _ _ _ Hgen Hd (inloop_live _ Hi)) as [Ha [m Hm]];
    rewrite Hm in H; destr_H H; inversion H; subst; clear H;
    lso_job_tac s j d m; try reflexivity.
  destruct insub; reflexivity.
Qed.

Lemma lso_R1 s t s' :
  inv_all s = true -> step_R1 s t = Some s' -> inv_lso s' = true.
Proof.
  intros Hinv H. split_inv Hinv. unfold step_R1 in H.
  destruct (s_pending s); try discriminate.
  destruct (s_active s) as [g|] eqn:Ha.
  - destruct (nth_error (s_mgrs s) g) as [m|] eqn:Hm; try discriminate.
    inversion H; subst; clear H.
    eapply (lso_same s _ [EArr t]); auto.
    unfold active_mgr. cbn. rewrite Ha, (nth_error_upd_eq _ _ _ _ Hm), Hm. reflexivity.
  - assert (Hnone : active_mgr s = None) by (unfold active_mgr; rewrite Ha; reflexivity).
    destruct (t_sub t); inversion H; subst; clear H.
    + pose proof (count0_find _ (single_none _ Hsingle Hnone)) as Hf.
      unfold inv_lso in *. apply eqb_prop in Hlso.
      unfold next_lso in Hlso. rewrite Hf, Hnone in Hlso.
      unfold next_lso, active_mgr. cbn [s_dqs s_active s_hist s_mgrs log].
      rewrite Hf, nth_error_snoc_len, hist_lso_app, <- Hlso. reflexivity.
    + eapply (lso_same s _ [EArrDropped t]); auto.
Qed.

Lemma lso_R2 s s' :
  inv_all s = true -> step_R2 s = Some s' -> inv_lso s' = true.
Proof.
  intros Hinv H. split_inv Hinv. unfold step_R2 in H.
  destruct (s_pending s) as [[t g]|] eqn:Hp; try discriminate.
  destruct (nth_error (s_mgrs s) g) as [m|] eqn:Hm; try discriminate.
  pose proof (gen_pending _ _ _ Hgen Hp) as Ha.
  assert (Hact : active_mgr s = Some m) by (rewrite (active_mgr_at _ _ Ha); exact Hm).
  destruct (m_running m) eqn:Hrun; inversion H; subst; clear H.
  - eapply (lso_same s _ []); auto.
    + unfold active_mgr. cbn. rewrite Ha, (nth_error_upd_eq _ _ _ _ Hm), Hm. reflexivity.
    + cbn. symmetry; apply app_nil_r.
  - pose proof (single_running _ _ Hsingle Hact) as Hr. rewrite Hrun in Hr.
    pose proof (single_le _ Hsingle) as Hle.
    assert (Hc0 : count_inloop (s_dqs s) = 0).
    { symmetry in Hr. apply Nat.eqb_neq in Hr. lia. }
    pose proof (count0_find _ Hc0) as Hf.
    unfold inv_lso in *. apply eqb_prop in Hlso.
    unfold next_lso in Hlso. rewrite Hf, Hact in Hlso.
    unfold next_lso, active_mgr. cbn [s_dqs s_active s_hist s_mgrs set_mgr].
    rewrite (find_app_none _ _ _ Hf), Ha, (nth_error_upd_eq _ _ _ _ Hm). cbn.
    rewrite <- Hlso. apply eqb_reflx.
Qed.

Lemma lso_FreeBegin s l k s' :
  inv_all s = true -> step_FreeBegin s l k = Some s' -> inv_lso s' = true.
Proof.
  intros Hinv H. split_inv Hinv. unfold step_FreeBegin in H.
  destr_H H; inversion H; subst; clear H;
    eapply (lso_same s _ [ELisB (OFree l) k]); auto.
Qed.

Lemma lso_FreeLockM s l s' :
  inv_all s = true -> step_FreeLockM s l = Some s' -> inv_lso s' = true.
Proof.
  intros Hinv H. split_inv Hinv. unfold step_FreeLockM in H.
  destr_H H; inversion H; subst; clear H.
  - eapply (lso_same s _ []); auto. cbn. symmetry; apply app_nil_r.
  - eapply (lso_same s _ [ELisDropped (OFree l) k]); auto.
Qed.

Lemma lso_FreePut s l s' :
  inv_all s = true -> step_FreePut s l = Some s' -> inv_lso s' = true.
Proof.
  intros Hinv H. split_inv Hinv. unfold step_FreePut, listener_put in H.
  destr_H H; inversion H; subst; clear H.
  eapply (lso_same s _ [ENotif (OFree l) k b a]); auto.
Qed.

Lemma inv_lso_step : forall s lb s',
  inv_all s = true -> env_ok s lb = true -> step s lb = Some s' -> inv_lso s' = true.
Proof.
  intros s lb s' Hinv _ H. destruct lb; simpl in H.
  - eapply lso_R1; eauto.
  - eapply lso_R2; eauto.
  - eapply lso_JobStart; eauto.
  - eapply lso_LockI; eauto.
  - eapply lso_LockM; eauto.
  - eapply lso_Put; eauto.
  - eapply lso_CallB; eauto.
  - eapply lso_CallE; eauto.
  - eapply lso_Nest; eauto.
  - eapply lso_FreeBegin; eauto.
  - eapply lso_FreeLockM; eauto.
  - eapply lso_FreePut; eauto.
Qed.

(* ================================================================== *)
(* 3. The call discipline (monitor calls_ok)                            *)
(* ================================================================== *)

(* ---------- the monitor as a state machine ---------- *)
Definition mon_step (st : bool * bool) (e : event) : option (bool * bool) :=
  let (o, k) := st in
  match e with
  | ECallB KUsb _ => if negb o && k then Some (true, false) else None
  | ECallB _ _ => if negb o then Some (true, k) else None
  | ECallE KSub _ (CRet _) => if o then Some (false, true) else None
  | ECallE KSub _ (CRaise _) => if o then Some (false, false) else None
  | ECallE _ _ _ => if o then Some (false, k) else None
  | _ => Some (o, k)
  end.

Fixpoint calls_state_from (st : option (bool * bool)) (h : list event) : option (bool * bool) :=
  match h with
  | [] => st
  | e :: r => calls_state_from (match st with Some x => mon_step x e | None => None end) r
  end.

(* None = the monitor already failed; Some (open, sub_ok) *)
Definition calls_state (h : list event) : option (bool * bool) :=
  calls_state_from (Some (false, false)) h.

Lemma calls_state_from_app h es st :
  calls_state_from st (h ++ es) = calls_state_from (calls_state_from st h) es.
Proof. revert st; induction h as [|e r IH]; intros st; simpl; auto. Qed.

Lemma calls_state_app h es : calls_state (h ++ es) = calls_state_from (calls_state h) es.
Proof. apply calls_state_from_app. Qed.

Lemma calls_state_none h : calls_state_from None h = None.
Proof. induction h; simpl; auto. Qed.

Lemma calls_state_ok h : forall o k x,
  calls_state_from (Some (o, k)) h = Some x -> calls_ok_from o k h = true.
Proof.
  induction h as [|e r IH]; intros o k x H; auto.
  destruct e; try (simpl in *; eauto; fail).
  - destruct c; destruct o, k; simpl in *;
      try (rewrite calls_state_none in H; discriminate); eauto.
  - destruct c; destruct o0; destruct o; simpl in *;
      try (rewrite calls_state_none in H; discriminate); eauto.
Qed.

(* ---------- alternation of the requests of the item ---------- *)
Fixpoint alt_from (b : bool) (l : list task) : bool :=
  match l with
  | [] => true
  | t :: r => Bool.eqb (t_sub t) b && alt_from (negb b) r
  end.

(* kind of the last task of l (d for the empty list) *)
Fixpoint lastk (d : bool) (l : list task) : bool :=
  match l with [] => d | t :: r => lastk (t_sub t) r end.

Lemma lastk_snoc d l t : lastk d (l ++ [t]) = t_sub t.
Proof. revert d; induction l as [|x r IH]; intros d; simpl; auto. Qed.

Lemma last_task_cons r : forall t, exists u, last_task (t :: r) = Some u.
Proof.
  induction r as [|y q IH]; intros t; [exists t; reflexivity|].
  change (last_task (t :: y :: q)) with (last_task (y :: q)). apply IH.
Qed.

Lemma lastk_last d l :
  lastk d l = match last_task l with Some u => t_sub u | None => d end.
Proof.
  revert d; induction l as [|x r IH]; intros d; auto.
  cbn [lastk]. rewrite IH. destruct r as [|y q]; [reflexivity|].
  change (last_task (x :: y :: q)) with (last_task (y :: q)).
  destruct (last_task_cons q y) as [u Hu]. rewrite Hu. reflexivity.
Qed.

Lemma alt_mid l1 : forall b t r,
  alt_from b (l1 ++ t :: r) = true -> t_sub t = negb (lastk (negb b) l1).
Proof.
  induction l1 as [|x l IH]; intros b t r H; simpl in *;
    rewrite andb_true_iff in H; destruct H as [H1 H2]; apply eqb_prop in H1.
  - rewrite negb_involutive. auto.
  - rewrite (IH _ _ _ H2), negb_involutive, H1. reflexivity.
Qed.

Lemma alt_snoc l : forall b t,
  alt_from b (l ++ [t]) = alt_from b l && Bool.eqb (t_sub t) (negb (lastk (negb b) l)).
Proof.
  induction l as [|x r IH]; intros b t; simpl.
  - rewrite negb_involutive, andb_true_r. reflexivity.
  - rewrite IH, negb_involutive. destruct (Bool.eqb (t_sub x) b) eqn:E; simpl; auto.
    apply eqb_prop in E. rewrite E. reflexivity.
Qed.

(* ---------- history projections over appended events ---------- *)
Lemma seen_app h es : seen (h ++ es) = seen h ++ seen es.
Proof. induction h as [|e r IH]; simpl; auto. destruct e; simpl; rewrite ?IH; auto. Qed.

Lemma replied_app h es : replied (h ++ es) = replied h ++ replied es.
Proof. induction h as [|e r IH]; simpl; auto. destruct e; simpl; rewrite ?IH; auto. Qed.

Lemma seen_arrived h : is_nil (dropped h) = true -> seen h = arrived h.
Proof.
  induction h as [|e r IH]; simpl; auto. destruct e; simpl; auto; try discriminate.
  intros H. rewrite IH; auto.
Qed.

Lemma beqb_true : forall x y, bytes_eqb x y = true -> x = y.
Proof.
  induction x as [|a x IH]; intros [|b y] H; simpl in H; try discriminate; auto.
  rewrite andb_true_iff in H. destruct H as [H1 H2].
  apply Ascii.eqb_eq in H1. rewrite (IH _ H2), H1. reflexivity.
Qed.

Lemma task_eqb_eq a b : task_eqb a b = true -> a = b.
Proof.
  unfold task_eqb. rewrite andb_true_iff. intros [H1 H2].
  apply beqb_true in H1. apply eqb_prop in H2. destruct a, b; simpl in *; congruence.
Qed.

Lemma tasks_eqb_eq : forall a b, tasks_eqb a b = true -> a = b.
Proof.
  induction a as [|x r IH]; intros [|y q] H; simpl in H; try discriminate; auto.
  rewrite andb_true_iff in H. destruct H as [H1 H2].
  rewrite (task_eqb_eq _ _ H1), (IH _ H2). reflexivity.
Qed.

(* ---------- the linking invariant ---------- *)
Definition incall_pc (p : pc) : bool :=
  match p with
  | PSnapE _ | PInSub _ | PInUsb _ | PNestRead _ _ _ | PNestPut _ _ _ _ => true
  | _ => false
  end.

(* about to invoke unsubscribe *)
Definition usbb_pc (p : pc) : bool := match p with PUsbB _ => true | _ => false end.

(* holding a subscription whose outcome is not known yet *)
Definition presub_pc (p : pc) : bool :=
  match p with
  | PSetCode _ | PSnapB _ | PSnapE _ | PEosRead _ | PEosPut _ _ | PSubB _ | PInSub _
  | PNestRead _ true _ | PNestPut _ true _ _ => true
  | _ => false
  end.

(* the last request taken from the deque is an unsubscription (or there is none), or it is a
   subscription still before its outcome: in both cases the next unsubscription that will be
   popped comes after another outcome event *)
Definition Qb (ih : list task) (pre : bool) (h : list event) : bool :=
  negb (lastk false (replied h ++ ih)) || pre.

Definition icp (inc usb pre : bool) (ih : list task) (h : list event) : Prop :=
  exists k,
    calls_state h = Some (inc, k) /\
    alt_from true (seen h) = true /\
    (usb = true -> k = true) /\
    ((hist_lso h = true /\ k = false) \/ usb = true -> Qb ih pre h = true).

Definition inv_calls (s : istate) : Prop :=
  icp (existsb (fun d => incall_pc (d_pc d)) (s_dqs s))
      (existsb (fun d => usbb_pc (d_pc d)) (s_dqs s))
      (existsb (fun d => presub_pc (d_pc d)) (s_dqs s))
      (inhand s) (s_hist s).

Definition icp_pc (p : pc) (h : list event) : Prop :=
  icp (incall_pc p) (usbb_pc p) (presub_pc p) (inhand_pc p) h.

Lemma inv_calls_init : forall item, inv_calls (init_state item).
Proof.
  intros item. exists false. cbn. repeat split; auto.
Qed.

Lemma inv_calls_ok : forall s, inv_calls s -> calls_ok (s_hist s) = true.
Proof.
  intros s (k & H & _). unfold calls_ok. eapply calls_state_ok. exact H.
Qed.

(* with a job in the loop, the invariant only looks at its pc *)
Lemma out_incall x : inloop x = false -> incall_pc (d_pc x) = false.
Proof. unfold inloop. destruct (d_pc x); simpl; congruence. Qed.
Lemma out_usbb x : inloop x = false -> usbb_pc (d_pc x) = false.
Proof. unfold inloop. destruct (d_pc x); simpl; congruence. Qed.
Lemma out_presub x : inloop x = false -> presub_pc (d_pc x) = false.
Proof. unfold inloop. destruct (d_pc x); simpl; congruence. Qed.
Lemma out_inhand x : inloop x = false -> inhand_pc (d_pc x) = [].
Proof. unfold inloop. destruct (d_pc x); simpl; congruence. Qed.

Lemma calls_focus s s' j d d' :
  count_inloop (s_dqs s) <= 1 -> nth_error (s_dqs s) j = Some d -> inloop d = true ->
  s_dqs s' = upd j d' (s_dqs s) ->
  (inv_calls s' <-> icp_pc (d_pc d') (s_hist s')).
Proof.
  intros Hc Hd Hi Hdq. unfold inv_calls, icp_pc, inhand. rewrite Hdq.
  rewrite (existsb_upd_uniq _ _ _ _ d' out_incall Hc Hd Hi).
  rewrite (existsb_upd_uniq _ _ _ _ d' out_usbb Hc Hd Hi).
  rewrite (existsb_upd_uniq _ _ _ _ d' out_presub Hc Hd Hi).
  rewrite (flat_map_upd_uniq _ _ _ _ d' out_inhand Hc Hd Hi).
  reflexivity.
Qed.

Lemma calls_focus_pre s j d :
  inv_single s = true -> nth_error (s_dqs s) j = Some d -> inloop d = true ->
  (inv_calls s <-> icp_pc (d_pc d) (s_hist s)).
Proof.
  intros Hs Hd Hi. apply (calls_focus s s j d d (single_le _ Hs) Hd Hi).
  symmetry. apply upd_same; auto.
Qed.

(* a step of the job in the loop reduces to a statement on pcs and histories *)
Lemma calls_job s s' j d d' es :
  inv_single s = true -> inv_calls s ->
  nth_error (s_dqs s) j = Some d -> inloop d = true ->
  s_dqs s' = upd j d' (s_dqs s) -> s_hist s' = s_hist s ++ es ->
  (icp_pc (d_pc d) (s_hist s) -> icp_pc (d_pc d') (s_hist s ++ es)) ->
  inv_calls s'.
Proof.
  intros Hs Hc Hd Hi Hdq Hh Himp.
  apply (calls_focus s s' j d d' (single_le _ Hs) Hd Hi Hdq). rewrite Hh.
  apply Himp. apply (calls_focus_pre s j d Hs Hd Hi). exact Hc.
Qed.

(* ---------- rules on (pc, history) ---------- *)
Definition mon_neutral (es : list event) : Prop := forall st, calls_state_from st es = st.
Definition lso_neutral (es : list event) : Prop := forall b, hist_lso_from b es = b.

(* nothing the invariant looks at changes *)
Lemma icp_neutral inc usb pre ih ih' h es :
  mon_neutral es -> lso_neutral es -> seen es = [] ->
  replied es ++ ih' = ih ->
  icp inc usb pre ih h -> icp inc usb pre ih' (h ++ es).
Proof.
  intros Hm Hl Hs Hr (k & Hcs & Halt & Hu & Hq). exists k.
  rewrite calls_state_app, Hcs, Hm, seen_app, Hs, app_nil_r, hist_lso_app, Hl.
  repeat split; auto.
  intros Hp. unfold Qb in *. rewrite replied_app, <- app_assoc, Hr. auto.
Qed.

Lemma icp_pc_neutral p p' h es :
  mon_neutral es -> lso_neutral es -> seen es = [] ->
  incall_pc p' = incall_pc p -> usbb_pc p' = usbb_pc p -> presub_pc p' = presub_pc p ->
  replied es ++ inhand_pc p' = inhand_pc p ->
  icp_pc p h -> icp_pc p' (h ++ es).
Proof.
  unfold icp_pc. intros Hm Hl Hs -> -> -> Hr. apply icp_neutral; auto.
Qed.

Ltac neutral_tac :=
  first [ intros [[? ?]|]; reflexivity | intros ?; reflexivity | reflexivity ].

Ltac calls_job_tac s j d :=
  match goal with
  | Hsingle : inv_single s = true, Hc : inv_calls s,
    Hd : nth_error (s_dqs s) j = Some d, Hi : inloop d = true |- _ =>
      eapply (calls_job s _ j d);
      [exact Hsingle|exact Hc|exact Hd|exact Hi|reflexivity
      |first [reflexivity | symmetry; apply app_nil_r]
      |]
  end.

Ltac calls_neutral Hpc :=
  rewrite Hpc; cbn [d_pc with_pc]; apply icp_pc_neutral; neutral_tac.

Lemma calls_JobStart s j s' :
  inv_all s = true -> inv_calls s -> step_JobStart s j = Some s' -> inv_calls s'.
Proof.
  intros Hinv Hc H. split_inv Hinv. unfold step_JobStart in H.
  job_prelude H s j d m; inversion H; subst; clear H.
  calls_job_tac s j d. calls_neutral Hpc.
Qed.

Lemma calls_Nest s j k s' :
  inv_all s = true -> inv_calls s -> step_Nest s j k = Some s' -> inv_calls s'.
Proof.
  intros Hinv Hc H. split_inv Hinv. unfold step_Nest in H.
  job_prelude H s j d m; inversion H; subst; clear H;
    calls_job_tac s j d; calls_neutral Hpc.
Qed.

Lemma calls_Put s j s' :
  inv_all s = true -> inv_calls s -> step_Put s j = Some s' -> inv_calls s'.
Proof.
  intros Hinv Hc H. split_inv Hinv. unfold step_Put, listener_put in H.
  job_prelude H s j d m; destr_H H; inversion H; subst; clear H;
    calls_job_tac s j d; try (calls_neutral Hpc; fail).
  - destruct insub; calls_neutral Hpc.
  - destruct (t_sub t); calls_neutral Hpc.
Qed.

(* a call begins (not unsubscribe) *)
Lemma icp_open p p' h c t :
  match c with KUsb => False | _ => True end ->
  incall_pc p = false -> incall_pc p' = true -> usbb_pc p = false -> usbb_pc p' = false ->
  presub_pc p' = presub_pc p -> inhand_pc p' = inhand_pc p ->
  icp_pc p h -> icp_pc p' (h ++ [ECallB c t]).
Proof.
  unfold icp_pc. intros Hk Hi -> Hu -> -> ->. rewrite Hi, Hu.
  intros (k & Hcs & Halt & _ & Hq). exists k.
  rewrite calls_state_app, Hcs, seen_app, app_nil_r, hist_lso_app.
  split; [destruct c; try contradiction; reflexivity|].
  split; auto. split; [discriminate|].
  intros [Hp|Hp]; [|discriminate]. cbn in Hp.
  unfold Qb in *. rewrite replied_app, app_nil_r. auto.
Qed.

(* unsubscribe begins *)
Lemma icp_open_usb t h : icp_pc (PUsbB t) h -> icp_pc (PInUsb t) (h ++ [ECallB KUsb t]).
Proof.
  unfold icp_pc. cbn [incall_pc usbb_pc presub_pc inhand_pc].
  intros (k & Hcs & Halt & Hu & Hq). exists false.
  rewrite (Hu eq_refl) in Hcs.
  rewrite calls_state_app, Hcs, seen_app, app_nil_r, hist_lso_app.
  split; [reflexivity|]. split; auto. split; [discriminate|].
  intros _. unfold Qb in *. rewrite replied_app, app_nil_r. auto.
Qed.

Lemma calls_CallB s j s' :
  inv_all s = true -> inv_calls s -> step_CallB s j = Some s' -> inv_calls s'.
Proof.
  intros Hinv Hc H. split_inv Hinv. unfold step_CallB in H.
  job_prelude H s j d m; inversion H; subst; clear H;
    calls_job_tac s j d; rewrite Hpc; cbn [d_pc with_pc].
  - apply icp_open; auto; try exact I.
  - apply icp_open; auto; try exact I.
  - apply icp_open_usb.
Qed.

(* a call ends *)
Lemma icp_close_neutral p p' h c t o :
  match c, o with KSub, _ => False | KSnap, CRaise _ => False | _, _ => True end ->
  incall_pc p = true -> incall_pc p' = false -> usbb_pc p = false -> usbb_pc p' = false ->
  presub_pc p' = presub_pc p -> inhand_pc p' = inhand_pc p ->
  icp_pc p h -> icp_pc p' (h ++ [ECallE c t o]).
Proof.
  unfold icp_pc. intros Hk Hi -> Hu -> -> ->. rewrite Hi, Hu.
  intros (k & Hcs & Halt & _ & Hq). exists k.
  rewrite calls_state_app, Hcs, seen_app, app_nil_r, hist_lso_app.
  split; [destruct c, o; try contradiction; reflexivity|].
  split; auto. split; [discriminate|].
  intros [Hp|Hp]; [|discriminate].
  assert (Hp' : hist_lso h = true /\ k = false)
    by (destruct c, o; try contradiction; exact Hp).
  unfold Qb in *. rewrite replied_app, app_nil_r. auto.
Qed.

(* a call ends with an outcome that resets both flags, or sets both *)
Lemma icp_close_reset p p' h c t o :
  incall_pc p = true -> incall_pc p' = false -> usbb_pc p' = false ->
  match c, o with
  | KSub, _ => True
  | KSnap, CRaise _ => True
  | _, _ => False
  end ->
  icp_pc p h -> icp_pc p' (h ++ [ECallE c t o]).
Proof.
  unfold icp_pc. intros Hi -> -> Hk. rewrite Hi.
  intros (k & Hcs & Halt & _ & _).
  exists (match c, o with KSub, CRet _ => true | KSub, CRaise _ => false | _, _ => k end).
  rewrite calls_state_app, Hcs, seen_app, app_nil_r, hist_lso_app.
  split; [destruct c, o; try contradiction; reflexivity|].
  split; auto. split; [discriminate|].
  intros [[Hp1 Hp2]|Hp]; [|discriminate].
  destruct c, o; try contradiction; discriminate.
Qed.

Lemma calls_CallE s j o s' :
  inv_all s = true -> inv_calls s -> step_CallE s j o = Some s' -> inv_calls s'.
Proof.
  intros Hinv Hc H. split_inv Hinv. unfold step_CallE in H.
  job_prelude H s j d m; inversion H; subst; clear H;
    calls_job_tac s j d; rewrite Hpc.
  - destruct o as [[|]|e]; cbn [d_pc with_pc].
    + apply icp_close_neutral; auto; try exact I.
    + apply icp_close_neutral; auto; try exact I.
    + apply icp_close_reset; auto; try exact I.
  - cbn [d_pc]. apply icp_close_reset; auto; try exact I.
  - cbn [d_pc with_pc]. apply icp_close_neutral; auto; try (destruct o; exact I).
Qed.

Lemma calls_LockM_in s j s' d :
  inv_all s = true -> inv_calls s -> nth_error (s_dqs s) j = Some d -> inloop d = true ->
  step_LockM s j = Some s' -> inv_calls s'.
Proof.
  intros Hinv Hc Hd Hi H. split_inv Hinv. unfold step_LockM in H. rewrite Hd in H.
  destruct (gen_live _ _ _ Hgen Hd (inloop_live _ Hi)) as [Ha [m Hm]].
  rewrite Hm in H.
  destruct (d_pc d) eqn:Hpc; try discriminate H;
    try (unfold inloop in Hi; rewrite Hpc in Hi; discriminate Hi);
    destr_H H; inversion H; subst; clear H;
    calls_job_tac s j d; try (calls_neutral Hpc; fail).
  destruct insub; calls_neutral Hpc.
Qed.


(* the kind of the request at the head of the deque, from FIFO order and alternation *)
Lemma pop_kind s j d m t rest :
  inv_gen s = true -> inv_single s = true -> inv_fifo s = true ->
  alt_from true (seen (s_hist s)) = true ->
  nth_error (s_dqs s) j = Some d -> d_pc d = PTop ->
  nth_error (s_mgrs s) (d_gen d) = Some m -> m_deq m = t :: rest ->
  t_sub t = negb (lastk false (replied (s_hist s))).
Proof.
  intros Hgen Hsingle Hfifo Halt Hd Hpc Hm Hdeq.
  get_inloop d Hpc Hi.
  destruct (gen_live _ _ _ Hgen Hd (inloop_live _ Hi)) as [Ha _].
  unfold inv_fifo in Hfifo. rewrite andb_true_iff in Hfifo. destruct Hfifo as [Hf Hdr].
  apply tasks_eqb_eq in Hf. rewrite (seen_arrived _ Hdr), Hf in Halt.
  assert (Hih : inhand s = []).
  { unfold inhand. rewrite <- (upd_same j d (s_dqs s) Hd).
    rewrite (flat_map_upd_uniq _ _ _ _ d out_inhand (single_le _ Hsingle) Hd Hi).
    rewrite Hpc. reflexivity. }
  assert (Hdq : deque_tasks s = t :: rest).
  { unfold deque_tasks. rewrite (active_mgr_at _ _ Ha), Hm. exact Hdeq. }
  rewrite Hih, Hdq in Halt. cbn [app] in Halt.
  apply alt_mid in Halt. exact Halt.
Qed.

(* the four ways a request is taken from the deque *)
Lemma icp_pop_late t h : icp_pc PTop h -> icp_pc (PLate t) (h ++ [ESkip t]).
Proof.
  unfold icp_pc. cbn [incall_pc usbb_pc presub_pc inhand_pc].
  intros (k & Hcs & Halt & _ & _). exists k.
  rewrite calls_state_app, Hcs, seen_app, app_nil_r, hist_lso_app.
  repeat split; auto; try discriminate.
  intros [[Hp _]|Hp]; discriminate.
Qed.

Lemma icp_pop_sub t h : icp_pc PTop h -> icp_pc (PSetCode t) (h ++ []).
Proof.
  unfold icp_pc. cbn [incall_pc usbb_pc presub_pc inhand_pc].
  intros (k & Hcs & Halt & _ & _). exists k. rewrite app_nil_r.
  repeat split; auto; try discriminate.
  intros _. unfold Qb. apply orb_true_r.
Qed.

Lemma icp_pop_usb_late t h :
  hist_lso h = false -> icp_pc PTop h -> icp_pc (PUsbLate t) (h ++ []).
Proof.
  unfold icp_pc. cbn [incall_pc usbb_pc presub_pc inhand_pc].
  intros Hl (k & Hcs & Halt & _ & _). exists k. rewrite app_nil_r.
  repeat split; auto; try discriminate.
  intros [[Hp _]|Hp]; congruence.
Qed.

Lemma icp_pop_usb t h :
  hist_lso h = true -> t_sub t = negb (lastk false (replied h)) -> t_sub t = false ->
  icp_pc PTop h -> icp_pc (PUsbB t) (h ++ []).
Proof.
  unfold icp_pc. cbn [incall_pc usbb_pc presub_pc inhand_pc].
  intros Hl Hk Ht (k & Hcs & Halt & _ & Hq). exists k. rewrite app_nil_r.
  split; auto. split; auto. split.
  - intros _. destruct k; auto. exfalso.
    assert (Hq' : Qb [] false h = true) by (apply Hq; left; auto).
    unfold Qb in Hq'. rewrite app_nil_r, orb_false_r in Hq'.
    rewrite Hk, Hq' in Ht. discriminate.
  - intros _. unfold Qb. rewrite lastk_snoc, Ht. reflexivity.
Qed.

Lemma calls_LockI s j s' :
  inv_all s = true -> inv_calls s -> step_LockI s j = Some s' -> inv_calls s'.
Proof.
  intros Hinv Hc H. split_inv Hinv. unfold step_LockI in H.
  job_prelude H s j d m.
  assert (Hl : hist_lso (s_hist s) = lso_of d m).
  { unfold inv_lso in Hlso. apply eqb_prop in Hlso. rewrite <- Hlso.
    apply (next_lso_at _ _ _ _ Hgen Hsingle Hd Hi Hm). }
  destruct (m_deq m) as [|t rest] eqn:Hdeq.
  - inversion H; subst; clear H. calls_job_tac s j d. calls_neutral Hpc.
  - assert (Halt : alt_from true (seen (s_hist s)) = true)
      by (destruct Hc as (k & _ & Halt & _); exact Halt).
    pose proof (pop_kind _ _ _ _ _ _ Hgen Hsingle Hfifo Halt Hd Hpc Hm Hdeq) as Hk.
    unfold lso_of in Hl.
    destruct (t_sub t) eqn:Hsub; [destruct rest as [|t2 rest2]|];
      cbn [is_nil negb andb] in H.
    + inversion H; subst; clear H. calls_job_tac s j d. rewrite Hpc. cbn [d_pc].
      apply icp_pop_sub.
    + inversion H; subst; clear H. calls_job_tac s j d. rewrite Hpc. cbn [d_pc].
      apply icp_pop_late.
    + destruct (if Z.eqb (d_dequeued d) 0 then m_last_ok m else d_lso d) eqn:Elso;
        inversion H; subst; clear H; calls_job_tac s j d; rewrite Hpc; cbn [d_pc].
      * apply icp_pop_usb; auto. rewrite Hsub. exact Hk.
      * apply icp_pop_usb_late; auto.
Qed.

(* ---------- steps that do not move the job in the loop ---------- *)
Definition lso_mono (es : list event) : Prop := forall b, hist_lso_from b es = true -> b = true.

Lemma icp_hist inc usb pre ih h es :
  mon_neutral es -> lso_mono es -> replied es = [] ->
  alt_from true (seen (h ++ es)) = true ->
  icp inc usb pre ih h -> icp inc usb pre ih (h ++ es).
Proof.
  intros Hm Hl Hr Halt' (k & Hcs & Halt & Hu & Hq). exists k.
  rewrite calls_state_app, Hcs, Hm, hist_lso_app.
  repeat split; auto.
  intros Hp. unfold Qb in *. rewrite replied_app, Hr, app_nil_r. apply Hq.
  destruct Hp as [[Hp1 Hp2]|Hp]; auto.
Qed.

Lemma calls_same s s' es :
  inv_calls s ->
  existsb (fun d => incall_pc (d_pc d)) (s_dqs s') = existsb (fun d => incall_pc (d_pc d)) (s_dqs s) ->
  existsb (fun d => usbb_pc (d_pc d)) (s_dqs s') = existsb (fun d => usbb_pc (d_pc d)) (s_dqs s) ->
  existsb (fun d => presub_pc (d_pc d)) (s_dqs s') = existsb (fun d => presub_pc (d_pc d)) (s_dqs s) ->
  inhand s' = inhand s ->
  s_hist s' = s_hist s ++ es ->
  mon_neutral es -> lso_mono es -> replied es = [] ->
  alt_from true (seen (s_hist s ++ es)) = true ->
  inv_calls s'.
Proof.
  intros Hc H1 H2 H3 H4 Hh Hm Hl Hr Halt. unfold inv_calls. rewrite H1, H2, H3, H4, Hh.
  apply icp_hist; auto.
Qed.

Lemma calls_alt s : inv_calls s -> alt_from true (seen (s_hist s)) = true.
Proof. intros (k & _ & Halt & _). exact Halt. Qed.

Ltac mono_tac := first [ intros ? ?; assumption | intros ? ?; discriminate ].

Ltac calls_same_tac s es :=
  match goal with
  | Hc : inv_calls s |- _ =>
      eapply (calls_same s _ es);
      [exact Hc|try reflexivity|try reflexivity|try reflexivity|try reflexivity
      |first [reflexivity | symmetry; apply app_nil_r]
      |neutral_tac|mono_tac|reflexivity
      |try (rewrite seen_app, app_nil_r; apply (calls_alt _ Hc))]
  end.

Lemma calls_LockM s j s' :
  inv_all s = true -> inv_calls s -> step_LockM s j = Some s' -> inv_calls s'.
Proof.
  intros Hinv Hc H.
  destruct (nth_error (s_dqs s) j) as [d|] eqn:Hd;
    [|unfold step_LockM in H; rewrite Hd in H; discriminate].
  destruct (inloop d) eqn:Hi; [eapply calls_LockM_in; eauto|].
  split_inv Hinv. unfold step_LockM in H. rewrite Hd in H.
  unfold inloop in Hi.
  destruct (d_pc d) eqn:Hpc; try discriminate H; try discriminate Hi.
  assert (Hl : live_dq d = true) by (unfold live_dq; rewrite Hpc; reflexivity).
  destruct (gen_live _ _ _ Hgen Hd Hl) as [Ha [m Hm]].
  rewrite Hm in H.
  assert (X1 : existsb (fun d => incall_pc (d_pc d)) (upd j (with_pc d PDone) (s_dqs s)) =
               existsb (fun d => incall_pc (d_pc d)) (s_dqs s))
    by (apply (existsb_upd_same _ _ _ _ _ Hd); cbn; rewrite Hpc; reflexivity).
  assert (X2 : existsb (fun d => usbb_pc (d_pc d)) (upd j (with_pc d PDone) (s_dqs s)) =
               existsb (fun d => usbb_pc (d_pc d)) (s_dqs s))
    by (apply (existsb_upd_same _ _ _ _ _ Hd); cbn; rewrite Hpc; reflexivity).
  assert (X3 : existsb (fun d => presub_pc (d_pc d)) (upd j (with_pc d PDone) (s_dqs s)) =
               existsb (fun d => presub_pc (d_pc d)) (s_dqs s))
    by (apply (existsb_upd_same _ _ _ _ _ Hd); cbn; rewrite Hpc; reflexivity).
  assert (X4 : flat_map (fun d => inhand_pc (d_pc d)) (upd j (with_pc d PDone) (s_dqs s)) =
               flat_map (fun d => inhand_pc (d_pc d)) (s_dqs s))
    by (apply (flat_map_upd_same _ _ _ _ _ Hd); cbn; rewrite Hpc; reflexivity).
  match type of H with (if ?c then _ else _) = _ => destruct c end;
    inversion H; subst; clear H.
  - calls_same_tac s [EDel]; assumption.
  - calls_same_tac s (@nil event); assumption.
Qed.

Lemma calls_R1 s t s' :
  inv_all s = true -> inv_calls s -> arrival_ok (s_hist s) t = true ->
  step_R1 s t = Some s' -> inv_calls s'.
Proof.
  intros Hinv Hc Henv H. split_inv Hinv.
  assert (Halt : forall e, seen [e] = [t] ->
                 alt_from true (seen (s_hist s ++ [e])) = true).
  { intros e He. rewrite seen_app, He, alt_snoc, (calls_alt _ Hc). cbn [negb andb].
    unfold arrival_ok in Henv. rewrite !andb_true_iff in Henv. destruct Henv as [_ Hk].
    rewrite lastk_last. destruct (last_task (seen (s_hist s))) as [u|]; auto.
    rewrite Hk. reflexivity. }
  unfold step_R1 in H. destr_H H; inversion H; subst; clear H.
  - calls_same_tac s [EArr t]. apply Halt; reflexivity.
  - calls_same_tac s [EArr t]. apply Halt; reflexivity.
  - calls_same_tac s [EArrDropped t]. apply Halt; reflexivity.
Qed.

Lemma calls_R2 s s' :
  inv_all s = true -> inv_calls s -> step_R2 s = Some s' -> inv_calls s'.
Proof.
  intros Hinv Hc H. split_inv Hinv. unfold step_R2 in H.
  destruct (s_pending s) as [[t g]|]; try discriminate.
  destruct (nth_error (s_mgrs s) g) as [m|]; try discriminate.
  destruct (m_running m); inversion H; subst; clear H.
  - calls_same_tac s (@nil event).
  - calls_same_tac s (@nil event); cbn [s_dqs set_mgr];
      try (rewrite existsb_app; cbn; apply orb_false_r).
    unfold inhand. cbn [s_dqs set_mgr]. rewrite flat_map_app. cbn. apply app_nil_r.
Qed.

Lemma calls_FreeBegin s l k s' :
  inv_all s = true -> inv_calls s -> step_FreeBegin s l k = Some s' -> inv_calls s'.
Proof.
  intros Hinv Hc H. unfold step_FreeBegin in H.
  destr_H H; inversion H; subst; clear H; calls_same_tac s [ELisB (OFree l) k].
Qed.

Lemma calls_FreeLockM s l s' :
  inv_all s = true -> inv_calls s -> step_FreeLockM s l = Some s' -> inv_calls s'.
Proof.
  intros Hinv Hc H. unfold step_FreeLockM in H.
  destr_H H; inversion H; subst; clear H.
  - calls_same_tac s (@nil event).
  - calls_same_tac s [ELisDropped (OFree l) k].
Qed.

Lemma calls_FreePut s l s' :
  inv_all s = true -> inv_calls s -> step_FreePut s l = Some s' -> inv_calls s'.
Proof.
  intros Hinv Hc H. unfold step_FreePut, listener_put in H.
  destr_H H; inversion H; subst; clear H.
  calls_same_tac s [ENotif (OFree l) k b a].
Qed.

Lemma inv_calls_step : forall s lb s',
  inv_all s = true -> inv_calls s -> env_ok s lb = true -> step s lb = Some s' -> inv_calls s'.
Proof.
  intros s lb s' Hinv Hc Henv H. destruct lb; simpl in H, Henv.
  - eapply calls_R1; eauto.
  - eapply calls_R2; eauto.
  - eapply calls_JobStart; eauto.
  - eapply calls_LockI; eauto.
  - eapply calls_LockM; eauto.
  - eapply calls_Put; eauto.
  - eapply calls_CallB; eauto.
  - eapply calls_CallE; eauto.
  - eapply calls_Nest; eauto.
  - eapply calls_FreeBegin; eauto.
  - eapply calls_FreeLockM; eauto.
  - eapply calls_FreePut; eauto.
Qed.

Print Assumptions inv_lso_step.
Print Assumptions inv_lso_init.
Print Assumptions inv_calls_init.
Print Assumptions inv_calls_step.
Print Assumptions inv_calls_ok.
