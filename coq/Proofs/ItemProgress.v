(* Proofs/ItemProgress.v — progress of the per-item machinery (C01 "never left
   unanswered", all interleavings): every step of the library itself strictly
   decreases Model/ItemSpec3.measure, a reachable state that is not quiescent can
   always take such a step (deadlock freedom), hence from every reachable state a
   quiescent state is reached within `measure s` internal steps, and there every
   request seen has been answered exactly once.
   All five targets are proved for plain `reachable` (no label_ok restriction):
   error_reply MSUB/MUSB e is WOk for EVERY exception e (error_reply_sub_ok: the
   credits-like payload fields are read only for subtype letters C / X, which the
   designated classes of SUB / USB never produce), so exn_ok is not needed.  The one
   extra invariant needed beyond Inv is PutP (a code value kept for a put step is
   live), which is preserved by every step without any hypothesis. *)
From Coq Require Import String List Ascii NArith ZArith Bool Lia.
From LS Require Import Model.Bytes Model.Tags Gen.Consts Model.Codec Model.Writers Model.AriReply
  Model.Item Model.ItemSpec Model.ItemSpec3.
From LS Require Import Proofs.ItemInv.
From LS Require Proofs.ItemStruct Proofs.ItemFifo Proofs.ItemCode Proofs.ItemLso.
Import ListNotations.

(* ================================================================== *)
(* 0. the lines the library writes for the item always encode          *)
(* ================================================================== *)
Lemma encode_string_PStr : forall s, exists b, encode_string (PStr s) = WOk b.
Proof. intros s. unfold encode_string. destruct (is_nil s); eexists; reflexivity. Qed.

Lemma encode_string_text : forall t, exists b, encode_string (py_of_text t) = WOk b.
Proof.
  intros [s|]; cbn [py_of_text].
  - apply encode_string_PStr.
  - eexists; reflexivity.
Qed.

Lemma encode_value_uval : forall u, exists b, encode_value (py_of_uval u) = WOk b.
Proof.
  intros [t|b]; cbn [py_of_uval].
  - destruct t as [s|]; cbn [py_of_text]; unfold encode_value.
    + destruct (encode_string_PStr s) as [x Hx]. rewrite Hx. eexists; reflexivity.
    + eexists; reflexivity.
  - eexists; reflexivity.
Qed.

Lemma enc_fields_ok : forall fs : list (text * uval),
  exists l, enc_fields (map (fun fv => (py_of_text (fst fv), py_of_uval (snd fv))) fs) = WOk l.
Proof.
  induction fs as [|[f v] fs IH]; cbn [map enc_fields fst snd].
  - eexists; reflexivity.
  - destruct (encode_string_text f) as [a Ha]. destruct (encode_value_uval v) as [b Hb].
    destruct IH as [l Hl]. rewrite Ha, Hb, Hl. cbn [wbind]. eexists; reflexivity.
Qed.

Lemma write_item_notify_ok : forall m item rid, exists b, write_item_notify m (PStr item) (PStr rid) = WOk b.
Proof.
  intros m item rid. unfold write_item_notify.
  destruct (encode_string_PStr item) as [a Ha]. destruct (encode_string_PStr rid) as [b Hb].
  rewrite Ha, Hb. cbn [wbind]. eexists; reflexivity.
Qed.

Lemma notif_line_ok : forall item rid k, exists line, notif_line item rid k = WOk line.
Proof.
  intros item rid k. destruct k as [sn fs| |]; cbn [notif_line].
  - unfold write_update_map.
    destruct (encode_string_PStr item) as [a Ha]. destruct (encode_string_PStr rid) as [b Hb].
    rewrite Ha, Hb. cbn [wbind encode_boolean].
    match goal with |- context [truthy ?e] => destruct (truthy e) end.
    + destruct (enc_fields_ok fs) as [l Hl]. rewrite Hl. cbn [wbind]. eexists; reflexivity.
    + eexists; reflexivity.
  - apply write_item_notify_ok.
  - apply write_item_notify_ok.
Qed.

(* SUB / USB error replies never touch the credits-like payload fields: the subtype letter is
   looked up only for SubscribeError / FailureError *)
Lemma error_reply_sub_ok : forall m e, m = MSUB \/ m = MUSB -> exists p, error_reply m e = WOk p.
Proof.
  intros m e Hm. unfold error_reply, handle_exception, append_exceptions.
  destruct (encode_string_PStr (e_str e)) as [a Ha]. rewrite Ha. cbn [wbind].
  assert (D : designated m = [CSubscribeError; CFailureError]) by (destruct Hm; subst; reflexivity).
  rewrite D. clear D Hm.
  destruct (existsb (isinstance e) [CSubscribeError; CFailureError]) eqn:Ex; [|eexists; reflexivity].
  unfold exact_letter. unfold isinstance, base_class in Ex.
  destruct (e_class e) as [c|c|]; [|eexists; reflexivity|eexists; reflexivity].
  destruct c; cbn in Ex; try discriminate; vm_compute; eexists; reflexivity.
Qed.

Opaque error_reply write_update_map write_eos write_cls void_reply notif_line.

(* ================================================================== *)
(* 1. sums over lists, under upd and snoc                              *)
(* ================================================================== *)
Definition fsum {A} (f : A -> nat) (l : list A) : nat := fold_right (fun x acc => f x + acc) 0 l.

Lemma fsum_upd : forall A (f : A -> nat) l i x y,
  nth_error l i = Some x -> fsum f (upd i y l) + f x = fsum f l + f y.
Proof.
  intros A f. induction l as [|a l IH]; intros i x y H.
  - destruct i; discriminate.
  - destruct i as [|i]; cbn [nth_error] in H.
    + inversion H; subst. cbn [upd fsum fold_right]. lia.
    + cbn [upd]. specialize (IH i x y H). unfold fsum in *. cbn [fold_right]. lia.
Qed.

Lemma fsum_snoc : forall A (f : A -> nat) l x, fsum f (l ++ [x]) = fsum f l + f x.
Proof.
  intros A f. induction l as [|a l IH]; intros x; unfold fsum in *; cbn [app fold_right].
  - lia.
  - rewrite IH. lia.
Qed.

Definition mlen (m : mgr) : nat := length (m_deq m).
Definition drank (d : dq) : nat := rank_pc (d_pc d).
Definition pend (s : istate) : nat := match s_pending s with Some _ => 30 | None => 0 end.

Lemma measure_eq : forall s,
  measure s = 20 * fsum mlen (s_mgrs s) + pend s + fsum drank (s_dqs s) + fsum rank_lpc (s_lis s).
Proof. reflexivity. Qed.

Lemma measure_log : forall s es, measure (log s es) = measure s.
Proof. reflexivity. Qed.

Lemma measure_ext : forall s1 s2,
  s_mgrs s1 = s_mgrs s2 -> s_pending s1 = s_pending s2 -> s_dqs s1 = s_dqs s2 -> s_lis s1 = s_lis s2 ->
  measure s1 = measure s2.
Proof. intros s1 s2 H1 H2 H3 H4. rewrite !measure_eq. unfold pend. rewrite H1, H2, H3, H4. reflexivity. Qed.

(* a dequeuer job moves from pc (d_pc d) to that of d' without touching the managers *)
Lemma dq_move : forall s j d d',
  nth_error (s_dqs s) j = Some d -> rank_pc (d_pc d') < rank_pc (d_pc d) ->
  measure (set_dq s j d') < measure s.
Proof.
  intros s j d d' Hd Hr. rewrite !measure_eq. unfold pend. cbn [set_dq s_mgrs s_pending s_dqs s_lis].
  assert (E : fsum drank (upd j d' (s_dqs s)) + rank_pc (d_pc d) = fsum drank (s_dqs s) + rank_pc (d_pc d'))
    by exact (fsum_upd _ drank _ _ _ d' Hd).
  lia.
Qed.

(* ... and also replaces its manager *)
Lemma dq_mgr_move : forall s j d d' g m m',
  nth_error (s_dqs s) j = Some d -> nth_error (s_mgrs s) g = Some m ->
  20 * length (m_deq m') + rank_pc (d_pc d') < 20 * length (m_deq m) + rank_pc (d_pc d) ->
  measure (set_dq (set_mgr s g m') j d') < measure s.
Proof.
  intros s j d d' g m m' Hd Hm Hr. rewrite !measure_eq. unfold pend.
  cbn [set_dq set_mgr s_mgrs s_pending s_dqs s_lis].
  assert (E : fsum drank (upd j d' (s_dqs s)) + rank_pc (d_pc d) = fsum drank (s_dqs s) + rank_pc (d_pc d'))
    by exact (fsum_upd _ drank _ _ _ d' Hd).
  assert (F : fsum mlen (upd g m' (s_mgrs s)) + length (m_deq m) = fsum mlen (s_mgrs s) + length (m_deq m'))
    by exact (fsum_upd _ mlen _ _ _ m' Hm).
  lia.
Qed.

Lemma listener_put_log : forall s o k c s1, listener_put s o k c = Some s1 ->
  exists es, s1 = log s es.
Proof.
  intros s o k c s1 H. unfold listener_put in H.
  destruct (live c); [|discriminate]. destruct (notif_line _ _ _); [|discriminate].
  inversion H; subst. eexists; reflexivity.
Qed.

Lemma set_dq_log : forall s es j d, set_dq (log s es) j d = log (set_dq s j d) es.
Proof. reflexivity. Qed.
Lemma set_lis_log : forall s es l p, set_lis (log s es) l p = log (set_lis s l p) es.
Proof. reflexivity. Qed.

Lemma lis_move : forall s l p p',
  nth_error (s_lis s) l = Some p -> rank_lpc p' < rank_lpc p ->
  measure (set_lis s l p') < measure s.
Proof.
  intros s l p p' Hl Hr. rewrite !measure_eq. unfold pend. cbn [set_lis s_mgrs s_pending s_dqs s_lis].
  pose proof (fsum_upd _ rank_lpc _ _ _ p' Hl) as E. lia.
Qed.

(* ================================================================== *)
(* 2. every internal step decreases the measure                        *)
(* ================================================================== *)
Ltac open_dq H s j d Hd Hpc :=
  destruct (nth_error (s_dqs s) j) as [d|] eqn:Hd; [|discriminate H];
  destruct (d_pc d) eqn:Hpc; try discriminate H.

Ltac ifs := repeat match goal with |- context [if ?b then _ else _] => destruct b end.

Ltac rk Hpc := cbn [with_pc d_pc m_deq]; rewrite ?Hpc; ifs; cbn [rank_pc d_pc length]; lia.

Ltac fin Hd Hpc :=
  rewrite ?set_dq_log, ?measure_log;
  first [ eapply dq_move; [exact Hd | rk Hpc] ].

Lemma dec_JobStart : forall s j s', step_JobStart s j = Some s' -> measure s' < measure s.
Proof.
  intros s j s' H. unfold step_JobStart in H. open_dq H s j d Hd Hpc.
  inversion H; subst. fin Hd Hpc.
Qed.

Lemma dec_CallB : forall s j s', step_CallB s j = Some s' -> measure s' < measure s.
Proof.
  intros s j s' H. unfold step_CallB in H. open_dq H s j d Hd Hpc; inversion H; subst; fin Hd Hpc.
Qed.

Lemma dec_CallE : forall s j o s', step_CallE s j o = Some s' -> measure s' < measure s.
Proof.
  intros s j o s' H. unfold step_CallE in H. open_dq H s j d Hd Hpc; inversion H; subst.
  - destruct o as [[|]|e]; fin Hd Hpc.
  - fin Hd Hpc.
  - fin Hd Hpc.
Qed.

Lemma dec_Put : forall s j s', step_Put s j = Some s' -> measure s' < measure s.
Proof.
  intros s j s' H. unfold step_Put in H. open_dq H s j d Hd Hpc.
  - destruct (reply_line _ _); [|discriminate]. inversion H; subst. fin Hd Hpc.
  - destruct (listener_put _ _ _ _) as [s1|] eqn:L; [|discriminate]. inversion H; subst.
    destruct (listener_put_log _ _ _ _ _ L) as [es ->]. fin Hd Hpc.
  - destruct (listener_put _ _ _ _) as [s1|] eqn:L; [|discriminate]. inversion H; subst.
    destruct (listener_put_log _ _ _ _ _ L) as [es ->]. fin Hd Hpc.
  - destruct (reply_line _ _); [|discriminate]. inversion H; subst. fin Hd Hpc.
  - destruct (reply_line _ _); [|discriminate]. inversion H; subst. fin Hd Hpc.
Qed.

Lemma dec_LockI : forall s j s', step_LockI s j = Some s' -> measure s' < measure s.
Proof.
  intros s j s' H. unfold step_LockI in H. open_dq H s j d Hd Hpc.
  destruct (nth_error (s_mgrs s) (d_gen d)) as [m|] eqn:Hm; [|discriminate].
  destruct (m_deq m) as [|t rest] eqn:Hq; inversion H; subst; clear H.
  - eapply dq_mgr_move; [exact Hd | exact Hm |]. rewrite Hq, Hpc. cbn [m_deq d_pc length rank_pc]. lia.
  - assert (G : forall g p z b, measure (set_dq (set_mgr s (d_gen d)
             {| m_deq := rest; m_code := m_code m; m_running := m_running m; m_queued := m_queued m;
                m_last_ok := m_last_ok m |}) j {| d_gen := g; d_pc := p; d_dequeued := z; d_lso := b |}) < measure s
             \/ rank_pc p > 13 ).
    { intros g p z b. destruct (Nat.leb (rank_pc p) 13) eqn:Le.
      - left. apply Nat.leb_le in Le. eapply dq_mgr_move; [exact Hd | exact Hm |].
        rewrite Hq, Hpc. cbn [m_deq d_pc length rank_pc]. lia.
      - right. apply Nat.leb_gt in Le. lia. }
    match goal with |- measure (if ?b then _ else _) < _ => destruct b end; rewrite ?measure_log;
    match goal with |- measure (set_dq _ _ {| d_gen := ?g; d_pc := ?p; d_dequeued := ?z; d_lso := ?b |}) < _ =>
      destruct (G g p z b) as [G1|G1]; [exact G1 | exfalso; revert G1; ifs; cbn [rank_pc]; lia] end.
Qed.

Lemma dec_LockM : forall s j s', step_LockM s j = Some s' -> measure s' < measure s.
Proof.
  intros s j s' H. unfold step_LockM in H. open_dq H s j d Hd Hpc;
    (destruct (nth_error (s_mgrs s) (d_gen d)) as [m|] eqn:Hm; [|discriminate]).
  - (* PSetCode *) inversion H; subst. rewrite measure_log.
    eapply dq_mgr_move; [exact Hd | exact Hm |]. rewrite Hpc. cbn [with_pc m_deq d_pc rank_pc]. lia.
  - (* PEosRead *) destruct (live (active_code s)); inversion H; subst; fin Hd Hpc.
  - (* PNestRead *) destruct (live (active_code s)); inversion H; subst; fin Hd Hpc.
  - (* PClear *) inversion H; subst. rewrite measure_log.
    eapply dq_mgr_move; [exact Hd | exact Hm |]. rewrite Hpc. cbn [with_pc m_deq d_pc rank_pc]. lia.
  - (* PDec *)
    match type of H with (if ?b then _ else _) = _ => destruct b end; inversion H; subst; clear H;
      rewrite ?measure_log.
    + match goal with |- measure ?s1 < _ =>
        rewrite (measure_ext s1 (set_dq (set_mgr s (d_gen d)
          {| m_deq := m_deq m; m_code := m_code m; m_running := m_running m;
             m_queued := (m_queued m - d_dequeued d)%Z; m_last_ok := m_last_ok m |}) j (with_pc d PDone)))
          by reflexivity end.
      eapply dq_mgr_move; [exact Hd | exact Hm |]. rewrite Hpc. cbn [with_pc m_deq d_pc rank_pc]. lia.
    + eapply dq_mgr_move; [exact Hd | exact Hm |]. rewrite Hpc. cbn [with_pc m_deq d_pc rank_pc]. lia.
Qed.

Lemma dec_R2 : forall s s', step_R2 s = Some s' -> measure s' < measure s.
Proof.
  intros s s' H. unfold step_R2 in H.
  destruct (s_pending s) as [[t g]|] eqn:Hp; [|discriminate].
  destruct (nth_error (s_mgrs s) g) as [m|] eqn:Hm; [|discriminate].
  inversion H; subst; clear H. rewrite !measure_eq. unfold pend. rewrite Hp.
  cbn [set_mgr s_mgrs s_pending s_dqs s_lis].
  match goal with |- context [upd g ?m' _] =>
    assert (F : fsum mlen (upd g m' (s_mgrs s)) + length (m_deq m) = fsum mlen (s_mgrs s) + length (m_deq m'))
      by exact (fsum_upd _ mlen _ _ _ m' Hm) end.
  cbn [m_deq] in F. rewrite app_length in F. cbn [length] in F.
  destruct (m_running m).
  - lia.
  - rewrite fsum_snoc. unfold drank at 2. cbn [d_pc rank_pc]. lia.
Qed.

Lemma dec_FreeLockM : forall s l s', step_FreeLockM s l = Some s' -> measure s' < measure s.
Proof.
  intros s l s' H. unfold step_FreeLockM in H.
  destruct (nth_error (s_lis s) l) as [p|] eqn:Hl; [|discriminate]. destruct p as [|k|k c]; try discriminate.
  destruct (live (active_code s)); inversion H; subst; rewrite ?measure_log;
    (eapply lis_move; [exact Hl | cbn [rank_lpc]; lia]).
Qed.

Lemma dec_FreePut : forall s l s', step_FreePut s l = Some s' -> measure s' < measure s.
Proof.
  intros s l s' H. unfold step_FreePut in H.
  destruct (nth_error (s_lis s) l) as [p|] eqn:Hl; [|discriminate]. destruct p as [|k|k c]; try discriminate.
  destruct (listener_put _ _ _ _) as [s1|] eqn:L; [|discriminate]. inversion H; subst.
  destruct (listener_put_log _ _ _ _ _ L) as [es ->]. rewrite set_lis_log, measure_log.
  eapply lis_move; [exact Hl | cbn [rank_lpc]; lia].
Qed.

(* every step of the library itself strictly decreases the measure — no invariant needed *)
Theorem internal_step_decreases : forall s lb s',
  step s lb = Some s' -> internal lb = true -> (measure s' < measure s)%nat.
Proof.
  intros s lb s' H Hi. destruct lb; cbn [internal] in Hi; try discriminate; cbn [step] in H.
  - apply dec_R2; exact H.
  - eapply dec_JobStart; exact H.
  - eapply dec_LockI; exact H.
  - eapply dec_LockM; exact H.
  - eapply dec_Put; exact H.
  - eapply dec_CallB; exact H.
  - eapply dec_CallE; exact H.
  - eapply dec_FreeLockM; exact H.
  - eapply dec_FreePut; exact H.
Qed.

(* hence at most `measure s` internal steps can follow one another *)
Theorem internal_run_bounded : forall ls s s',
  run s ls = Some s' -> forallb internal ls = true -> (length ls + measure s' <= measure s)%nat.
Proof.
  induction ls as [|l ls IH]; intros s s' Hr Hf; cbn [run] in Hr.
  - inversion Hr; subst. cbn [length]. lia.
  - destruct (step s l) as [s1|] eqn:Hs; [|discriminate].
    cbn [forallb] in Hf. apply andb_true_iff in Hf. destruct Hf as [Hl Hf].
    pose proof (internal_step_decreases _ _ _ Hs Hl). specialize (IH _ _ Hr Hf). cbn [length]. lia.
Qed.

(* ================================================================== *)
(* 3. an extra invariant: a code value kept for a put step is live     *)
(*    (for PNestPut _ false _ _ this is not part of Inv)               *)
(* ================================================================== *)
Definition put_ok_pc (p : pc) : bool :=
  match p with
  | PEosPut _ c | PNestPut _ _ _ c => is_some (live c)
  | _ => true
  end.

Definition PutP (s : istate) : Prop :=
  forall j d, nth_error (s_dqs s) j = Some d -> put_ok_pc (d_pc d) = true.

Lemma PutP_same : forall s s', PutP s -> s_dqs s' = s_dqs s -> PutP s'.
Proof. intros s s' H E j d Hj. rewrite E in Hj. eapply H; eassumption. Qed.

Lemma PutP_upd : forall s s' j d', PutP s -> s_dqs s' = upd j d' (s_dqs s) ->
  put_ok_pc (d_pc d') = true -> PutP s'.
Proof.
  intros s s' j d' H E Hd k d Hk. rewrite E in Hk.
  destruct (ItemStruct.nth_error_upd_inv _ _ _ _ _ _ Hk) as [[_ ->]|[_ Hk']]; [exact Hd|].
  eapply H; eassumption.
Qed.

Lemma PutP_snoc : forall s s' d', PutP s -> s_dqs s' = s_dqs s ++ [d'] ->
  put_ok_pc (d_pc d') = true -> PutP s'.
Proof.
  intros s s' d' H E Hd k d Hk. rewrite E in Hk.
  destruct (ItemStruct.nth_error_snoc_inv _ _ _ _ _ Hk) as [Hk'|[_ ->]]; [|exact Hd].
  eapply H; eassumption.
Qed.

Lemma PutP_init : forall item, PutP (init_state item).
Proof. intros item j d H. destruct j; discriminate. Qed.

Ltac pupd HP := eapply PutP_upd; [exact HP | reflexivity | cbn [with_pc d_pc]; ifs; try reflexivity].
Ltac psame HP := eapply PutP_same; [exact HP | reflexivity].

Lemma PutP_step : forall s lb s', PutP s -> step s lb = Some s' -> PutP s'.
Proof.
  intros s lb s' HP H. destruct lb; cbn [step] in H.
  - (* R1 *) unfold step_R1 in H. destruct (s_pending s); [discriminate|].
    destruct (s_active s) as [g|].
    + destruct (nth_error (s_mgrs s) g); [|discriminate]. inversion H; subst. psame HP.
    + destruct (t_sub t); inversion H; subst; psame HP.
  - (* R2 *) unfold step_R2 in H. destruct (s_pending s) as [[t g]|]; [|discriminate].
    destruct (nth_error (s_mgrs s) g) as [m|]; [|discriminate].
    destruct (m_running m) eqn:Hr; inversion H; subst.
    + psame HP.
    + eapply PutP_snoc; [exact HP | reflexivity | reflexivity].
  - (* JobStart *) unfold step_JobStart in H. open_dq H s j d Hd Hpc. inversion H; subst. pupd HP.
  - (* LockI *) unfold step_LockI in H. open_dq H s j d Hd Hpc.
    destruct (nth_error (s_mgrs s) (d_gen d)) as [m|]; [|discriminate].
    destruct (m_deq m) as [|t rest]; inversion H; subst; clear H.
    + pupd HP.
    + match goal with |- PutP (if ?b then _ else _) => destruct b end; pupd HP.
  - (* LockM *) unfold step_LockM in H. open_dq H s j d Hd Hpc;
      (destruct (nth_error (s_mgrs s) (d_gen d)) as [m|]; [|discriminate]).
    + inversion H; subst. pupd HP.
    + destruct (live (active_code s)) eqn:Hl; inversion H; subst; pupd HP.
      cbn [put_ok_pc]. rewrite Hl. reflexivity.
    + destruct (live (active_code s)) eqn:Hl; inversion H; subst; pupd HP.
      cbn [put_ok_pc]. rewrite Hl. reflexivity.
    + inversion H; subst. pupd HP.
    + match type of H with (if ?b then _ else _) = _ => destruct b end; inversion H; subst; pupd HP.
  - (* Put *) unfold step_Put in H. open_dq H s j d Hd Hpc.
    + destruct (reply_line _ _); [|discriminate]. inversion H; subst. pupd HP.
    + destruct (listener_put _ _ _ _) as [s1|] eqn:L; [|discriminate]. inversion H; subst.
      destruct (listener_put_log _ _ _ _ _ L) as [es ->]. pupd HP.
    + destruct (listener_put _ _ _ _) as [s1|] eqn:L; [|discriminate]. inversion H; subst.
      destruct (listener_put_log _ _ _ _ _ L) as [es ->]. pupd HP.
    + destruct (reply_line _ _); [|discriminate]. inversion H; subst. pupd HP.
    + destruct (reply_line _ _); [|discriminate]. inversion H; subst. pupd HP.
  - (* CallB *) unfold step_CallB in H. open_dq H s j d Hd Hpc; inversion H; subst; pupd HP.
  - (* CallE *) unfold step_CallE in H. open_dq H s j d Hd Hpc; inversion H; subst.
    + destruct o as [[|]|e]; pupd HP.
    + pupd HP.
    + pupd HP.
  - (* Nest *) unfold step_Nest in H. open_dq H s j d Hd Hpc; inversion H; subst; pupd HP.
  - (* FreeBegin *) unfold step_FreeBegin in H. destruct (nth_error (s_lis s) l) as [[| |]|].
    + inversion H; subst. psame HP.
    + discriminate.
    + discriminate.
    + destruct (Nat.eqb l (length (s_lis s))); inversion H; subst. psame HP.
  - (* FreeLockM *) unfold step_FreeLockM in H. destruct (nth_error (s_lis s) l) as [[| |]|]; try discriminate.
    destruct (live (active_code s)); inversion H; subst; psame HP.
  - (* FreePut *) unfold step_FreePut in H. destruct (nth_error (s_lis s) l) as [[| |]|]; try discriminate.
    destruct (listener_put _ _ _ _) as [s1|] eqn:L; [|discriminate]. inversion H; subst.
    destruct (listener_put_log _ _ _ _ _ L) as [es ->]. psame HP.
Qed.

Lemma PutP_run_env : forall ls s s', PutP s -> run_env s ls = Some s' -> PutP s'.
Proof.
  induction ls as [|l ls IH]; intros s s' HP Hr; cbn [run_env] in Hr.
  - inversion Hr; subst; exact HP.
  - unfold step_env in Hr. destruct (env_ok s l); [|discriminate].
    destruct (step s l) as [s1|] eqn:Hs; [|discriminate].
    eapply IH; [|exact Hr]. eapply PutP_step; eassumption.
Qed.

Lemma reachable_PutP : forall item s, reachable item s -> PutP s.
Proof. intros item s [ls H]. eapply PutP_run_env; [apply PutP_init | exact H]. Qed.

(* ================================================================== *)
(* 4. deadlock freedom                                                 *)
(* ================================================================== *)
Definition pc_label (j : nat) (p : pc) : option label :=
  match p with
  | PDone => None
  | PQueued => Some (LbJobStart j)
  | PTop => Some (LbLockI j)
  | PSetCode _ | PEosRead _ | PNestRead _ _ _ | PClear | PDec => Some (LbLockM j)
  | PLate _ | PEosPut _ _ | PNestPut _ _ _ _ | PReply _ _ | PUsbLate _ => Some (LbPut j)
  | PSnapB _ | PSubB _ | PUsbB _ => Some (LbCallB j)
  | PSnapE _ | PInSub _ | PInUsb _ => Some (LbCallE j (CRet false))
  end.

Fixpoint go_lbl (j : nat) (l : list dq) : option label :=
  match l with
  | [] => None
  | d :: r => match pc_label j (d_pc d) with Some lb => Some lb | None => go_lbl (S j) r end
  end.

Lemma next_label_eq : forall s,
  next_label s = match s_pending s with Some _ => Some LbR2 | None => go_lbl 0 (s_dqs s) end.
Proof.
  intros s. unfold next_label. destruct (s_pending s); [reflexivity|].
  generalize 0. induction (s_dqs s) as [|d r IH]; intros j.
  - reflexivity.
  - cbn [go_lbl]. rewrite <- IH. destruct (d_pc d); reflexivity.
Qed.

Lemma go_lbl_spec : forall l j,
  forallb (fun d => pc_done (d_pc d)) l = false ->
  exists k d lb, nth_error l k = Some d /\ pc_label (j + k) (d_pc d) = Some lb /\ go_lbl j l = Some lb.
Proof.
  induction l as [|d r IH]; intros j H; cbn [forallb] in H.
  - discriminate.
  - cbn [go_lbl]. destruct (pc_label j (d_pc d)) as [lb|] eqn:Hl.
    + exists 0, d, lb. rewrite Nat.add_0_r. auto.
    + assert (Hd : pc_done (d_pc d) = true) by (destruct (d_pc d); try discriminate; reflexivity).
      rewrite Hd in H. cbn [andb] in H. destruct (IH (S j) H) as (k & d' & lb & Hk & Hp & Hg).
      exists (S k), d', lb. rewrite <- plus_n_Sm. auto.
Qed.

Lemma pc_label_internal : forall j p lb, pc_label j p = Some lb -> internal lb = true.
Proof. intros j p lb H. destruct p; inversion H; reflexivity. Qed.

Lemma reply_line_ok : forall t p, exists line, reply_line t (WOk p) = Some line.
Proof. intros t p. eexists; reflexivity. Qed.

Lemma listener_put_ok : forall s o k c, is_some (live c) = true -> exists s1, listener_put s o k c = Some s1.
Proof.
  intros s o k c H. unfold listener_put. destruct (live c) as [rid|]; [|discriminate].
  destruct (notif_line_ok (s_item s) rid k) as [line Hl]. rewrite Hl. eexists; reflexivity.
Qed.

Lemma outcome_payload_ok : forall t o, exists p, outcome_payload t o = WOk p.
Proof.
  intros t o. destruct o as [b|e]; cbn [outcome_payload].
  - eexists; reflexivity.
  - apply error_reply_sub_ok. unfold meth_of. destruct (t_sub t); auto.
Qed.

Lemma dq_can_step : forall s k d lb,
  ItemStruct.GenP s -> PutP s -> nth_error (s_dqs s) k = Some d -> pc_label k (d_pc d) = Some lb ->
  exists s', step s lb = Some s'.
Proof.
  intros s k d lb HG HP Hd Hl.
  assert (Hlive : live_dq d = true).
  { unfold live_dq. destruct (d_pc d); try reflexivity. discriminate. }
  destruct (ItemStruct.live_active _ _ _ HG Hd Hlive) as [_ (m & Hm & _)].
  pose proof (HP _ _ Hd) as Hput.
  destruct (d_pc d) eqn:Hpc; cbn [pc_label] in Hl; inversion Hl; subst lb; clear Hl; cbn [step].
  - (* PQueued *) unfold step_JobStart. rewrite Hd, Hpc. eexists; reflexivity.
  - (* PTop *) unfold step_LockI. rewrite Hd, Hpc, Hm. destruct (m_deq m); eexists; reflexivity.
  - (* PLate *) unfold step_Put. rewrite Hd, Hpc.
    destruct (error_reply_sub_ok MSUB late_exn (or_introl eq_refl)) as [p Hp]. rewrite Hp.
    eexists; reflexivity.
  - (* PSetCode *) unfold step_LockM. rewrite Hd, Hpc, Hm. eexists; reflexivity.
  - (* PSnapB *) unfold step_CallB. rewrite Hd, Hpc. eexists; reflexivity.
  - (* PSnapE *) unfold step_CallE. rewrite Hd, Hpc. eexists; reflexivity.
  - (* PEosRead *) unfold step_LockM. rewrite Hd, Hpc, Hm. destruct (live (active_code s)); eexists; reflexivity.
  - (* PEosPut *) unfold step_Put. rewrite Hd, Hpc.
    destruct (listener_put_ok s OLib LEos c Hput) as [s1 H1]. rewrite H1. eexists; reflexivity.
  - (* PSubB *) unfold step_CallB. rewrite Hd, Hpc. eexists; reflexivity.
  - (* PInSub *) unfold step_CallE. rewrite Hd, Hpc. eexists; reflexivity.
  - (* PUsbB *) unfold step_CallB. rewrite Hd, Hpc. eexists; reflexivity.
  - (* PInUsb *) unfold step_CallE. rewrite Hd, Hpc. eexists; reflexivity.
  - (* PNestRead *) unfold step_LockM. rewrite Hd, Hpc, Hm. destruct (live (active_code s)); eexists; reflexivity.
  - (* PNestPut *) unfold step_Put. rewrite Hd, Hpc.
    destruct (listener_put_ok s (ONested k) k0 c Hput) as [s1 H1]. rewrite H1. eexists; reflexivity.
  - (* PReply *) unfold step_Put. rewrite Hd, Hpc.
    destruct (outcome_payload_ok t o) as [p Hp]. rewrite Hp. eexists; reflexivity.
  - (* PUsbLate *) unfold step_Put. rewrite Hd, Hpc. eexists; reflexivity.
  - (* PClear *) unfold step_LockM. rewrite Hd, Hpc, Hm. eexists; reflexivity.
  - (* PDec *) unfold step_LockM. rewrite Hd, Hpc, Hm. cbv zeta.
    match goal with |- exists s', (if ?b then _ else _) = _ => destruct b end; eexists; reflexivity.
Qed.

Lemma can_step_core : forall s,
  Inv s -> PutP s -> quiescent s = false ->
  exists lb s', next_label s = Some lb /\ internal lb = true /\ env_ok s lb = true /\ step s lb = Some s'.
Proof.
  intros s HI HP HQ.
  pose proof (Inv_all _ HI) as HA. apply ItemStruct.inv_all_struct in HA.
  apply ItemStruct.inv_struct_iff in HA. destruct HA as [HG _].
  rewrite next_label_eq. unfold quiescent in HQ.
  destruct (s_pending s) as [[t g]|] eqn:Hp.
  - exists LbR2. destruct HG as (G1 & _ & G3 & _).
    pose proof (G3 _ _ Hp) as Ha. pose proof (G1 _ Ha) as Hlen.
    destruct (nth_error (s_mgrs s) g) as [m|] eqn:Hm.
    + cbn [step]. unfold step_R2. rewrite Hp, Hm. eexists. repeat split; reflexivity.
    + apply nth_error_None in Hm. lia.
  - cbn [is_some negb andb] in HQ.
    destruct (go_lbl_spec _ 0 HQ) as (k & d & lb & Hk & Hl & Hg). cbn [Nat.add] in Hl.
    destruct (dq_can_step _ _ _ _ HG HP Hk Hl) as [s' Hs].
    exists lb, s'. split; [exact Hg|]. split; [eapply pc_label_internal; exact Hl|].
    split; [|exact Hs]. destruct lb; try reflexivity. discriminate (pc_label_internal _ _ _ Hl).
Qed.

(* deadlock freedom: in a reachable state that is not quiescent some thread of the library can move
   (given that the adapter call in progress, if any, returns) *)
Theorem not_quiescent_can_step : forall item s,
  reachable item s -> quiescent s = false ->
  exists lb s', next_label s = Some lb /\ internal lb = true /\ env_ok s lb = true /\ step s lb = Some s'.
Proof.
  intros item s HR HQ. apply can_step_core; [eapply reachable_Inv; exact HR | eapply reachable_PutP; exact HR | exact HQ].
Qed.

(* ================================================================== *)
(* 5. quiescence is reached                                            *)
(* ================================================================== *)
Lemma quiesce_core : forall n s,
  measure s <= n -> Inv s -> PutP s ->
  exists ls s', run_env s ls = Some s' /\ forallb internal ls = true /\ quiescent s' = true /\
                length ls <= measure s.
Proof.
  induction n as [|n IH]; intros s Hn HI HP.
  - destruct (quiescent s) eqn:HQ.
    + exists [], s. cbn [run_env forallb length]. repeat split; auto. lia.
    + destruct (can_step_core s HI HP HQ) as (lb & s1 & _ & Hint & _ & Hs).
      pose proof (internal_step_decreases _ _ _ Hs Hint). lia.
  - destruct (quiescent s) eqn:HQ.
    + exists [], s. cbn [run_env forallb length]. repeat split; auto. lia.
    + destruct (can_step_core s HI HP HQ) as (lb & s1 & _ & Hint & He & Hs).
      pose proof (internal_step_decreases _ _ _ Hs Hint) as Hlt.
      assert (HI1 : Inv s1) by (eapply Inv_step; eassumption).
      assert (HP1 : PutP s1) by (eapply PutP_step; eassumption).
      destruct (IH s1 ltac:(lia) HI1 HP1) as (ls & s' & Hr & Hf & Hq & Hlen).
      exists (lb :: ls), s'. cbn [run_env forallb length]. unfold step_env. rewrite He, Hs, Hint, Hf.
      repeat split; auto. lia.
Qed.

(* from every reachable state, letting only the library run (no new arrivals, no new listener calls;
   adapter calls return), a quiescent state is reached within `measure s` steps *)
Theorem reaches_quiescence : forall item s,
  reachable item s ->
  exists ls s', run_env s ls = Some s' /\ forallb internal ls = true /\ quiescent s' = true /\ (length ls <= measure s)%nat.
Proof.
  intros item s HR. apply (quiesce_core (measure s)); [lia | eapply reachable_Inv; exact HR | eapply reachable_PutP; exact HR].
Qed.

(* and there every request seen has been answered exactly once *)
Theorem eventually_all_answered : forall item s,
  reachable item s ->
  exists ls s', run_env s ls = Some s' /\ forallb internal ls = true /\
    replied (s_hist s') = seen (s_hist s') /\ NoDup (map t_rid (replied (s_hist s'))).
Proof.
  intros item s HR. destruct (reaches_quiescence item s HR) as (ls & s' & Hr & Hf & Hq & _).
  exists ls, s'. split; [exact Hr|]. split; [exact Hf|].
  pose proof (reachable_Inv _ _ HR) as HI.
  pose proof (Inv_run_env _ _ _ HI Hr) as HI'.
  destruct HI' as (Hall & _ & _ & _ & Hidle & _).
  destruct (ItemFifo.quiescent_all_replied s' Hall Hidle Hq) as [E _]. split; [exact E|].
  destruct (inv_all_parts _ Hall) as (_ & Hrids & Hfifo & _).
  apply ItemFifo.replied_nodup; assumption.
Qed.

Print Assumptions internal_step_decreases.
Print Assumptions internal_run_bounded.
Print Assumptions not_quiescent_can_step.
Print Assumptions reaches_quiescence.
Print Assumptions eventually_all_answered.
