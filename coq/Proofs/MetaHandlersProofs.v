(* Proofs/MetaHandlersProofs.v — the fourteen post-init Metadata handlers make
   exactly the adapter calls of the interface table (Model/MetaHandlers.v
   spec_calls), in order, cut only by a raising call, and build the reply from
   the values returned at the table's positions. *)
From Coq Require Import String List Ascii NArith ZArith Bool Lia.
From LS Require Import Model.Bytes Model.Tags Gen.Consts Model.Codec Model.Readers Model.Writers
                       Model.AriSpec Model.MetaHandlers Proofs.ReadersRoundtrip.
Import ListNotations.

(* number of adapter calls made: all of the interface table, or up to and including the first one that raises *)
Definition n_calls (q : request) (outs : list outcome) : nat :=
  match first_raise outs (length (spec_calls q)) with
  | Some (i, _) => S i
  | None => length (spec_calls q)
  end.

(* ---------- a script conforms to a call table cs and a result function R ---------- *)
Definition Spec (m : meth) (p : prog) (cs : list acall) (R : list outcome -> wres bytes) : Prop :=
  forall outs,
    exec m p outs =
    match first_raise outs (length cs) with
    | Some (i, e) => (firstn (S i) cs, error_reply m e)
    | None => (cs, R outs)
    end.

Lemma first_raise_nil : forall n, first_raise [] n = None.
Proof. intros n. destruct n as [|n]; reflexivity. Qed.

Lemma Spec_Done : forall m r, Spec m (Done r) [] (fun _ => r).
Proof. intros m r outs. destruct outs; reflexivity. Qed.

Lemma Spec_Do : forall m c k cs (R : pyval -> list outcome -> wres bytes),
  (forall v, Spec m (k v) cs (R v)) ->
  Spec m (Do c k) (c :: cs) (fun outs => R (ret_at outs 0) (tl outs)).
Proof.
  intros m c k cs R H outs.
  destruct outs as [|[v|e] r].
  - cbn [exec length first_raise]. rewrite (H PNone []). rewrite first_raise_nil. reflexivity.
  - cbn [exec length first_raise]. rewrite (H v r).
    destruct (first_raise r (length cs)) as [[i e]|]; reflexivity.
  - reflexivity.
Qed.

Lemma Spec_ext : forall m p cs R R',
  Spec m p cs R -> (forall outs, R outs = R' outs) -> Spec m p cs R'.
Proof.
  intros m p cs R R' H HR outs. rewrite (H outs). rewrite (HR outs). reflexivity.
Qed.

(* ---------- positions in the outcome script ---------- *)
Lemma ret_at_tl : forall outs i, ret_at (tl outs) i = ret_at outs (S i).
Proof.
  intros outs i. destruct outs as [|o r]; [|reflexivity].
  unfold ret_at. destruct i as [|i]; reflexivity.
Qed.

Lemma spec_item_data_tl : forall n outs b,
  spec_item_data (tl outs) b n = spec_item_data outs (S b) n.
Proof.
  induction n as [|n IH]; intros outs b; [reflexivity|].
  cbn [spec_item_data flat_map fst snd app].
  rewrite !ret_at_tl. rewrite (IH outs (b + 6)). reflexivity.
Qed.

(* ---------- the list comprehension of GIT / GUI ---------- *)
Lemma items_prog_Spec : forall m mc ic fc (f : list (pyval * pyval * pyval) -> wres bytes) items acc,
  Spec m (items_prog mc ic fc items acc (fun ds => Done (f ds)))
       (flat_map (spec_item_calls mc ic fc) items)
       (fun outs => f (rev acc ++ spec_item_data outs 0 (length items))).
Proof.
  intros m mc ic fc f items.
  induction items as [|it r IH]; intros acc.
  - cbn [items_prog flat_map length spec_item_data]. rewrite app_nil_r.
    apply Spec_Done.
  - cbn [items_prog modes_prog all_modes flat_map spec_item_calls map app].
    eapply Spec_ext.
    + eapply Spec_Do; intros v0.
      eapply Spec_Do; intros v1.
      eapply Spec_Do; intros v2.
      eapply Spec_Do; intros v3.
      eapply Spec_Do; intros v4.
      eapply Spec_Do; intros v5.
      apply IH.
    + intros outs. cbv beta.
      rewrite !spec_item_data_tl. rewrite !ret_at_tl.
      cbn [length spec_item_data flat_map fst snd app rev Nat.add].
      rewrite <- app_assoc. cbn [app].
      destruct (truthy (ret_at outs 0)), (truthy (ret_at outs 1)),
               (truthy (ret_at outs 2)), (truthy (ret_at outs 3)); reflexivity.
Qed.

(* ---------- every handler conforms to the interface table ---------- *)
Ltac spec_chain :=
  first [ apply Spec_Done
        | eapply Spec_Do; intros ?; spec_chain ].

Lemma handler_Spec : forall m q p,
  handler m q = Some p -> Spec m p (spec_calls q) (spec_data_reply m q).
Proof.
  intros m q p H.
  destruct m, q; try discriminate H;
    cbn [handler] in H; injection H as <-;
    cbn [spec_calls spec_data_reply];
    try apply items_prog_Spec;
    unfold call, mk;
    (eapply Spec_ext; [ spec_chain | intros outs; cbv beta; rewrite ?ret_at_tl; reflexivity ]).
Qed.

(* 1. which calls, in which order, with which arguments *)
Theorem exec_calls : forall m q p outs,
  handler m q = Some p ->
  fst (exec m p outs) = firstn (n_calls q outs) (spec_calls q).
Proof.
  intros m q p outs H. rewrite (handler_Spec m q p H outs). unfold n_calls.
  destruct (first_raise outs (length (spec_calls q))) as [[i e]|]; cbn [fst].
  - reflexivity.
  - symmetry. apply firstn_all.
Qed.

(* 2. no call raises *)
Theorem exec_reply_ok : forall m q p outs,
  handler m q = Some p ->
  first_raise outs (length (spec_calls q)) = None ->
  snd (exec m p outs) = spec_data_reply m q outs.
Proof.
  intros m q p outs H Hn. rewrite (handler_Spec m q p H outs). rewrite Hn. reflexivity.
Qed.

(* 3. the i-th call raises e *)
Theorem exec_reply_err : forall m q p outs i e,
  handler m q = Some p ->
  first_raise outs (length (spec_calls q)) = Some (i, e) ->
  snd (exec m p outs) = error_reply m e.
Proof.
  intros m q p outs i e H Hr. rewrite (handler_Spec m q p H outs). rewrite Hr. reflexivity.
Qed.

(* 4. the handler looked up by method name fits what that method's reader returns *)
Ltac peel E :=
  repeat match type of E with
         | rbind ?r _ = ROk _ =>
             let a := fresh "a" in let Er := fresh "Er" in
             destruct r as [a|?] eqn:Er; cbn [rbind] in E; [|discriminate E]
         end.

Theorem handler_defined : forall m d q,
  post_init_meta m = true -> read_request m d = POk q ->
  exists p, handler m q = Some p.
Proof.
  intros m d q Hp Hr. unfold read_request, decorate in Hr.
  destruct (read_body m d) as [q'|[msg|]] eqn:E; try discriminate Hr.
  injection Hr as ->.
  destruct m; try discriminate Hp; cbn [read_body] in E; peel E;
    injection E as <-; eexists; reflexivity.
Qed.

(* 5. composition with the request codec (C06) *)
Theorem handle_encoded : forall m q outs,
  post_init_meta m = true -> shape_ok m q = true -> ints_ok q ->
  exists r,
    handle_tokens m (encode_args q) outs =
      Some (HJob (firstn (n_calls (expected q) outs) (spec_calls (expected q))) r)
    /\ (first_raise outs (length (spec_calls (expected q))) = None ->
          r = job_result_of (spec_data_reply m (expected q) outs))
    /\ (forall i e, first_raise outs (length (spec_calls (expected q))) = Some (i, e) ->
          r = job_result_of (error_reply m e)).
Proof.
  intros m q outs Hp Hs Hi.
  pose proof (read_request_enc m q Hs Hi) as Hrd.
  destruct (handler_defined m (encode_args q) (expected q) Hp Hrd) as [p Hh].
  unfold handle_tokens. rewrite Hp, Hrd, Hh.
  pose proof (exec_calls m (expected q) p outs Hh) as Hc.
  pose proof (exec_reply_ok m (expected q) p outs Hh) as Hok.
  pose proof (fun i e => exec_reply_err m (expected q) p outs i e Hh) as Herr.
  destruct (exec m p outs) as [cs r]. cbn [fst snd] in Hc, Hok, Herr.
  exists (job_result_of r). rewrite Hc. split; [reflexivity|]. split.
  - intros Hn. rewrite (Hok Hn). reflexivity.
  - intros i e Hr. rewrite (Herr i e Hr). reflexivity.
Qed.

(* 6. a request the reader rejects makes no adapter call at all *)
Theorem handle_rejected : forall m d outs msg,
  post_init_meta m = true -> read_request m d = PErr msg ->
  handle_tokens m d outs = Some (HRejected msg).
Proof.
  intros m d outs msg Hp Hr. unfold handle_tokens. rewrite Hp, Hr. reflexivity.
Qed.

(* 7. never more calls than the interface table *)
Theorem calls_no_more_than_table : forall m q p outs,
  handler m q = Some p -> length (fst (exec m p outs)) <= length (spec_calls q).
Proof.
  intros m q p outs H. rewrite (exec_calls m q p outs H). rewrite firstn_length. apply Nat.le_min_r.
Qed.

(* ---------- non-vacuity ---------- *)
Definition ex_git : request := QGIT [Some (bs "a"); Some (bs "b")].

Definition ex_exn : exn :=
  {| e_class := EForeign; e_str := bs "boom"; e_code := 0%Z;
     e_user_msg := PNone; e_session := PNone |}.

Definition ex_outs : list outcome :=
  [ORet (PBool true); ORet (PBool false); ORet PNone; ORet (PInt 1);
   ORet (PInt 30); ORet (PFloat (bs "0.5")); ORet (PBool true); ORaise ex_exn].

Example ex_git_calls :
  match handler MGIT ex_git with
  | Some p => length (fst (exec MGIT p ex_outs)) = 8
              /\ length (fst (exec MGIT p [])) = 12
              /\ fst (exec MGIT p ex_outs) = firstn 8 (spec_calls ex_git)
              /\ snd (exec MGIT p ex_outs) = error_reply MGIT ex_exn
  | None => False
  end.
Proof. vm_compute. repeat split. Qed.

Example ex_git_n_calls : n_calls ex_git ex_outs = 8 /\ n_calls ex_git [] = 12.
Proof. vm_compute. split; reflexivity. Qed.

Print Assumptions exec_calls.
Print Assumptions exec_reply_ok.
Print Assumptions exec_reply_err.
Print Assumptions handler_defined.
Print Assumptions handle_encoded.
Print Assumptions handle_rejected.
Print Assumptions calls_no_more_than_table.
