(* Proofs/ShellProgress.v — the pool and the writer never get stuck by themselves
   (over Model/Shell.v): shape of the worker states, enabledness of the next library-side
   action of a worker, "a queued job always has a live worker", and the writer's moves. *)
From Coq Require Import String List Ascii NArith ZArith Bool Lia.
From LS Require Import Model.Bytes Model.Tags Model.AriReply Model.Shell Model.ShellSpec Proofs.ShellPool.
From LS Require Proofs.ShellClose.
Import ListNotations.

(* the states a worker can be in, as the step function produces them *)
Definition wstate_ok (st : wstate) : bool :=
  match st with
  | KIdle | KExited => true
  | KBusy _ (JMeta _) incall done => negb (incall && done)
  | KBusy _ JData _ done => negb done
  | KHandFal _ JData _ => true
  | KHandFal _ (JMeta _) _ => false
  end.

(* the library-side action a worker can take next (None: it waits — idle with an empty queue — or it has exited,
   or it is inside an adapter call, whose return is the adapter's move) *)
Definition worker_next (s : shell) (w : nat) : option action :=
  match nth_error (sh_workers s) w with
  | Some KIdle =>
      match sh_jobs s with
      | (j, _) :: _ => Some (AJobStart j)
      | [] => if sh_shutdown s then Some AWorkerExit else None
      end
  | Some (KBusy _ (JMeta rid) false false) => Some (APut (OReply rid))
  | Some (KBusy _ (JMeta _) false true) => Some AJobEnd
  | Some (KBusy _ JData false false) => Some AJobEnd
  | Some (KHandFal _ _ _) => Some (APut OFal)
  | _ => None
  end.

Definition in_call (st : wstate) : bool :=
  match st with KBusy _ _ true _ => true | _ => false end.

(* ================================================================== *)
(* 1-2. Shape invariant, number of workers                              *)
(* ================================================================== *)

Lemma wok_mstep s s' c :
  forallb wstate_ok (sh_workers s) = true -> mstep s s' c -> forallb wstate_ok (sh_workers s') = true.
Proof.
  intros H Hm. destruct Hm; simpl.
  - destruct H0 as (_ & _ & _ & _ & H5 & _). rewrite H5. exact H.
  - exact H.
  - apply forallb_updw; [exact H|]. destruct k; reflexivity.
  - apply forallb_updw; [exact H|]. reflexivity.
  - apply forallb_updw; [exact H|]. destruct k; reflexivity.
  - apply forallb_updw; [exact H|]. destruct k; reflexivity.
  - apply forallb_updw; [exact H|]. reflexivity.
  - exact H.
  - apply forallb_updw; [exact H|].
    pose proof (forallb_nth _ _ _ _ H H0) as Hw. destruct k; simpl in *; [discriminate|reflexivity].
  - apply forallb_updw; [exact H|]. reflexivity.
  - apply forallb_updw; [exact H|]. destruct ret; reflexivity.
  - apply forallb_updw; [exact H|]. reflexivity.
  - apply forallb_updw; [exact H|]. reflexivity.
Qed.

Lemma wok_init k h n : forallb wstate_ok (sh_workers (shell_init k h n)) = true.
Proof. simpl. induction n as [|n IH]; simpl; auto. Qed.

Lemma wok_base_reachable k h n s : sreach k h n s -> Base k h n s /\ forallb wstate_ok (sh_workers s) = true.
Proof.
  apply (reach_inv k h n (fun s => forallb wstate_ok (sh_workers s) = true)).
  - apply wok_init.
  - intros s0 s1 c _ Hx Hm. eapply wok_mstep; eauto.
Qed.

(* 1. shape invariant *)
Theorem wstate_ok_reachable : forall k h n s, sreach k h n s -> forallb wstate_ok (sh_workers s) = true.
Proof. intros k h n s Hr. apply (wok_base_reachable k h n s Hr). Qed.

(* 2. the number of workers never changes *)
Theorem workers_length_reachable : forall k h n s, sreach k h n s -> length (sh_workers s) = n.
Proof.
  intros k h n s Hr. destruct (wok_base_reachable k h n s Hr) as [(_ & _ & Hl & _) _]. exact Hl.
Qed.

(* ================================================================== *)
(* 3-4. What worker_next proposes is enabled; a worker that should move can *)
(* ================================================================== *)

Lemma step_jobstart s w j k rest : sh_exited s = false ->
  nth_error (sh_workers s) w = Some KIdle -> sh_jobs s = (j, k) :: rest ->
  step s (ThWorker w) (AJobStart j) <> None.
Proof. intros Hex E Ej. unfold step. rewrite Hex. cbv beta iota. rewrite E, Ej, Nat.eqb_refl. discriminate. Qed.

Lemma step_workerexit s w : sh_exited s = false ->
  nth_error (sh_workers s) w = Some KIdle -> sh_jobs s = [] -> sh_shutdown s = true ->
  step s (ThWorker w) AWorkerExit <> None.
Proof. intros Hex E Ej Es. unfold step. rewrite Hex. cbv beta iota. rewrite E, Ej, Es. cbn. discriminate. Qed.

Lemma step_putreply s w j rid : sh_exited s = false ->
  nth_error (sh_workers s) w = Some (KBusy j (JMeta rid) false false) ->
  step s (ThWorker w) (APut (OReply rid)) <> None.
Proof. intros Hex E. unfold step. rewrite Hex. cbv beta iota. rewrite E, Nat.eqb_refl. discriminate. Qed.

Lemma step_jobend_meta s w j rid : sh_exited s = false ->
  nth_error (sh_workers s) w = Some (KBusy j (JMeta rid) false true) ->
  step s (ThWorker w) AJobEnd <> None.
Proof. intros Hex E. unfold step. rewrite Hex. cbv beta iota. rewrite E. discriminate. Qed.

Lemma step_jobend_data s w j : sh_exited s = false ->
  nth_error (sh_workers s) w = Some (KBusy j JData false false) ->
  step s (ThWorker w) AJobEnd <> None.
Proof. intros Hex E. unfold step. rewrite Hex. cbv beta iota. rewrite E. discriminate. Qed.

Lemma step_putfal s w j k ic : sh_exited s = false ->
  nth_error (sh_workers s) w = Some (KHandFal j k ic) ->
  step s (ThWorker w) (APut OFal) <> None.
Proof. intros Hex E. unfold step. rewrite Hex. cbv beta iota. rewrite E. discriminate. Qed.

(* 3. whatever worker_next proposes is enabled *)
Theorem worker_next_enabled : forall k h n s w a,
  sreach k h n s -> sh_exited s = false -> worker_next s w = Some a ->
  step s (ThWorker w) a <> None.
Proof.
  intros k h n s w a _ Hex Hn. unfold worker_next in Hn.
  destruct (nth_error (sh_workers s) w) as [st|] eqn:E; [|discriminate Hn].
  destruct st as [|j [rid|] [|] [|]|j kd ic|]; try discriminate Hn.
  - destruct (sh_jobs s) as [|[j kd] rest] eqn:Ej.
    + destruct (sh_shutdown s) eqn:Es; [|discriminate Hn]. inversion Hn; subst a.
      apply step_workerexit; assumption.
    + inversion Hn; subst a. eapply step_jobstart; eassumption.
  - inversion Hn; subst a. eapply step_jobend_meta; eassumption.
  - inversion Hn; subst a. eapply step_putreply; eassumption.
  - inversion Hn; subst a. eapply step_jobend_data; eassumption.
  - inversion Hn; subst a. eapply step_putfal; eassumption.
Qed.

(* 4. a worker that is neither waiting for work, nor gone, nor inside an adapter call has a move *)
Theorem worker_can_move : forall k h n s w st,
  sreach k h n s -> sh_exited s = false -> nth_error (sh_workers s) w = Some st ->
  st <> KExited -> in_call st = false -> (st = KIdle -> sh_jobs s <> [] \/ sh_shutdown s = true) ->
  exists a, step s (ThWorker w) a <> None.
Proof.
  intros k h n s w st Hr Hex E Hne Hic Hidle.
  pose proof (forallb_nth _ _ _ _ (wstate_ok_reachable k h n s Hr) E) as Hok.
  destruct st as [|j [rid|] [|] [|]|j kd ic|]; simpl in Hic, Hok; try discriminate.
  - destruct (sh_jobs s) as [|[j kd] rest] eqn:Ej.
    + destruct (Hidle eq_refl) as [Hj|Hs]; [congruence|].
      exists AWorkerExit. apply step_workerexit; assumption.
    + exists (AJobStart j). eapply step_jobstart; eassumption.
  - exists AJobEnd. eapply step_jobend_meta; eassumption.
  - exists (APut (OReply rid)). eapply step_putreply; eassumption.
  - exists AJobEnd. eapply step_jobend_data; eassumption.
  - exists (APut OFal). eapply step_putfal; eassumption.
  - congruence.
Qed.

(* ================================================================== *)
(* 5. A queued job always has a live worker                             *)
(* ================================================================== *)

Definition alive (w : wstate) : bool := match w with KExited => false | _ => true end.

(* a worker exits only after shutdown with an empty queue, and nothing is submitted after shutdown:
   as long as the pool is not shut down, or a job is queued, no worker has exited *)
Definition pinv (s : shell) : bool :=
  (is_nil (sh_jobs s) && sh_shutdown s) || forallb alive (sh_workers s).

Lemma pinv_submit s k : sh_shutdown s = false -> pinv s = true -> pinv (submit s k) = true.
Proof.
  unfold pinv. cbn [submit slog set_hist set_pool sh_jobs sh_shutdown sh_workers].
  intros E H. rewrite E in *. rewrite andb_false_r in *. exact H.
Qed.

Lemma pinv_settle : forall todo s, pinv s = true -> pinv (settle s todo) = true.
Proof.
  induction todo as [|ln rest IH]; intros s H.
  - cbn [settle]. destruct (sh_stop s); exact H.
  - assert (Hhand : forall s0, pinv s0 = true ->
      pinv (match reader_hand s0 with
            | (s1, Some p) => set_reader s1 (sh_init_expected s1) (sh_close_expected s1) rest p
            | (s1, None) => settle s1 rest end) = true).
    { intros s0 H0. unfold reader_hand. destruct (sh_handler s0); [destruct (is_data s0)|]; try exact H0.
      apply IH. exact H0. }
    destruct ln as [|id0 rok|rid wf refused oldv|rid wf known]; cbn [settle];
      repeat match goal with |- context [if ?b then _ else _] => destruct b eqn:? end;
      try (apply IH); try (apply Hhand); try exact H.
    apply pinv_submit; assumption.
Qed.

Lemma pinv_step s th a s' : pinv s = true -> step s th a = Some s' -> pinv s' = true.
Proof.
  intros Hp H. unfold step, io_fail in H. destruct (sh_exited s) eqn:Hex; [discriminate|].
  destruct th; destruct a; try discriminate H; cbv beta iota zeta in H;
  repeat (destr_in H; try discriminate H);
  inversion H; subst; clear H.
  all: try (apply pinv_settle).
  all: try exact Hp.
  all: unfold pinv in *;
    cbn [put submit slog set_hist set_pool set_worker set_misc set_rpc set_reader set_out
         sh_jobs sh_shutdown sh_workers] in *.
  all: first
    [ (* submit of a Data job: only before shutdown *)
      match goal with E : true && sh_shutdown _ = false |- _ =>
        cbn [andb] in E; rewrite E in *; rewrite andb_false_r in *; exact Hp end
    | (* worker exit: after shutdown, empty queue *)
      match goal with E : sh_shutdown _ && is_nil (sh_jobs _) = true |- _ =>
        rewrite andb_comm, E; reflexivity end
    | (* job start *)
      match goal with E : sh_jobs _ = _ :: _ |- _ =>
        rewrite E in Hp; cbn [is_nil andb orb] in Hp;
        apply orb_true_iff; right; apply forallb_updw; [exact Hp | reflexivity] end
    | (* any other change of a worker state *)
      match goal with |- ?b || forallb alive (updw _ _ _) = true =>
        destruct b; [reflexivity|];
        cbn [orb] in Hp |- *; apply forallb_updw; [exact Hp | reflexivity] end
    | (* pool shutdown *)
      match goal with |- is_nil ?j && true || _ = true =>
        destruct (is_nil j); cbn [andb orb] in Hp |- *; [reflexivity | exact Hp] end ].
Qed.

Lemma pinv_init k h n : pinv (shell_init k h n) = true.
Proof. unfold pinv. simpl. induction n as [|n IH]; simpl; auto. Qed.

Lemma pinv_run : forall ls s0 s, pinv s0 = true -> run s0 ls = Some s -> pinv s = true.
Proof.
  induction ls as [|[th a] r IH]; intros s0 s H0 Hr; simpl in Hr.
  - inversion Hr; subst. exact H0.
  - destruct (step s0 th a) as [s1|] eqn:E; [|discriminate Hr].
    eapply IH; [|exact Hr]. eapply pinv_step; eassumption.
Qed.

Lemma pinv_reachable k h n s : sreach k h n s -> pinv s = true.
Proof. intros [ls Hr]. eapply pinv_run; [apply pinv_init | exact Hr]. Qed.

(* no worker has exited while a job is queued (or before shutdown) *)
Lemma queued_all_alive k h n s : sreach k h n s -> sh_jobs s <> [] \/ sh_shutdown s = false ->
  forallb alive (sh_workers s) = true.
Proof.
  intros Hr Hq. pose proof (pinv_reachable k h n s Hr) as Hp. unfold pinv in Hp.
  destruct Hq as [Hj|Hs].
  - destruct (sh_jobs s); [congruence|]. exact Hp.
  - rewrite Hs, andb_false_r in Hp. exact Hp.
Qed.

(* 5. accepted jobs are never stranded: while a job is queued, not every worker has exited *)
Theorem queued_job_has_a_worker : forall k h n s,
  sreach k h n s -> (1 <= n)%nat -> sh_jobs s <> [] ->
  exists w st, nth_error (sh_workers s) w = Some st /\ st <> KExited.
Proof.
  intros k h n s Hr Hn Hj.
  pose proof (workers_length_reachable k h n s Hr) as Hl.
  pose proof (queued_all_alive k h n s Hr (or_introl Hj)) as Ha.
  destruct (sh_workers s) as [|st r]; [simpl in Hl; lia|].
  exists 0, st. split; [reflexivity|].
  simpl in Ha. apply andb_true_iff in Ha. destruct Ha as [Ha _].
  intros ->. discriminate Ha.
Qed.

(* 6. ... hence with a queued job, unless every live worker is inside an adapter call, some worker can move *)
Theorem pool_not_stuck : forall k h n s,
  sreach k h n s -> (1 <= n)%nat -> sh_exited s = false -> sh_jobs s <> [] ->
  (exists w st, nth_error (sh_workers s) w = Some st /\ st <> KExited /\ in_call st = false) ->
  exists w a, step s (ThWorker w) a <> None.
Proof.
  intros k h n s Hr _ Hex Hj (w & st & E & Hne & Hic).
  exists w. eapply worker_can_move; try eassumption. intros _. left. exact Hj.
Qed.

(* ================================================================== *)
(* 7. The writer                                                        *)
(* ================================================================== *)

(* The statement given in the task,

     forall s l, sh_exited s = false ->
       (sh_wpc s = WWait -> sh_outq s <> [] -> step s ThWriter AGet <> None) /\
       (sh_wpc s = WHand l -> step s ThWriter (ASend true) <> None),

   quantifies over ALL states, and a successful send needs the socket to be open
   ([ASend true] is refused when [sh_sock_closed s]): it is false for the (unreachable) state below. *)
Definition writer_cex : shell :=
  set_out (set_misc (shell_init KMeta HNone 1) 3 false ANone true false) [] (WHand ORac).

Lemma writer_can_move_false :
  ~ (forall s l, sh_exited s = false ->
      (sh_wpc s = WWait -> sh_outq s <> [] -> step s ThWriter AGet <> None) /\
      (sh_wpc s = WHand l -> step s ThWriter (ASend true) <> None)).
Proof.
  intros H. destruct (H writer_cex ORac eq_refl) as [_ H2]. apply (H2 eq_refl). vm_compute. reflexivity.
Qed.

(* closest true statement over all states: minimal extra hypothesis "socket not closed" on the send *)
Theorem writer_can_move_partial : forall s l,
  sh_exited s = false ->
  (sh_wpc s = WWait -> sh_outq s <> [] -> step s ThWriter AGet <> None) /\
  (sh_wpc s = WHand l -> sh_sock_closed s = false -> step s ThWriter (ASend true) <> None).
Proof.
  intros s l Hex. split.
  - intros Hw Hq. unfold step. rewrite Hex. cbv beta iota. rewrite Hw.
    destruct (sh_outq s) as [|x rest]; [congruence|]. destruct x; discriminate.
  - intros Hw Hc. unfold step. rewrite Hex. cbv beta iota. rewrite Hw, Hc. discriminate.
Qed.

(* ... and the original conclusion holds in every REACHABLE state: the socket is closed only after the
   writer thread has ended (inv_closed, Proofs/ShellClose.v) *)
Theorem writer_can_move_reachable_partial : forall k h n s l,
  sreach k h n s -> sh_exited s = false ->
  (sh_wpc s = WWait -> sh_outq s <> [] -> step s ThWriter AGet <> None) /\
  (sh_wpc s = WHand l -> step s ThWriter (ASend true) <> None).
Proof.
  intros k h n s l Hr Hex. destruct (writer_can_move_partial s l Hex) as [H1 H2]. split; [exact H1|].
  intros Hw. apply H2; [exact Hw|].
  pose proof (ShellClose.inv_closed_reachable k h n s Hr) as Hc.
  unfold inv_closed, writer_dead in Hc. rewrite Hw in Hc.
  destruct (sh_sock_closed s); [discriminate Hc | reflexivity].
Qed.

(* the failing send is always possible, so the writer holding a line is never stuck even in arbitrary states *)
Lemma writer_send_fail_enabled : forall s l,
  sh_exited s = false -> sh_wpc s = WHand l -> step s ThWriter (ASend false) <> None.
Proof.
  intros s l Hex Hw. unfold step, io_fail. rewrite Hex. cbv beta iota. rewrite Hw.
  destruct (sh_handler s); discriminate.
Qed.

Print Assumptions wstate_ok_reachable.
Print Assumptions workers_length_reachable.
Print Assumptions worker_next_enabled.
Print Assumptions worker_can_move.
Print Assumptions queued_job_has_a_worker.
Print Assumptions pool_not_stuck.
Print Assumptions writer_can_move_false.
Print Assumptions writer_can_move_partial.
Print Assumptions writer_can_move_reachable_partial.
