(* Proofs/FramingProofs.v — dispatch of complete lines by the socket reader loop
   (Model/Framing.v) is independent of how the byte stream is cut into chunks. *)
From Coq Require Import String List Ascii NArith Bool.
From LS Require Import Model.Bytes Model.Framing.
Import ListNotations.
Local Open Scope list_scope.

(* ------------------------------------------------------------------ *)
(* Well-formed streams                                                 *)
(* ------------------------------------------------------------------ *)

(* a line body: ASCII, none of the splitlines boundary characters *)
Definition clean (body : bytes) : Prop :=
  Forall (fun c => is_boundary c = false /\ is_ascii c = true) body.

Inductive term : bytes -> Prop :=
| term_lf : term [c_lf]
| term_crlf : term [c_cr; c_lf].

Inductive wf_line : bytes -> Prop :=
| wf_line_intro body t : clean body -> term t -> wf_line (body ++ t).

(* an incomplete last line, possibly cut between CR and LF *)
Inductive wf_tail : bytes -> Prop :=
| tail_body p : clean p -> wf_tail p
| tail_cr p : clean p -> wf_tail (p ++ [c_cr]).

(* ------------------------------------------------------------------ *)
(* Closed facts about the named characters                             *)
(* ------------------------------------------------------------------ *)

Lemma cr_lf_eqb : Ascii.eqb c_cr c_lf = false.
Proof. vm_compute. reflexivity. Qed.

Lemma cr_other : is_other_boundary c_cr = false.
Proof. vm_compute. reflexivity. Qed.

Lemma lf_boundary : is_boundary c_lf = true.
Proof. vm_compute. reflexivity. Qed.

Lemma lf_ascii : is_ascii c_lf = true.
Proof. vm_compute. reflexivity. Qed.

Lemma cr_ascii : is_ascii c_cr = true.
Proof. vm_compute. reflexivity. Qed.

Lemma cr_neq_lf : c_cr <> c_lf.
Proof. apply Ascii.eqb_neq. exact cr_lf_eqb. Qed.

Lemma not_boundary_parts : forall c,
  is_boundary c = false ->
  Ascii.eqb c c_lf = false /\ Ascii.eqb c c_cr = false /\ is_other_boundary c = false.
Proof.
  intros c H. unfold is_boundary in H.
  apply orb_false_elim in H. destruct H as [H H3].
  apply orb_false_elim in H. destruct H as [H1 H2].
  auto.
Qed.

(* ------------------------------------------------------------------ *)
(* Unfolding lemmas for splitlines_aux                                 *)
(* ------------------------------------------------------------------ *)

Lemma sl_nil : forall cur,
  splitlines_aux cur [] = match cur with [] => [] | _ => [rev cur] end.
Proof. intros cur. reflexivity. Qed.

Lemma sl_plain : forall c cur r,
  is_boundary c = false ->
  splitlines_aux cur (c :: r) = splitlines_aux (c :: cur) r.
Proof.
  intros c cur r H.
  destruct (not_boundary_parts c H) as [H1 [H2 H3]].
  cbn [splitlines_aux]. rewrite H1, H2, H3. reflexivity.
Qed.

Lemma sl_lf : forall cur r,
  splitlines_aux cur (c_lf :: r) = rev (c_lf :: cur) :: splitlines_aux [] r.
Proof.
  intros cur r. cbn [splitlines_aux]. rewrite Ascii.eqb_refl. reflexivity.
Qed.

Lemma sl_crlf : forall cur r,
  splitlines_aux cur (c_cr :: c_lf :: r)
  = rev (c_lf :: c_cr :: cur) :: splitlines_aux [] r.
Proof.
  intros cur r. cbn [splitlines_aux].
  rewrite cr_lf_eqb, cr_other, !Ascii.eqb_refl. reflexivity.
Qed.

Lemma sl_cr_end : forall cur,
  splitlines_aux cur [c_cr] = [rev (c_cr :: cur)].
Proof.
  intros cur. cbn [splitlines_aux].
  rewrite cr_lf_eqb, cr_other, Ascii.eqb_refl. reflexivity.
Qed.

Lemma sl_clean : forall body cur rest,
  clean body ->
  splitlines_aux cur (body ++ rest) = splitlines_aux (rev body ++ cur) rest.
Proof.
  intros body. induction body as [|c body IH]; intros cur rest Hc.
  - reflexivity.
  - inversion Hc as [|c' body' [Hb _] Hc']; subst.
    cbn [app rev]. rewrite sl_plain by exact Hb.
    rewrite IH by exact Hc'. rewrite <- app_assoc. reflexivity.
Qed.

Lemma sl_line : forall body t rest,
  clean body -> term t ->
  splitlines_aux [] ((body ++ t) ++ rest) = (body ++ t) :: splitlines_aux [] rest.
Proof.
  intros body t rest Hb Ht. rewrite <- app_assoc. rewrite sl_clean by exact Hb.
  destruct Ht; cbn [app].
  - rewrite sl_lf. cbn [rev]. rewrite app_nil_r, rev_involutive. reflexivity.
  - rewrite sl_crlf. cbn [rev]. rewrite app_nil_r, rev_involutive.
    rewrite <- app_assoc. reflexivity.
Qed.

(* ------------------------------------------------------------------ *)
(* ends_with_lf                                                        *)
(* ------------------------------------------------------------------ *)

Lemma ends_lf_snoc : forall x, ends_with_lf (x ++ [c_lf]) = true.
Proof.
  intros x. unfold ends_with_lf. rewrite rev_app_distr. cbn [rev app].
  apply Ascii.eqb_refl.
Qed.

Lemma ends_lf_line : forall l, wf_line l -> ends_with_lf l = true.
Proof.
  intros l H. destruct H as [body t Hb Ht]. destruct Ht.
  - apply ends_lf_snoc.
  - change [c_cr; c_lf] with ([c_cr] ++ [c_lf]). rewrite app_assoc.
    apply ends_lf_snoc.
Qed.

Lemma ends_lf_clean : forall p, clean p -> ends_with_lf p = false.
Proof.
  intros p Hp. unfold ends_with_lf. destruct (rev p) as [|c r] eqn:E.
  - reflexivity.
  - assert (Hin : In c p).
    { apply in_rev. rewrite E. left. reflexivity. }
    unfold clean in Hp. rewrite Forall_forall in Hp.
    destruct (Hp c Hin) as [Hb _].
    destruct (not_boundary_parts c Hb) as [H1 _]. exact H1.
Qed.

Lemma ends_lf_tail : forall p, wf_tail p -> ends_with_lf p = false.
Proof.
  intros p H. destruct H as [p Hp | p Hp].
  - apply ends_lf_clean. exact Hp.
  - unfold ends_with_lf. rewrite rev_app_distr. cbn [rev app].
    exact cr_lf_eqb.
Qed.

(* ------------------------------------------------------------------ *)
(* feed_tokens on a well-formed stream                                 *)
(* ------------------------------------------------------------------ *)

Lemma sl_tail : forall p, wf_tail p ->
  splitlines_aux [] p = match p with [] => [] | _ => [p] end.
Proof.
  intros p H. destruct H as [p Hp | p Hp].
  - rewrite <- (app_nil_r p) at 1. rewrite sl_clean by exact Hp.
    rewrite app_nil_r, sl_nil.
    destruct p as [|c p'].
    + reflexivity.
    + destruct (rev (c :: p')) as [|d r] eqn:E.
      * apply (f_equal (@rev ascii)) in E. rewrite rev_involutive in E.
        discriminate E.
      * rewrite <- E. rewrite rev_involutive. reflexivity.
  - rewrite sl_clean by exact Hp. rewrite sl_cr_end. cbn [rev].
    rewrite app_nil_r, rev_involutive.
    destruct (p ++ [c_cr]) as [|c r] eqn:E.
    + destruct p; discriminate E.
    + reflexivity.
Qed.

Lemma fold_feed_tail : forall p acc, wf_tail p ->
  fold_left feed_step (splitlines_aux [] p) (acc, []) = (acc, p).
Proof.
  intros p acc H. rewrite (sl_tail p H).
  destruct p as [|c p'].
  - reflexivity.
  - cbn [fold_left]. unfold feed_step. rewrite (ends_lf_tail _ H). reflexivity.
Qed.

Lemma fold_feed_stream : forall ls p acc,
  Forall wf_line ls -> wf_tail p ->
  fold_left feed_step (splitlines_aux [] (concat ls ++ p)) (acc, [])
  = (acc ++ ls, p).
Proof.
  intros ls. induction ls as [|l ls IH]; intros p acc Hls Hp.
  - cbn [concat app]. rewrite app_nil_r. apply fold_feed_tail. exact Hp.
  - inversion Hls as [|l' ls' Hl Hls']; subst.
    cbn [concat]. rewrite <- app_assoc.
    pose proof (ends_lf_line l Hl) as He.
    destruct Hl as [body t Hb Ht].
    rewrite sl_line by assumption.
    cbn [fold_left]. unfold feed_step at 2. rewrite He. cbn [fst].
    rewrite IH by assumption. rewrite <- app_assoc. reflexivity.
Qed.

(* key lemma A: one splitlines + token loop over a well-formed stream *)
Lemma feed_tokens_stream : forall ls p,
  Forall wf_line ls -> wf_tail p ->
  feed_tokens (splitlines_keep (concat ls ++ p)) = (ls, p).
Proof.
  intros ls p Hls Hp. unfold feed_tokens, splitlines_keep.
  rewrite fold_feed_stream by assumption. reflexivity.
Qed.

(* ------------------------------------------------------------------ *)
(* ASCII-ness of well-formed streams                                   *)
(* ------------------------------------------------------------------ *)

Lemma clean_ascii : forall b, clean b -> forallb is_ascii b = true.
Proof.
  intros b H. induction H as [|c b [_ Hc] Hb IH].
  - reflexivity.
  - cbn [forallb]. rewrite Hc, IH. reflexivity.
Qed.

Lemma term_ascii : forall t, term t -> forallb is_ascii t = true.
Proof.
  intros t H. destruct H; cbn [forallb]; rewrite ?cr_ascii, ?lf_ascii; reflexivity.
Qed.

Lemma line_ascii : forall l, wf_line l -> forallb is_ascii l = true.
Proof.
  intros l H. destruct H as [body t Hb Ht].
  rewrite forallb_app, (clean_ascii _ Hb), (term_ascii _ Ht). reflexivity.
Qed.

Lemma tail_ascii : forall p, wf_tail p -> forallb is_ascii p = true.
Proof.
  intros p H. destruct H as [p Hp | p Hp].
  - apply clean_ascii. exact Hp.
  - rewrite forallb_app, (clean_ascii _ Hp). cbn [forallb].
    rewrite cr_ascii. reflexivity.
Qed.

Lemma stream_ascii : forall ls p,
  Forall wf_line ls -> wf_tail p -> forallb is_ascii (concat ls ++ p) = true.
Proof.
  intros ls p Hls Hp. induction Hls as [|l ls Hl Hls IH].
  - cbn [concat app]. apply tail_ascii. exact Hp.
  - cbn [concat]. rewrite <- app_assoc, forallb_app, (line_ascii _ Hl), IH.
    reflexivity.
Qed.

(* ------------------------------------------------------------------ *)
(* Prefixes of well-formed streams                                     *)
(* ------------------------------------------------------------------ *)

Lemma clean_nil : clean [].
Proof. constructor. Qed.

Lemma clean_app_l : forall a b, clean (a ++ b) -> clean a.
Proof.
  intros a b H. unfold clean in *. apply Forall_app in H. exact (proj1 H).
Qed.

Lemma wf_tail_prefix : forall p, wf_tail p ->
  forall s1 s2, p = s1 ++ s2 -> wf_tail s1.
Proof.
  intros p H. destruct H as [p Hp | p Hp]; intros s1 s2 E.
  - subst p. apply tail_body. exact (clean_app_l _ _ Hp).
  - symmetry in E. apply app_eq_app in E. destruct E as [x [[E1 E2] | [E1 E2]]].
    + (* s1 = p ++ x, [cr] = x ++ s2 *)
      destruct x as [|a x].
      * subst s1. rewrite app_nil_r. apply tail_body. exact Hp.
      * cbn [app] in E2. injection E2 as Ea Ex.
        symmetry in Ex. apply app_eq_nil in Ex. destruct Ex as [Ex _].
        subst x a s1. apply tail_cr. exact Hp.
    + (* p = s1 ++ x *)
      subst p. apply tail_body. exact (clean_app_l _ _ Hp).
Qed.

Lemma wf_line_proper_prefix : forall l, wf_line l ->
  forall s1 c x, l = s1 ++ c :: x -> wf_tail s1.
Proof.
  intros l H. destruct H as [body t Hb Ht]. intros s1 c x E.
  symmetry in E. apply app_eq_app in E. destruct E as [y [[E1 E2] | [E1 E2]]].
  - (* s1 = body ++ y, t = y ++ c :: x *)
    destruct Ht.
    + destruct y as [|a y].
      * subst s1. rewrite app_nil_r. apply tail_body. exact Hb.
      * cbn [app] in E2. injection E2 as Ea Ey.
        destruct y; discriminate Ey.
    + destruct y as [|a [|b y]].
      * subst s1. rewrite app_nil_r. apply tail_body. exact Hb.
      * cbn [app] in E2. injection E2 as Ea Ec Ex.
        subst a s1. apply tail_cr. exact Hb.
      * cbn [app] in E2. injection E2 as Ea Eb Ey.
        destruct y; discriminate Ey.
  - (* body = s1 ++ y *)
    subst body. apply tail_body. exact (clean_app_l _ _ Hb).
Qed.

(* key lemma B: every prefix of a well-formed stream is a well-formed stream,
   and the remainder continues it *)
Lemma prefix_decomp : forall lines p s1 s2,
  Forall wf_line lines -> wf_tail p ->
  s1 ++ s2 = concat lines ++ p ->
  exists ls1 ls2 p1,
    lines = ls1 ++ ls2 /\ s1 = concat ls1 ++ p1 /\ wf_tail p1 /\
    p1 ++ s2 = concat ls2 ++ p.
Proof.
  intros lines. induction lines as [|l ls IH]; intros p s1 s2 Hls Hp E.
  - cbn [concat app] in E. exists [], [], s1. cbn [concat app].
    repeat split.
    + exact (wf_tail_prefix p Hp s1 s2 (eq_sym E)).
    + exact E.
  - inversion Hls as [|l' ls' Hl Hls']; subst.
    cbn [concat] in E. rewrite <- app_assoc in E.
    apply app_eq_app in E. destruct E as [x [[E1 E2] | [E1 E2]]].
    + (* s1 = l ++ x, concat ls ++ p = x ++ s2 *)
      destruct (IH p x s2 Hls' Hp (eq_sym E2)) as [ls1 [ls2 [p1 [A1 [A2 [A3 A4]]]]]].
      exists (l :: ls1), ls2, p1. repeat split.
      * cbn [app]. rewrite A1. reflexivity.
      * cbn [concat]. rewrite <- app_assoc, <- A2. exact E1.
      * exact A3.
      * exact A4.
    + (* l = s1 ++ x, s2 = x ++ concat ls ++ p *)
      destruct x as [|c x].
      * rewrite app_nil_r in E1. subst s1. cbn [app] in E2. subst s2.
        exists [l], ls, []. repeat split.
        -- cbn [concat]. rewrite !app_nil_r. reflexivity.
        -- apply tail_body. exact clean_nil.
      * exists [], (l :: ls), s1. repeat split.
        -- exact (wf_line_proper_prefix l Hl s1 c x E1).
        -- cbn [concat]. rewrite E2, app_assoc, <- E1, <- app_assoc. reflexivity.
Qed.

(* ------------------------------------------------------------------ *)
(* Uniqueness at the end of the stream                                 *)
(* ------------------------------------------------------------------ *)

Lemma clean_no_lf : forall p, clean p -> ~ In c_lf p.
Proof.
  intros p Hp Hin. unfold clean in Hp. rewrite Forall_forall in Hp.
  destruct (Hp c_lf Hin) as [Hb _]. rewrite lf_boundary in Hb. discriminate Hb.
Qed.

Lemma tail_no_lf : forall p, wf_tail p -> ~ In c_lf p.
Proof.
  intros p H Hin. destruct H as [p Hp | p Hp].
  - exact (clean_no_lf p Hp Hin).
  - apply in_app_or in Hin. destruct Hin as [Hin | Hin].
    + exact (clean_no_lf p Hp Hin).
    + destruct Hin as [Hin | []]. exact (cr_neq_lf Hin).
Qed.

Lemma line_has_lf : forall l, wf_line l -> In c_lf l.
Proof.
  intros l H. destruct H as [body t Hb Ht]. apply in_or_app. right.
  destruct Ht.
  - left. reflexivity.
  - right. left. reflexivity.
Qed.

Lemma tail_is_stream_unique : forall buf lines p,
  wf_tail buf -> Forall wf_line lines ->
  buf = concat lines ++ p -> lines = [] /\ p = buf.
Proof.
  intros buf lines p Hbuf Hls E. destruct lines as [|l ls].
  - cbn [concat app] in E. split; [reflexivity | symmetry; exact E].
  - exfalso. apply (tail_no_lf buf Hbuf). rewrite E. cbn [concat].
    apply in_or_app. left. apply in_or_app. left.
    apply line_has_lf. exact (Forall_inv Hls).
Qed.

(* ------------------------------------------------------------------ *)
(* One chunk, arbitrary well-formed starting buffer                    *)
(* ------------------------------------------------------------------ *)

Lemma feed_stream : forall buf chunk ls p,
  Forall wf_line ls -> wf_tail p ->
  buf ++ chunk = concat ls ++ p ->
  feed buf chunk = Some (ls, p).
Proof.
  intros buf chunk ls p Hls Hp E. unfold feed.
  assert (Ha : forallb is_ascii chunk = true).
  { pose proof (stream_ascii ls p Hls Hp) as Hs. rewrite <- E in Hs.
    rewrite forallb_app in Hs. apply andb_true_iff in Hs. exact (proj2 Hs). }
  rewrite Ha, E. rewrite feed_tokens_stream by assumption. reflexivity.
Qed.

(* ------------------------------------------------------------------ *)
(* All chunks                                                          *)
(* ------------------------------------------------------------------ *)

Lemma feed_all_gen : forall chunks buf lines p,
  wf_tail buf -> Forall wf_line lines -> wf_tail p ->
  buf ++ concat chunks = concat lines ++ p ->
  feed_all buf chunks = Some (lines, p).
Proof.
  intros chunks. induction chunks as [|ch rest IH]; intros buf lines p Hbuf Hls Hp E.
  - cbn [concat] in E. rewrite app_nil_r in E.
    destruct (tail_is_stream_unique buf lines p Hbuf Hls E) as [E1 E2].
    subst lines p. reflexivity.
  - cbn [concat] in E. rewrite app_assoc in E.
    destruct (prefix_decomp lines p (buf ++ ch) (concat rest) Hls Hp E)
      as [ls1 [ls2 [p1 [A1 [A2 [A3 A4]]]]]].
    subst lines. apply Forall_app in Hls. destruct Hls as [Hls1 Hls2].
    cbn [feed_all].
    rewrite (feed_stream buf ch ls1 p1 Hls1 A3 A2).
    rewrite (IH p1 ls2 p A3 Hls2 Hp A4). reflexivity.
Qed.

Theorem feed_all_segmentation :
  forall (lines : list bytes) (p : bytes) (chunks : list bytes),
    Forall wf_line lines -> wf_tail p ->
    concat chunks = concat lines ++ p ->
    feed_all [] chunks = Some (lines, p).
Proof.
  intros lines p chunks Hls Hp E.
  apply feed_all_gen; try assumption.
  apply tail_body. exact clean_nil.
Qed.

Corollary feed_single_chunk :
  forall (lines : list bytes) (p : bytes),
    Forall wf_line lines -> wf_tail p ->
    feed [] (concat lines ++ p) = Some (lines, p).
Proof.
  intros lines p Hls Hp. apply feed_stream; try assumption. reflexivity.
Qed.

(* the buffer invariant, stated on its own: starting from any held-back tail,
   any further chunking of a well-formed continuation gives the same result *)
Corollary feed_all_from_tail :
  forall (buf : bytes) (lines : list bytes) (p : bytes) (chunks : list bytes),
    wf_tail buf -> Forall wf_line lines -> wf_tail p ->
    buf ++ concat chunks = concat lines ++ p ->
    feed_all buf chunks = Some (lines, p).
Proof. intros. apply feed_all_gen; assumption. Qed.

(* ------------------------------------------------------------------ *)
(* Non-vacuity: a concrete stream, 3 lines (LF, CRLF, LF), tail ending *)
(* in CR, chunking that cuts between CR and LF and has empty chunks.   *)
(* ------------------------------------------------------------------ *)

Definition ex_lines : list bytes :=
  [ bs "ab"%string ++ [c_lf]; bs "c|d"%string ++ [c_cr; c_lf]; bs ""%string ++ [c_lf] ].
Definition ex_tail : bytes := bs "xy"%string ++ [c_cr].
Definition ex_chunks : list bytes :=
  [ bs "a"%string; []; bs "b"%string ++ [c_lf] ++ bs "c|d"%string ++ [c_cr]; [c_lf; c_lf] ++ bs "x"%string;
    []; bs "y"%string ++ [c_cr] ].

Lemma ex_clean : forall s,
  forallb (fun c => negb (is_boundary c) && is_ascii c) s = true -> clean s.
Proof.
  intros s. induction s as [|c s IH]; intros H.
  - exact clean_nil.
  - cbn [forallb] in H. apply andb_true_iff in H. destruct H as [Hc Hs].
    apply andb_true_iff in Hc. destruct Hc as [Hb Ha].
    apply negb_true_iff in Hb.
    constructor; [split; assumption | exact (IH Hs)].
Qed.

Example ex_hyps :
  Forall wf_line ex_lines /\ wf_tail ex_tail /\
  concat ex_chunks = concat ex_lines ++ ex_tail.
Proof.
  split; [|split].
  - unfold ex_lines. repeat constructor; apply ex_clean; vm_compute; reflexivity.
  - unfold ex_tail. apply tail_cr. apply ex_clean. vm_compute. reflexivity.
  - vm_compute. reflexivity.
Qed.

Example ex_feed_all_computed :
  feed_all [] ex_chunks = Some (ex_lines, ex_tail).
Proof. vm_compute. reflexivity. Qed.

Example ex_feed_all_by_theorem :
  feed_all [] ex_chunks = Some (ex_lines, ex_tail).
Proof.
  destruct ex_hyps as [H1 [H2 H3]].
  exact (feed_all_segmentation ex_lines ex_tail ex_chunks H1 H2 H3).
Qed.

(* the intermediate buffers really do include a tail cut between CR and LF *)
Example ex_cut_between_cr_lf :
  feed (bs "a"%string) (bs "b"%string ++ [c_lf] ++ bs "c|d"%string ++ [c_cr])
  = Some ([bs "ab"%string ++ [c_lf]], bs "c|d"%string ++ [c_cr]).
Proof. vm_compute. reflexivity. Qed.

Print Assumptions feed_all_segmentation.
Print Assumptions feed_single_chunk.
