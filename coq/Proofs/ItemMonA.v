(* Proofs/ItemMonA.v — two property monitors of the per-item LTS hold in every
   reachable state:
     skips_ok  (C02: a subscription is skipped only if a later request had already arrived)
     status_ok (C01: the reply of each request reports what happened to it)
   and the corollary latest_not_skipped. *)
From Coq Require Import String List Ascii NArith ZArith Bool Arith Lia.
From LS Require Import Model.Bytes Model.Tags Gen.Consts Model.Codec Model.Writers Model.AriReply
  Model.Item Model.ItemSpec.
From LS Require Proofs.ItemStruct Proofs.ItemFifo Proofs.ItemCode Proofs.ItemLso.
From LS Require Import Proofs.ItemInv.
(* only this one is imported (small library and step-inversion tactics); the others are used qualified *)
Import Proofs.ItemLso.
Import ListNotations.

Opaque error_reply write_update_map write_eos write_cls void_reply.

(* ================================================================== *)
(* 0. Generic: a property carried together with Inv along run_env       *)
(* ================================================================== *)

Lemma run_env_inv (P : istate -> Prop) :
  (forall s lb s', Inv s -> P s -> env_ok s lb = true -> step s lb = Some s' -> P s') ->
  forall ls s s', Inv s -> P s -> run_env s ls = Some s' -> P s'.
Proof.
  intros Hstep. induction ls as [|l ls IH]; intros s s' Hi Hp Hr; cbn [run_env] in Hr.
  - inversion Hr; subst; exact Hp.
  - unfold step_env in Hr. destruct (env_ok s l) eqn:He; [|discriminate].
    destruct (step s l) as [s1|] eqn:Hs; [|discriminate].
    eapply IH; [| |exact Hr].
    + eapply Inv_step; eassumption.
    + eapply Hstep; eassumption.
Qed.

Lemma reachable_inv (P : istate -> Prop) :
  (forall item, P (init_state item)) ->
  (forall s lb s', Inv s -> P s -> env_ok s lb = true -> step s lb = Some s' -> P s') ->
  forall item s, reachable item s -> P s.
Proof.
  intros Hinit Hstep item s [ls Hr].
  eapply (run_env_inv P Hstep); [apply Inv_init|apply Hinit|exact Hr].
Qed.

(* ================================================================== *)
(* 1. skips_ok                                                          *)
(* ================================================================== *)

(* the monitor's state after h (started with a) is a ++ arrived h *)
Lemma skips_ok_from_app h es : forall a,
  skips_ok_from a (h ++ es) = skips_ok_from a h && skips_ok_from (a ++ arrived h) es.
Proof.
  induction h as [|e r IH]; intros a.
  - cbn [app skips_ok_from arrived andb]. rewrite app_nil_r. reflexivity.
  - rewrite <- app_comm_cons.
    destruct e; try (cbn [skips_ok_from arrived]; apply IH).
    + cbn [skips_ok_from arrived]. rewrite IH, <- app_assoc. reflexivity.
    + cbn [skips_ok_from arrived]. destruct (last_task a) as [u|]; [|reflexivity].
      rewrite IH, !andb_assoc. reflexivity.
Qed.

(* events that the monitor ignores or only records *)
Definition noskip (es : list event) : Prop := forall a, skips_ok_from a es = true.

(* the linking invariant is the monitor itself: its state is a function of the history *)
Definition inv_skips (s : istate) : Prop := skips_ok (s_hist s) = true.

Lemma inv_skips_init : forall item, inv_skips (init_state item).
Proof. intros item. reflexivity. Qed.

Lemma inv_skips_ok : forall s, inv_skips s -> skips_ok (s_hist s) = true.
Proof. intros s H. exact H. Qed.

Lemma skips_append s s' es :
  inv_skips s -> s_hist s' = s_hist s ++ es ->
  skips_ok_from (arrived (s_hist s)) es = true -> inv_skips s'.
Proof.
  unfold inv_skips, skips_ok. intros Hk Hh He.
  rewrite Hh, skips_ok_from_app, Hk. exact He.
Qed.

Ltac fin_noskip :=
  cbn [s_hist log set_dq set_mgr set_lis];
  first [ exists (@nil event); split; [symmetry; apply app_nil_r | intros ?; reflexivity]
        | eexists; split; [reflexivity | intros ?; reflexivity] ].

(* every label but LockI appends events the monitor does not check *)
Lemma step_noskip s lb s' :
  (forall j, lb <> LbLockI j) -> step s lb = Some s' ->
  exists es, s_hist s' = s_hist s ++ es /\ noskip es.
Proof.
  intros Hnl H. unfold noskip. destruct lb; cbn [step] in H.
  - unfold step_R1 in H. destr_H H; inversion H; subst; clear H; fin_noskip.
  - unfold step_R2 in H. destr_H H; inversion H; subst; clear H; fin_noskip.
  - unfold step_JobStart in H. destr_H H; inversion H; subst; clear H; fin_noskip.
  - exfalso. eapply Hnl. reflexivity.
  - unfold step_LockM in H. destr_H H; inversion H; subst; clear H; fin_noskip.
  - unfold step_Put, listener_put in H. destr_H H; inversion H; subst; clear H; fin_noskip.
  - unfold step_CallB in H. destr_H H; inversion H; subst; clear H; fin_noskip.
  - unfold step_CallE in H. destr_H H; inversion H; subst; clear H; fin_noskip.
  - unfold step_Nest in H. destr_H H; inversion H; subst; clear H; fin_noskip.
  - unfold step_FreeBegin in H. destr_H H; inversion H; subst; clear H; fin_noskip.
  - unfold step_FreeLockM in H. destr_H H; inversion H; subst; clear H; fin_noskip.
  - unfold step_FreePut, listener_put in H. destr_H H; inversion H; subst; clear H; fin_noskip.
Qed.

Lemma task_eqb_neq u t : u <> t -> task_eqb u t = false.
Proof.
  intros Hn. destruct (task_eqb u t) eqn:E; [|reflexivity].
  exfalso. apply Hn. apply ItemFifo.task_eqb_eq. exact E.
Qed.

Lemma nodup_map_app_disj (a b : list task) x :
  NoDup (map t_rid (a ++ b)) -> In x a -> In x b -> False.
Proof.
  induction a as [|y a IH]; intros Hnd Ha Hb; [destruct Ha|].
  cbn [app map] in Hnd. inversion Hnd as [|? ? Hy Hnd']; subst.
  destruct Ha as [->|Ha].
  - apply Hy. rewrite map_app. apply in_or_app. right. apply in_map. exact Hb.
  - apply IH; assumption.
Qed.

(* the check made when ESkip t is logged: t is in the list, something else is last *)
Lemma skip_here (arr rep tail : list task) t t2 :
  arr = rep ++ t :: t2 :: tail -> NoDup (map t_rid arr) ->
  match last_task arr with
  | Some u => negb (task_eqb u t) && existsb (task_eqb t) arr && true
  | None => false
  end = true.
Proof.
  intros -> Hnd.
  rewrite ItemFifo.last_task_app by discriminate.
  change (last_task (t :: t2 :: tail)) with (last_task (t2 :: tail)).
  destruct (last_task_cons tail t2) as [u Hu]. rewrite Hu.
  apply ItemFifo.last_task_In in Hu.
  assert (Hne : u <> t).
  { intros ->.
    apply (nodup_map_app_disj (rep ++ [t]) (t2 :: tail) t).
    - rewrite <- app_assoc. exact Hnd.
    - apply in_or_app. right. left. reflexivity.
    - exact Hu. }
  rewrite (task_eqb_neq _ _ Hne). cbn [negb andb]. rewrite andb_true_r.
  apply ItemFifo.existsb_task_eqb_In. apply in_or_app. right. left. reflexivity.
Qed.

Lemma arrived_nodup s :
  inv_rids s = true -> inv_fifo s = true -> NoDup (map t_rid (arrived (s_hist s))).
Proof.
  intros Hr Hf. apply ItemFifo.rids_iff in Hr. destruct Hr as (_ & Hn & _).
  apply ItemFifo.fifo_iff in Hf. destruct Hf as [_ Hdr].
  rewrite <- (ItemFifo.seen_no_drop _ Hdr). apply ItemFifo.nodup_rids_NoDup. exact Hn.
Qed.

Lemma skips_LockI s j s' :
  inv_all s = true -> inv_skips s -> step_LockI s j = Some s' -> inv_skips s'.
Proof.
  intros Hinv Hk H. split_inv Hinv. unfold step_LockI in H.
  job_prelude H s j d m.
  destruct (m_deq m) as [|t rest] eqn:Hdeq.
  - inversion H; subst; clear H. exact Hk.
  - destruct (t_sub t) eqn:Hsub; [destruct rest as [|t2 rest2]|];
      cbn [is_nil negb andb] in H; inversion H; subst; clear H; try exact Hk.
    eapply (skips_append s _ [ESkip t]); [exact Hk|reflexivity|].
    cbn [skips_ok_from].
    pose proof (proj1 (ItemFifo.fifo_iff s) Hfifo) as [Hf _].
    unfold ItemFifo.mach in Hf.
    rewrite (ItemFifo.inhand_at s j d Hsingle Hd Hi) in Hf.
    unfold ItemFifo.hand in Hf. rewrite Hpc in Hf. cbn [inhand_pc app] in Hf.
    unfold deque_tasks in Hf. rewrite (active_mgr_at _ _ Ha), Hm, Hdeq in Hf.
    apply (skip_here _ (replied (s_hist s)) (rest2 ++ pending_tasks s) t t2).
    + exact Hf.
    + apply arrived_nodup; assumption.
Qed.

Lemma inv_skips_step : forall s lb s',
  Inv s -> inv_skips s -> env_ok s lb = true -> step s lb = Some s' -> inv_skips s'.
Proof.
  intros s lb s' HI Hk _ H.
  assert (Hd : (exists j, lb = LbLockI j) \/ (forall j, lb <> LbLockI j)).
  { destruct lb; try (right; intros; discriminate). left. eexists. reflexivity. }
  destruct Hd as [[j ->]|Hn].
  - cbn [step] in H. eapply skips_LockI; [apply Inv_all; exact HI|exact Hk|exact H].
  - destruct (step_noskip _ _ _ Hn H) as [es [Hh Hes]].
    eapply skips_append; [exact Hk|exact Hh|apply Hes].
Qed.

Theorem skips_ok_reachable : forall item s, reachable item s -> skips_ok (s_hist s) = true.
Proof.
  intros item s Hr. apply inv_skips_ok.
  apply (reachable_inv inv_skips inv_skips_init inv_skips_step item s Hr).
Qed.

(* ---------- the corollary ---------- *)
Lemma skip_not_last t h : forall a,
  skips_ok_from a h = true -> NoDup (map t_rid (a ++ arrived h)) -> In (ESkip t) h ->
  last_task (a ++ arrived h) <> Some t.
Proof.
  induction h as [|e r IH]; intros a Hk Hnd Hin; [destruct Hin|].
  destruct Hin as [He|Hin].
  - subst e. cbn [skips_ok_from arrived] in *.
    destruct (last_task a) as [u|] eqn:Hu; [|discriminate].
    rewrite !andb_true_iff in Hk. destruct Hk as [[Hne Hex] _].
    apply ItemFifo.existsb_task_eqb_In in Hex.
    destruct (arrived r) as [|x q] eqn:Har.
    + rewrite app_nil_r, Hu. intros E. inversion E; subst.
      rewrite ItemFifo.task_eqb_rfl in Hne. discriminate.
    + rewrite ItemFifo.last_task_app by discriminate. intros E.
      apply ItemFifo.last_task_In in E.
      exact (nodup_map_app_disj _ _ _ Hnd Hex E).
  - destruct e; cbn [skips_ok_from arrived] in *; try (apply IH; assumption).
    + replace (a ++ t0 :: arrived r) with ((a ++ [t0]) ++ arrived r) in *
        by (rewrite <- app_assoc; reflexivity).
      apply IH; assumption.
    + destruct (last_task a) as [u|]; [|discriminate].
      rewrite !andb_true_iff in Hk. destruct Hk as [_ Hk]. apply IH; assumption.
Qed.

(* the latest request of the item, if it is a subscription, is never skipped *)
Theorem latest_not_skipped : forall item s t,
  reachable item s -> In (ESkip t) (s_hist s) -> last_task (arrived (s_hist s)) <> Some t.
Proof.
  intros item s t Hr Hin.
  pose proof (skips_ok_reachable item s Hr) as Hk.
  pose proof (Inv_all _ (reachable_Inv item s Hr)) as Hinv. split_inv Hinv.
  apply (skip_not_last t (s_hist s) [] Hk); [|exact Hin].
  cbn [app]. apply arrived_nodup; assumption.
Qed.

(* ================================================================== *)
(* 2. status_ok                                                         *)
(* ================================================================== *)

(* ---------- the monitor as a state machine ---------- *)
Definition want_line (cur : option (task * tstat)) (t : task) : option bytes :=
  match cur with
  | Some (u, TsSkipped) =>
      if task_eqb u t then reply_line t (error_reply MSUB late_exn) else None
  | Some (u, TsOutcome o) =>
      if task_eqb u t then reply_line t (outcome_payload t o)
      else if t_sub t then None else reply_line t (WOk (void_reply MUSB))
  | None => if t_sub t then None else reply_line t (WOk (void_reply MUSB))
  end.

Lemma status_reply_unfold cur t line r :
  status_ok_from cur (EReply t line :: r) =
  match want_line cur t with
  | Some w => bytes_eqb w line && status_ok_from None r
  | None => false
  end.
Proof. reflexivity. Qed.

Definition cur_step (cur : option (task * tstat)) (e : event) : option (task * tstat) :=
  match e with
  | ESkip t => Some (t, TsSkipped)
  | ECallE KSnap t (CRaise x) => Some (t, TsOutcome (CRaise x))
  | ECallE KSnap t (CRet _) => cur
  | ECallE _ t o => Some (t, TsOutcome o)
  | EReply _ _ => None
  | _ => cur
  end.

(* the monitor's state after a history *)
Fixpoint cur_after (cur : option (task * tstat)) (h : list event) : option (task * tstat) :=
  match h with
  | [] => cur
  | e :: r => cur_after (cur_step cur e) r
  end.

Lemma cur_after_app h es : forall c, cur_after c (h ++ es) = cur_after (cur_after c h) es.
Proof. induction h as [|e r IH]; intros c; [reflexivity|]. cbn [app cur_after]. apply IH. Qed.

Lemma status_ok_from_app h es : forall c,
  status_ok_from c (h ++ es) = status_ok_from c h && status_ok_from (cur_after c h) es.
Proof.
  induction h as [|e r IH]; intros c; [reflexivity|].
  rewrite <- app_comm_cons.
  destruct e; try (cbn [status_ok_from cur_after cur_step]; apply IH).
  - destruct c0, o; cbn [status_ok_from cur_after cur_step]; apply IH.
  - rewrite !status_reply_unfold. cbn [cur_after cur_step].
    destruct (want_line c t); [|reflexivity]. rewrite IH, andb_assoc. reflexivity.
Qed.

(* appending es takes the monitor from state c to state c' without failing *)
Definition stp (c : option (task * tstat)) (es : list event) (c' : option (task * tstat)) : Prop :=
  status_ok_from c es = true /\ cur_after c es = c'.

(* ---------- the linking invariant ---------- *)
(* what the job knows about the task it holds *)
Definition cur_pc (p : pc) : list (task * tstat) :=
  match p with
  | PLate t => [(t, TsSkipped)]
  | PReply t o => [(t, TsOutcome o)]
  | _ => []
  end.

Definition curs (s : istate) : list (task * tstat) :=
  flat_map (fun d => cur_pc (d_pc d)) (s_dqs s).

Definition inv_status (s : istate) : Prop :=
  status_ok (s_hist s) = true /\ cur_after None (s_hist s) = hd_error (curs s).

Lemma inv_status_init : forall item, inv_status (init_state item).
Proof. intros item. split; reflexivity. Qed.

Lemma inv_status_ok : forall s, inv_status s -> status_ok (s_hist s) = true.
Proof. intros s [H _]. exact H. Qed.

Lemma out_cur x : inloop x = false -> cur_pc (d_pc x) = [].
Proof. unfold inloop. destruct (d_pc x); simpl; congruence. Qed.

Lemma status_append s s' es :
  inv_status s -> s_hist s' = s_hist s ++ es ->
  stp (hd_error (curs s)) es (hd_error (curs s')) -> inv_status s'.
Proof.
  unfold inv_status, status_ok. intros [Hk Hc] Hh [H1 H2].
  rewrite Hh, status_ok_from_app, cur_after_app, Hk, Hc. split; assumption.
Qed.

(* a step of the job in the loop reduces to a statement on pcs and events *)
Lemma status_job s s' j d d' es :
  inv_single s = true -> inv_status s ->
  nth_error (s_dqs s) j = Some d -> inloop d = true ->
  s_dqs s' = upd j d' (s_dqs s) -> s_hist s' = s_hist s ++ es ->
  stp (hd_error (cur_pc (d_pc d))) es (hd_error (cur_pc (d_pc d'))) ->
  inv_status s'.
Proof.
  intros Hs Hc Hd Hi Hdq Hh Hst.
  apply (status_append s s' es Hc Hh).
  assert (E1 : curs s = cur_pc (d_pc d)).
  { unfold curs. rewrite <- (upd_same j d (s_dqs s) Hd) at 1.
    apply (flat_map_upd_uniq _ _ _ _ d out_cur (single_le _ Hs) Hd Hi). }
  assert (E2 : curs s' = cur_pc (d_pc d')).
  { unfold curs. rewrite Hdq.
    apply (flat_map_upd_uniq _ _ _ _ d' out_cur (single_le _ Hs) Hd Hi). }
  rewrite E1, E2. exact Hst.
Qed.

(* a step that does not move the job in the loop *)
Lemma status_same s s' es :
  inv_status s -> curs s' = curs s -> s_hist s' = s_hist s ++ es ->
  (forall c, stp c es c) -> inv_status s'.
Proof.
  intros Hc Hcs Hh Hn. apply (status_append s s' es Hc Hh). rewrite Hcs. apply Hn.
Qed.

Ltac status_job_tac s j d :=
  match goal with
  | Hsingle : inv_single s = true, Hc : inv_status s,
    Hd : nth_error (s_dqs s) j = Some d, Hi : inloop d = true |- _ =>
      eapply (status_job s _ j d);
      [exact Hsingle|exact Hc|exact Hd|exact Hi|reflexivity
      |first [reflexivity | symmetry; apply app_nil_r]
      |]
  end.

Ltac stp_refl Hpc := rewrite Hpc; cbn [d_pc with_pc]; split; reflexivity.

Ltac status_same_tac s es :=
  match goal with
  | Hc : inv_status s |- _ =>
      eapply (status_same s _ es);
      [exact Hc|try reflexivity
      |first [reflexivity | symmetry; apply app_nil_r]
      |intros ?; split; reflexivity]
  end.

(* ---------- per-label lemmas ---------- *)
Lemma status_JobStart s j s' :
  inv_all s = true -> inv_status s -> step_JobStart s j = Some s' -> inv_status s'.
Proof.
  intros Hinv Hc H. split_inv Hinv. unfold step_JobStart in H.
  job_prelude H s j d m; inversion H; subst; clear H.
  status_job_tac s j d. stp_refl Hpc.
Qed.

Lemma status_Nest s j k s' :
  inv_all s = true -> inv_status s -> step_Nest s j k = Some s' -> inv_status s'.
Proof.
  intros Hinv Hc H. split_inv Hinv. unfold step_Nest in H.
  job_prelude H s j d m; inversion H; subst; clear H;
    status_job_tac s j d; stp_refl Hpc.
Qed.

Lemma status_CallB s j s' :
  inv_all s = true -> inv_status s -> step_CallB s j = Some s' -> inv_status s'.
Proof.
  intros Hinv Hc H. split_inv Hinv. unfold step_CallB in H.
  job_prelude H s j d m; inversion H; subst; clear H;
    status_job_tac s j d; stp_refl Hpc.
Qed.

Lemma status_CallE s j o s' :
  inv_all s = true -> inv_status s -> step_CallE s j o = Some s' -> inv_status s'.
Proof.
  intros Hinv Hc H. split_inv Hinv. unfold step_CallE in H.
  job_prelude H s j d m; inversion H; subst; clear H;
    status_job_tac s j d.
  - destruct o as [[|]|e]; stp_refl Hpc.
  - destruct o as [b|e]; stp_refl Hpc.
  - destruct o as [b|e]; stp_refl Hpc.
Qed.

Lemma status_LockI s j s' :
  inv_all s = true -> inv_status s -> step_LockI s j = Some s' -> inv_status s'.
Proof.
  intros Hinv Hc H. split_inv Hinv. unfold step_LockI in H.
  job_prelude H s j d m.
  destruct (m_deq m) as [|t rest] eqn:Hdeq.
  - inversion H; subst; clear H. status_job_tac s j d. stp_refl Hpc.
  - destruct (t_sub t) eqn:Hsub; [destruct rest as [|t2 rest2]|];
      cbn [is_nil negb andb] in H.
    + inversion H; subst; clear H. status_job_tac s j d. stp_refl Hpc.
    + inversion H; subst; clear H. status_job_tac s j d. stp_refl Hpc.
    + destruct (if Z.eqb (d_dequeued d) 0 then m_last_ok m else d_lso d);
        inversion H; subst; clear H; status_job_tac s j d; stp_refl Hpc.
Qed.

(* the reply of a task whose status the monitor knows *)
Lemma stp_reply c t line :
  want_line c t = Some line -> stp c [EReply t line] None.
Proof.
  intros Hw. split; [|reflexivity].
  rewrite status_reply_unfold, Hw, ItemFifo.bytes_eqb_rfl. reflexivity.
Qed.

Lemma status_Put s j s' :
  inv_all s = true -> ItemFifo.inv_usb s = true -> inv_status s ->
  step_Put s j = Some s' -> inv_status s'.
Proof.
  intros Hinv Husb Hc H. split_inv Hinv. unfold step_Put, listener_put in H.
  job_prelude H s j d m; destr_H H; inversion H; subst; clear H;
    status_job_tac s j d; try (stp_refl Hpc; fail).
  - (* PLate *)
    rewrite Hpc. cbn [d_pc with_pc cur_pc hd_error]. apply stp_reply.
    unfold want_line. rewrite ItemFifo.task_eqb_rfl. assumption.
  - (* PNestPut *)
    destruct insub; stp_refl Hpc.
  - (* PReply *)
    rewrite Hpc.
    assert (X : hd_error (cur_pc (d_pc (with_pc d (if t_sub t then PTop else PClear)))) = None)
      by (destruct (t_sub t); reflexivity).
    rewrite X. cbn [cur_pc hd_error]. apply stp_reply.
    unfold want_line. rewrite ItemFifo.task_eqb_rfl. assumption.
  - (* PUsbLate *)
    pose proof (proj1 (ItemFifo.usb_iff s) Husb j d Hd) as Hu.
    rewrite Hpc in Hu. cbn [ItemFifo.pc_usb_ok] in Hu. apply negb_true_iff in Hu.
    rewrite Hpc. cbn [d_pc with_pc cur_pc hd_error]. apply stp_reply.
    unfold want_line. rewrite Hu. assumption.
Qed.

Lemma status_LockM_in s j s' d :
  inv_all s = true -> inv_status s -> nth_error (s_dqs s) j = Some d -> inloop d = true ->
  step_LockM s j = Some s' -> inv_status s'.
Proof.
  intros Hinv Hc Hd Hi H. split_inv Hinv. unfold step_LockM in H. rewrite Hd in H.
  destruct (gen_live _ _ _ Hgen Hd (inloop_live _ Hi)) as [Ha [m Hm]].
  rewrite Hm in H.
  destruct (d_pc d) eqn:Hpc; try discriminate H;
    try (unfold inloop in Hi; rewrite Hpc in Hi; discriminate Hi);
    destr_H H; inversion H; subst; clear H;
    status_job_tac s j d; try (stp_refl Hpc; fail).
  destruct insub; stp_refl Hpc.
Qed.

Lemma status_LockM s j s' :
  inv_all s = true -> inv_status s -> step_LockM s j = Some s' -> inv_status s'.
Proof.
  intros Hinv Hc H.
  destruct (nth_error (s_dqs s) j) as [d|] eqn:Hd;
    [|unfold step_LockM in H; rewrite Hd in H; discriminate].
  destruct (inloop d) eqn:Hi; [eapply status_LockM_in; eauto|].
  split_inv Hinv. unfold step_LockM in H. rewrite Hd in H.
  unfold inloop in Hi.
  destruct (d_pc d) eqn:Hpc; try discriminate H; try discriminate Hi.
  assert (Hl : live_dq d = true) by (unfold live_dq; rewrite Hpc; reflexivity).
  destruct (gen_live _ _ _ Hgen Hd Hl) as [Ha [m Hm]].
  rewrite Hm in H.
  assert (X : flat_map (fun d => cur_pc (d_pc d)) (upd j (with_pc d PDone) (s_dqs s)) =
              flat_map (fun d => cur_pc (d_pc d)) (s_dqs s))
    by (apply (flat_map_upd_same _ _ _ _ _ Hd); cbn; rewrite Hpc; reflexivity).
  match type of H with (if ?c then _ else _) = _ => destruct c end;
    inversion H; subst; clear H.
  - status_same_tac s [EDel]. exact X.
  - status_same_tac s (@nil event). exact X.
Qed.

Lemma status_R1 s t s' :
  inv_status s -> step_R1 s t = Some s' -> inv_status s'.
Proof.
  intros Hc H. unfold step_R1 in H. destr_H H; inversion H; subst; clear H.
  - status_same_tac s [EArr t].
  - status_same_tac s [EArr t].
  - status_same_tac s [EArrDropped t].
Qed.

Lemma status_R2 s s' :
  inv_status s -> step_R2 s = Some s' -> inv_status s'.
Proof.
  intros Hc H. unfold step_R2 in H.
  destruct (s_pending s) as [[t g]|]; try discriminate.
  destruct (nth_error (s_mgrs s) g) as [m|]; try discriminate.
  destruct (m_running m); inversion H; subst; clear H.
  - status_same_tac s (@nil event).
  - status_same_tac s (@nil event).
    unfold curs. cbn [s_dqs set_mgr]. rewrite flat_map_app. cbn. apply app_nil_r.
Qed.

Lemma status_FreeBegin s l k s' :
  inv_status s -> step_FreeBegin s l k = Some s' -> inv_status s'.
Proof.
  intros Hc H. unfold step_FreeBegin in H.
  destr_H H; inversion H; subst; clear H; status_same_tac s [ELisB (OFree l) k].
Qed.

Lemma status_FreeLockM s l s' :
  inv_status s -> step_FreeLockM s l = Some s' -> inv_status s'.
Proof.
  intros Hc H. unfold step_FreeLockM in H.
  destr_H H; inversion H; subst; clear H.
  - status_same_tac s (@nil event).
  - status_same_tac s [ELisDropped (OFree l) k].
Qed.

Lemma status_FreePut s l s' :
  inv_status s -> step_FreePut s l = Some s' -> inv_status s'.
Proof.
  intros Hc H. unfold step_FreePut, listener_put in H.
  destr_H H; inversion H; subst; clear H.
  status_same_tac s [ENotif (OFree l) k b a].
Qed.

Lemma inv_status_step : forall s lb s',
  Inv s -> inv_status s -> env_ok s lb = true -> step s lb = Some s' -> inv_status s'.
Proof.
  intros s lb s' HI Hc _ H.
  pose proof (Inv_all _ HI) as Hinv.
  assert (Husb : ItemFifo.inv_usb s = true) by (destruct HI as (_ & _ & _ & Hu & _); exact Hu).
  destruct lb; cbn [step] in H.
  - eapply status_R1; eauto.
  - eapply status_R2; eauto.
  - eapply status_JobStart; eauto.
  - eapply status_LockI; eauto.
  - eapply status_LockM; eauto.
  - eapply status_Put; eauto.
  - eapply status_CallB; eauto.
  - eapply status_CallE; eauto.
  - eapply status_Nest; eauto.
  - eapply status_FreeBegin; eauto.
  - eapply status_FreeLockM; eauto.
  - eapply status_FreePut; eauto.
Qed.

Theorem status_ok_reachable : forall item s, reachable item s -> status_ok (s_hist s) = true.
Proof.
  intros item s Hr. apply inv_status_ok.
  apply (reachable_inv inv_status inv_status_init inv_status_step item s Hr).
Qed.

Print Assumptions skips_ok_reachable.
Print Assumptions status_ok_reachable.
Print Assumptions latest_not_skipped.
