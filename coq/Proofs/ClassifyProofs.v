(* Proofs/ClassifyProofs.v — the abstraction from concrete lines to line classes agrees with
   the ARI encoding: a well-formed encoded request is classified as a well-formed known
   request with ITS id. *)
From Coq Require Import String List Ascii NArith ZArith Bool Lia.
From LS Require Import Model.Bytes Model.Tags Gen.Consts Model.Codec Model.Readers Model.Writers
                       Model.AriSpec Model.AriReply Model.Init Model.MetaHandlers Model.Classify
                       Proofs.BytesProofs Proofs.ReadersRoundtrip.
Import ListNotations.

Lemma meta_handler_of_name : forall m, post_init_meta m = true -> meta_handler_of (meth_name m) = Some m.
Proof. intros m H. destruct m; try discriminate H; vm_compute; reflexivity. Qed.

Lemma post_init_not_close_init : forall m k, post_init_meta m = true ->
  bytes_eqb (meth_name m) (meth_name MCLOSE) = false /\
  bytes_eqb (meth_name m) (meth_name (init_method k)) = false.
Proof. intros m k H. destruct m; try discriminate H; destruct k; split; vm_compute; reflexivity. Qed.

Theorem classify_encoded_meta : forall id m q term,
  wf_id id = true -> post_init_meta m = true -> shape_ok m q = true -> ints_ok q ->
  forallb is_space term = true ->
  classify KMeta (encode_line id m q term) = CReq id true true.
Proof.
  intros id m q term Hid Hm Hs Hi Ht. unfold classify.
  rewrite parse_request_encode_line by assumption. cbn [p_id p_method p_data].
  destruct (post_init_not_close_init m KMeta Hm) as [E1 E2]. rewrite E1, E2.
  rewrite meta_handler_of_name by exact Hm.
  rewrite read_request_enc by assumption. reflexivity.
Qed.

Theorem classify_encoded_data : forall id m q term,
  wf_id id = true -> (m = MSUB \/ m = MUSB) -> shape_ok m q = true -> ints_ok q ->
  forallb is_space term = true ->
  classify KData (encode_line id m q term) = CReq id true true.
Proof.
  intros id m q term Hid Hm Hs Hi Ht. unfold classify.
  rewrite parse_request_encode_line by assumption. cbn [p_id p_method p_data].
  destruct Hm as [-> | ->].
  - replace (bytes_eqb (meth_name MSUB) (meth_name MCLOSE)) with false by (vm_compute; reflexivity).
    replace (bytes_eqb (meth_name MSUB) (meth_name (init_method KData))) with false by (vm_compute; reflexivity).
    replace (bytes_eqb (meth_name MSUB) (meth_name MSUB)) with true by (vm_compute; reflexivity).
    rewrite read_request_enc by assumption. reflexivity.
  - replace (bytes_eqb (meth_name MUSB) (meth_name MCLOSE)) with false by (vm_compute; reflexivity).
    replace (bytes_eqb (meth_name MUSB) (meth_name (init_method KData))) with false by (vm_compute; reflexivity).
    replace (bytes_eqb (meth_name MUSB) (meth_name MSUB)) with false by (vm_compute; reflexivity).
    replace (bytes_eqb (meth_name MUSB) (meth_name MUSB)) with true by (vm_compute; reflexivity).
    rewrite read_request_enc by assumption. reflexivity.
Qed.

(* an encoded init request: well-formed; refused exactly when the version negotiation of
   Model/Init.v raises; "old" exactly when the agreed version is 1.8.0 or 1.8.2 *)
Theorem classify_encoded_init : forall k id q term,
  wf_id id = true -> shape_ok (init_method k) q = true -> ints_ok q ->
  forallb is_space term = true ->
  exists proxy, expected q = QInit proxy /\
  classify k (encode_line id (init_method k) q term) =
    match negotiate k (match dict_get (okey ari_version_key) proxy with Some (Some v) => Some v | _ => None end) with
    | inr _ => CInit id true true false
    | inl adv => CInit id true false (bytes_eqb adv (bs "1.8.0") || bytes_eqb adv (bs "1.8.2"))
    end.
Proof.
  intros k id q term Hid Hs Hi Ht.
  assert (Hq : exists proxy, expected q = QInit proxy).
  { destruct k; destruct q; try discriminate Hs; eexists; reflexivity. }
  destruct Hq as [proxy Hq]. exists proxy. split; [exact Hq|].
  unfold classify. rewrite parse_request_encode_line by assumption. cbn [p_id p_method p_data].
  replace (bytes_eqb (meth_name (init_method k)) (meth_name MCLOSE)) with false by (destruct k; vm_compute; reflexivity).
  replace (bytes_eqb (meth_name (init_method k)) (meth_name (init_method k))) with true by (destruct k; vm_compute; reflexivity).
  unfold init_class. rewrite read_request_enc by assumption. rewrite Hq. reflexivity.
Qed.


(* a request of a known post-init method whose reader raises is classified "known, not well-formed"
   (the class the connection-level model rejects without touching pool or adapter) *)
Theorem classify_malformed_meta : forall line p m msg,
  parse_request line = Some p -> post_init_meta m = true -> p_method p = meth_name m ->
  read_request m (p_data p) = PErr msg ->
  classify KMeta line = CReq (p_id p) false true.
Proof.
  intros line p m msg Hp Hm Hn Hr. unfold classify. rewrite Hp, Hn.
  destruct (post_init_not_close_init m KMeta Hm) as [E1 E2]. rewrite E1, E2.
  rewrite meta_handler_of_name by exact Hm. rewrite Hr. reflexivity.
Qed.

Theorem classify_malformed_data : forall line p m msg,
  parse_request line = Some p -> (m = MSUB \/ m = MUSB) -> p_method p = meth_name m ->
  read_request m (p_data p) = PErr msg ->
  classify KData line = CReq (p_id p) false true.
Proof.
  intros line p m msg Hp Hm Hn Hr. unfold classify. rewrite Hp, Hn.
  destruct Hm as [-> | ->].
  - replace (bytes_eqb (meth_name MSUB) (meth_name MCLOSE)) with false by (vm_compute; reflexivity).
    replace (bytes_eqb (meth_name MSUB) (meth_name (init_method KData))) with false by (vm_compute; reflexivity).
    replace (bytes_eqb (meth_name MSUB) (meth_name MSUB)) with true by (vm_compute; reflexivity).
    rewrite Hr. reflexivity.
  - replace (bytes_eqb (meth_name MUSB) (meth_name MCLOSE)) with false by (vm_compute; reflexivity).
    replace (bytes_eqb (meth_name MUSB) (meth_name (init_method KData))) with false by (vm_compute; reflexivity).
    replace (bytes_eqb (meth_name MUSB) (meth_name MSUB)) with false by (vm_compute; reflexivity).
    replace (bytes_eqb (meth_name MUSB) (meth_name MUSB)) with true by (vm_compute; reflexivity).
    rewrite Hr. reflexivity.
Qed.

(* lines parse_request discards are garbage for both kinds *)
Theorem classify_garbage : forall k line, parse_request line = None -> classify k line = CGarbage.
Proof. intros k line H. unfold classify. rewrite H. reflexivity. Qed.

(* the classification never depends on the terminator *)
Theorem classify_term_indep : forall k body w, forallb is_space w = true ->
  classify k (body ++ w) = classify k body.
Proof. intros k body w H. unfold classify. rewrite parse_request_app_space by exact H. reflexivity. Qed.

(* the close request as the Proxy Adapter sends it *)
Example classify_close_examples :
  classify KMeta (bs "0|CLOSE") = CClose true true /\
  classify KData (bs "0|CLOSE|S|reason|S|shutdown") = CClose true true /\
  classify KData (bs "7|CLOSE") = CClose false true /\
  classify KMeta (bs "0|CLOSE|X|reason|S|x") = CClose true false /\
  classify KMeta (bs "justonetoken") = CGarbage /\
  classify KMeta (bs "5|nus|S|u|S|p") = CReq (bs "5") true true /\
  classify KMeta (bs "5|SUB|S|i") = CReq (bs "5") true false /\
  classify KData (bs "5|SUB|S") = CReq (bs "5") false true.
Proof. vm_compute. repeat split; reflexivity. Qed.

Print Assumptions classify_encoded_meta.
Print Assumptions classify_encoded_data.
Print Assumptions classify_encoded_init.
Print Assumptions classify_malformed_meta.
Print Assumptions classify_malformed_data.
Print Assumptions classify_garbage.
Print Assumptions classify_term_indep.
Print Assumptions classify_close_examples.
