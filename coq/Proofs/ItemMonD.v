(* Proofs/ItemMonD.v — call order (C02) and the quiescent state (C19) of the
   per-item LTS (Model/Item.v):
     order_ok_reachable        adapter calls / skips concern the oldest unanswered request
     kinds_ok_reachable        snapshot query and subscribe for a SUB, unsubscribe for a USB
     latest_sub_published      C02: the latest subscription is executed, not skipped
     quiescent_after_usb_clean C19: nothing is retained after the last unsubscription
     nothing_seen_clean        C19: nothing is retained before any request *)
From Coq Require Import String List Ascii NArith ZArith Bool Arith Lia.
From LS Require Import Model.Bytes Model.Tags Gen.Consts Model.Codec Model.Writers Model.AriReply
  Model.Item Model.ItemSpec Model.ItemSpec2.
From LS Require Proofs.ItemStruct Proofs.ItemFifo Proofs.ItemCode Proofs.ItemLso.
From LS Require Import Proofs.ItemInv.
(* only this one is imported (small library and step-inversion tactics); the others are used qualified *)
Import Proofs.ItemLso.
Import ListNotations.

Opaque error_reply write_update_map write_eos write_cls void_reply.

(* ================================================================== *)
(* 0. Generic: a property carried together with Inv along run_env       *)
(* ================================================================== *)

Lemma run_env_inv (P : istate -> Prop) :
  (forall s lb s', Inv s -> P s -> env_ok s lb = true -> step s lb = Some s' -> P s') ->
  forall ls s s', Inv s -> P s -> run_env s ls = Some s' -> P s'.
Proof.
  intros Hstep. induction ls as [|l ls IH]; intros s s' Hi Hp Hr; cbn [run_env] in Hr.
  - inversion Hr; subst; exact Hp.
  - unfold step_env in Hr. destruct (env_ok s l) eqn:He; [|discriminate].
    destruct (step s l) as [s1|] eqn:Hs; [|discriminate].
    eapply IH; [| |exact Hr].
    + eapply Inv_step; eassumption.
    + eapply Hstep; eassumption.
Qed.

Lemma reachable_inv (P : istate -> Prop) :
  (forall item, P (init_state item)) ->
  (forall s lb s', Inv s -> P s -> env_ok s lb = true -> step s lb = Some s' -> P s') ->
  forall item s, reachable item s -> P s.
Proof.
  intros Hinit Hstep item s [ls Hr].
  eapply (run_env_inv P Hstep); [apply Inv_init|apply Hinit|exact Hr].
Qed.

(* ================================================================== *)
(* 1. Where the checked events come from                                *)
(* ================================================================== *)

Definition callb_pc (c : callk) (t : task) : pc :=
  match c with KSnap => PSnapB t | KSub => PSubB t | KUsb => PUsbB t end.

(* the job that logs an event the monitors of this file look at *)
Definition ev_src (s : istate) (e : event) : Prop :=
  match e with
  | ESetCode t => exists j d, nth_error (s_dqs s) j = Some d /\ d_pc d = PSetCode t
  | ECallB c t => exists j d, nth_error (s_dqs s) j = Some d /\ d_pc d = callb_pc c t
  | ESkip t => exists j d m t2 rest, nth_error (s_dqs s) j = Some d /\ d_pc d = PTop /\
                 nth_error (s_mgrs s) (d_gen d) = Some m /\ m_deq m = t :: t2 :: rest
  | _ => True
  end.

Definition plain (e : event) : bool :=
  match e with ESetCode _ | ECallB _ _ | ESkip _ => false | _ => true end.

Definition evs_ok (s : istate) (es : list event) : Prop :=
  forallb plain es = true \/ exists e, es = [e] /\ ev_src s e.

Ltac fin_ev :=
  cbn [s_hist log set_dq set_mgr set_lis];
  first [ exists (@nil event); split; [symmetry; apply app_nil_r | left; reflexivity]
        | eexists; split;
          [reflexivity
          |first [ left; reflexivity
                 | right; eexists; split; [reflexivity|];
                   cbn [ev_src callb_pc]; do 2 eexists; split; eassumption ] ] ].

Lemma step_events s lb s' :
  step s lb = Some s' -> exists es, s_hist s' = s_hist s ++ es /\ evs_ok s es.
Proof.
  intros H. unfold evs_ok. destruct lb; cbn [step] in H.
  - unfold step_R1 in H. destr_H H; inversion H; subst; clear H; fin_ev.
  - unfold step_R2 in H. destr_H H; inversion H; subst; clear H; fin_ev.
  - unfold step_JobStart in H. destr_H H; inversion H; subst; clear H; fin_ev.
  - unfold step_LockI in H.
    destruct (nth_error (s_dqs s) j) as [d|] eqn:Hd; try discriminate H.
    destruct (d_pc d) eqn:Hpc; try discriminate H.
    destruct (nth_error (s_mgrs s) (d_gen d)) as [m|] eqn:Hm; try discriminate H.
    destruct (m_deq m) as [|t rest] eqn:Hdeq.
    + inversion H; subst; clear H. fin_ev.
    + destruct (t_sub t) eqn:Hsub; [destruct rest as [|t2 rest2]|];
        cbn [is_nil negb andb] in H; inversion H; subst; clear H; try fin_ev.
      cbn [s_hist log set_dq set_mgr]. eexists; split; [reflexivity|].
      right. eexists; split; [reflexivity|]. cbn [ev_src].
      exists j, d, m, t2, rest2. auto.
  - unfold step_LockM in H. destr_H H; inversion H; subst; clear H; fin_ev.
  - unfold step_Put, listener_put in H. destr_H H; inversion H; subst; clear H; fin_ev.
  - unfold step_CallB in H. destr_H H; inversion H; subst; clear H; fin_ev.
  - unfold step_CallE in H. destr_H H; inversion H; subst; clear H; fin_ev.
  - unfold step_Nest in H. destr_H H; inversion H; subst; clear H; fin_ev.
  - unfold step_FreeBegin in H. destr_H H; inversion H; subst; clear H; fin_ev.
  - unfold step_FreeLockM in H. destr_H H; inversion H; subst; clear H; fin_ev.
  - unfold step_FreePut, listener_put in H. destr_H H; inversion H; subst; clear H; fin_ev.
Qed.

(* ---------- the task in the hand of a job / at the head of the deque is the oldest
   unanswered one ---------- *)
Lemma nth_error_mid {A} (l : list A) x r : nth_error (l ++ x :: r) (length l) = Some x.
Proof. rewrite nth_error_app2 by lia. rewrite Nat.sub_diag. reflexivity. Qed.

Lemma hand_oldest s j d t :
  inv_all s = true -> nth_error (s_dqs s) j = Some d -> inhand_pc (d_pc d) = [t] ->
  exists rest, arrived (s_hist s) = replied (s_hist s) ++ t :: rest.
Proof.
  intros Hinv Hd Hh. split_inv Hinv.
  assert (Hi : inloop d = true).
  { apply (ItemFifo.hand_inloop d t). unfold ItemFifo.hand. rewrite Hh. left. reflexivity. }
  pose proof (proj1 (ItemFifo.fifo_iff s) Hfifo) as [Hf _].
  unfold ItemFifo.mach in Hf.
  rewrite (ItemFifo.inhand_at s j d Hsingle Hd Hi) in Hf.
  unfold ItemFifo.hand in Hf. rewrite Hh in Hf. cbn [app] in Hf.
  eexists. exact Hf.
Qed.

Lemma deque_oldest s j d m t rest :
  inv_all s = true -> nth_error (s_dqs s) j = Some d -> d_pc d = PTop ->
  nth_error (s_mgrs s) (d_gen d) = Some m -> m_deq m = t :: rest ->
  exists rest', arrived (s_hist s) = replied (s_hist s) ++ t :: rest'.
Proof.
  intros Hinv Hd Hpc Hm Hdeq. split_inv Hinv.
  get_inloop d Hpc Hi.
  destruct (gen_live _ _ _ Hgen Hd (inloop_live _ Hi)) as [Ha _].
  pose proof (proj1 (ItemFifo.fifo_iff s) Hfifo) as [Hf _].
  unfold ItemFifo.mach in Hf.
  rewrite (ItemFifo.inhand_at s j d Hsingle Hd Hi) in Hf.
  unfold ItemFifo.hand in Hf. rewrite Hpc in Hf. cbn [inhand_pc app] in Hf.
  unfold deque_tasks in Hf. rewrite (active_mgr_at _ _ Ha), Hm, Hdeq in Hf.
  cbn [app] in Hf. eexists. exact Hf.
Qed.

Lemma callb_hand c t : inhand_pc (callb_pc c t) = [t].
Proof. destruct c; reflexivity. Qed.

(* ================================================================== *)
(* 2. order_ok                                                          *)
(* ================================================================== *)

(* the monitor's state after h (started with a, n) is (a ++ arrived h, n + |replied h|) *)
Lemma order_ok_from_app h es : forall a n,
  order_ok_from a n (h ++ es) =
  order_ok_from a n h && order_ok_from (a ++ arrived h) (n + length (replied h)) es.
Proof.
  induction h as [|e r IH]; intros a n.
  - cbn [app order_ok_from arrived replied length andb]. rewrite app_nil_r, Nat.add_0_r. reflexivity.
  - rewrite <- app_comm_cons.
    destruct e; try (cbn [order_ok_from arrived replied]; apply IH).
    + cbn [order_ok_from arrived replied]. rewrite IH, <- app_assoc. reflexivity.
    + cbn [order_ok_from arrived replied]. rewrite IH, andb_assoc. reflexivity.
    + cbn [order_ok_from arrived replied]. rewrite IH, andb_assoc. reflexivity.
    + cbn [order_ok_from arrived replied length]. rewrite IH, Nat.add_succ_r. reflexivity.
Qed.

Lemma plain_order es : forallb plain es = true -> forall a n, order_ok_from a n es = true.
Proof.
  induction es as [|e r IH]; intros H a n; [reflexivity|].
  cbn [forallb] in H. apply andb_true_iff in H. destruct H as [He Hr].
  destruct e; cbn [plain] in He; try discriminate; cbn [order_ok_from]; apply IH; exact Hr.
Qed.

(* the linking invariant is the monitor itself: its state is a function of the history *)
Definition inv_order (s : istate) : Prop := order_ok (s_hist s) = true.

Lemma inv_order_init : forall item, inv_order (init_state item).
Proof. intros item. reflexivity. Qed.

Lemma inv_order_ok : forall s, inv_order s -> order_ok (s_hist s) = true.
Proof. intros s H. exact H. Qed.

Lemma order_check (arr rep rest : list task) t :
  arr = rep ++ t :: rest ->
  match nth_error arr (length rep) with Some u => task_eqb u t | None => false end = true.
Proof. intros ->. rewrite nth_error_mid. apply ItemFifo.task_eqb_rfl. Qed.

Lemma inv_order_step : forall s lb s',
  Inv s -> inv_order s -> env_ok s lb = true -> step s lb = Some s' -> inv_order s'.
Proof.
  intros s lb s' HI Hk _ H. pose proof (Inv_all _ HI) as Hinv.
  destruct (step_events _ _ _ H) as [es [Hh Hes]].
  unfold inv_order, order_ok in *. rewrite Hh, order_ok_from_app, Hk. cbn [app andb Nat.add].
  destruct Hes as [Hp|[e [-> Hsrc]]]; [apply plain_order; exact Hp|].
  destruct e; try reflexivity; cbn [ev_src] in Hsrc; cbn [order_ok_from]; rewrite andb_true_r.
  - destruct Hsrc as (j & d & m & t2 & rest & Hd & Hpc & Hm & Hdeq).
    destruct (deque_oldest _ _ _ _ _ _ Hinv Hd Hpc Hm Hdeq) as [r Hr].
    eapply order_check. exact Hr.
  - destruct Hsrc as (j & d & Hd & Hpc).
    assert (Hh' : inhand_pc (d_pc d) = [t]) by (rewrite Hpc; apply callb_hand).
    destruct (hand_oldest _ _ _ _ Hinv Hd Hh') as [r Hr].
    eapply order_check. exact Hr.
Qed.

Theorem order_ok_reachable : forall item s, reachable item s -> order_ok (s_hist s) = true.
Proof.
  intros item s Hr. apply inv_order_ok.
  apply (reachable_inv inv_order inv_order_init inv_order_step item s Hr).
Qed.

(* ================================================================== *)
(* 3. Two facts about the job in the loop                               *)
(*    - at a subscription pc it holds a SUB                             *)
(*    - once an unsubscription is answered and the id cleared, no id is *)
(*      published until the next subscription is in hand                *)
(* ================================================================== *)

Definition pc_sub_ok (p : pc) : bool :=
  match p with
  | PLate t | PSetCode t | PSnapB t | PSnapE t | PEosRead t | PEosPut t _ | PSubB t | PInSub t
  | PNestRead t true _ | PNestPut t true _ _ => t_sub t
  | _ => true
  end.

Definition bad_sub (p : pc) : bool := negb (pc_sub_ok p).
Definition is_clear (p : pc) : bool := match p with PClear => true | _ => false end.

Definition ucp (bad : bool) (ih : list task) (clr : bool) (h : list event) : Prop :=
  bad = false /\
  (ItemFifo.last_is_usb (replied h) = true -> ih = [] -> clr = false -> hist_code h = None).

Definition inv_uc (s : istate) : Prop :=
  ucp (existsb (fun d => bad_sub (d_pc d)) (s_dqs s)) (inhand s)
      (existsb (fun d => is_clear (d_pc d)) (s_dqs s)) (s_hist s).

Definition ucp_pc (p : pc) (h : list event) : Prop :=
  ucp (bad_sub p) (inhand_pc p) (is_clear p) h.

Lemma inv_uc_init : forall item, inv_uc (init_state item).
Proof. intros item. split; [reflexivity|]. intros H. discriminate H. Qed.

Lemma out_bad x : inloop x = false -> bad_sub (d_pc x) = false.
Proof. unfold inloop, bad_sub. destruct (d_pc x); simpl; congruence. Qed.
Lemma out_clear x : inloop x = false -> is_clear (d_pc x) = false.
Proof. unfold inloop. destruct (d_pc x); simpl; congruence. Qed.

Lemma uc_focus s s' j d d' :
  count_inloop (s_dqs s) <= 1 -> nth_error (s_dqs s) j = Some d -> inloop d = true ->
  s_dqs s' = upd j d' (s_dqs s) ->
  (inv_uc s' <-> ucp_pc (d_pc d') (s_hist s')).
Proof.
  intros Hc Hd Hi Hdq. unfold inv_uc, ucp_pc, inhand. rewrite Hdq.
  rewrite (existsb_upd_uniq _ _ _ _ d' out_bad Hc Hd Hi).
  rewrite (existsb_upd_uniq _ _ _ _ d' out_clear Hc Hd Hi).
  rewrite (flat_map_upd_uniq _ _ _ _ d' out_inhand Hc Hd Hi).
  reflexivity.
Qed.

Lemma uc_focus_pre s j d :
  inv_single s = true -> nth_error (s_dqs s) j = Some d -> inloop d = true ->
  (inv_uc s <-> ucp_pc (d_pc d) (s_hist s)).
Proof.
  intros Hs Hd Hi. apply (uc_focus s s j d d (single_le _ Hs) Hd Hi).
  symmetry. apply upd_same; auto.
Qed.

(* a step of the job in the loop reduces to a statement on pcs and histories *)
Lemma uc_job s s' j d d' es :
  inv_single s = true -> inv_uc s ->
  nth_error (s_dqs s) j = Some d -> inloop d = true ->
  s_dqs s' = upd j d' (s_dqs s) -> s_hist s' = s_hist s ++ es ->
  (ucp_pc (d_pc d) (s_hist s) -> ucp_pc (d_pc d') (s_hist s ++ es)) ->
  inv_uc s'.
Proof.
  intros Hs Hc Hd Hi Hdq Hh Himp.
  apply (uc_focus s s' j d d' (single_le _ Hs) Hd Hi Hdq). rewrite Hh.
  apply Himp. apply (uc_focus_pre s j d Hs Hd Hi). exact Hc.
Qed.

Lemma last_is_usb_snoc l t : ItemFifo.last_is_usb (l ++ [t]) = negb (t_sub t).
Proof. unfold ItemFifo.last_is_usb. rewrite ItemFifo.last_task_snoc. reflexivity. Qed.

(* the rule on (pc, history): the new pc holds a SUB if it is a subscription pc, and the second
   fact is vacuous, or re-established, or inherited *)
Lemma ucp_step p p' h es :
  (pc_sub_ok p = true ->
   pc_sub_ok p' = true /\
   (inhand_pc p' <> [] \/ is_clear p' = true \/
    ItemFifo.last_is_usb (replied (h ++ es)) = false \/
    hist_code (h ++ es) = None \/
    (inhand_pc p = [] /\ is_clear p = false /\ replied es = [] /\
     forallb ItemCode.neutral es = true))) ->
  ucp_pc p h -> ucp_pc p' (h ++ es).
Proof.
  unfold ucp_pc, ucp, bad_sub. intros Hr [Hb Hu].
  apply negb_false_iff in Hb. destruct (Hr Hb) as [Hb' Hc].
  split; [rewrite Hb'; reflexivity|].
  intros H1 H2 H3.
  destruct Hc as [Hc|[Hc|[Hc|[Hc|(C1 & C2 & C3 & C4)]]]]; try congruence.
  rewrite (ItemCode.hist_code_app_neutral _ _ C4).
  rewrite replied_app, C3, app_nil_r in H1. auto.
Qed.

Ltac uc_job_tac s j d :=
  match goal with
  | Hsingle : inv_single s = true, Hc : inv_uc s,
    Hd : nth_error (s_dqs s) j = Some d, Hi : inloop d = true |- _ =>
      eapply (uc_job s _ j d);
      [exact Hsingle|exact Hc|exact Hd|exact Hi|reflexivity
      |first [reflexivity | symmetry; apply app_nil_r]
      |]
  end.

Ltac uc_branch :=
  cbn [inhand_pc is_clear];
  first [ left; discriminate
        | right; left; reflexivity
        | right; right; right; right; repeat split; reflexivity ].

Ltac uc_case Hpc :=
  rewrite Hpc; cbn [d_pc with_pc]; apply ucp_step; cbn [pc_sub_ok];
  let Hk := fresh "Hk" in
  intros Hk; split; [first [exact Hk | assumption | reflexivity] | uc_branch].

Lemma uc_JobStart s j s' :
  inv_all s = true -> inv_uc s -> step_JobStart s j = Some s' -> inv_uc s'.
Proof.
  intros Hinv Hc H. split_inv Hinv. unfold step_JobStart in H.
  job_prelude H s j d m; inversion H; subst; clear H.
  uc_job_tac s j d. uc_case Hpc.
Qed.

Lemma uc_Nest s j k s' :
  inv_all s = true -> inv_uc s -> step_Nest s j k = Some s' -> inv_uc s'.
Proof.
  intros Hinv Hc H. split_inv Hinv. unfold step_Nest in H.
  job_prelude H s j d m; inversion H; subst; clear H;
    uc_job_tac s j d; uc_case Hpc.
Qed.

Lemma uc_CallB s j s' :
  inv_all s = true -> inv_uc s -> step_CallB s j = Some s' -> inv_uc s'.
Proof.
  intros Hinv Hc H. split_inv Hinv. unfold step_CallB in H.
  job_prelude H s j d m; inversion H; subst; clear H;
    uc_job_tac s j d; uc_case Hpc.
Qed.

Lemma uc_CallE s j o s' :
  inv_all s = true -> inv_uc s -> step_CallE s j o = Some s' -> inv_uc s'.
Proof.
  intros Hinv Hc H. split_inv Hinv. unfold step_CallE in H.
  job_prelude H s j d m; inversion H; subst; clear H;
    uc_job_tac s j d.
  - destruct o as [[|]|e]; uc_case Hpc.
  - uc_case Hpc.
  - uc_case Hpc.
Qed.

Lemma uc_LockI s j s' :
  inv_all s = true -> inv_uc s -> step_LockI s j = Some s' -> inv_uc s'.
Proof.
  intros Hinv Hc H. split_inv Hinv. unfold step_LockI in H.
  job_prelude H s j d m.
  destruct (m_deq m) as [|t rest] eqn:Hdeq.
  - inversion H; subst; clear H. uc_job_tac s j d. uc_case Hpc.
  - destruct (t_sub t) eqn:Hsub; [destruct rest as [|t2 rest2]|];
      cbn [is_nil negb andb] in H.
    + inversion H; subst; clear H. uc_job_tac s j d. uc_case Hpc.
    + inversion H; subst; clear H. uc_job_tac s j d. uc_case Hpc.
    + destruct (if Z.eqb (d_dequeued d) 0 then m_last_ok m else d_lso d);
        inversion H; subst; clear H; uc_job_tac s j d; uc_case Hpc.
Qed.

Lemma uc_Put s j s' :
  inv_all s = true -> inv_uc s -> step_Put s j = Some s' -> inv_uc s'.
Proof.
  intros Hinv Hc H. split_inv Hinv. unfold step_Put, listener_put in H.
  job_prelude H s j d m; destr_H H; inversion H; subst; clear H;
    uc_job_tac s j d; try (uc_case Hpc; fail).
  - (* PLate: the reply of a SUB *)
    rewrite Hpc; cbn [d_pc with_pc]; apply ucp_step; cbn [pc_sub_ok]. intros Hk.
    split; [reflexivity|]. right; right; left.
    rewrite replied_app. cbn [replied]. rewrite last_is_usb_snoc, Hk. reflexivity.
  - (* PNestPut *)
    destruct insub; uc_case Hpc.
  - (* PReply *)
    rewrite Hpc; cbn [d_pc with_pc]; apply ucp_step. intros _.
    destruct (t_sub t) eqn:Hsub; (split; [reflexivity|]).
    + right; right; left.
      rewrite replied_app. cbn [replied]. rewrite last_is_usb_snoc, Hsub. reflexivity.
    + right; left; reflexivity.
Qed.

Lemma uc_LockM_in s j s' d :
  inv_all s = true -> inv_uc s -> nth_error (s_dqs s) j = Some d -> inloop d = true ->
  step_LockM s j = Some s' -> inv_uc s'.
Proof.
  intros Hinv Hc Hd Hi H. split_inv Hinv. unfold step_LockM in H. rewrite Hd in H.
  destruct (gen_live _ _ _ Hgen Hd (inloop_live _ Hi)) as [Ha [m Hm]].
  rewrite Hm in H.
  destruct (d_pc d) eqn:Hpc; try discriminate H;
    try (unfold inloop in Hi; rewrite Hpc in Hi; discriminate Hi);
    destr_H H; inversion H; subst; clear H;
    uc_job_tac s j d; try (uc_case Hpc; fail).
  - destruct insub; uc_case Hpc.
  - (* PClear *)
    rewrite Hpc; cbn [d_pc with_pc]; apply ucp_step. intros _.
    split; [reflexivity|]. right; right; right; left. apply ItemCode.hist_code_app_clear.
Qed.

(* ---------- steps that do not move the job in the loop ---------- *)
Lemma uc_same s s' es :
  inv_uc s ->
  existsb (fun d => bad_sub (d_pc d)) (s_dqs s') = existsb (fun d => bad_sub (d_pc d)) (s_dqs s) ->
  inhand s' = inhand s ->
  existsb (fun d => is_clear (d_pc d)) (s_dqs s') = existsb (fun d => is_clear (d_pc d)) (s_dqs s) ->
  s_hist s' = s_hist s ++ es ->
  replied es = [] -> forallb ItemCode.neutral es = true ->
  inv_uc s'.
Proof.
  intros [Hb Hu] H1 H2 H3 Hh Hr Hn. unfold inv_uc, ucp. rewrite H1, H2, H3, Hh.
  split; [exact Hb|].
  rewrite replied_app, Hr, app_nil_r, (ItemCode.hist_code_app_neutral _ _ Hn). exact Hu.
Qed.

Ltac uc_same_tac s es :=
  match goal with
  | Hc : inv_uc s |- _ =>
      eapply (uc_same s _ es);
      [exact Hc|try reflexivity|try reflexivity|try reflexivity
      |first [reflexivity | symmetry; apply app_nil_r]
      |reflexivity|reflexivity]
  end.

Lemma uc_LockM s j s' :
  inv_all s = true -> inv_uc s -> step_LockM s j = Some s' -> inv_uc s'.
Proof.
  intros Hinv Hc H.
  destruct (nth_error (s_dqs s) j) as [d|] eqn:Hd;
    [|unfold step_LockM in H; rewrite Hd in H; discriminate].
  destruct (inloop d) eqn:Hi; [eapply uc_LockM_in; eauto|].
  split_inv Hinv. unfold step_LockM in H. rewrite Hd in H.
  unfold inloop in Hi.
  destruct (d_pc d) eqn:Hpc; try discriminate H; try discriminate Hi.
  assert (Hl : live_dq d = true) by (unfold live_dq; rewrite Hpc; reflexivity).
  destruct (gen_live _ _ _ Hgen Hd Hl) as [Ha [m Hm]].
  rewrite Hm in H.
  assert (X1 : existsb (fun d => bad_sub (d_pc d)) (upd j (with_pc d PDone) (s_dqs s)) =
               existsb (fun d => bad_sub (d_pc d)) (s_dqs s))
    by (apply (existsb_upd_same _ _ _ _ _ Hd); cbn; rewrite Hpc; reflexivity).
  assert (X2 : existsb (fun d => is_clear (d_pc d)) (upd j (with_pc d PDone) (s_dqs s)) =
               existsb (fun d => is_clear (d_pc d)) (s_dqs s))
    by (apply (existsb_upd_same _ _ _ _ _ Hd); cbn; rewrite Hpc; reflexivity).
  assert (X3 : flat_map (fun d => inhand_pc (d_pc d)) (upd j (with_pc d PDone) (s_dqs s)) =
               flat_map (fun d => inhand_pc (d_pc d)) (s_dqs s))
    by (apply (flat_map_upd_same _ _ _ _ _ Hd); cbn; rewrite Hpc; reflexivity).
  match type of H with (if ?c then _ else _) = _ => destruct c end;
    inversion H; subst; clear H.
  - uc_same_tac s [EDel]; assumption.
  - uc_same_tac s (@nil event); assumption.
Qed.

Lemma uc_R1 s t s' :
  inv_uc s -> step_R1 s t = Some s' -> inv_uc s'.
Proof.
  intros Hc H. unfold step_R1 in H. destr_H H; inversion H; subst; clear H.
  - uc_same_tac s [EArr t].
  - uc_same_tac s [EArr t].
  - uc_same_tac s [EArrDropped t].
Qed.

Lemma uc_R2 s s' :
  inv_uc s -> step_R2 s = Some s' -> inv_uc s'.
Proof.
  intros Hc H. unfold step_R2 in H.
  destruct (s_pending s) as [[t g]|]; try discriminate.
  destruct (nth_error (s_mgrs s) g) as [m|]; try discriminate.
  destruct (m_running m); inversion H; subst; clear H.
  - uc_same_tac s (@nil event).
  - uc_same_tac s (@nil event); cbn [s_dqs set_mgr];
      try (rewrite existsb_app; cbn; apply orb_false_r).
    unfold inhand. cbn [s_dqs set_mgr]. rewrite flat_map_app. cbn. apply app_nil_r.
Qed.

Lemma uc_FreeBegin s l k s' :
  inv_uc s -> step_FreeBegin s l k = Some s' -> inv_uc s'.
Proof.
  intros Hc H. unfold step_FreeBegin in H.
  destr_H H; inversion H; subst; clear H; uc_same_tac s [ELisB (OFree l) k].
Qed.

Lemma uc_FreeLockM s l s' :
  inv_uc s -> step_FreeLockM s l = Some s' -> inv_uc s'.
Proof.
  intros Hc H. unfold step_FreeLockM in H.
  destr_H H; inversion H; subst; clear H.
  - uc_same_tac s (@nil event).
  - uc_same_tac s [ELisDropped (OFree l) k].
Qed.

Lemma uc_FreePut s l s' :
  inv_uc s -> step_FreePut s l = Some s' -> inv_uc s'.
Proof.
  intros Hc H. unfold step_FreePut, listener_put in H.
  destr_H H; inversion H; subst; clear H.
  uc_same_tac s [ENotif (OFree l) k b a].
Qed.

Lemma inv_uc_step : forall s lb s',
  Inv s -> inv_uc s -> env_ok s lb = true -> step s lb = Some s' -> inv_uc s'.
Proof.
  intros s lb s' HI Hc _ H.
  pose proof (Inv_all _ HI) as Hinv.
  destruct lb; cbn [step] in H.
  - eapply uc_R1; eauto.
  - eapply uc_R2; eauto.
  - eapply uc_JobStart; eauto.
  - eapply uc_LockI; eauto.
  - eapply uc_LockM; eauto.
  - eapply uc_Put; eauto.
  - eapply uc_CallB; eauto.
  - eapply uc_CallE; eauto.
  - eapply uc_Nest; eauto.
  - eapply uc_FreeBegin; eauto.
  - eapply uc_FreeLockM; eauto.
  - eapply uc_FreePut; eauto.
Qed.

Lemma uc_reachable : forall item s, reachable item s -> inv_uc s.
Proof. apply (reachable_inv inv_uc inv_uc_init inv_uc_step). Qed.

(* Prop reading of the first fact *)
Lemma uc_sub s j d : inv_uc s -> nth_error (s_dqs s) j = Some d -> pc_sub_ok (d_pc d) = true.
Proof.
  intros [Hb _] Hd.
  destruct (pc_sub_ok (d_pc d)) eqn:E; [reflexivity|]. exfalso.
  assert (X : existsb (fun d => bad_sub (d_pc d)) (s_dqs s) = true).
  { apply existsb_exists. exists d. split; [eapply nth_error_In; exact Hd|].
    unfold bad_sub. rewrite E. reflexivity. }
  congruence.
Qed.

(* ================================================================== *)
(* 4. kinds_ok                                                          *)
(* ================================================================== *)

Lemma kinds_ok_app h es : kinds_ok (h ++ es) = kinds_ok h && kinds_ok es.
Proof.
  induction h as [|e r IH]; [reflexivity|].
  rewrite <- app_comm_cons.
  destruct e; try (cbn [kinds_ok]; apply IH).
  destruct c; cbn [kinds_ok]; rewrite IH, andb_assoc; reflexivity.
Qed.

Lemma plain_kinds es : forallb plain es = true -> kinds_ok es = true.
Proof.
  induction es as [|e r IH]; intros H; [reflexivity|].
  cbn [forallb] in H. apply andb_true_iff in H. destruct H as [He Hr].
  destruct e; cbn [plain] in He; try discriminate; cbn [kinds_ok]; apply IH; exact Hr.
Qed.

(* the linking invariant: the monitor has not failed, and the jobs hold tasks of the right kind *)
Definition inv_kinds (s : istate) : Prop := inv_uc s /\ kinds_ok (s_hist s) = true.

Lemma inv_kinds_init : forall item, inv_kinds (init_state item).
Proof. intros item. split; [apply inv_uc_init|reflexivity]. Qed.

Lemma inv_kinds_ok : forall s, inv_kinds s -> kinds_ok (s_hist s) = true.
Proof. intros s [_ H]. exact H. Qed.

Lemma inv_kinds_step : forall s lb s',
  Inv s -> inv_kinds s -> env_ok s lb = true -> step s lb = Some s' -> inv_kinds s'.
Proof.
  intros s lb s' HI [Huc Hk] He H. split; [eapply inv_uc_step; eassumption|].
  destruct HI as (Hall & Hkind & _).
  destruct (step_events _ _ _ H) as [es [Hh Hes]].
  rewrite Hh, kinds_ok_app, Hk. cbn [andb].
  destruct Hes as [Hp|[e [-> Hsrc]]]; [apply plain_kinds; exact Hp|].
  destruct e; try reflexivity; cbn [ev_src] in Hsrc.
  destruct Hsrc as (j & d & Hd & Hpc).
  pose proof (uc_sub _ _ _ Huc Hd) as Hs.
  pose proof (ItemCode.inv_kind_job _ _ _ Hkind Hd) as Hu.
  rewrite Hpc in Hs, Hu.
  destruct c; cbn [callb_pc pc_sub_ok ItemCode.pc_kind_ok] in Hs, Hu; cbn [kinds_ok];
    rewrite ?Hs, ?Hu; reflexivity.
Qed.

Theorem kinds_ok_reachable : forall item s, reachable item s -> kinds_ok (s_hist s) = true.
Proof.
  intros item s Hr. apply inv_kinds_ok.
  apply (reachable_inv inv_kinds inv_kinds_init inv_kinds_step item s Hr).
Qed.

(* ================================================================== *)
(* 5. C02: the latest subscription is published                         *)
(* ================================================================== *)

(* an id is published only for an accepted request *)
Definition inv_sca (s : istate) : Prop :=
  forall t, In (ESetCode t) (s_hist s) -> In t (arrived (s_hist s)).

Lemma inv_sca_init : forall item, inv_sca (init_state item).
Proof. intros item t H. destruct H. Qed.

Lemma inv_sca_step : forall s lb s',
  Inv s -> inv_sca s -> env_ok s lb = true -> step s lb = Some s' -> inv_sca s'.
Proof.
  intros s lb s' HI Hk _ H t Hin. pose proof (Inv_all _ HI) as Hinv.
  destruct (step_events _ _ _ H) as [es [Hh Hes]].
  rewrite Hh in *. rewrite ItemFifo.arrived_app. apply in_or_app.
  apply in_app_or in Hin. destruct Hin as [Hin|Hin]; [left; apply Hk; exact Hin|].
  left. destruct Hes as [Hp|[e [-> Hsrc]]].
  - rewrite forallb_forall in Hp. specialize (Hp _ Hin). discriminate Hp.
  - destruct Hin as [->|[]]. cbn [ev_src] in Hsrc. destruct Hsrc as (j & d & Hd & Hpc).
    assert (Hh' : inhand_pc (d_pc d) = [t]) by (rewrite Hpc; reflexivity).
    destruct (hand_oldest _ _ _ _ Hinv Hd Hh') as [r Hr].
    rewrite Hr. apply in_or_app. right. left. reflexivity.
Qed.

Lemma sca_reachable : forall item s, reachable item s -> inv_sca s.
Proof. apply (reachable_inv inv_sca inv_sca_init inv_sca_step). Qed.

Lemma hist_code_set h : forall c r,
  hist_code_from c h = Some r -> c = Some r \/ exists t, In (ESetCode t) h /\ t_rid t = r.
Proof.
  induction h as [|e h IH]; intros c r H; [left; exact H|].
  destruct e; cbn [hist_code_from] in H;
    try (destruct (IH _ _ H) as [E|[u [Hi Hu]]];
         [left; exact E|right; exists u; split; [right; exact Hi|exact Hu]]).
  - destruct (IH _ _ H) as [E|[t' [Hi Ht]]].
    + right. exists t. split; [left; reflexivity|congruence].
    + right. exists t'. split; [right; exact Hi|exact Ht].
  - destruct (IH _ _ H) as [E|[t' [Hi Ht]]]; [discriminate|].
    right. exists t'. split; [right; exact Hi|exact Ht].
Qed.

Lemma nodup_map_inj {A B} (f : A -> B) l a b :
  NoDup (map f l) -> In a l -> In b l -> f a = f b -> a = b.
Proof.
  induction l as [|x l IH]; intros Hn Ha Hb E; [destruct Ha|].
  cbn [map] in Hn. inversion Hn as [|? ? Hx Hn']; subst.
  destruct Ha as [->|Ha], Hb as [->|Hb]; auto.
  - exfalso. apply Hx. rewrite E. apply in_map. exact Hb.
  - exfalso. apply Hx. rewrite <- E. apply in_map. exact Ha.
Qed.

Lemma arrived_nodup s :
  inv_rids s = true -> inv_fifo s = true -> NoDup (map t_rid (arrived (s_hist s))).
Proof.
  intros Hr Hf. apply ItemFifo.rids_iff in Hr. destruct Hr as (_ & Hn & _).
  apply ItemFifo.fifo_iff in Hf. destruct Hf as [_ Hdr].
  rewrite <- (ItemFifo.seen_no_drop _ Hdr). apply ItemFifo.nodup_rids_NoDup. exact Hn.
Qed.

(* in a quiescent state the machinery is empty *)
Lemma quiescent_mach s :
  Inv s -> quiescent s = true ->
  replied (s_hist s) = seen (s_hist s) /\ seen (s_hist s) = arrived (s_hist s) /\
  ItemFifo.mach s = [].
Proof.
  intros HI Hq. destruct HI as (Hall & _ & _ & _ & Hidle & _).
  destruct (ItemFifo.quiescent_all_replied s Hall Hidle Hq) as [Hrs Hdr].
  split_inv Hall.
  pose proof (proj1 (ItemFifo.fifo_iff s) Hfifo) as [Hf _].
  pose proof (ItemFifo.seen_no_drop _ Hdr) as Hsa.
  split; [exact Hrs|]. split; [exact Hsa|].
  rewrite <- Hsa, <- Hrs in Hf. rewrite <- (app_nil_r (replied (s_hist s))) in Hf at 1.
  apply app_inv_head in Hf. symmetry. exact Hf.
Qed.

Theorem latest_sub_published : forall item s t,
  reachable item s -> quiescent s = true -> last_seen s = Some t -> t_sub t = true ->
  active_code s = Some (t_rid t) /\ In (ESetCode t) (s_hist s).
Proof.
  intros item s t Hr Hq Hl Hs. unfold last_seen in Hl.
  pose proof (reachable_Inv item s Hr) as HI.
  pose proof (Inv_all _ HI) as Hinv. split_inv Hinv.
  destruct (quiescent_mach s HI Hq) as (Hrs & Hsa & Hm).
  pose proof (proj1 (proj1 (ItemFifo.last_iff s) Hlast)) as HA.
  destruct (HA t Hl Hs) as [Hin|Hc]; [rewrite Hm in Hin; destruct Hin|].
  split; [exact Hc|].
  pose proof (proj1 (ItemCode.inv_code_elim _ Hcode)) as Hac. rewrite Hc in Hac.
  symmetry in Hac. unfold hist_code in Hac.
  destruct (hist_code_set _ _ _ Hac) as [E|[t' [Hi Ht]]]; [discriminate|].
  assert (E : t' = t).
  { apply (nodup_map_inj t_rid (arrived (s_hist s))).
    - apply arrived_nodup; assumption.
    - apply (sca_reachable item s Hr). exact Hi.
    - rewrite <- Hsa. apply ItemFifo.last_task_In. exact Hl.
    - exact Ht. }
  subst t'. exact Hi.
Qed.

(* ================================================================== *)
(* 6. C19: an entry whose counter is zero has a live id                 *)
(* ================================================================== *)

Definition inv_rest (s : istate) : Prop :=
  forall m, active_mgr s = Some m -> m_queued m = 0%Z -> live (m_code m) <> None.

Lemma inv_rest_init : forall item, inv_rest (init_state item).
Proof. intros item m H. discriminate H. Qed.

(* the active manager is replaced *)
Lemma rest_set_mgr s s' g m m' :
  s_active s = Some g -> nth_error (s_mgrs s) g = Some m ->
  s_active s' = Some g -> s_mgrs s' = upd g m' (s_mgrs s) ->
  (m_queued m' = 0%Z -> (m_queued m = 0%Z -> live (m_code m) <> None) -> live (m_code m') <> None) ->
  inv_rest s -> inv_rest s'.
Proof.
  intros Ha Hm Ha' Hm' Hc Hr m2 Hact Hq.
  unfold active_mgr in Hact. rewrite Ha', Hm', (nth_error_upd_eq _ _ _ _ Hm) in Hact.
  inversion Hact; subst m2. apply (Hc Hq). intros Hq0. apply (Hr m); [|exact Hq0].
  unfold active_mgr. rewrite Ha. exact Hm.
Qed.

(* nothing the invariant looks at changes *)
Lemma rest_frame s s' :
  s_active s' = s_active s -> s_mgrs s' = s_mgrs s -> inv_rest s -> inv_rest s'.
Proof. intros Ha Hm Hr m. unfold active_mgr. rewrite Ha, Hm. apply Hr. Qed.

Ltac rest_frame_tac := eapply rest_frame; [reflexivity|reflexivity|eassumption].

Lemma queued_nonneg s m :
  inv_count s = true -> inv_start s = true -> active_mgr s = Some m -> (0 <= m_queued m)%Z.
Proof.
  intros Hc Hs Ha. rewrite (count_at _ _ Hc Ha).
  pose proof (sum_nonneg _ (start_nonneg _ Hs)).
  destruct (is_some (s_pending s)); lia.
Qed.

Lemma rest_R1 s t s' :
  inv_all s = true -> inv_rest s -> step_R1 s t = Some s' -> inv_rest s'.
Proof.
  intros Hinv Hr H. split_inv Hinv. unfold step_R1 in H.
  destruct (s_pending s); try discriminate.
  destruct (s_active s) as [g|] eqn:Ha.
  - destruct (nth_error (s_mgrs s) g) as [m|] eqn:Hm; try discriminate.
    inversion H; subst; clear H.
    eapply (rest_set_mgr s _ g m); [exact Ha|exact Hm|exact Ha|reflexivity| |exact Hr].
    cbn [m_queued m_code]. intros Hq _. exfalso.
    assert (Hact : active_mgr s = Some m) by (rewrite (active_mgr_at _ _ Ha); exact Hm).
    pose proof (queued_nonneg _ _ Hcount Hstart Hact). lia.
  - destruct (t_sub t); inversion H; subst; clear H.
    + intros m Hact Hq. unfold active_mgr in Hact. cbn [s_active s_mgrs log] in Hact.
      rewrite nth_error_snoc_len in Hact. inversion Hact; subst m. discriminate Hq.
    + rest_frame_tac.
Qed.

Lemma rest_R2 s s' :
  inv_all s = true -> inv_rest s -> step_R2 s = Some s' -> inv_rest s'.
Proof.
  intros Hinv Hr H. split_inv Hinv. unfold step_R2 in H.
  destruct (s_pending s) as [[t g]|] eqn:Hp; try discriminate.
  destruct (nth_error (s_mgrs s) g) as [m|] eqn:Hm; try discriminate.
  pose proof (gen_pending _ _ _ Hgen Hp) as Ha.
  inversion H; subst; clear H.
  eapply (rest_set_mgr s _ g m); [exact Ha|exact Hm|exact Ha|reflexivity| |exact Hr].
  cbn [m_queued m_code]. intros Hq H0. exact (H0 Hq).
Qed.

Lemma rest_LockI s j s' :
  inv_all s = true -> inv_rest s -> step_LockI s j = Some s' -> inv_rest s'.
Proof.
  intros Hinv Hr H. split_inv Hinv. unfold step_LockI in H.
  job_prelude H s j d m.
  destruct (m_deq m) as [|t rest] eqn:Hdeq.
  - inversion H; subst; clear H.
    eapply (rest_set_mgr s _ (d_gen d) m); [exact Ha|exact Hm|exact Ha|reflexivity| |exact Hr].
    cbn [m_queued m_code]. intros Hq H0. exact (H0 Hq).
  - inversion H; subst; clear H.
    eapply (rest_set_mgr s _ (d_gen d) m); [exact Ha|exact Hm| | | |exact Hr].
    + destruct (t_sub t && negb (is_nil rest)); exact Ha.
    + destruct (t_sub t && negb (is_nil rest)); reflexivity.
    + cbn [m_queued m_code]. intros Hq H0. exact (H0 Hq).
Qed.

Lemma live_cons (x : ascii) (r : bytes) : live (Some (x :: r)) <> None.
Proof. discriminate. Qed.

Lemma rest_LockM s j s' :
  inv_all s = true -> inv_all s' = true -> inv_rest s -> step_LockM s j = Some s' -> inv_rest s'.
Proof.
  intros Hinv Hinv' Hr H. split_inv Hinv. unfold step_LockM in H.
  destruct (nth_error (s_dqs s) j) as [d|] eqn:Hd; try discriminate H.
  destruct (d_pc d) eqn:Hpc; try discriminate H;
    (assert (Hl : live_dq d = true) by (unfold live_dq; rewrite Hpc; reflexivity));
    destruct (gen_live _ _ _ Hgen Hd Hl) as [Ha [m Hm]]; rewrite Hm in H.
  - (* PSetCode *)
    inversion H; subst; clear H.
    eapply (rest_set_mgr s _ (d_gen d) m); [exact Ha|exact Hm|exact Ha|reflexivity| |exact Hr].
    cbn [m_queued m_code]. intros _ _.
    destruct (inv_all_split _ Hinv') as (_ & _ & _ & _ & Hrids' & _).
    apply ItemFifo.rids_iff in Hrids'. destruct Hrids' as (_ & _ & Hne).
    unfold active_code in Hne. cbn [s_active s_mgrs log set_dq set_mgr] in Hne.
    rewrite Ha, (nth_error_upd_eq _ _ _ _ Hm) in Hne. cbn [m_code] in Hne.
    destruct (t_rid t) as [|x r]; [exfalso; apply Hne; reflexivity|apply live_cons].
  - (* PEosRead *)
    destr_H H; inversion H; subst; clear H; rest_frame_tac.
  - (* PNestRead *)
    destr_H H; inversion H; subst; clear H; rest_frame_tac.
  - (* PClear *)
    inversion H; subst; clear H.
    eapply (rest_set_mgr s _ (d_gen d) m); [exact Ha|exact Hm|exact Ha|reflexivity| |exact Hr].
    cbn [m_queued m_code]. intros Hq _. exfalso.
    assert (Hact : active_mgr s = Some m) by (rewrite (active_mgr_at _ _ Ha); exact Hm).
    pose proof (count_at _ _ Hcount Hact) as Hc.
    pose proof (sum_ge _ _ _ (start_nonneg _ Hstart) Hd Hl) as Hge.
    pose proof (start_at _ _ _ Hstart Hd) as Hst. rewrite Hpc in Hst.
    destruct (is_some (s_pending s)); lia.
  - (* PDec *)
    rewrite Ha, Nat.eqb_refl, andb_true_r in H.
    match type of H with (if ?c then _ else _) = _ => destruct c eqn:Edel end;
      inversion H; subst; clear H.
    + intros m2 Hact. discriminate Hact.
    + eapply (rest_set_mgr s _ (d_gen d) m); [exact Ha|exact Hm|exact Ha|reflexivity| |exact Hr].
      cbn [m_queued m_code]. intros Hq _.
      rewrite Hq in Edel. cbn [Z.eqb] in Edel. rewrite andb_true_r in Edel.
      destruct (live (m_code m)); [discriminate|discriminate Edel].
Qed.

Lemma inv_rest_step : forall s lb s',
  Inv s -> inv_rest s -> env_ok s lb = true -> step s lb = Some s' -> inv_rest s'.
Proof.
  intros s lb s' HI Hr He H.
  pose proof (Inv_all _ HI) as Hinv.
  pose proof (Inv_all _ (Inv_step _ _ _ HI He H)) as Hinv'.
  destruct lb; cbn [step] in H.
  - exact (rest_R1 _ _ _ Hinv Hr H).
  - exact (rest_R2 _ _ Hinv Hr H).
  - unfold step_JobStart in H. destr_H H; inversion H; subst; clear H; rest_frame_tac.
  - exact (rest_LockI _ _ _ Hinv Hr H).
  - exact (rest_LockM _ _ _ Hinv Hinv' Hr H).
  - unfold step_Put, listener_put in H. destr_H H; inversion H; subst; clear H; rest_frame_tac.
  - unfold step_CallB in H. destr_H H; inversion H; subst; clear H; rest_frame_tac.
  - unfold step_CallE in H. destr_H H; inversion H; subst; clear H; rest_frame_tac.
  - unfold step_Nest in H. destr_H H; inversion H; subst; clear H; rest_frame_tac.
  - unfold step_FreeBegin in H. destr_H H; inversion H; subst; clear H; rest_frame_tac.
  - unfold step_FreeLockM in H. destr_H H; inversion H; subst; clear H; rest_frame_tac.
  - unfold step_FreePut, listener_put in H. destr_H H; inversion H; subst; clear H; rest_frame_tac.
Qed.

Lemma rest_reachable : forall item s, reachable item s -> inv_rest s.
Proof. apply (reachable_inv inv_rest inv_rest_init inv_rest_step). Qed.

Lemma all_done_noclear l :
  forallb (fun d => pc_done (d_pc d)) l = true -> existsb (fun d => is_clear (d_pc d)) l = false.
Proof.
  induction l as [|x l IH]; intros H; [reflexivity|].
  cbn [forallb] in H. apply andb_true_iff in H. destruct H as [Hx H].
  cbn [existsb]. rewrite (IH H). destruct (d_pc x); try discriminate Hx. reflexivity.
Qed.

Theorem quiescent_after_usb_clean : forall item s t,
  reachable item s -> quiescent s = true -> last_seen s = Some t -> t_sub t = false ->
  s_active s = None /\ active_code s = None /\ hist_code (s_hist s) = None.
Proof.
  intros item s t Hr Hq Hl Hs. unfold last_seen in Hl.
  pose proof (reachable_Inv item s Hr) as HI.
  pose proof (Inv_all _ HI) as Hinv. split_inv Hinv.
  destruct (quiescent_mach s HI Hq) as (Hrs & Hsa & Hm).
  assert (Hdone : forallb (fun d => pc_done (d_pc d)) (s_dqs s) = true).
  { unfold quiescent in Hq. apply andb_true_iff in Hq. destruct Hq as [_ Hq]. exact Hq. }
  assert (Hcode0 : hist_code (s_hist s) = None).
  { destruct (uc_reachable item s Hr) as [_ Hu]. apply Hu.
    - rewrite Hrs. unfold ItemFifo.last_is_usb. rewrite Hl, Hs. reflexivity.
    - rewrite ItemFifo.inhand_unfold. apply (proj1 (ItemFifo.all_done_hand _ Hdone)).
    - apply all_done_noclear. exact Hdone. }
  pose proof (proj1 (ItemCode.inv_code_elim _ Hcode)) as Hac. rewrite Hcode0 in Hac.
  split; [|split; assumption].
  destruct (s_active s) as [g|] eqn:Ha; [exfalso|reflexivity].
  pose proof (ItemStruct.inv_all_struct _ Hinv) as Hstruct.
  pose proof (proj1 (ItemStruct.inv_struct_iff s) Hstruct) as ((G1 & _) & _).
  specialize (G1 g Ha).
  destruct (nth_error (s_mgrs s) g) as [m|] eqn:Hmg;
    [|apply nth_error_None in Hmg; lia].
  assert (Hact : active_mgr s = Some m) by (rewrite (active_mgr_at _ _ Ha); exact Hmg).
  destruct HI as (_ & _ & Hrun & _).
  destruct (ItemStruct.quiescent_counts s m Hstruct Hrun Hq Hact) as (Hq0 & _).
  apply (rest_reachable item s Hr m Hact Hq0).
  unfold active_code in Hac. rewrite Ha, Hmg in Hac. rewrite Hac. reflexivity.
Qed.

(* ================================================================== *)
(* 7. C19: before any request                                           *)
(* ================================================================== *)

Definition inv_noseen (s : istate) : Prop :=
  seen (s_hist s) = [] -> s_mgrs s = [] /\ s_active s = None.

Lemma inv_noseen_init : forall item, inv_noseen (init_state item).
Proof. intros item _. split; reflexivity. Qed.

Lemma upd_nil {A} n (x : A) : upd n x [] = [].
Proof. destruct n; reflexivity. Qed.

Ltac fin_frame :=
  repeat match goal with |- context [if ?b then _ else _] => destruct b end;
  cbn [s_mgrs s_active log set_dq set_mgr set_lis];
  split; (let X := fresh "X" in intros X; rewrite ?X, ?upd_nil; first [reflexivity | assumption | congruence]).

(* only the reader's first step creates a manager or an entry *)
Lemma step_frame s lb s' :
  (forall t, lb <> LbR1 t) -> step s lb = Some s' ->
  (s_mgrs s = [] -> s_mgrs s' = []) /\ (s_active s = None -> s_active s' = None).
Proof.
  intros Hn H. destruct lb; cbn [step] in H.
  - exfalso. eapply Hn. reflexivity.
  - unfold step_R2 in H. destr_H H; inversion H; subst; clear H; fin_frame.
  - unfold step_JobStart in H. destr_H H; inversion H; subst; clear H; fin_frame.
  - unfold step_LockI in H. destr_H H; inversion H; subst; clear H; fin_frame.
  - unfold step_LockM in H. destr_H H; inversion H; subst; clear H; fin_frame.
  - unfold step_Put, listener_put in H. destr_H H; inversion H; subst; clear H; fin_frame.
  - unfold step_CallB in H. destr_H H; inversion H; subst; clear H; fin_frame.
  - unfold step_CallE in H. destr_H H; inversion H; subst; clear H; fin_frame.
  - unfold step_Nest in H. destr_H H; inversion H; subst; clear H; fin_frame.
  - unfold step_FreeBegin in H. destr_H H; inversion H; subst; clear H; fin_frame.
  - unfold step_FreeLockM in H. destr_H H; inversion H; subst; clear H; fin_frame.
  - unfold step_FreePut, listener_put in H. destr_H H; inversion H; subst; clear H; fin_frame.
Qed.

Lemma inv_noseen_step : forall s lb s',
  Inv s -> inv_noseen s -> env_ok s lb = true -> step s lb = Some s' -> inv_noseen s'.
Proof.
  intros s lb s' _ Hk _ H Hs.
  assert (Hd : (exists t, lb = LbR1 t) \/ (forall t, lb <> LbR1 t)).
  { destruct lb; try (right; intros; discriminate). left. eexists. reflexivity. }
  destruct Hd as [[t ->]|Hn].
  - exfalso. cbn [step] in H. unfold step_R1 in H.
    destr_H H; inversion H; subst; clear H; cbn [s_hist log] in Hs;
      rewrite seen_app in Hs; apply app_eq_nil in Hs; destruct Hs as [_ Hs]; discriminate Hs.
  - destruct (step_events _ _ _ H) as [es [Hh _]].
    rewrite Hh, seen_app in Hs. apply app_eq_nil in Hs. destruct Hs as [Hs _].
    destruct (Hk Hs) as [Hm Ha].
    destruct (step_frame _ _ _ Hn H) as [F1 F2]. split; auto.
Qed.

Theorem nothing_seen_clean : forall item s,
  reachable item s -> seen (s_hist s) = [] -> s_active s = None /\ s_mgrs s = [].
Proof.
  intros item s Hr Hs.
  destruct (reachable_inv inv_noseen inv_noseen_init inv_noseen_step item s Hr Hs) as [Hm Ha].
  split; assumption.
Qed.

Print Assumptions order_ok_reachable.
Print Assumptions kinds_ok_reachable.
Print Assumptions latest_sub_published.
Print Assumptions quiescent_after_usb_clean.
Print Assumptions nothing_seen_clean.
