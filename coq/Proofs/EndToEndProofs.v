(* Proofs/EndToEndProofs.v — the composed path for a well-formed encoded request *)
From Coq Require Import String List Ascii NArith ZArith Bool Lia.
From LS Require Import Model.Bytes Model.Tags Gen.Consts Model.Codec Model.Readers Model.Writers
                       Model.AriSpec Model.AriReply Model.Init Model.MetaHandlers Model.Envelope Model.Classify
                       Model.EndToEnd
                       Proofs.BytesProofs Proofs.ReadersRoundtrip Proofs.MetaHandlersProofs Proofs.ClassifyProofs
                       Proofs.EnvelopeProofs.
Import ListNotations.

Lemma answer_of_job_lift : forall id r, answer_of_job id (job_result_of r) = lift_result id r.
Proof. intros id [b|[| |]]; reflexivity. Qed.

(* bytes of the request line |-> adapter calls made and bytes written / handler, for EVERY well-formed
   encoded request of the 14 post-init methods and EVERY script of adapter outcomes *)
Theorem answer_meta_encoded : forall id m q term outs,
  wf_id id = true -> post_init_meta m = true -> shape_ok m q = true -> ints_ok q ->
  forallb is_space term = true ->
  answer_meta (encode_line id m q term) outs =
    (firstn (n_calls (expected q) outs) (spec_calls (expected q)),
     match first_raise outs (length (spec_calls (expected q))) with
     | None => lift_result id (spec_data_reply m (expected q) outs)
     | Some (_, e) => lift_result id (error_reply m e)
     end).
Proof.
  intros id m q term outs Hid Hm Hs Hi Ht. unfold answer_meta.
  rewrite classify_encoded_meta by assumption.
  rewrite parse_request_encode_line by assumption. cbn [p_method p_data].
  rewrite meta_handler_of_name by exact Hm.
  destruct (handle_encoded m q outs Hm Hs Hi) as (r & Hh & Hok & Herr).
  rewrite Hh. f_equal.
  destruct (first_raise outs (length (spec_calls (expected q)))) as [[i e]|] eqn:Hf.
  - rewrite (Herr i e eq_refl). apply answer_of_job_lift.
  - rewrite (Hok eq_refl). apply answer_of_job_lift.
Qed.

(* when a line is written, the Proxy Adapter finds the request id in front of the reply text *)
Theorem answer_wire_opens : forall id body,
  ~ In c_pipe id ->
  lift_result id (WOk body) = AnsWire (reply_message id body ++ [c_cr; c_lf]) /\
  open_envelope (reply_message id body) = Some (id, split_on c_pipe body).
Proof. intros id body H. split; [reflexivity | apply reply_envelope; exact H]. Qed.

(* lines that are not requests of a known method never reach the adapter *)
Theorem answer_meta_no_call : forall line outs,
  (forall id, classify KMeta line <> CReq id true true) ->
  fst (answer_meta line outs) = [].
Proof.
  intros line outs H. unfold answer_meta.
  destruct (classify KMeta line) as [| | |id wf known|] eqn:E; try reflexivity.
  destruct wf, known; try reflexivity. exfalso. exact (H id eq_refl).
Qed.

Example answer_examples :
  answer_meta (bs "7a|NSC|S|sess+1") [ORet PNone] =
    ([mk NSessionClose [AText (Some (bs "sess 1"))]], AnsWire (bs "7a|NSC|V" ++ [c_cr; c_lf])) /\
  answer_meta (bs "7b|NSC|X|s") [] = ([], AnsHandler) /\
  answer_meta (bs "7c|FOO|S|s") [] = ([], AnsNone) /\
  snd (answer_meta (bs "7d|NUS|S|u|S|p") [ORet PNone; ORet (PInt 3); ORet (PBool true)]) = AnsHandler.
Proof. vm_compute. repeat split; reflexivity. Qed.

Print Assumptions answer_meta_encoded.
Print Assumptions answer_wire_opens.
Print Assumptions answer_meta_no_call.
Print Assumptions answer_examples.
