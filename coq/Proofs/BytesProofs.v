(* Proofs/BytesProofs.v — lemmas about the Python str primitives of Model/Bytes.v:
   split/join, rstrip/strip, decimal integer printing and parsing. *)
From Coq Require Import List Ascii NArith ZArith Bool Arith.
From Coq Require Import Lia ZifyBool ZifyN ZifyNat.
From LS Require Import Model.Bytes.
Import ListNotations.
Open Scope bool_scope.

(* lia with support for / and mod.  A private tactic is used instead of
   redefining Zify.zify_post_hook: that redefinition is global in Coq 8.16 (Local
   is not honoured) and would silently change lia in every file requiring this
   one. *)
Local Ltac elia := zify; Z.to_euclidean_division_equations; lia.

(* ====================================================================== *)
(* A. split / join                                                        *)
(* ====================================================================== *)

Lemma split_on_nil : forall sep, split_on sep [] = [[]].
Proof. reflexivity. Qed.

Lemma split_on_cons : forall sep c r,
  split_on sep (c :: r) =
  if Ascii.eqb c sep then [] :: split_on sep r
  else match split_on sep r with
       | [] => [[c]]
       | t :: ts => (c :: t) :: ts
       end.
Proof. reflexivity. Qed.

Lemma split_on_nonempty : forall sep s, split_on sep s <> [].
Proof.
  intros sep s. destruct s as [|c r].
  - cbn [split_on]. discriminate.
  - rewrite split_on_cons.
    destruct (Ascii.eqb c sep); [discriminate|].
    destruct (split_on sep r) as [|t ts]; discriminate.
Qed.

Lemma split_on_app_sep : forall sep (t r : bytes),
  ~ In sep t -> split_on sep (t ++ sep :: r) = t :: split_on sep r.
Proof.
  intros sep t r. induction t as [|a t IH]; intros Hnin.
  - cbn [app]. rewrite split_on_cons, Ascii.eqb_refl. reflexivity.
  - cbn [app]. rewrite split_on_cons.
    destruct (Ascii.eqb_spec a sep) as [E|E].
    + exfalso. apply Hnin. left. exact E.
    + rewrite IH; [reflexivity|].
      intros Hin. apply Hnin. right. exact Hin.
Qed.

Lemma split_on_nosep : forall sep (t : bytes), ~ In sep t -> split_on sep t = [t].
Proof.
  intros sep t. induction t as [|a t IH]; intros Hnin.
  - reflexivity.
  - rewrite split_on_cons.
    destruct (Ascii.eqb_spec a sep) as [E|E].
    + exfalso. apply Hnin. left. exact E.
    + rewrite IH; [reflexivity|].
      intros Hin. apply Hnin. right. exact Hin.
Qed.

Lemma join_with_nil : forall sep, join_with sep [] = [].
Proof. reflexivity. Qed.

Lemma join_with_singleton : forall sep x, join_with sep [x] = x.
Proof. reflexivity. Qed.

Lemma join_with_cons2 : forall sep x y r,
  join_with sep (x :: y :: r) = x ++ sep ++ join_with sep (y :: r).
Proof. reflexivity. Qed.

Lemma join_with_cons_nonempty : forall sep x r,
  r <> [] -> join_with sep (x :: r) = x ++ sep ++ join_with sep r.
Proof.
  intros sep x r Hr. destruct r as [|y r]; [congruence|]. reflexivity.
Qed.

Lemma join_with_app_singleton : forall sep ts t,
  ts <> [] -> join_with sep (ts ++ [t]) = join_with sep ts ++ sep ++ t.
Proof.
  intros sep ts t. induction ts as [|x ts IH]; intros Hne.
  - congruence.
  - destruct ts as [|y ts].
    + reflexivity.
    + change ((x :: y :: ts) ++ [t]) with (x :: y :: (ts ++ [t])).
      rewrite !join_with_cons2.
      change (y :: ts ++ [t]) with ((y :: ts) ++ [t]).
      rewrite IH by discriminate.
      rewrite <- !app_assoc. reflexivity.
Qed.

Lemma join_with_app : forall sep xs ys,
  xs <> [] -> ys <> [] ->
  join_with sep (xs ++ ys) = join_with sep xs ++ sep ++ join_with sep ys.
Proof.
  intros sep xs ys. induction xs as [|x xs IH]; intros Hx Hy.
  - congruence.
  - destruct xs as [|x' xs].
    + cbn [app]. rewrite join_with_cons_nonempty by exact Hy. reflexivity.
    + change ((x :: x' :: xs) ++ ys) with (x :: x' :: (xs ++ ys)).
      rewrite !join_with_cons2.
      change (x' :: xs ++ ys) with ((x' :: xs) ++ ys).
      rewrite IH by (discriminate || exact Hy).
      rewrite <- !app_assoc. reflexivity.
Qed.

Theorem split_join : forall sep (ts : list bytes),
  ts <> [] -> Forall (fun t : bytes => ~ In sep t) ts ->
  split_on sep (join_with [sep] ts) = ts.
Proof.
  intros sep ts. induction ts as [|t ts IH]; intros Hne Hall.
  - congruence.
  - inversion Hall as [|t' ts' Ht Hts]; subst.
    destruct ts as [|t2 ts].
    + rewrite join_with_singleton. apply split_on_nosep. exact Ht.
    + rewrite join_with_cons2. cbn [app].
      rewrite split_on_app_sep by exact Ht.
      f_equal. apply IH; [discriminate|exact Hts].
Qed.

Lemma join_split : forall sep s, join_with [sep] (split_on sep s) = s.
Proof.
  intros sep s. induction s as [|c r IH].
  - reflexivity.
  - rewrite split_on_cons.
    destruct (Ascii.eqb_spec c sep) as [E|E].
    + subst c.
      rewrite join_with_cons_nonempty by apply split_on_nonempty.
      rewrite IH. reflexivity.
    + pose proof (split_on_nonempty sep r) as Hne.
      destruct (split_on sep r) as [|t ts]; [congruence|].
      destruct ts as [|t2 ts].
      * rewrite join_with_singleton in *. congruence.
      * rewrite join_with_cons2 in *. rewrite <- IH. reflexivity.
Qed.

(* no token produced by split contains the separator *)
Lemma split_on_no_sep : forall sep s,
  Forall (fun t : bytes => ~ In sep t) (split_on sep s).
Proof.
  intros sep s. induction s as [|c r IH].
  - cbn [split_on]. constructor; [|constructor]. intros H. exact H.
  - rewrite split_on_cons.
    destruct (Ascii.eqb_spec c sep) as [E|E].
    + constructor; [|exact IH]. intros H. exact H.
    + destruct (split_on sep r) as [|t ts].
      * constructor; [|constructor]. intros [H|H]; [congruence|exact H].
      * inversion IH as [|t' ts' Ht Hts]; subst.
        constructor; [|exact Hts].
        intros [H|H]; [congruence|]. apply Ht. exact H.
Qed.

(* split is the unique inverse of join on separator-free token lists *)
Lemma split_on_unique : forall sep s (ts : list bytes),
  ts <> [] -> Forall (fun t : bytes => ~ In sep t) ts ->
  join_with [sep] ts = s -> split_on sep s = ts.
Proof.
  intros sep s ts Hne Hall Hj. subst s. apply split_join; assumption.
Qed.

(* ====================================================================== *)
(* B. rstrip / strip                                                      *)
(* ====================================================================== *)

Lemma rstrip_cons : forall c r,
  rstrip (c :: r) =
  match rstrip r with
  | [] => if is_space c then [] else [c]
  | a :: l => c :: a :: l
  end.
Proof. intros c r. cbn [rstrip]. destruct (rstrip r); reflexivity. Qed.

Lemma rstrip_nil_iff : forall s, rstrip s = [] <-> forallb is_space s = true.
Proof.
  intros s. induction s as [|c r IH].
  - cbn. split; reflexivity.
  - rewrite rstrip_cons. cbn [forallb].
    destruct (rstrip r) as [|a l].
    + destruct IH as [IH1 _]. rewrite (IH1 eq_refl).
      destruct (is_space c); cbn [andb]; split; intros H; congruence.
    + destruct IH as [_ IH2].
      split; intros H; [discriminate|].
      apply andb_true_iff in H. destruct H as [_ H].
      specialize (IH2 H). discriminate.
Qed.

Lemma rstrip_app_space : forall s w : bytes,
  forallb is_space w = true -> rstrip (s ++ w) = rstrip s.
Proof.
  intros s w Hw. induction s as [|c r IH].
  - cbn [app rstrip]. apply rstrip_nil_iff. exact Hw.
  - cbn [app]. rewrite !rstrip_cons, IH. reflexivity.
Qed.

Lemma rstrip_id : forall (s : bytes) c,
  is_space c = false -> rstrip (s ++ [c]) = s ++ [c].
Proof.
  intros s c Hc. induction s as [|a r IH].
  - cbn [app]. rewrite rstrip_cons. cbn [rstrip]. rewrite Hc. reflexivity.
  - cbn [app]. rewrite rstrip_cons, IH.
    destruct (r ++ [c]) as [|x l] eqn:E.
    + destruct r; discriminate.
    + reflexivity.
Qed.

(* rstrip yields either the empty string or a string ending in a non-space *)
Lemma rstrip_cases : forall s,
  rstrip s = [] \/
  exists (s' : bytes) c, rstrip s = s' ++ [c] /\ is_space c = false.
Proof.
  intros s. induction s as [|a r IH].
  - left. reflexivity.
  - rewrite rstrip_cons.
    destruct IH as [IH|[s' [c [IH Hc]]]].
    + rewrite IH. destruct (is_space a) eqn:Ea.
      * left. reflexivity.
      * right. exists [], a. split; [reflexivity|exact Ea].
    + right. rewrite IH.
      destruct (s' ++ [c]) as [|x l] eqn:E.
      * destruct s'; discriminate.
      * exists (a :: s'), c. split; [|exact Hc].
        cbn [app]. rewrite E. reflexivity.
Qed.

Lemma rstrip_idempotent : forall s, rstrip (rstrip s) = rstrip s.
Proof.
  intros s. destruct (rstrip_cases s) as [H|[s' [c [H Hc]]]].
  - rewrite H. reflexivity.
  - rewrite H. apply rstrip_id. exact Hc.
Qed.

(* rstrip only removes a whitespace suffix *)
Lemma rstrip_decompose : forall s,
  exists w : bytes, s = rstrip s ++ w /\ forallb is_space w = true.
Proof.
  intros s. induction s as [|a r IH].
  - exists []. split; reflexivity.
  - destruct IH as [w [Hs Hw]]. rewrite rstrip_cons.
    destruct (rstrip r) as [|x l] eqn:E.
    + cbn [app] in Hs. subst w.
      destruct (is_space a) eqn:Ea.
      * exists (a :: r). split; [reflexivity|].
        cbn [forallb]. rewrite Ea, Hw. reflexivity.
      * exists r. split; [reflexivity|exact Hw].
    + exists w. split; [|exact Hw].
      cbn [app]. f_equal. exact Hs.
Qed.

Lemma rstrip_no_space_id : forall s : bytes,
  forallb (fun c => negb (is_space c)) s = true -> rstrip s = s.
Proof.
  intros s. induction s as [|a r IH]; intros H.
  - reflexivity.
  - cbn [forallb] in H. apply andb_true_iff in H. destruct H as [Ha Hr].
    rewrite rstrip_cons, (IH Hr).
    destruct r as [|x l]; [|reflexivity].
    apply negb_true_iff in Ha. rewrite Ha. reflexivity.
Qed.

Lemma lstrip_no_space_id : forall s : bytes,
  forallb (fun c => negb (is_space c)) s = true -> lstrip s = s.
Proof.
  intros s H. destruct s as [|a r].
  - reflexivity.
  - cbn [forallb] in H. apply andb_true_iff in H. destruct H as [Ha _].
    apply negb_true_iff in Ha. cbn [lstrip]. rewrite Ha. reflexivity.
Qed.

Lemma strip_no_space_id : forall s : bytes,
  forallb (fun c => negb (is_space c)) s = true -> strip s = s.
Proof.
  intros s H. unfold strip.
  rewrite (lstrip_no_space_id s H). apply rstrip_no_space_id. exact H.
Qed.

(* ---- the C-isspace variants used by int() ---- *)

Lemma is_cspace_is_space : forall c, is_cspace c = true -> is_space c = true.
Proof.
  intros c H. unfold is_cspace in H. apply orb_true_iff in H.
  destruct H as [H|H].
  - unfold is_space. rewrite H. reflexivity.
  - apply Ascii.eqb_eq in H. subst c. reflexivity.
Qed.

Lemma not_space_not_cspace : forall c, is_space c = false -> is_cspace c = false.
Proof.
  intros c H. destruct (is_cspace c) eqn:E; [|reflexivity].
  rewrite (is_cspace_is_space c E) in H. discriminate.
Qed.

Lemma rstrip_c_cons : forall c r,
  rstrip_c (c :: r) =
  match rstrip_c r with
  | [] => if is_cspace c then [] else [c]
  | a :: l => c :: a :: l
  end.
Proof. intros c r. cbn [rstrip_c]. destruct (rstrip_c r); reflexivity. Qed.

Lemma rstrip_c_no_cspace_id : forall s : bytes,
  forallb (fun c => negb (is_cspace c)) s = true -> rstrip_c s = s.
Proof.
  intros s. induction s as [|a r IH]; intros H.
  - reflexivity.
  - cbn [forallb] in H. apply andb_true_iff in H. destruct H as [Ha Hr].
    rewrite rstrip_c_cons, (IH Hr).
    destruct r as [|x l]; [|reflexivity].
    apply negb_true_iff in Ha. rewrite Ha. reflexivity.
Qed.

Lemma lstrip_c_no_cspace_id : forall s : bytes,
  forallb (fun c => negb (is_cspace c)) s = true -> lstrip_c s = s.
Proof.
  intros s H. destruct s as [|a r].
  - reflexivity.
  - cbn [forallb] in H. apply andb_true_iff in H. destruct H as [Ha _].
    apply negb_true_iff in Ha. cbn [lstrip_c]. rewrite Ha. reflexivity.
Qed.

Lemma strip_c_no_cspace_id : forall s : bytes,
  forallb (fun c => negb (is_cspace c)) s = true -> strip_c s = s.
Proof.
  intros s H. unfold strip_c.
  rewrite (lstrip_c_no_cspace_id s H). apply rstrip_c_no_cspace_id. exact H.
Qed.

(* no Python whitespace => no C whitespace *)
Lemma no_space_no_cspace : forall s : bytes,
  forallb (fun c => negb (is_space c)) s = true ->
  forallb (fun c => negb (is_cspace c)) s = true.
Proof.
  intros s H. apply forallb_forall. intros c Hc.
  rewrite forallb_forall in H. specialize (H c Hc).
  apply negb_true_iff in H. rewrite (not_space_not_cspace c H). reflexivity.
Qed.

Lemma strip_c_no_space_id : forall s : bytes,
  forallb (fun c => negb (is_space c)) s = true -> strip_c s = s.
Proof.
  intros s H. apply strip_c_no_cspace_id. apply no_space_no_cspace. exact H.
Qed.

(* ====================================================================== *)
(* C. decimal integers                                                    *)
(* ====================================================================== *)

Local Open Scope N_scope.

(* ---- character facts ---- *)

Lemma code_ascii_of_N : forall n, n < 256 -> code (ascii_of_N n) = n.
Proof. intros n H. unfold code. apply N_ascii_embedding. exact H. Qed.

Lemma code_digit_char : forall d, d < 10 -> code (digit_char d) = 48 + d.
Proof. intros d H. unfold digit_char. apply code_ascii_of_N. elia. Qed.

Lemma is_digit_digit_char : forall d, d < 10 -> is_digit (digit_char d) = true.
Proof.
  intros d H. unfold is_digit, in_range.
  rewrite (code_digit_char d H). elia.
Qed.

Lemma digit_char_value : forall d, d < 10 -> code (digit_char d) - 48 = d.
Proof. intros d H. rewrite (code_digit_char d H). elia. Qed.

Lemma is_digit_not_space : forall c, is_digit c = true -> is_space c = false.
Proof.
  intros c. unfold is_digit, is_space, in_range.
  generalize (code c). intros n H. elia.
Qed.

Lemma is_digit_not_minus : forall c,
  is_digit c = true -> Ascii.eqb c c_minus = false.
Proof.
  intros c H. destruct (Ascii.eqb_spec c c_minus) as [E|E]; [|reflexivity].
  subst c. vm_compute in H. discriminate.
Qed.

Lemma is_digit_not_plus : forall c,
  is_digit c = true -> Ascii.eqb c c_plus = false.
Proof.
  intros c H. destruct (Ascii.eqb_spec c c_plus) as [E|E]; [|reflexivity].
  subst c. vm_compute in H. discriminate.
Qed.

Lemma is_space_minus : is_space c_minus = false.
Proof. reflexivity. Qed.

Lemma is_digit_minus : is_digit c_minus = false.
Proof. reflexivity. Qed.

(* ---- unbounded value of a digit string ---- *)

(* most-significant-first decimal value with accumulator; no syntax check and
   no length limit (used for the unbounded injectivity proof). *)
Fixpoint dec_val (acc : N) (s : bytes) : N :=
  match s with
  | [] => acc
  | c :: r => dec_val (acc * 10 + (code c - 48)) r
  end.

Lemma dec_val_cons : forall acc c r,
  dec_val acc (c :: r) = dec_val (acc * 10 + (code c - 48)) r.
Proof. reflexivity. Qed.

(* ---- dec_digits_fuel ---- *)

Lemma dec_digits_fuel_S : forall f n acc,
  dec_digits_fuel (S f) n acc =
  if N.eqb (n / 10) 0 then digit_char (n mod 10) :: acc
  else dec_digits_fuel f (n / 10) (digit_char (n mod 10) :: acc).
Proof. reflexivity. Qed.

Lemma dec_digits_fuel_digits : forall f n acc,
  forallb is_digit acc = true ->
  forallb is_digit (dec_digits_fuel f n acc) = true.
Proof.
  intros f. induction f as [|f IH]; intros n acc Hacc.
  - exact Hacc.
  - rewrite dec_digits_fuel_S.
    assert (Hd : forallb is_digit (digit_char (n mod 10) :: acc) = true).
    { cbn [forallb]. rewrite Hacc, is_digit_digit_char; [reflexivity|elia]. }
    destruct (N.eqb (n / 10) 0).
    + exact Hd.
    + apply IH. exact Hd.
Qed.

Lemma dec_digits_fuel_nonempty : forall f n acc,
  acc <> [] -> dec_digits_fuel f n acc <> [].
Proof.
  intros f. induction f as [|f IH]; intros n acc Hacc.
  - exact Hacc.
  - rewrite dec_digits_fuel_S.
    destruct (N.eqb (n / 10) 0).
    + discriminate.
    + apply IH. discriminate.
Qed.

Lemma dec_digits_fuel_length : forall f n acc,
  (length (dec_digits_fuel f n acc) <= f + length acc)%nat.
Proof.
  intros f. induction f as [|f IH]; intros n acc.
  - cbn [dec_digits_fuel]. elia.
  - rewrite dec_digits_fuel_S.
    destruct (N.eqb (n / 10) 0).
    + cbn [length]. elia.
    + specialize (IH (n / 10) (digit_char (n mod 10) :: acc)).
      cbn [length] in IH. elia.
Qed.

Lemma pow2_succ_nat : forall f, 2 ^ N.of_nat (S f) = 2 * 2 ^ N.of_nat f.
Proof.
  intros f. rewrite Nat2N.inj_succ. apply N.pow_succ_r'.
Qed.

(* the fuel is enough: the digits pushed in front of [acc] denote [n] *)
Lemma dec_val_dec_digits_fuel : forall f n acc,
  n < 2 ^ N.of_nat f ->
  dec_val 0 (dec_digits_fuel f n acc) = dec_val n acc.
Proof.
  intros f. induction f as [|f IH]; intros n acc Hn.
  - cbn [dec_digits_fuel]. change (2 ^ N.of_nat 0) with 1 in Hn.
    replace n with 0 by elia. reflexivity.
  - rewrite dec_digits_fuel_S. rewrite pow2_succ_nat in Hn.
    remember (2 ^ N.of_nat f) as P eqn:HP.
    assert (Hr : n mod 10 < 10) by elia.
    destruct (N.eqb_spec (n / 10) 0) as [Hq|Hq].
    + rewrite dec_val_cons, (digit_char_value _ Hr).
      f_equal. elia.
    + rewrite IH by (subst P; elia).
      rewrite dec_val_cons, (digit_char_value _ Hr).
      f_equal. elia.
Qed.

Lemma N_size_fuel : forall n, n < 2 ^ N.of_nat (S (N.to_nat (N.size n))).
Proof.
  intros n. rewrite pow2_succ_nat, N2Nat.id.
  pose proof (N.size_gt n) as H. elia.
Qed.

Lemma dec_val_N_to_dec : forall n, dec_val 0 (N_to_dec n) = n.
Proof.
  intros n. unfold N_to_dec.
  rewrite dec_val_dec_digits_fuel by apply N_size_fuel. reflexivity.
Qed.

Lemma N_to_dec_digits : forall n,
  forallb is_digit (N_to_dec n) = true /\ N_to_dec n <> [].
Proof.
  intros n. unfold N_to_dec. split.
  - apply dec_digits_fuel_digits. reflexivity.
  - rewrite dec_digits_fuel_S.
    destruct (N.eqb (n / 10) 0).
    + discriminate.
    + apply dec_digits_fuel_nonempty. discriminate.
Qed.

Lemma N_to_dec_injective : forall a b, N_to_dec a = N_to_dec b -> a = b.
Proof.
  intros a b H. rewrite <- (dec_val_N_to_dec a), <- (dec_val_N_to_dec b), H.
  reflexivity.
Qed.

Lemma N_to_dec_length : forall n,
  (length (N_to_dec n) <= S (N.to_nat (N.size n)))%nat.
Proof.
  intros n. unfold N_to_dec.
  pose proof (dec_digits_fuel_length (S (N.to_nat (N.size n))) n []) as H.
  cbn [length] in H. elia.
Qed.

(* a usable sufficient condition for the 4300-digit hypothesis below *)
Lemma N_to_dec_length_pow2 : forall n k,
  n < 2 ^ k -> N.of_nat (length (N_to_dec n)) <= N.succ k.
Proof.
  intros n k Hn.
  pose proof (N_to_dec_length n) as Hl.
  assert (Hs : N.size n <= k).
  { destruct (N.eq_dec n 0) as [E|E].
    - subst n. cbn. elia.
    - rewrite N.size_log2 by exact E.
      assert (N.log2 n < k) by (apply N.log2_lt_pow2; [elia|exact Hn]).
      elia. }
  elia.
Qed.

(* ---- int_toks & co on digit strings ---- *)

Definition digit_tok (c : ascii) : int_tok := IDigit (code c - 48).

Lemma int_toks_digits : forall s : bytes,
  forallb is_digit s = true -> int_toks s = Some (map digit_tok s).
Proof.
  intros s. induction s as [|c r IH]; intros H.
  - reflexivity.
  - cbn [forallb] in H. apply andb_true_iff in H. destruct H as [Hc Hr].
    cbn [int_toks map]. rewrite (IH Hr), Hc. reflexivity.
Qed.

Lemma int_wf_digits : forall (s : bytes) b,
  int_wf b (map digit_tok s) = match s with [] => b | _ :: _ => true end.
Proof.
  intros s. induction s as [|c r IH]; intros b.
  - reflexivity.
  - cbn [map digit_tok int_wf]. fold (digit_tok). rewrite IH.
    destruct r; reflexivity.
Qed.

Lemma count_digits_digits : forall s : bytes,
  count_digits (map digit_tok s) = N.of_nat (length s).
Proof.
  intros s. induction s as [|c r IH].
  - reflexivity.
  - cbn [map digit_tok count_digits length]. rewrite IH. elia.
Qed.

Lemma int_value_digits : forall (s : bytes) acc,
  int_value acc (map digit_tok s) = dec_val acc s.
Proof.
  intros s. induction s as [|c r IH]; intros acc.
  - reflexivity.
  - cbn [map digit_tok int_value dec_val]. apply IH.
Qed.

(* ---- Z_to_dec ---- *)

Lemma Z_to_dec_chars : forall z,
  forallb (fun c => is_digit c || Ascii.eqb c c_minus) (Z_to_dec z) = true /\
  Z_to_dec z <> [].
Proof.
  intros z.
  assert (Hd : forall s, forallb is_digit s = true ->
               forallb (fun c => is_digit c || Ascii.eqb c c_minus) s = true).
  { intros s. induction s as [|c r IH]; intros H.
    - reflexivity.
    - cbn [forallb] in *. apply andb_true_iff in H. destruct H as [Hc Hr].
      rewrite Hc, (IH Hr). reflexivity. }
  destruct z as [|p|p]; cbn [Z_to_dec].
  - split; [reflexivity|discriminate].
  - destruct (N_to_dec_digits (Npos p)) as [H1 H2].
    split; [apply Hd; exact H1|exact H2].
  - destruct (N_to_dec_digits (Npos p)) as [H1 _].
    split; [|discriminate].
    cbn [forallb]. rewrite (Hd _ H1), Ascii.eqb_refl, orb_true_r. reflexivity.
Qed.

Lemma Z_to_dec_no_space : forall z,
  forallb (fun c => negb (is_space c)) (Z_to_dec z) = true.
Proof.
  intros z. destruct (Z_to_dec_chars z) as [H _].
  apply forallb_forall. intros c Hc.
  rewrite forallb_forall in H. specialize (H c Hc).
  apply orb_true_iff in H. destruct H as [H|H].
  - rewrite (is_digit_not_space c H). reflexivity.
  - apply Ascii.eqb_eq in H. subst c. reflexivity.
Qed.

Lemma strip_Z_to_dec : forall z, strip (Z_to_dec z) = Z_to_dec z.
Proof. intros z. apply strip_no_space_id. apply Z_to_dec_no_space. Qed.

Lemma strip_c_Z_to_dec : forall z, strip_c (Z_to_dec z) = Z_to_dec z.
Proof. intros z. apply strip_c_no_space_id. apply Z_to_dec_no_space. Qed.

Lemma rstrip_Z_to_dec : forall z, rstrip (Z_to_dec z) = Z_to_dec z.
Proof. intros z. apply rstrip_no_space_id. apply Z_to_dec_no_space. Qed.

(* the unsigned core of parse_int on a digit string *)
Lemma parse_int_body_digits : forall s : bytes,
  forallb is_digit s = true -> s <> [] ->
  N.of_nat (length s) <= 4300 ->
  match int_toks s with
  | None => None
  | Some ts =>
      if int_wf false ts && N.leb (count_digits ts) max_str_digits
      then Some (int_value 0 ts) else None
  end = Some (dec_val 0 s).
Proof.
  intros s Hd Hne Hlen.
  rewrite (int_toks_digits s Hd), int_wf_digits, count_digits_digits,
    int_value_digits.
  destruct s as [|c r]; [congruence|].
  unfold max_str_digits.
  destruct (N.leb_spec (N.of_nat (length (c :: r))) 4300) as [L|L]; [|elia].
  reflexivity.
Qed.

Lemma parse_int_unsigned_digits : forall s : bytes,
  forallb is_digit s = true -> s <> [] ->
  N.of_nat (length s) <= 4300 ->
  parse_int s = Some (Z.of_N (dec_val 0 s)).
Proof.
  intros s Hd Hne Hlen.
  assert (Hns : forallb (fun c => negb (is_space c)) s = true).
  { apply forallb_forall. intros c Hc. rewrite forallb_forall in Hd.
    rewrite (is_digit_not_space c (Hd c Hc)). reflexivity. }
  pose proof (parse_int_body_digits s Hd Hne Hlen) as Hb.
  unfold parse_int. rewrite (strip_c_no_space_id s Hns).
  destruct s as [|c r]; [congruence|].
  assert (Hc : is_digit c = true).
  { cbn [forallb] in Hd. apply andb_true_iff in Hd. apply Hd. }
  rewrite (is_digit_not_minus c Hc), (is_digit_not_plus c Hc).
  destruct (int_toks (c :: r)) as [ts|]; [|discriminate].
  destruct (int_wf false ts && N.leb (count_digits ts) max_str_digits);
    [|discriminate].
  congruence.
Qed.

Lemma parse_int_minus_digits : forall s : bytes,
  forallb is_digit s = true -> s <> [] ->
  N.of_nat (length s) <= 4300 ->
  parse_int (c_minus :: s) = Some (Z.opp (Z.of_N (dec_val 0 s))).
Proof.
  intros s Hd Hne Hlen.
  assert (Hns : forallb (fun c => negb (is_space c)) (c_minus :: s) = true).
  { cbn [forallb]. rewrite is_space_minus. cbn [negb andb].
    apply forallb_forall. intros c Hc. rewrite forallb_forall in Hd.
    rewrite (is_digit_not_space c (Hd c Hc)). reflexivity. }
  pose proof (parse_int_body_digits s Hd Hne Hlen) as Hb.
  unfold parse_int. rewrite (strip_c_no_space_id _ Hns).
  rewrite Ascii.eqb_refl.
  destruct (int_toks s) as [ts|]; [|discriminate].
  destruct (int_wf false ts && N.leb (count_digits ts) max_str_digits);
    [|discriminate].
  congruence.
Qed.

Theorem parse_int_Z_to_dec : forall z,
  N.of_nat (length (Z_to_dec z)) <= 4300 ->
  parse_int (Z_to_dec z) = Some z.
Proof.
  intros z Hlen. destruct z as [|p|p]; cbn [Z_to_dec] in *.
  - vm_compute. reflexivity.
  - destruct (N_to_dec_digits (Npos p)) as [Hd Hne].
    rewrite (parse_int_unsigned_digits _ Hd Hne Hlen), dec_val_N_to_dec.
    reflexivity.
  - destruct (N_to_dec_digits (Npos p)) as [Hd Hne].
    cbn [length] in Hlen.
    rewrite (parse_int_minus_digits _ Hd Hne) by elia.
    rewrite dec_val_N_to_dec. reflexivity.
Qed.

(* ---- unbounded signed value; injectivity of Z_to_dec ---- *)

Definition dec_value (s : bytes) : Z :=
  match s with
  | [] => 0%Z
  | c :: r => if Ascii.eqb c c_minus then Z.opp (Z.of_N (dec_val 0 r))
              else Z.of_N (dec_val 0 s)
  end.

Lemma dec_value_Z_to_dec : forall z, dec_value (Z_to_dec z) = z.
Proof.
  intros z. destruct z as [|p|p]; cbn [Z_to_dec].
  - vm_compute. reflexivity.
  - destruct (N_to_dec_digits (Npos p)) as [Hd Hne].
    pose proof (dec_val_N_to_dec (Npos p)) as Hv.
    destruct (N_to_dec (Npos p)) as [|c r]; [congruence|].
    assert (Hc : is_digit c = true).
    { cbn [forallb] in Hd. apply andb_true_iff in Hd. apply Hd. }
    unfold dec_value. rewrite (is_digit_not_minus c Hc), Hv. reflexivity.
  - unfold dec_value. rewrite Ascii.eqb_refl, dec_val_N_to_dec. reflexivity.
Qed.

Lemma Z_to_dec_injective : forall a b, Z_to_dec a = Z_to_dec b -> a = b.
Proof.
  intros a b H.
  rewrite <- (dec_value_Z_to_dec a), <- (dec_value_Z_to_dec b), H.
  reflexivity.
Qed.

(* a usable sufficient condition for the length hypothesis of
   parse_int_Z_to_dec: |z| < 2^k with k + 2 <= 4300 *)
Lemma Z_to_dec_length_pow2 : forall z k,
  (Z.abs z < 2 ^ Z.of_N k)%Z ->
  N.of_nat (length (Z_to_dec z)) <= k + 2.
Proof.
  intros z k Hz.
  assert (Hp : forall p, (Zpos p < 2 ^ Z.of_N k)%Z -> Npos p < 2 ^ k).
  { intros p Hp. apply N2Z.inj_lt. rewrite N2Z.inj_pow. exact Hp. }
  destruct z as [|p|p]; cbn [Z_to_dec Z.abs length] in *.
  - elia.
  - pose proof (N_to_dec_length_pow2 (Npos p) k (Hp p Hz)). elia.
  - pose proof (N_to_dec_length_pow2 (Npos p) k (Hp p Hz)). elia.
Qed.

Print Assumptions split_join.
Print Assumptions join_split.
Print Assumptions rstrip_idempotent.
Print Assumptions parse_int_Z_to_dec.
Print Assumptions Z_to_dec_injective.
