(* Proofs/ShellStart.v — C14 "the credentials message is first" and C10
   "initialization gates everything" over the connection-level LTS Model/Shell.v *)
From Coq Require Import String List Ascii NArith ZArith Bool Arith Lia.
From LS Require Import Model.Bytes Model.Tags Model.AriReply Model.Shell Model.ShellSpec.
Import ListNotations.

Definition sreach (k : server_kind) (h : handler) (n : nat) (s : shell) : Prop :=
  exists ls, run (shell_init k h n) ls = Some s.

(* ================================================================== *)
(* 0. step inversion                                                    *)
(* ================================================================== *)

Ltac sproj :=
  cbn [sh_kind sh_handler sh_start sh_init_expected sh_close_expected sh_stop sh_todo sh_rpc sh_jobs
       sh_njobs sh_workers sh_shutdown sh_outq sh_wpc sh_apc sh_sock_closed sh_exited sh_hist
       set_hist slog set_reader set_rpc set_pool set_out set_misc put submit set_worker is_data].

Ltac sproj_in H :=
  cbn [sh_kind sh_handler sh_start sh_init_expected sh_close_expected sh_stop sh_todo sh_rpc sh_jobs
       sh_njobs sh_workers sh_shutdown sh_outq sh_wpc sh_apc sh_sock_closed sh_exited sh_hist
       set_hist slog set_reader set_rpc set_pool set_out set_misc put submit set_worker is_data] in H.

Ltac step_split H :=
  repeat (cbv beta iota zeta in H;
          match type of H with
          | None = Some _ => discriminate H
          | Some _ = Some _ => fail 1
          | (let (_, _) := io_fail _ _ in _) = Some _ => unfold io_fail in H; destruct (sh_handler _) eqn:?
          | (if (?b && sh_shutdown _) then _ else _) = Some _ => is_var b; destruct b
          | match ?x with _ => _ end = Some _ => destruct x eqn:?
          end).

Ltac step_inv H :=
  unfold step in H;
  match type of H with
  | (if ?x then _ else _) = _ => destruct x eqn:Hexited; [discriminate H|]
  end;
  match type of H with
  | match ?t with _ => _ end = _ => destruct t
  end;
  match type of H with
  | match ?a with _ => _ end = _ => destruct a
  end;
  step_split H;
  injection H as H;
  match type of H with _ = ?s' => subst s' end.

(* ================================================================== *)
(* 1. small library                                                     *)
(* ================================================================== *)

Lemma puts_of_app h es : puts_of (h ++ es) = puts_of h ++ puts_of es.
Proof.
  induction h as [|e r IH]; [reflexivity|].
  rewrite <- app_comm_cons. destruct e; cbn [puts_of]; rewrite IH; reflexivity.
Qed.

Lemma written_of_app h es : written_of (h ++ es) = written_of h ++ written_of es.
Proof.
  induction h as [|e r IH]; [reflexivity|].
  rewrite <- app_comm_cons. destruct e; cbn [written_of]; rewrite IH; reflexivity.
Qed.

Ltac hsimp :=
  rewrite ?puts_of_app, ?written_of_app; cbn [puts_of written_of app]; rewrite ?app_nil_r.
Ltac hsimp_in H :=
  rewrite ?puts_of_app, ?written_of_app in H; cbn [puts_of written_of app] in H; rewrite ?app_nil_r in H.

Definition is_idle (w : wstate) : bool := match w with KIdle => true | _ => false end.
Definition is_quiet (w : wstate) : bool := match w with KIdle | KExited => true | _ => false end.

Lemma forallb_updw (f : wstate -> bool) x : forall l w,
  forallb f l = true -> f x = true -> forallb f (updw w x l) = true.
Proof.
  induction l as [|y r IH]; intros w Hl Hx; [destruct w; reflexivity|].
  cbn [forallb] in Hl. apply andb_true_iff in Hl. destruct Hl as [Hy Hr].
  destruct w; cbn [updw forallb].
  - rewrite Hx, Hr. reflexivity.
  - rewrite Hy, IH by assumption. reflexivity.
Qed.

Lemma forallb_nth (f : wstate -> bool) : forall l w x,
  forallb f l = true -> nth_error l w = Some x -> f x = true.
Proof.
  induction l as [|y r IH]; intros w x Hl Hn; [destruct w; discriminate|].
  cbn [forallb] in Hl. apply andb_true_iff in Hl. destruct Hl as [Hy Hr].
  destruct w; cbn [nth_error] in Hn.
  - inversion Hn; subst; exact Hy.
  - eapply IH; eassumption.
Qed.

Lemma forallb_repeat_idle n : forallb is_idle (repeat KIdle n) = true.
Proof. induction n as [|n IH]; [reflexivity|]. cbn [repeat forallb is_idle]. exact IH. Qed.

Lemma forallb_idle_quiet l : forallb is_idle l = true -> forallb is_quiet l = true.
Proof.
  induction l as [|y r IH]; intros H; [reflexivity|].
  cbn [forallb] in *. apply andb_true_iff in H. destruct H as [Hy Hr].
  destruct y; try discriminate. cbn [is_quiet]. rewrite IH by assumption. reflexivity.
Qed.

(* the credentials scan, on the list of puts *)
Definition racf (ps : list (thread * oline)) : bool :=
  match ps with
  | [] => true
  | (ThStarter, ORac) :: rest => negb (existsb (fun p => is_rac (snd p)) rest)
  | _ => false
  end.

Lemma rac_first_racf h : rac_first h = racf (puts_of h).
Proof. reflexivity. Qed.

Lemma racf_snoc ps th l :
  racf ps = true -> ps <> [] -> is_rac l = false -> racf (ps ++ [(th, l)]) = true.
Proof.
  intros H Hne Hl. destruct ps as [|[t o] r]; [congruence|].
  rewrite <- app_comm_cons. cbn [racf] in *.
  destruct t; try discriminate. destruct o; try discriminate.
  rewrite existsb_app. cbn [existsb snd]. rewrite Hl.
  apply negb_true_iff in H. rewrite H. reflexivity.
Qed.

Lemma app_ne_nil {A} (l : list A) x : l ++ [x] <> [].
Proof. destruct l; discriminate. Qed.

(* ================================================================== *)
(* 2. Inv1: start progress, pool, freshness (state only + list of puts)  *)
(* ================================================================== *)

Definition init_pc (p : rpc) : bool :=
  match p with RInitB _ _ | RInitE _ _ | RLisB _ _ | RLisE _ _ | RInitPut _ _ => true | _ => false end.
Definition early_pc (p : rpc) : bool :=
  match p with
  | RNotStarted | RRecv | RHandY | RFalPut | RCl1 | RCl2 | RCl3 | RCl4 | RIoHand | RDead => true
  | _ => false
  end.

Definition Inv1P (p : rpc) (s : shell) : Prop :=
  (sh_start s <= 3) /\
  (sh_start s < 3 -> p = RNotStarted /\ sh_njobs s = 0 /\ sh_apc s = ANone /\ sh_init_expected s = true /\
                     sh_shutdown s = false /\ forallb is_idle (sh_workers s) = true) /\
  (sh_start s < 2 -> puts_of (sh_hist s) = []) /\
  (sh_start s < 1 -> sh_wpc s = WNotStarted) /\
  (2 <= sh_start s -> puts_of (sh_hist s) <> []) /\
  racf (puts_of (sh_hist s)) = true /\
  (sh_njobs s = 0 -> sh_jobs s = [] /\ forallb is_quiet (sh_workers s) = true) /\
  (sh_init_expected s = true -> sh_njobs s = 0 /\ early_pc p = true) /\
  (init_pc p = true -> sh_njobs s = 0 /\ sh_init_expected s = false).

Definition Inv1 (s : shell) : Prop := Inv1P (sh_rpc s) s.

Lemma Inv1_init k h n : Inv1 (shell_init k h n).
Proof.
  unfold Inv1, Inv1P. cbn.
  repeat split; try lia; try discriminate; try reflexivity;
    try apply forallb_repeat_idle; try (apply forallb_idle_quiet, forallb_repeat_idle).
Qed.

Ltac fin1_leaf :=
  first [ assumption | lia | congruence | discriminate
        | exfalso; eapply app_ne_nil; eassumption
        | apply forallb_updw; [assumption|reflexivity]
        | apply racf_snoc; [assumption|assumption|reflexivity]
        | match goal with H : puts_of _ = [] |- _ => rewrite H; reflexivity end
        | idtac ].

Ltac fwd :=
  repeat match goal with
         | H : _ /\ _ |- _ => destruct H
         | H : ?A -> _ |- _ =>
             let HA := fresh in
             assert (HA : A) by (first [lia | congruence | reflexivity]); specialize (H HA); clear HA
         end.

Ltac use_rpc :=
  unfold Inv1 in *;
  try match goal with Hr : sh_rpc ?s = _, Hi : Inv1P (sh_rpc ?s) ?s |- _ => rewrite Hr in Hi end.

Ltac fwd_asm :=
  repeat match goal with
         | H : _ /\ _ |- _ => destruct H
         | H : ?A -> _, HA : ?A |- _ => specialize (H HA)
         end.

Ltac fin1 :=
  use_rpc; unfold Inv1P in *; sproj; hsimp; cbn [init_pc early_pc] in *;
  repeat match goal with H : Nat.leb _ _ = true |- _ => apply Nat.leb_le in H end;
  repeat match goal with H : _ /\ _ |- _ => destruct H end;
  match goal with H : sh_start ?s <= 3 |- _ => destruct (le_lt_dec 3 (sh_start s)) end;
  fwd; try solve [exfalso; congruence]; repeat (split || intro); fwd_asm; fin1_leaf.

Ltac nth_facts :=
  repeat match goal with
         | Hn : nth_error (sh_workers ?s) ?w = Some ?x |- _ =>
             let H1 := fresh "Hq" in let H2 := fresh "Hq" in
             pose proof (fun Hf => forallb_nth is_quiet _ _ _ Hf Hn) as H1;
             pose proof (fun Hf => forallb_nth is_idle _ _ _ Hf Hn) as H2;
             cbn [is_quiet is_idle] in H1, H2; revert Hn
         end; intros.

Ltac settle_cases s ln IH :=
  cbn [settle]; unfold reader_hand;
  destruct ln as [|id0 rok|rid wf refused oldv|rid wf known];
  repeat match goal with
         | |- context [if negb ?b then _ else _] => destruct b eqn:?; cbn [negb]
         | |- context [match sh_handler s with _ => _ end] => destruct (sh_handler s) eqn:?
         | |- context [if ?b then _ else _] => destruct b eqn:?
         end;
  sproj; try (apply IH).

Lemma settle_Inv1 : forall todo s, Inv1P RRecv s -> Inv1 (settle s todo).
Proof.
  induction todo as [|ln rest IH]; intros s H.
  - cbn [settle]. destruct (sh_stop s); fin1.
  - settle_cases s ln IH.
    all: solve [fin1].
Qed.

Lemma Inv1_step s th a s' : Inv1 s -> step s th a = Some s' -> Inv1 s'.
Proof.
  intros Hi H. step_inv H.
  all: try match goal with |- Inv1 (settle _ _) => apply settle_Inv1 end.
  all: nth_facts.
  all: try solve [fin1].
  all: match goal with |- ?x => idtac x end.
Abort.
