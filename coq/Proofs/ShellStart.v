(* Proofs/ShellStart.v — C14 "the credentials message is first" and C10
   "initialization gates everything" over the connection-level LTS Model/Shell.v *)
From Coq Require Import String List Ascii NArith ZArith Bool Arith Lia.
From LS Require Import Model.Bytes Model.Tags Model.AriReply Model.Shell Model.ShellSpec.
Import ListNotations.

Definition sreach (k : server_kind) (h : handler) (n : nat) (s : shell) : Prop :=
  exists ls, run (shell_init k h n) ls = Some s.

(* ================================================================== *)
(* 0. step inversion                                                    *)
(* ================================================================== *)

Ltac sproj :=
  cbn [sh_kind sh_handler sh_start sh_init_expected sh_close_expected sh_stop sh_todo sh_rpc sh_jobs
       sh_njobs sh_workers sh_shutdown sh_outq sh_wpc sh_apc sh_sock_closed sh_exited sh_hist
       set_hist slog set_reader set_rpc set_pool set_out set_misc put submit set_worker is_data].

Ltac sproj_in H :=
  cbn [sh_kind sh_handler sh_start sh_init_expected sh_close_expected sh_stop sh_todo sh_rpc sh_jobs
       sh_njobs sh_workers sh_shutdown sh_outq sh_wpc sh_apc sh_sock_closed sh_exited sh_hist
       set_hist slog set_reader set_rpc set_pool set_out set_misc put submit set_worker is_data] in H.

Ltac step_split H :=
  repeat (cbv beta iota zeta in H;
          match type of H with
          | None = Some _ => discriminate H
          | Some _ = Some _ => fail 1
          | (let (_, _) := io_fail _ _ in _) = Some _ => unfold io_fail in H; destruct (sh_handler _) eqn:?
          | (if (?b && sh_shutdown _) then _ else _) = Some _ => is_var b; destruct b
          | match ?x with _ => _ end = Some _ => destruct x eqn:?
          end).

Ltac step_inv H :=
  unfold step in H;
  match type of H with
  | (if ?x then _ else _) = _ => destruct x eqn:Hexited; [discriminate H|]
  end;
  match type of H with
  | match ?t with _ => _ end = _ => destruct t
  end;
  match type of H with
  | match ?a with _ => _ end = _ => destruct a
  end;
  step_split H;
  injection H as H;
  match type of H with _ = ?s' => subst s' end.

(* ================================================================== *)
(* 1. small library                                                     *)
(* ================================================================== *)

Lemma puts_of_app h es : puts_of (h ++ es) = puts_of h ++ puts_of es.
Proof.
  induction h as [|e r IH]; [reflexivity|].
  rewrite <- app_comm_cons. destruct e; cbn [puts_of]; rewrite IH; reflexivity.
Qed.

Lemma written_of_app h es : written_of (h ++ es) = written_of h ++ written_of es.
Proof.
  induction h as [|e r IH]; [reflexivity|].
  rewrite <- app_comm_cons. destruct e; cbn [written_of]; rewrite IH; reflexivity.
Qed.

Ltac hsimp :=
  rewrite ?puts_of_app, ?written_of_app; cbn [puts_of written_of app]; rewrite ?app_nil_r.
Ltac hsimp_in H :=
  rewrite ?puts_of_app, ?written_of_app in H; cbn [puts_of written_of app] in H; rewrite ?app_nil_r in H.

Definition is_idle (w : wstate) : bool := match w with KIdle => true | _ => false end.
Definition is_quiet (w : wstate) : bool := match w with KIdle | KExited => true | _ => false end.

Lemma forallb_updw (f : wstate -> bool) x : forall l w,
  forallb f l = true -> f x = true -> forallb f (updw w x l) = true.
Proof.
  induction l as [|y r IH]; intros w Hl Hx; [destruct w; reflexivity|].
  cbn [forallb] in Hl. apply andb_true_iff in Hl. destruct Hl as [Hy Hr].
  destruct w; cbn [updw forallb].
  - rewrite Hx, Hr. reflexivity.
  - rewrite Hy, IH by assumption. reflexivity.
Qed.

Lemma forallb_nth (f : wstate -> bool) : forall l w x,
  forallb f l = true -> nth_error l w = Some x -> f x = true.
Proof.
  induction l as [|y r IH]; intros w x Hl Hn; [destruct w; discriminate|].
  cbn [forallb] in Hl. apply andb_true_iff in Hl. destruct Hl as [Hy Hr].
  destruct w; cbn [nth_error] in Hn.
  - inversion Hn; subst; exact Hy.
  - eapply IH; eassumption.
Qed.

Lemma forallb_repeat_idle n : forallb is_idle (repeat KIdle n) = true.
Proof. induction n as [|n IH]; [reflexivity|]. cbn [repeat forallb is_idle]. exact IH. Qed.

Lemma forallb_idle_quiet l : forallb is_idle l = true -> forallb is_quiet l = true.
Proof.
  induction l as [|y r IH]; intros H; [reflexivity|].
  cbn [forallb] in *. apply andb_true_iff in H. destruct H as [Hy Hr].
  destruct y; try discriminate. cbn [is_quiet]. rewrite IH by assumption. reflexivity.
Qed.

(* the credentials scan, on the list of puts *)
Definition racf (ps : list (thread * oline)) : bool :=
  match ps with
  | [] => true
  | (ThStarter, ORac) :: rest => negb (existsb (fun p => is_rac (snd p)) rest)
  | _ => false
  end.

Lemma rac_first_racf h : rac_first h = racf (puts_of h).
Proof. reflexivity. Qed.

Lemma racf_snoc ps th l :
  racf ps = true -> ps <> [] -> is_rac l = false -> racf (ps ++ [(th, l)]) = true.
Proof.
  intros H Hne Hl. destruct ps as [|[t o] r]; [congruence|].
  rewrite <- app_comm_cons. cbn [racf] in *.
  destruct t; try discriminate. destruct o; try discriminate.
  rewrite existsb_app. cbn [existsb snd]. rewrite Hl.
  apply negb_true_iff in H. rewrite H. reflexivity.
Qed.

Lemma app_ne_nil {A} (l : list A) x : l ++ [x] <> [].
Proof. destruct l; discriminate. Qed.

(* ================================================================== *)
(* 2. Inv1: start progress, pool, freshness (state only + list of puts)  *)
(* ================================================================== *)

Definition init_pc (p : rpc) : bool :=
  match p with RInitB _ _ | RInitE _ _ | RLisB _ _ | RLisE _ _ | RInitPut _ _ => true | _ => false end.
Definition early_pc (p : rpc) : bool :=
  match p with
  | RNotStarted | RRecv | RHandY | RFalPut | RCl1 | RCl2 | RCl3 | RCl4 | RIoHand | RDead => true
  | _ => false
  end.

Definition Inv1P (p : rpc) (s : shell) : Prop :=
  (sh_start s <= 3) /\
  (sh_start s < 3 -> p = RNotStarted /\ sh_njobs s = 0 /\ sh_apc s = ANone /\ sh_init_expected s = true /\
                     sh_shutdown s = false /\ forallb is_idle (sh_workers s) = true) /\
  (sh_start s < 2 -> puts_of (sh_hist s) = []) /\
  (sh_start s < 1 -> sh_wpc s = WNotStarted) /\
  (2 <= sh_start s -> puts_of (sh_hist s) <> []) /\
  racf (puts_of (sh_hist s)) = true /\
  (sh_njobs s = 0 -> sh_jobs s = [] /\ forallb is_quiet (sh_workers s) = true) /\
  (sh_init_expected s = true -> sh_njobs s = 0 /\ early_pc p = true) /\
  (init_pc p = true -> sh_njobs s = 0 /\ sh_init_expected s = false).

Definition Inv1 (s : shell) : Prop := Inv1P (sh_rpc s) s.

Lemma Inv1_init k h n : Inv1 (shell_init k h n).
Proof.
  unfold Inv1, Inv1P. cbn.
  repeat split; try lia; try discriminate; try reflexivity;
    try apply forallb_repeat_idle; try (apply forallb_idle_quiet, forallb_repeat_idle).
Qed.

Ltac bool_hyps :=
  repeat match goal with
         | H : Nat.leb _ _ = true |- _ => apply Nat.leb_le in H
         | H : _ && _ = true |- _ => apply andb_true_iff in H; destruct H
         | H : negb _ = true |- _ => apply negb_true_iff in H
         | H : negb _ = false |- _ => apply negb_false_iff in H
         end.

Ltac fin1_leaf :=
  first [ assumption | lia | congruence | discriminate
        | exfalso; eapply app_ne_nil; eassumption
        | apply forallb_updw; [assumption|reflexivity]
        | apply racf_snoc; [assumption|assumption|reflexivity]
        | match goal with H : puts_of _ = [] |- _ => rewrite H; reflexivity end
        | idtac ].

Ltac fwd :=
  repeat match goal with
         | H : _ /\ _ |- _ => destruct H
         | H : ?A -> _ |- _ =>
             let HA := fresh in
             assert (HA : A) by (first [lia | congruence | reflexivity]); specialize (H HA); clear HA
         end.

Ltac use_rpc :=
  unfold Inv1 in *;
  try match goal with Hr : sh_rpc ?s = _, Hi : Inv1P (sh_rpc ?s) ?s |- _ => rewrite Hr in Hi end.

Ltac fwd_asm :=
  repeat match goal with
         | H : _ /\ _ |- _ => destruct H
         | H : ?A -> _, HA : ?A |- _ => match type of A with Prop => specialize (H HA) end
         end.

Ltac fin1 :=
  use_rpc; unfold Inv1P in *; sproj; hsimp; cbn [init_pc early_pc] in *;
  bool_hyps;
  repeat match goal with H : _ /\ _ |- _ => destruct H end;
  match goal with H : sh_start ?s <= 3 |- _ => destruct (le_lt_dec 3 (sh_start s)) end;
  fwd; try solve [exfalso; congruence]; repeat (split || intro); fwd_asm; fin1_leaf.

Ltac nth_facts :=
  repeat match goal with
         | Hn : nth_error (sh_workers ?s) ?w = Some ?x |- _ =>
             let H1 := fresh "Hq" in let H2 := fresh "Hq" in
             pose proof (fun Hf => forallb_nth is_quiet _ _ _ Hf Hn) as H1;
             pose proof (fun Hf => forallb_nth is_idle _ _ _ Hf Hn) as H2;
             cbn [is_quiet is_idle] in H1, H2; revert Hn
         end; intros.

Ltac settle_cases s ln IH :=
  cbn [settle]; unfold reader_hand;
  destruct ln as [|id0 rok|rid wf refused oldv|rid wf known];
  repeat match goal with
         | |- context [if negb ?b then _ else _] => destruct b eqn:?; cbn [negb]
         | |- context [match sh_handler s with _ => _ end] => destruct (sh_handler s) eqn:?
         | |- context [if ?b then _ else _] => destruct b eqn:?
         end;
  sproj; try (apply IH).

Lemma settle_Inv1 : forall todo s, Inv1P RRecv s -> Inv1 (settle s todo).
Proof.
  induction todo as [|ln rest IH]; intros s H.
  - cbn [settle]. destruct (sh_stop s); fin1.
  - settle_cases s ln IH.
    all: solve [fin1].
Qed.

Lemma Inv1_step s th a s' : Inv1 s -> step s th a = Some s' -> Inv1 s'.
Proof.
  intros Hi H. step_inv H.
  all: try match goal with |- Inv1 (settle _ _) => apply settle_Inv1 end.
  all: nth_facts.
  all: solve [fin1].
Qed.

(* ================================================================== *)
(* 3. InvW: what was written is a prefix of what was enqueued            *)
(* ================================================================== *)

Definition InvW (s : shell) : Prop :=
  match sh_wpc s with
  | WNotStarted | WWait => map snd (puts_of (sh_hist s)) = written_of (sh_hist s) ++ sh_outq s
  | WHand l => map snd (puts_of (sh_hist s)) = written_of (sh_hist s) ++ l :: sh_outq s
  | WIoHand | WDead => exists x, map snd (puts_of (sh_hist s)) = written_of (sh_hist s) ++ x
  end.

Lemma settle_frameW : forall todo s,
  sh_wpc (settle s todo) = sh_wpc s /\ sh_outq (settle s todo) = sh_outq s /\
  puts_of (sh_hist (settle s todo)) = puts_of (sh_hist s) /\
  written_of (sh_hist (settle s todo)) = written_of (sh_hist s).
Proof.
  induction todo as [|ln rest IH]; intros s.
  - cbn [settle]. destruct (sh_stop s); sproj; hsimp; repeat split.
  - settle_cases s ln IH.
    all: try solve [sproj; hsimp; repeat split].
    all: match goal with |- context [settle ?x _] => destruct (IH x) as (E1 & E2 & E3 & E4) end.
    all: rewrite E1, E2, E3, E4; sproj; hsimp; repeat split.
Qed.

Lemma settle_InvW s todo : InvW s -> InvW (settle s todo).
Proof.
  unfold InvW. destruct (settle_frameW todo s) as (E1 & E2 & E3 & E4).
  rewrite E1, E2, E3, E4. exact (fun H => H).
Qed.

Lemma InvW_init k h n : InvW (shell_init k h n).
Proof. reflexivity. Qed.

Ltac finW_leaf :=
  first [ assumption
        | eexists; eassumption
        | match goal with H : _ = _ ++ _ |- _ => rewrite H; rewrite <- ?app_assoc; cbn [app]; reflexivity end
        | match goal with H : _ = _ ++ _ |- _ => eexists; rewrite H; rewrite <- ?app_assoc; cbn [app]; reflexivity end
        | match goal with H : _ = _ ++ _ |- _ => rewrite <- ?app_assoc; cbn [app]; exact H end
        | idtac ].

Ltac finW :=
  unfold InvW in *; sproj; hsimp; rewrite ?map_app; cbn [map snd];
  repeat match goal with
         | Hw : sh_wpc ?s = _, Hi : context [sh_wpc ?s] |- _ => rewrite Hw in Hi
         | Hw : sh_outq ?s = _, Hi : context [sh_outq ?s] |- _ => rewrite Hw in Hi
         end;
  try match goal with |- context [match sh_wpc ?s with _ => _ end] => destruct (sh_wpc s) end;
  try match goal with H : exists _, _ |- _ => destruct H end;
  finW_leaf.

Lemma InvW_step s th a s' : Inv1 s -> InvW s -> step s th a = Some s' -> InvW s'.
Proof.
  intros Hi1 Hi H. step_inv H.
  all: try match goal with |- InvW (settle _ _) => apply settle_InvW end.
  all: try solve [finW].
  destruct Hi1 as (_ & _ & _ & Hw & _).
  assert (Hn : sh_wpc s = WNotStarted) by (apply Hw; lia).
  unfold InvW in *. rewrite Hn in Hi. sproj. exact Hi.
Qed.

(* ================================================================== *)
(* 4. InvG: the initialization gate                                     *)
(* ================================================================== *)

Definition gate_rest (data : bool) (st : gate_st) : Prop :=
  match st with
  | GNone | GListenerDone | GInitDone false => True
  | GInitDone true => data = false
  | GInInit | GInListener => False
  end.

Definition gate_link (data : bool) (st : gate_st) (p : rpc) : Prop :=
  match p with
  | RInitB _ _ => st = GNone
  | RInitE _ _ => st = GInInit
  | RLisB _ _ => st = GInitDone true /\ data = true
  | RLisE _ _ => st = GInListener
  | _ => gate_rest data st
  end.

Definition is_initcall (e : sevent) : bool := match e with ECallB _ CInit => true | _ => false end.
Definition callb_or_submit (e : sevent) : bool := match e with ECallB _ _ | ESubmit _ _ => true | _ => false end.

Definition InvGP (p : rpc) (s : shell) (st : gate_st) (os : bool) : Prop :=
  (forall es, gate_ok_from (is_data s) GNone false (sh_hist s ++ es) = gate_ok_from (is_data s) st os es) /\
  gate_link (is_data s) st p /\
  (os = true -> sh_njobs s <> 0) /\
  (sh_init_expected s = true -> st = GNone /\ existsb callb_or_submit (sh_hist s) = false) /\
  count is_initcall (sh_hist s) = match st with GNone => 0 | _ => 1 end.

Definition InvG (s : shell) : Prop := exists st os, InvGP (sh_rpc s) s st os.

Lemma InvG_init k h n : InvG (shell_init k h n).
Proof.
  exists GNone, false. unfold InvGP. cbn. repeat split; try discriminate. 
Qed.

Lemma count_app {A} (f : A -> bool) l1 l2 : count f (l1 ++ l2) = count f l1 + count f l2.
Proof. unfold count. rewrite filter_app, app_length. reflexivity. Qed.

Ltac basic_leaf := first [ assumption | lia | congruence | discriminate | reflexivity | idtac ].

Ltac finG_leaf :=
  match goal with
  | H : forall es : list sevent, _ = _ |- _ =>
      first [ rewrite <- ?app_assoc; cbn [app]; rewrite H; cbn [gate_ok_from negb andb];
              repeat match goal with Hd : _ = true |- _ => rewrite Hd | Hd : _ = false |- _ => rewrite Hd end;
              reflexivity
            | clear H; basic_leaf ]
  | _ => basic_leaf
  end.

Ltac foldd :=
  unfold is_data in *; sproj;
  match goal with
  | |- context [match sh_kind ?s with KData => true | KMeta => false end] =>
      set (d := match sh_kind s with KData => true | KMeta => false end) in *
  | _ => idtac
  end.

Ltac finG :=
  unfold InvGP in *; sproj; foldd;
  repeat match goal with H : _ /\ _ |- _ => destruct H end;
  rewrite ?count_app, ?existsb_app, ?orb_false_r;
  cbn [count filter length is_initcall existsb callb_or_submit orb gate_link gate_rest] in *;
  rewrite ?orb_false_r, ?Nat.add_0_r;
  repeat (split || intro); fwd_asm; finG_leaf.

Lemma settle_InvG : forall todo s st os,
  InvGP RRecv s st os -> InvGP (sh_rpc (settle s todo)) (settle s todo) st os.
Proof.
  induction todo as [|ln rest IH]; intros s st os H.
  - cbn [settle]. destruct (sh_stop s); finG.
  - settle_cases s ln IH.
    all: solve [finG].
Qed.

Lemma InvG_settle s todo : (exists st os, InvGP RRecv s st os) -> InvG (settle s todo).
Proof. intros (st & os & H). exists st, os. apply settle_InvG. exact H. Qed.

Ltac pickG st os :=
  match goal with
  | |- context [ECallB ThReader CInit] => exists GInInit, os
  | |- context [ECallE ThReader CInit ?ok] => exists (GInitDone ok), os
  | |- context [ECallB ThReader CSetListener] => exists GInListener, os
  | |- context [ECallE ThReader CSetListener _] => exists GListenerDone, os
  | |- context [ECallB (ThWorker _) COther] => exists st, true
  | |- _ => exists st, os
  end.

(* facts of Inv1 made available to the gate proof *)
Ltac inv1_facts Hi1 :=
  use_rpc; unfold Inv1P in Hi1; cbn [init_pc early_pc] in Hi1;
  bool_hyps; fwd.

Lemma busy_facts s w j k ic dn :
  Inv1 s -> nth_error (sh_workers s) w = Some (KBusy j k ic dn) ->
  sh_njobs s <> 0 /\ init_pc (sh_rpc s) = false /\ sh_init_expected s = false.
Proof.
  intros Hi Hn. unfold Inv1, Inv1P in Hi.
  destruct Hi as (_ & _ & _ & _ & _ & _ & Hp & Hie & Hpc).
  assert (Hnj : sh_njobs s <> 0).
  { intros E. destruct (Hp E) as [_ Hq]. pose proof (forallb_nth _ _ _ _ Hq Hn) as Hx. discriminate Hx. }
  split; [exact Hnj|]. split.
  - destruct (init_pc (sh_rpc s)); [|reflexivity]. destruct Hpc as [E _]; [reflexivity|]. contradiction.
  - destruct (sh_init_expected s); [|reflexivity]. destruct Hie as [E _]; [reflexivity|]. contradiction.
Qed.

Lemma gate_link_rest d st p : gate_link d st p -> init_pc p = false -> gate_rest d st.
Proof. destruct p; cbn [gate_link init_pc]; intros H E; try discriminate E; exact H. Qed.

Lemma InvG_step s th a s' : Inv1 s -> InvG s -> step s th a = Some s' -> InvG s'.
Proof.
  intros Hi1 (st & os & Hi) H. step_inv H.
  all: try match goal with |- InvG (settle _ _) => apply InvG_settle end.
  all: unfold InvG; pickG st os.
  all: try match goal with Hr : sh_rpc _ = _ |- _ => rewrite Hr in Hi end.
  all: try solve [finG].
  all: try match goal with
           | Hn : nth_error _ _ = Some (KBusy _ _ _ _) |- _ =>
               destruct (busy_facts _ _ _ _ _ _ Hi1 Hn) as (Hnj & Hpc & Hie);
               let Hl := fresh "Hl" in
               assert (Hl : gate_rest (is_data s) st) by (apply (gate_link_rest _ _ (sh_rpc s)); [apply Hi|exact Hpc]);
               clear Hi1
           end.
  all: try (nth_facts; inv1_facts Hi1).
  all: try match goal with Hr : sh_rpc _ = _ |- _ => rewrite Hr in Hi end.
  all: try solve [finG].
  all: destruct st as [| |[|]| |]; try solve [finG].
  all: unfold InvGP in Hi; destruct Hi as (Hg1 & Hg2 & Hg3 & Hg4 & Hg5).
  all: assert (os = false) by (destruct os; [exfalso; apply Hg3; [reflexivity|assumption]|reflexivity]); subst os.
  all: solve [finG].
Qed.

(* ================================================================== *)
(* 5. InvR: the init reply comes first and once                          *)
(* ================================================================== *)

Definition cnt_ir (h : list sevent) : nat := count (fun p => is_init_reply (snd p)) (puts_of h).

Definition InvRP (p : rpc) (s : shell) (seen : bool) : Prop :=
  (forall es, init_reply_first_from false (sh_hist s ++ es) = init_reply_first_from seen es) /\
  (seen = true -> sh_njobs s <> 0) /\
  cnt_ir (sh_hist s) <= 1 /\
  (sh_init_expected s = true -> cnt_ir (sh_hist s) = 0) /\
  (init_pc p = true -> cnt_ir (sh_hist s) = 0).

Definition InvR (s : shell) : Prop := exists seen, InvRP (sh_rpc s) s seen.

Lemma InvR_init k h n : InvR (shell_init k h n).
Proof. exists false. unfold InvRP. cbn. repeat split; try discriminate; try lia; reflexivity. Qed.

Ltac finR_leaf :=
  match goal with
  | H : forall es : list sevent, _ = _ |- _ =>
      first [ rewrite <- ?app_assoc; cbn [app]; rewrite H; cbn [init_reply_first_from negb andb]; reflexivity
            | clear H; basic_leaf ]
  | _ => basic_leaf
  end.

Ltac finR :=
  unfold InvRP, cnt_ir in *; sproj; hsimp;
  repeat match goal with H : _ /\ _ |- _ => destruct H end;
  rewrite ?count_app;
  cbn [count filter length is_init_reply snd init_pc] in *;
  rewrite ?Nat.add_0_r;
  repeat (split || intro); fwd_asm; finR_leaf.

Lemma settle_InvR : forall todo s seen,
  InvRP RRecv s seen -> InvRP (sh_rpc (settle s todo)) (settle s todo) seen.
Proof.
  induction todo as [|ln rest IH]; intros s seen H.
  - cbn [settle]. destruct (sh_stop s); finR.
  - settle_cases s ln IH.
    all: solve [finR].
Qed.

Lemma InvR_settle s todo : (exists seen, InvRP RRecv s seen) -> InvR (settle s todo).
Proof. intros (seen & H). exists seen. apply settle_InvR. exact H. Qed.

Ltac pickR seen :=
  match goal with
  | |- context [put _ (ThWorker _) (OReply _)] => exists true
  | |- _ => exists seen
  end.

Lemma InvR_step s th a s' : Inv1 s -> InvR s -> step s th a = Some s' -> InvR s'.
Proof.
  intros Hi1 (seen & Hi) H. step_inv H.
  all: try match goal with |- InvR (settle _ _) => apply InvR_settle end.
  all: unfold InvR; pickR seen.
  all: try match goal with Hr : sh_rpc _ = _ |- _ => rewrite Hr in Hi end.
  all: try solve [finR].
  all: try match goal with
           | Hn : nth_error _ _ = Some (KBusy _ _ _ _) |- _ =>
               destruct (busy_facts _ _ _ _ _ _ Hi1 Hn) as (Hnj & Hpc & Hie); clear Hi1
           end.
  all: try (nth_facts; inv1_facts Hi1).
  all: try match goal with Hr : sh_rpc _ = _ |- _ => rewrite Hr in Hi end.
  all: try solve [finR].
  all: unfold InvRP in Hi; destruct Hi as (Hr1 & Hr2 & Hr3 & Hr4 & Hr5).
  all: assert (seen = false) by (destruct seen; [exfalso; apply Hr2; [reflexivity|assumption]|reflexivity]); subst seen.
  all: solve [finR].
Qed.

(* ================================================================== *)
(* 6. the assembled invariant along runs                                *)
(* ================================================================== *)

Definition Inv (s : shell) : Prop := Inv1 s /\ InvW s /\ InvG s /\ InvR s.

Lemma Inv_init k h n : Inv (shell_init k h n).
Proof.
  split; [apply Inv1_init|]. split; [apply InvW_init|]. split; [apply InvG_init|apply InvR_init].
Qed.

Lemma Inv_step s th a s' : Inv s -> step s th a = Some s' -> Inv s'.
Proof.
  intros (H1 & HW & HG & HR) Hs.
  split; [eapply Inv1_step; eassumption|].
  split; [eapply InvW_step; eassumption|].
  split; [eapply InvG_step; eassumption|eapply InvR_step; eassumption].
Qed.

Lemma Inv_run : forall ls s0 s, Inv s0 -> run s0 ls = Some s -> Inv s.
Proof.
  induction ls as [|[th a] ls IH]; intros s0 s Hi Hr; cbn [run] in Hr.
  - inversion Hr; subst; exact Hi.
  - destruct (step s0 th a) as [s1|] eqn:Hs; [|discriminate].
    eapply IH; [|exact Hr]. eapply Inv_step; eassumption.
Qed.

Lemma sreach_Inv k h n s : sreach k h n s -> Inv s.
Proof. intros [ls Hr]. eapply Inv_run; [apply Inv_init|exact Hr]. Qed.

(* ================================================================== *)
(* 7. C14                                                               *)
(* ================================================================== *)

Theorem rac_first_reachable : forall k h n s, sreach k h n s -> rac_first (sh_hist s) = true.
Proof.
  intros k h n s Hr. destruct (sreach_Inv _ _ _ _ Hr) as (H1 & _).
  rewrite rac_first_racf. apply H1.
Qed.

Theorem inv_start_reachable : forall k h n s, sreach k h n s -> inv_start s = true.
Proof.
  intros k h n s Hr. destruct (sreach_Inv _ _ _ _ Hr) as (H1 & _).
  unfold Inv1, Inv1P in H1. destruct H1 as (Hle & Hlt3 & Hlt2 & Hlt1 & _ & _ & Hpool & _).
  unfold inv_start.
  apply andb_true_iff; split; [apply andb_true_iff; split; [apply andb_true_iff; split|]|].
  - destruct (Nat.leb 3 (sh_start s)) eqn:E; [reflexivity|]. apply Nat.leb_gt in E.
    destruct (Hlt3 E) as (Hp & Hn & Ha & _ & _ & Hw). destruct (Hpool Hn) as [Hj _].
    rewrite Hp, Hj, Hn, Ha. cbn [orb andb is_nil Nat.eqb]. rewrite andb_true_r. exact Hw.
  - destruct (Nat.leb 2 (sh_start s)) eqn:E; [reflexivity|]. apply Nat.leb_gt in E.
    rewrite (Hlt2 E). reflexivity.
  - destruct (Nat.leb 1 (sh_start s)) eqn:E; [reflexivity|]. apply Nat.leb_gt in E.
    rewrite (Hlt1 E). reflexivity.
  - apply Nat.leb_le. exact Hle.
Qed.

Lemma oline_eqb_refl l : oline_eqb l l = true.
Proof. destruct l; cbn [oline_eqb]; rewrite ?Nat.eqb_refl, ?eqb_reflx; reflexivity. Qed.

Lemma is_prefix_app a x : is_prefix a (a ++ x) = true.
Proof.
  induction a as [|y a IH]; [reflexivity|].
  cbn [app is_prefix]. rewrite oline_eqb_refl, IH. reflexivity.
Qed.

Lemma InvW_prefix s : InvW s -> exists x, map snd (puts_of (sh_hist s)) = written_of (sh_hist s) ++ x.
Proof.
  unfold InvW. destruct (sh_wpc s); intros H; try exact H; eexists; exact H.
Qed.

Theorem written_prefix_reachable : forall k h n s, sreach k h n s -> written_prefix (sh_hist s) = true.
Proof.
  intros k h n s Hr. destruct (sreach_Inv _ _ _ _ Hr) as (_ & HW & _).
  destruct (InvW_prefix _ HW) as [x Hx]. unfold written_prefix. rewrite Hx. apply is_prefix_app.
Qed.

Lemma filter_none {A} (f : A -> bool) l : existsb f l = false -> filter f l = [].
Proof.
  induction l as [|a l IH]; [reflexivity|]. cbn [existsb filter].
  destruct (f a); [discriminate|]. exact IH.
Qed.

Lemma racf_count ps : racf ps = true -> ps <> [] -> count (fun p => is_rac (snd p)) ps = 1.
Proof.
  destruct ps as [|[t o] r]; [congruence|]. cbn [racf].
  destruct t; try discriminate. destruct o; try discriminate. intros H _.
  apply negb_true_iff in H. unfold count. cbn [filter snd is_rac].
  rewrite (filter_none _ _ H). reflexivity.
Qed.

(* once start() is past its second step there is exactly one credentials message *)
Theorem rac_exactly_once : forall k h n s, sreach k h n s -> (2 <= sh_start s)%nat ->
  count (fun p => is_rac (snd p)) (puts_of (sh_hist s)) = 1%nat.
Proof.
  intros k h n s Hr H2. destruct (sreach_Inv _ _ _ _ Hr) as (H1 & _).
  unfold Inv1, Inv1P in H1. destruct H1 as (_ & _ & _ & _ & Hne & Hrac & _).
  apply racf_count; [exact Hrac|apply Hne; exact H2].
Qed.

(* hence the first line written, if any, is the credentials message *)
Theorem first_written_is_rac : forall k h n s l rest, sreach k h n s ->
  written_of (sh_hist s) = l :: rest -> l = ORac.
Proof.
  intros k h n s l rest Hr Hw. destruct (sreach_Inv _ _ _ _ Hr) as (H1 & HW & _).
  destruct (InvW_prefix _ HW) as [x Hx]. rewrite Hw in Hx.
  unfold Inv1, Inv1P in H1. destruct H1 as (_ & _ & _ & _ & _ & Hrac & _).
  destruct (puts_of (sh_hist s)) as [|[t o] r]; [discriminate Hx|].
  cbn [map snd app] in Hx. injection Hx as Ho _. subst o.
  cbn [racf] in Hrac. destruct t; try discriminate Hrac. destruct l; try discriminate Hrac. reflexivity.
Qed.

(* ================================================================== *)
(* 8. C10                                                               *)
(* ================================================================== *)

Theorem gate_ok_reachable : forall k h n s, sreach k h n s -> gate_ok (is_data s) (sh_hist s) = true.
Proof.
  intros k h n s Hr. destruct (sreach_Inv _ _ _ _ Hr) as (_ & _ & (st & os & HG & _) & _).
  specialize (HG []). rewrite app_nil_r in HG. unfold gate_ok. rewrite HG. reflexivity.
Qed.

Theorem inv_gate_reachable : forall k h n s, sreach k h n s -> inv_gate s = true.
Proof.
  intros k h n s Hr. destruct (sreach_Inv _ _ _ _ Hr) as (H1 & _ & (st & os & _ & _ & _ & HG & _) & _).
  unfold Inv1, Inv1P in H1. destruct H1 as (_ & _ & _ & _ & _ & _ & Hpool & Hie & _).
  unfold inv_gate. destruct (sh_init_expected s) eqn:E; [|reflexivity].
  destruct (Hie eq_refl) as [Hn _]. destruct (Hpool Hn) as [Hj Hq]. destruct (HG eq_refl) as [_ Hex].
  rewrite Hj, Hn. cbn [negb orb is_nil Nat.eqb andb].
  change (forallb is_quiet (sh_workers s) && negb (existsb callb_or_submit (sh_hist s)) = true).
  rewrite Hq, Hex. reflexivity.
Qed.

Theorem init_once_reachable : forall k h n s, sreach k h n s -> init_once (sh_hist s) = true.
Proof.
  intros k h n s Hr.
  destruct (sreach_Inv _ _ _ _ Hr) as (_ & _ & (st & os & _ & _ & _ & _ & HG) & (seen & _ & _ & HR & _)).
  unfold init_once. apply andb_true_iff; split; apply Nat.leb_le.
  - change (count is_initcall (sh_hist s) <= 1). rewrite HG. destruct st; lia.
  - exact HR.
Qed.

Theorem init_reply_first_reachable : forall k h n s, sreach k h n s -> init_reply_first (sh_hist s) = true.
Proof.
  intros k h n s Hr. destruct (sreach_Inv _ _ _ _ Hr) as (_ & _ & _ & (seen & HR & _)).
  specialize (HR []). rewrite app_nil_r in HR. unfold init_reply_first. rewrite HR. reflexivity.
Qed.

(* rejected without touching the adapter and without a reply: dispatching a request while the init request is still
   expected, or an init request when it is not, changes nothing but the handler notification *)
Definition quiet_fields (s s' : shell) : Prop :=
  sh_jobs s' = sh_jobs s /\ sh_njobs s' = sh_njobs s /\ sh_outq s' = sh_outq s /\ sh_workers s' = sh_workers s /\
  sh_init_expected s' = sh_init_expected s /\ sh_close_expected s' = sh_close_expected s /\ sh_stop s' = sh_stop s.

Lemma reject_spec s rest0 :
  let s' := match reader_hand s with
            | (s1, Some p) => set_reader s1 (sh_init_expected s1) (sh_close_expected s1) rest0 p
            | (s1, None) => settle s1 []
            end in
  quiet_fields s s' /\
  (match sh_handler s with
   | HNone => sh_hist s' = sh_hist s ++ [EHand ThReader] /\ sh_rpc s' = (if is_data s then RFalPut else (if sh_stop s then RDead else RRecv)) \/
              sh_hist s' = sh_hist s ++ [EHand ThReader; EReaderEnd]
   | HRet _ _ => sh_hist s' = sh_hist s /\ sh_rpc s' = RHandY
   end).
Proof.
  intros s'. subst s'. unfold reader_hand, quiet_fields.
  destruct (sh_handler s) as [|er ir].
  - destruct (is_data s) eqn:Hd.
    + sproj. split; [repeat split|]. left. split; reflexivity.
    + cbn [settle]. sproj. destruct (sh_stop s) eqn:Hst; sproj.
      * split; [repeat split; assumption|]. right. rewrite <- app_assoc. reflexivity.
      * split; [repeat split; assumption|]. left. split; reflexivity.
  - sproj. split; [repeat split|]. split; reflexivity.
Qed.

Theorem early_request_rejected : forall s rid wf known,
  sh_init_expected s = true ->
  let s' := settle s [LcReq rid wf known] in
  quiet_fields s s' /\
  (match sh_handler s with
   | HNone => sh_hist s' = sh_hist s ++ [EHand ThReader] /\ sh_rpc s' = (if is_data s then RFalPut else (if sh_stop s then RDead else RRecv)) \/
              sh_hist s' = sh_hist s ++ [EHand ThReader; EReaderEnd]
   | HRet _ _ => sh_hist s' = sh_hist s /\ sh_rpc s' = RHandY
   end).
Proof.
  intros s rid wf known Hie. cbn [settle]. rewrite Hie. apply reject_spec.
Qed.

Theorem late_init_rejected : forall s rid wf refused oldv,
  sh_init_expected s = false ->
  let s' := settle s [LcInit rid wf refused oldv] in
  quiet_fields s s' /\
  (match sh_handler s with
   | HNone => sh_hist s' = sh_hist s ++ [EHand ThReader] /\ sh_rpc s' = (if is_data s then RFalPut else (if sh_stop s then RDead else RRecv)) \/
              sh_hist s' = sh_hist s ++ [EHand ThReader; EReaderEnd]
   | HRet _ _ => sh_hist s' = sh_hist s /\ sh_rpc s' = RHandY
   end).
Proof.
  intros s rid wf refused oldv Hie. cbn [settle]. rewrite Hie. cbn [negb]. apply reject_spec.
Qed.

Print Assumptions rac_first_reachable.
Print Assumptions inv_start_reachable.
Print Assumptions written_prefix_reachable.
Print Assumptions rac_exactly_once.
Print Assumptions first_written_is_rac.
Print Assumptions gate_ok_reachable.
Print Assumptions inv_gate_reachable.
Print Assumptions init_once_reachable.
Print Assumptions init_reply_first_reachable.
Print Assumptions early_request_rejected.
Print Assumptions late_init_rejected.
