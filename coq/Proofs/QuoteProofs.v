(* Proofs/QuoteProofs.v — facts about Model/Quote.v
   (urllib.parse.quote_plus / unquote_plus at the byte level).

   Main results:
     unquote_quote    : unquote_plus (quote_plus b) = b
     quote_alphabet   : quote_plus b consists of tok_chars only
     quote_nil_iff    : quote_plus b = [] <-> b = []
     quote_not_special: quote_plus b is neither "#" nor "$"
     tok_char_not_sep : tok_chars are not '|', CR, LF, space, nor whitespace
     unquote_alt      : unquote_plus decodes EVERY alternative encoding
     quote_is_alt     : quote_plus produces one of the alternative encodings

   Technique: every 256-byte sweep is a CLOSED boolean check over [all_bytes]
   discharged by [vm_compute]; the recursive [unquote_plus] is only ever
   unfolded by the three step lemmas [unquote_plus_plus / _lit / _hex]. *)
From Coq Require Import List Ascii String NArith Bool Lia.
From LS Require Import Model.Bytes Model.Quote.
Import ListNotations.
Open Scope bool_scope.
Local Open Scope N_scope.

(* ------------------------------------------------------------------ *)
(* all 256 bytes                                                       *)
(* ------------------------------------------------------------------ *)

Definition all_bytes : list ascii :=
  let bl := [false; true] in
  flat_map (fun b7 => flat_map (fun b6 => flat_map (fun b5 => flat_map (fun b4 =>
  flat_map (fun b3 => flat_map (fun b2 => flat_map (fun b1 => map (fun b0 =>
    Ascii b0 b1 b2 b3 b4 b5 b6 b7) bl) bl) bl) bl) bl) bl) bl) bl.

Lemma all_bytes_existsb : forall a, existsb (Ascii.eqb a) all_bytes = true.
Proof.
  intros a.
  destruct a as [[] [] [] [] [] [] [] []]; vm_compute; reflexivity.
Qed.

Lemma all_bytes_complete : forall a, In a all_bytes.
Proof.
  intros a.
  destruct (proj1 (existsb_exists _ _) (all_bytes_existsb a)) as [x [Hin Heq]].
  apply Ascii.eqb_eq in Heq. subst x. exact Hin.
Qed.

(* lift a closed boolean sweep to a universally quantified fact *)
Lemma sweep_all : forall (f : ascii -> bool),
  forallb f all_bytes = true -> forall c, f c = true.
Proof.
  intros f Hf c.
  exact (proj1 (forallb_forall f all_bytes) Hf c (all_bytes_complete c)).
Qed.

(* ------------------------------------------------------------------ *)
(* step lemmas for unquote_plus (the only places it is unfolded)       *)
(* ------------------------------------------------------------------ *)

Lemma unquote_plus_nil : unquote_plus [] = [].
Proof. reflexivity. Qed.

Lemma unquote_plus_plus : forall r,
  unquote_plus (c_plus :: r) = c_space :: unquote_plus r.
Proof. intros r. reflexivity. Qed.

Lemma unquote_plus_lit : forall c r,
  c <> c_plus -> c <> c_pct ->
  unquote_plus (c :: r) = c :: unquote_plus r.
Proof.
  intros c r Hplus Hpct.
  cbn [unquote_plus].
  destruct (Ascii.eqb c c_plus) eqn:E1.
  - apply Ascii.eqb_eq in E1. contradiction.
  - destruct (Ascii.eqb c c_pct) eqn:E2.
    + apply Ascii.eqb_eq in E2. contradiction.
    + reflexivity.
Qed.

Lemma unquote_plus_hex : forall x y vx vy r,
  hex_val x = Some vx -> hex_val y = Some vy ->
  unquote_plus (c_pct :: x :: y :: r) =
  ascii_of_N (16 * vx + vy) :: unquote_plus r.
Proof.
  intros x y vx vy r Hx Hy.
  cbn [unquote_plus].
  change (Ascii.eqb c_pct c_plus) with false.
  change (Ascii.eqb c_pct c_pct) with true.
  cbv iota.
  rewrite Hx, Hy. reflexivity.
Qed.

(* ------------------------------------------------------------------ *)
(* closed per-byte sweeps                                              *)
(* ------------------------------------------------------------------ *)

(* a safe byte is ASCII and is neither '+' nor '%' *)
Definition chk_safe (c : ascii) : bool :=
  implb (always_safe c)
        (negb (Ascii.eqb c c_pct) && negb (Ascii.eqb c c_plus)
         && N.ltb (code c) 128).

Lemma sweep_safe : forallb chk_safe all_bytes = true.
Proof. vm_compute. reflexivity. Qed.

(* the two hex digits emitted by quote1 decode back to the byte's code *)
Definition chk_hex (c : ascii) : bool :=
  match hex_val (hex_digit_upper (code c / 16)),
        hex_val (hex_digit_upper (code c mod 16)) with
  | Some vx, Some vy => N.eqb (16 * vx + vy) (code c)
  | _, _ => false
  end.

Lemma sweep_hex : forallb chk_hex all_bytes = true.
Proof. vm_compute. reflexivity. Qed.

(* every byte of quote1 c is a tok_char *)
Definition chk_alpha (c : ascii) : bool := forallb tok_char (quote1 c).

Lemma sweep_alpha : forallb chk_alpha all_bytes = true.
Proof. vm_compute. reflexivity. Qed.

(* tok_chars are not separators / whitespace *)
Definition chk_sep (c : ascii) : bool :=
  implb (tok_char c)
        (negb (Ascii.eqb c c_pipe) && negb (Ascii.eqb c c_cr)
         && negb (Ascii.eqb c c_lf) && negb (Ascii.eqb c c_space)
         && negb (is_space c)).

Lemma sweep_sep : forallb chk_sep all_bytes = true.
Proof. vm_compute. reflexivity. Qed.

(* direct per-byte round trip (not needed below, kept as a cross-check) *)
Definition chk_round (c : ascii) : bool :=
  bytes_eqb (unquote_plus (quote1 c)) [c].

Lemma sweep_round : forallb chk_round all_bytes = true.
Proof. vm_compute. reflexivity. Qed.

(* ------------------------------------------------------------------ *)
(* per-byte facts                                                      *)
(* ------------------------------------------------------------------ *)

Lemma neqb_neq : forall a b : ascii, negb (Ascii.eqb a b) = true -> a <> b.
Proof.
  intros a b H E. apply Ascii.eqb_eq in E. rewrite E in H. discriminate H.
Qed.

Lemma always_safe_facts : forall c,
  always_safe c = true ->
  c <> c_pct /\ c <> c_plus /\ code c < 128.
Proof.
  intros c Hs.
  pose proof (sweep_all chk_safe sweep_safe c) as H.
  unfold chk_safe in H. rewrite Hs in H. cbn [implb] in H.
  apply andb_true_iff in H. destruct H as [H H3].
  apply andb_true_iff in H. destruct H as [H1 H2].
  split; [|split].
  - apply neqb_neq. exact H1.
  - apply neqb_neq. exact H2.
  - apply N.ltb_lt. exact H3.
Qed.

Lemma quote1_hex_facts : forall c,
  exists vx vy,
    hex_val (hex_digit_upper (code c / 16)) = Some vx /\
    hex_val (hex_digit_upper (code c mod 16)) = Some vy /\
    code c = 16 * vx + vy.
Proof.
  intros c.
  pose proof (sweep_all chk_hex sweep_hex c) as H.
  unfold chk_hex in H.
  destruct (hex_val (hex_digit_upper (code c / 16))) as [vx|]; [|discriminate H].
  destruct (hex_val (hex_digit_upper (code c mod 16))) as [vy|]; [|discriminate H].
  exists vx, vy. apply N.eqb_eq in H.
  split; [reflexivity|]. split; [reflexivity|]. symmetry. exact H.
Qed.

Lemma quote1_alphabet : forall c, forallb tok_char (quote1 c) = true.
Proof. exact (sweep_all chk_alpha sweep_alpha). Qed.

Lemma quote1_not_nil : forall c, quote1 c <> [].
Proof.
  intros c. unfold quote1.
  destruct (always_safe c); [discriminate|].
  destruct (Ascii.eqb c c_space); discriminate.
Qed.

(* ------------------------------------------------------------------ *)
(* alternative encodings                                               *)
(* ------------------------------------------------------------------ *)

(* Every way a peer may legitimately encode one byte [c]:
   - literally, if it is an ASCII byte other than '%' and '+';
   - '+' for a space;
   - %XY with hex digits in either case. *)
Inductive alt1 : ascii -> bytes -> Prop :=
| alt_lit c :
    c <> c_pct -> c <> c_plus -> code c < 128 -> alt1 c [c]
| alt_plus : alt1 c_space [c_plus]
| alt_hex c x y vx vy :
    hex_val x = Some vx -> hex_val y = Some vy ->
    code c = 16 * vx + vy -> alt1 c [c_pct; x; y].

Inductive alt_enc : bytes -> bytes -> Prop :=
| alt_nil : alt_enc [] []
| alt_cons c b t u : alt1 c t -> alt_enc b u -> alt_enc (c :: b) (t ++ u).

Lemma unquote_alt1_step : forall c t r,
  alt1 c t -> unquote_plus (t ++ r) = c :: unquote_plus r.
Proof.
  intros c t r H.
  destruct H as [c Hpct Hplus Hlt | | c x y vx vy Hx Hy Hc].
  - cbn [app]. apply unquote_plus_lit; assumption.
  - cbn [app]. apply unquote_plus_plus.
  - cbn [app]. rewrite (unquote_plus_hex x y vx vy r Hx Hy).
    rewrite <- Hc. unfold code. rewrite ascii_N_embedding. reflexivity.
Qed.

Theorem unquote_alt : forall b t, alt_enc b t -> unquote_plus t = b.
Proof.
  intros b t H.
  induction H as [| c b t u H1 H IH].
  - reflexivity.
  - rewrite (unquote_alt1_step c t u H1). rewrite IH. reflexivity.
Qed.

Lemma quote1_is_alt1 : forall c, alt1 c (quote1 c).
Proof.
  intros c. unfold quote1.
  destruct (always_safe c) eqn:Es.
  - destruct (always_safe_facts c Es) as [Hpct [Hplus Hlt]].
    apply alt_lit; assumption.
  - destruct (Ascii.eqb c c_space) eqn:Esp.
    + apply Ascii.eqb_eq in Esp. subst c. apply alt_plus.
    + destruct (quote1_hex_facts c) as [vx [vy [Hx [Hy Hc]]]].
      exact (alt_hex c _ _ vx vy Hx Hy Hc).
Qed.

Lemma quote_is_alt : forall b, alt_enc b (quote_plus b).
Proof.
  intros b. induction b as [| c b IH].
  - exact alt_nil.
  - unfold quote_plus. cbn [flat_map].
    apply alt_cons.
    + apply quote1_is_alt1.
    + exact IH.
Qed.

(* ------------------------------------------------------------------ *)
(* main theorems about quote_plus                                      *)
(* ------------------------------------------------------------------ *)

Theorem unquote_quote : forall b, unquote_plus (quote_plus b) = b.
Proof.
  intros b. apply unquote_alt. apply quote_is_alt.
Qed.

(* the per-step form, convenient for clients that reason about prefixes *)
Lemma unquote_quote1_app : forall c r,
  unquote_plus (quote1 c ++ r) = c :: unquote_plus r.
Proof.
  intros c r. apply unquote_alt1_step. apply quote1_is_alt1.
Qed.

Lemma quote_plus_cons : forall c b,
  quote_plus (c :: b) = quote1 c ++ quote_plus b.
Proof. intros c b. reflexivity. Qed.

Lemma quote_plus_app : forall a b,
  quote_plus (a ++ b) = quote_plus a ++ quote_plus b.
Proof. intros a b. unfold quote_plus. apply flat_map_app. Qed.

Theorem quote_alphabet : forall b, forallb tok_char (quote_plus b) = true.
Proof.
  intros b. induction b as [| c b IH].
  - reflexivity.
  - rewrite quote_plus_cons. rewrite forallb_app.
    rewrite quote1_alphabet. rewrite IH. reflexivity.
Qed.

Lemma quote_nil_iff : forall b, quote_plus b = [] <-> b = [].
Proof.
  intros b. split.
  - intros H. destruct b as [| c b]; [reflexivity|].
    rewrite quote_plus_cons in H.
    apply app_eq_nil in H. destruct H as [H _].
    exfalso. exact (quote1_not_nil c H).
  - intros H. subst b. reflexivity.
Qed.

Lemma quote_injective : forall a b, quote_plus a = quote_plus b -> a = b.
Proof.
  intros a b H.
  rewrite <- (unquote_quote a), <- (unquote_quote b), H. reflexivity.
Qed.

Lemma tok_char_hash : tok_char c_hash = false.
Proof. vm_compute. reflexivity. Qed.

Lemma tok_char_dollar : tok_char c_dollar = false.
Proof. vm_compute. reflexivity. Qed.

Lemma quote_not_special : forall b,
  quote_plus b <> [c_hash] /\ quote_plus b <> [c_dollar].
Proof.
  intros b. split; intros H; pose proof (quote_alphabet b) as Ha;
    rewrite H in Ha; cbn [forallb] in Ha.
  - rewrite tok_char_hash in Ha. discriminate Ha.
  - rewrite tok_char_dollar in Ha. discriminate Ha.
Qed.

Lemma tok_char_not_sep : forall c,
  tok_char c = true ->
  c <> c_pipe /\ c <> c_cr /\ c <> c_lf /\ c <> c_space /\ is_space c = false.
Proof.
  intros c Ht.
  pose proof (sweep_all chk_sep sweep_sep c) as H.
  unfold chk_sep in H. rewrite Ht in H. cbn [implb] in H.
  apply andb_true_iff in H. destruct H as [H H5].
  apply andb_true_iff in H. destruct H as [H H4].
  apply andb_true_iff in H. destruct H as [H H3].
  apply andb_true_iff in H. destruct H as [H1 H2].
  split; [|split; [|split; [|split]]].
  - apply neqb_neq. exact H1.
  - apply neqb_neq. exact H2.
  - apply neqb_neq. exact H3.
  - apply neqb_neq. exact H4.
  - apply negb_true_iff. exact H5.
Qed.

(* ------------------------------------------------------------------ *)
Print Assumptions unquote_quote.
Print Assumptions quote_alphabet.
Print Assumptions quote_nil_iff.
Print Assumptions quote_not_special.
Print Assumptions tok_char_not_sep.
Print Assumptions unquote_alt.
Print Assumptions quote_is_alt.
Print Assumptions quote_injective.
Print Assumptions unquote_quote1_app.
