(* Proofs/Base64Proofs.v — round trip, alphabet, length and injectivity of the
   base64 model (Model/Base64.v).

   Technique: induction on the input by groups of three bytes; the per-group
   facts are (a) a closed 64-element sweep over the sextets
   (b64_val (b64_char n) = Some n, alphabet membership, b64_char n <> '='),
   (b) arithmetic recombination identities on codes < 256 proved by lia, and
   (c) a closed 256-element sweep for the separator lemma. *)
From Coq Require Import List Ascii NArith ZArith Bool PeanoNat.
From Coq Require Import Lia ZifyBool ZifyN ZifyNat.
From LS Require Import Model.Bytes Model.Base64.
Import ListNotations.
Open Scope bool_scope.
Local Open Scope N_scope.

Ltac Zify.zify_post_hook ::= Z.to_euclidean_division_equations.

Arguments N.div : simpl never.
Arguments N.modulo : simpl never.
Arguments N.mul : simpl never.
Arguments N.add : simpl never.
Arguments N.sub : simpl never.

(* ------------------------------------------------------------------ *)
(* Induction by groups of three                                        *)
(* ------------------------------------------------------------------ *)

Lemma list_ind3 (A : Type) (P : list A -> Prop) :
  P [] ->
  (forall a, P [a]) ->
  (forall a b, P [a; b]) ->
  (forall a b c r, P r -> P (a :: b :: c :: r)) ->
  forall l, P l.
Proof.
  intros H0 H1 H2 H3.
  assert (H : forall l, P l /\ (forall a, P (a :: l)) /\
                        (forall a b, P (a :: b :: l))).
  { induction l as [|x l IH].
    - split; [exact H0|]. split; [exact H1|exact H2].
    - destruct IH as [IHa [IHb IHc]].
      split; [apply IHb|]. split; [intros a; apply IHc|].
      intros a b. apply H3. exact IHa. }
  intros l. exact (proj1 (H l)).
Qed.

(* ------------------------------------------------------------------ *)
(* The 64 sextets: closed sweep                                        *)
(* ------------------------------------------------------------------ *)

Definition all_sextets : list N := map N.of_nat (seq 0 64).

Lemma all_sextets_complete : forall n, n < 64 -> In n all_sextets.
Proof.
  intros n Hn. unfold all_sextets. apply in_map_iff.
  exists (N.to_nat n). split.
  - apply N2Nat.id.
  - apply in_seq. lia.
Qed.

Definition sextet_ok (n : N) : bool :=
  match b64_val (b64_char n) with
  | Some m => N.eqb m n
  | None => false
  end
  && b64_alpha (b64_char n)
  && negb (Ascii.eqb (b64_char n) c_eq).

Lemma sextet_sweep : forallb sextet_ok all_sextets = true.
Proof. vm_compute. reflexivity. Qed.

Lemma sextet_facts : forall n, n < 64 ->
  b64_val (b64_char n) = Some n /\
  b64_alpha (b64_char n) = true /\
  Ascii.eqb (b64_char n) c_eq = false.
Proof.
  intros n Hn.
  pose proof (proj1 (forallb_forall sextet_ok all_sextets) sextet_sweep n
                    (all_sextets_complete n Hn)) as H.
  unfold sextet_ok in H.
  apply andb_true_iff in H. destruct H as [H Hne].
  apply andb_true_iff in H. destruct H as [Hv Ha].
  split; [|split].
  - destruct (b64_val (b64_char n)) as [m|]; [|discriminate Hv].
    apply N.eqb_eq in Hv. rewrite Hv. reflexivity.
  - exact Ha.
  - apply negb_true_iff in Hne. exact Hne.
Qed.

Lemma b64_val_char : forall n, n < 64 -> b64_val (b64_char n) = Some n.
Proof. intros n Hn. exact (proj1 (sextet_facts n Hn)). Qed.

Lemma b64_char_alpha : forall n, n < 64 -> b64_alpha (b64_char n) = true.
Proof. intros n Hn. exact (proj1 (proj2 (sextet_facts n Hn))). Qed.

Lemma b64_char_not_eq : forall n, n < 64 -> Ascii.eqb (b64_char n) c_eq = false.
Proof. intros n Hn. exact (proj2 (proj2 (sextet_facts n Hn))). Qed.

Lemma c_eq_alpha : b64_alpha c_eq = true.
Proof. vm_compute. reflexivity. Qed.

(* ------------------------------------------------------------------ *)
(* Arithmetic on codes                                                 *)
(* ------------------------------------------------------------------ *)

Lemma code_lt : forall c, code c < 256.
Proof. intros c. unfold code. apply N_ascii_bounded. Qed.

Lemma ascii_code : forall c, ascii_of_N (code c) = c.
Proof. intros c. unfold code. apply ascii_N_embedding. Qed.

Lemma sext1_lt : forall x, x < 256 -> sext1 x < 64.
Proof. intros x Hx. unfold sext1. lia. Qed.

Lemma sext2_lt : forall x y, y < 256 -> sext2 x y < 64.
Proof. intros x y Hy. unfold sext2. lia. Qed.

Lemma sext3_lt : forall y z, z < 256 -> sext3 y z < 64.
Proof. intros y z Hz. unfold sext3. lia. Qed.

Lemma sext4_lt : forall z, sext4 z < 64.
Proof. intros z. unfold sext4. lia. Qed.

Lemma octet1_sext : forall x y, y < 256 ->
  octet1 (sext1 x) (sext2 x y) = ascii_of_N x.
Proof.
  intros x y Hy. unfold octet1, sext1, sext2. f_equal. lia.
Qed.

Lemma octet2_sext : forall x y z, y < 256 -> z < 256 ->
  octet2 (sext2 x y) (sext3 y z) = ascii_of_N y.
Proof.
  intros x y z Hy Hz. unfold octet2, sext2, sext3. f_equal. lia.
Qed.

Lemma octet3_sext : forall y z, z < 256 ->
  octet3 (sext3 y z) (sext4 z) = ascii_of_N z.
Proof.
  intros y z Hz. unfold octet3, sext3, sext4. f_equal. lia.
Qed.

Lemma sext2_pad : forall x, (sext2 x 0) mod 16 = 0.
Proof. intros x. unfold sext2. lia. Qed.

Lemma sext3_pad : forall y, (sext3 y 0) mod 4 = 0.
Proof. intros y. unfold sext3. lia. Qed.

(* ------------------------------------------------------------------ *)
(* Per-group decoding facts                                            *)
(* ------------------------------------------------------------------ *)

Lemma zero_lt_256 : 0 < 256.
Proof. reflexivity. Qed.

Lemma dec_pad1 : forall a,
  b64_dec_pad (b64_char (sext1 (code a))) (b64_char (sext2 (code a) 0)) c_eq
  = Some [a].
Proof.
  intros a. pose proof (code_lt a) as Ha. unfold b64_dec_pad.
  rewrite (b64_val_char _ (sext1_lt _ Ha)).
  rewrite (b64_val_char _ (sext2_lt (code a) 0 zero_lt_256)).
  rewrite Ascii.eqb_refl.
  rewrite sext2_pad. rewrite N.eqb_refl.
  rewrite (octet1_sext _ 0 zero_lt_256). rewrite ascii_code. reflexivity.
Qed.

Lemma dec_pad2 : forall a b,
  b64_dec_pad (b64_char (sext1 (code a)))
              (b64_char (sext2 (code a) (code b)))
              (b64_char (sext3 (code b) 0))
  = Some [a; b].
Proof.
  intros a b. pose proof (code_lt a) as Ha. pose proof (code_lt b) as Hb.
  unfold b64_dec_pad.
  rewrite (b64_val_char _ (sext1_lt _ Ha)).
  rewrite (b64_val_char _ (sext2_lt (code a) _ Hb)).
  rewrite (b64_char_not_eq _ (sext3_lt (code b) 0 zero_lt_256)).
  rewrite (b64_val_char _ (sext3_lt (code b) 0 zero_lt_256)).
  rewrite sext3_pad. rewrite N.eqb_refl.
  rewrite (octet1_sext _ _ Hb).
  rewrite (octet2_sext (code a) _ 0 Hb zero_lt_256).
  rewrite !ascii_code. reflexivity.
Qed.

Lemma dec_quad3 : forall a b c,
  b64_dec_quad (b64_char (sext1 (code a)))
               (b64_char (sext2 (code a) (code b)))
               (b64_char (sext3 (code b) (code c)))
               (b64_char (sext4 (code c)))
  = Some [a; b; c].
Proof.
  intros a b c.
  pose proof (code_lt a) as Ha. pose proof (code_lt b) as Hb.
  pose proof (code_lt c) as Hc.
  unfold b64_dec_quad.
  rewrite (b64_val_char _ (sext1_lt _ Ha)).
  rewrite (b64_val_char _ (sext2_lt (code a) _ Hb)).
  rewrite (b64_val_char _ (sext3_lt (code b) _ Hc)).
  rewrite (b64_val_char _ (sext4_lt (code c))).
  rewrite (octet1_sext _ _ Hb).
  rewrite (octet2_sext (code a) _ _ Hb Hc).
  rewrite (octet3_sext (code b) _ Hc).
  rewrite !ascii_code. reflexivity.
Qed.

(* one-step unfolding of the decoder on a quantum *)
Lemma b64_dec_cons4 : forall c1 c2 c3 c4 r,
  b64_dec (c1 :: c2 :: c3 :: c4 :: r) =
  if Ascii.eqb c4 c_eq then
    if is_nil r then b64_dec_pad c1 c2 c3 else None
  else
    match b64_dec_quad c1 c2 c3 c4 with
    | Some g => match b64_dec r with
                | Some d => Some (g ++ d)
                | None => None
                end
    | None => None
    end.
Proof. intros c1 c2 c3 c4 r. reflexivity. Qed.

(* ------------------------------------------------------------------ *)
(* Main theorems                                                       *)
(* ------------------------------------------------------------------ *)

Theorem b64_dec_enc : forall b, b64_dec (b64_enc b) = Some b.
Proof.
  intros b. induction b as [|a|a b|a b c r IH] using list_ind3.
  - reflexivity.
  - cbn [b64_enc]. rewrite b64_dec_cons4.
    rewrite Ascii.eqb_refl. cbn [is_nil]. apply dec_pad1.
  - cbn [b64_enc]. rewrite b64_dec_cons4.
    rewrite Ascii.eqb_refl. cbn [is_nil]. apply dec_pad2.
  - cbn [b64_enc]. rewrite b64_dec_cons4.
    rewrite (b64_char_not_eq _ (sext4_lt (code c))).
    rewrite dec_quad3. rewrite IH. reflexivity.
Qed.

Theorem b64_enc_alphabet : forall b, forallb b64_alpha (b64_enc b) = true.
Proof.
  intros b. induction b as [|a|a b|a b c r IH] using list_ind3.
  - reflexivity.
  - pose proof (code_lt a) as Ha.
    cbn [b64_enc forallb].
    rewrite (b64_char_alpha _ (sext1_lt _ Ha)).
    rewrite (b64_char_alpha _ (sext2_lt (code a) 0 zero_lt_256)).
    rewrite c_eq_alpha. reflexivity.
  - pose proof (code_lt a) as Ha. pose proof (code_lt b) as Hb.
    cbn [b64_enc forallb].
    rewrite (b64_char_alpha _ (sext1_lt _ Ha)).
    rewrite (b64_char_alpha _ (sext2_lt (code a) _ Hb)).
    rewrite (b64_char_alpha _ (sext3_lt (code b) 0 zero_lt_256)).
    rewrite c_eq_alpha. reflexivity.
  - pose proof (code_lt a) as Ha. pose proof (code_lt b) as Hb.
    pose proof (code_lt c) as Hc.
    cbn [b64_enc forallb].
    rewrite (b64_char_alpha _ (sext1_lt _ Ha)).
    rewrite (b64_char_alpha _ (sext2_lt (code a) _ Hb)).
    rewrite (b64_char_alpha _ (sext3_lt (code b) _ Hc)).
    rewrite (b64_char_alpha _ (sext4_lt (code c))).
    rewrite IH. reflexivity.
Qed.

Lemma b64_enc_injective : forall a b, b64_enc a = b64_enc b -> a = b.
Proof.
  intros a b H.
  pose proof (b64_dec_enc a) as Ha. pose proof (b64_dec_enc b) as Hb.
  rewrite H in Ha. rewrite Hb in Ha. injection Ha as Ha. symmetry. exact Ha.
Qed.

Lemma b64_enc_length : forall b,
  length (b64_enc b) = (4 * ((length b + 2) / 3))%nat.
Proof.
  intros b. induction b as [|a|a b|a b c r IH] using list_ind3.
  - reflexivity.
  - reflexivity.
  - reflexivity.
  - cbn [b64_enc length]. rewrite IH.
    generalize (length r). intros n. lia.
Qed.

(* ------------------------------------------------------------------ *)
(* The alphabet excludes the protocol separators: closed 256 sweep     *)
(* ------------------------------------------------------------------ *)

Definition all_bytes : list ascii := map ascii_of_N (map N.of_nat (seq 0 256)).

Lemma all_bytes_complete : forall c, In c all_bytes.
Proof.
  intros c. unfold all_bytes. apply in_map_iff.
  exists (code c). split; [apply ascii_code|].
  apply in_map_iff. exists (N.to_nat (code c)). split.
  - apply N2Nat.id.
  - apply in_seq. pose proof (code_lt c) as Hc. lia.
Qed.

Definition not_sep_ok (c : ascii) : bool :=
  implb (b64_alpha c)
        (negb (Ascii.eqb c c_pipe) && negb (Ascii.eqb c c_cr)
         && negb (Ascii.eqb c c_lf) && negb (Ascii.eqb c c_space)).

Lemma not_sep_sweep : forallb not_sep_ok all_bytes = true.
Proof. vm_compute. reflexivity. Qed.

Lemma b64_alpha_not_sep : forall c, b64_alpha c = true ->
  c <> c_pipe /\ c <> c_cr /\ c <> c_lf /\ c <> c_space.
Proof.
  intros c Hc.
  pose proof (proj1 (forallb_forall not_sep_ok all_bytes) not_sep_sweep c
                    (all_bytes_complete c)) as H.
  unfold not_sep_ok in H. rewrite Hc in H. cbn [implb] in H.
  apply andb_true_iff in H. destruct H as [H H4].
  apply andb_true_iff in H. destruct H as [H H3].
  apply andb_true_iff in H. destruct H as [H1 H2].
  apply negb_true_iff in H1, H2, H3, H4.
  apply Ascii.eqb_neq in H1, H2, H3, H4.
  repeat split; assumption.
Qed.

(* corollary in the form used by the writers: no separator in the output *)
Lemma b64_enc_no_sep : forall b c, In c (b64_enc b) ->
  c <> c_pipe /\ c <> c_cr /\ c <> c_lf /\ c <> c_space.
Proof.
  intros b c Hin. apply b64_alpha_not_sep.
  exact (proj1 (forallb_forall b64_alpha (b64_enc b)) (b64_enc_alphabet b) c Hin).
Qed.

Print Assumptions b64_dec_enc.
Print Assumptions b64_enc_alphabet.
Print Assumptions b64_alpha_not_sep.
Print Assumptions b64_enc_length.
Print Assumptions b64_enc_injective.
Print Assumptions b64_enc_no_sep.
