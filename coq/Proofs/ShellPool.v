(* Proofs/ShellPool.v — C04 "every Metadata request answered once, dispatched once" and
   C18 "adapter calls run on the pool; a pool of one is sequential" over Model/Shell.v.

   Method: every [step] is decomposed into a sequence of micro steps ([mstep]): either a
   "neutral" update (pool fields untouched, only events no pool monitor looks at) or one
   primitive pool transition (submit, job start, call begin/end, put, handler, job end).
   The reader's [settle] is such a sequence too.  All invariants are then proved over the
   13 constructors of [mstep]. *)
From Coq Require Import String List Ascii NArith ZArith Bool Arith Lia.
From LS Require Import Model.Bytes Model.Tags Model.AriReply Model.Shell Model.ShellSpec.
Import ListNotations.

Definition sreach (k : server_kind) (h : handler) (n : nat) (s : shell) : Prop :=
  exists ls, run (shell_init k h n) ls = Some s.
Definition sreach_env (k : server_kind) (h : handler) (n : nat) (s : shell) : Prop :=
  exists ls, run (shell_init k h n) ls = Some s /\ env_ok ls = true.

(* ================================================================== *)
(* 1. Small library                                                     *)
(* ================================================================== *)

Lemma updw_length n x l : length (updw n x l) = length l.
Proof. revert n; induction l as [|y r IH]; intros [|n]; simpl; auto. Qed.

Lemma nth_error_updw_eq n x y l :
  nth_error l n = Some y -> nth_error (updw n x l) n = Some x.
Proof. revert n; induction l as [|z r IH]; intros [|n] H; simpl in *; try discriminate; auto. Qed.

Lemma nth_error_updw_neq n k x l :
  n <> k -> nth_error (updw n x l) k = nth_error l k.
Proof. revert n k; induction l as [|z r IH]; intros [|n] [|k] H; simpl; auto; try congruence. Qed.

Lemma count_app {A} (f : A -> bool) a b : count f (a ++ b) = count f a + count f b.
Proof. unfold count. rewrite filter_app, app_length. reflexivity. Qed.

Lemma count_updw (f : wstate -> bool) l w y x :
  nth_error l w = Some y ->
  count f (updw w x l) + (if f y then 1 else 0) = count f l + (if f x then 1 else 0).
Proof.
  unfold count. revert w; induction l as [|z r IH]; intros [|w] H; simpl in *; try discriminate.
  - inversion H; subst. destruct (f y), (f x); simpl; lia.
  - specialize (IH _ H). destruct (f z); simpl; lia.
Qed.

Lemma forallb_nth {A} (f : A -> bool) l n y :
  forallb f l = true -> nth_error l n = Some y -> f y = true.
Proof.
  intros H Hn. rewrite forallb_forall in H. apply H. eapply nth_error_In; eauto.
Qed.

Lemma forallb_updw (f : wstate -> bool) l w x :
  forallb f l = true -> f x = true -> forallb f (updw w x l) = true.
Proof.
  revert w; induction l as [|z r IH]; intros [|w] H Hx; simpl in *; auto.
  - apply andb_true_iff in H. rewrite Hx. tauto.
  - apply andb_true_iff in H. destruct H as [H1 H2]. rewrite H1. simpl. auto.
Qed.

Lemma is_nil_true {A} (l : list A) : is_nil l = true -> l = [].
Proof. destruct l; simpl; congruence. Qed.

Lemma one_nth {A} (l : list A) i x : length l <= 1 -> nth_error l i = Some x -> l = [x] /\ i = 0.
Proof.
  destruct l as [|a [|b r]]; simpl; intros Hl Hn.
  - destruct i; discriminate.
  - destruct i as [|i]; simpl in Hn; [inversion Hn; auto | destruct i; discriminate].
  - lia.
Qed.

(* multiplicity of a request id in a list *)
Definition cnt (x : nat) (l : list nat) : nat := count_occ Nat.eq_dec l x.
Notation rids := (flat_map rid_of).

Lemma cnt_nil x : cnt x [] = 0. Proof. reflexivity. Qed.
Lemma cnt_app x a b : cnt x (a ++ b) = cnt x a + cnt x b.
Proof. unfold cnt. apply count_occ_app. Qed.
Lemma cnt_cons x a l : cnt x (a :: l) = cnt x [a] + cnt x l.
Proof. change (a :: l) with ([a] ++ l). apply cnt_app. Qed.
Lemma cnt_rids_cons x ln rest : cnt x (rids (ln :: rest)) = cnt x (rid_of ln) + cnt x (rids rest).
Proof. simpl. apply cnt_app. Qed.

Lemma nodup_nat_NoDup l : nodup_nat l = true <-> NoDup l.
Proof.
  induction l as [|x r IH]; simpl.
  - split; auto. constructor.
  - rewrite andb_true_iff, negb_true_iff, IH. split.
    + intros [H1 H2]. constructor; auto. intros Hin.
      assert (existsb (Nat.eqb x) r = true) by (apply existsb_exists; exists x; split; auto; apply Nat.eqb_refl).
      congruence.
    + intros H. inversion H; subst. split; auto.
      destruct (existsb (Nat.eqb x) r) eqn:E; auto.
      apply existsb_exists in E. destruct E as [y [Hy Hxy]]. apply Nat.eqb_eq in Hxy. subst. contradiction.
Qed.

(* ================================================================== *)
(* 2. Neutral events, neutral updates, micro steps                      *)
(* ================================================================== *)

Definition is_worker (th : thread) : bool := match th with ThWorker _ => true | _ => false end.

(* events that no pool monitor / counter looks at *)
Definition neutral (e : sevent) : bool :=
  match e with
  | ESubmit _ _ | EJobStart _ _ | EJobEnd _ _ => false
  | ECallB th c => negb (is_worker th) && match c with COther => false | _ => true end
  | ECallE th _ _ => negb (is_worker th)
  | EPut th l => negb (is_worker th) && negb (is_reply l)
  | EHand th => negb (is_worker th)
  | _ => true
  end.

Definition neut (s s' : shell) : Prop :=
  sh_kind s' = sh_kind s /\ sh_handler s' = sh_handler s /\ sh_jobs s' = sh_jobs s /\
  sh_njobs s' = sh_njobs s /\ sh_workers s' = sh_workers s /\
  exists es, sh_hist s' = sh_hist s ++ es /\ forallb neutral es = true.

Lemma neut_refl s : neut s s.
Proof. repeat split; auto. exists []. rewrite app_nil_r. auto. Qed.

Lemma neut_set_reader s x ie ce t p : neut s x -> neut s (set_reader x ie ce t p).
Proof. intros H; exact H. Qed.
Lemma neut_set_rpc s x p : neut s x -> neut s (set_rpc x p).
Proof. intros H; exact H. Qed.
Lemma neut_set_out s x q w : neut s x -> neut s (set_out x q w).
Proof. intros H; exact H. Qed.
Lemma neut_set_misc s x a b c d e : neut s x -> neut s (set_misc x a b c d e).
Proof. intros H; exact H. Qed.
Lemma neut_set_sd s x sd : neut s x -> neut s (set_pool x (sh_jobs x) (sh_njobs x) (sh_workers x) sd).
Proof. intros H; exact H. Qed.
Lemma neut_slog s x es : neut s x -> forallb neutral es = true -> neut s (slog x es).
Proof.
  intros (H1 & H2 & H3 & H4 & H5 & es0 & H6 & H7) He. repeat split; auto.
  exists (es0 ++ es). simpl. rewrite H6, app_assoc. split; auto. rewrite forallb_app, H7, He. auto.
Qed.
Lemma neut_put s x th l : neut s x -> is_worker th = false -> is_reply l = false -> neut s (put x th l).
Proof.
  intros H Hw Hr. unfold put. apply neut_slog; [apply neut_set_out; exact H|].
  simpl. rewrite Hw, Hr. reflexivity.
Qed.

Ltac solve_neut :=
  lazymatch goal with
  | |- neut ?s ?s => apply neut_refl
  | |- neut _ (slog _ _) => apply neut_slog; [solve_neut | reflexivity]
  | |- neut _ (put _ _ _) => apply neut_put; [solve_neut | reflexivity | reflexivity]
  | |- neut _ (set_reader _ _ _ _ _) => apply neut_set_reader; solve_neut
  | |- neut _ (set_rpc _ _) => apply neut_set_rpc; solve_neut
  | |- neut _ (set_out _ _ _) => apply neut_set_out; solve_neut
  | |- neut _ (set_misc _ _ _ _ _ _) => apply neut_set_misc; solve_neut
  | |- neut _ (set_pool _ _ _ _ _) => apply neut_set_sd; solve_neut
  end.

Definition jrid (k : jkind) : list nat := match k with JMeta r => [r] | JData => [] end.

(* micro steps, labelled with the request ids they turn into Metadata jobs *)
Inductive mstep : shell -> shell -> list nat -> Prop :=
| MS_neut s s' : neut s s' -> mstep s s' []
| MS_submit s k : (k = JData -> is_data s = true) -> mstep s (submit s k) (jrid k)
| MS_start s w j k rest :
    nth_error (sh_workers s) w = Some KIdle -> sh_jobs s = (j, k) :: rest ->
    mstep s (slog (set_pool s rest (sh_njobs s) (updw w (KBusy j k false false) (sh_workers s)) (sh_shutdown s))
                  [EJobStart w j]) []
| MS_exit s w :
    nth_error (sh_workers s) w = Some KIdle -> mstep s (set_worker s w KExited) []
| MS_callB s w j k :
    nth_error (sh_workers s) w = Some (KBusy j k false false) ->
    mstep s (slog (set_worker s w (KBusy j k true false)) [ECallB (ThWorker w) COther]) []
| MS_callE s w j k ok :
    nth_error (sh_workers s) w = Some (KBusy j k true false) ->
    mstep s (slog (set_worker s w (KBusy j k false false)) [ECallE (ThWorker w) COther ok]) []
| MS_put_meta s w j rid :
    nth_error (sh_workers s) w = Some (KBusy j (JMeta rid) false false) ->
    mstep s (put (set_worker s w (KBusy j (JMeta rid) false true)) (ThWorker w) (OReply rid)) []
| MS_put_data s w j ic l :
    nth_error (sh_workers s) w = Some (KBusy j JData ic false) ->
    mstep s (put s (ThWorker w) l) []
| MS_put_fal s w j k ic :
    nth_error (sh_workers s) w = Some (KHandFal j k ic) ->
    mstep s (put (set_worker s w (KBusy j k ic false)) (ThWorker w) OFal) []
| MS_hand_meta s w j rid :
    nth_error (sh_workers s) w = Some (KBusy j (JMeta rid) false false) ->
    mstep s (slog (set_worker s w (KBusy j (JMeta rid) false true)) [EHand (ThWorker w)]) []
| MS_hand_data s w j ic ret io :
    nth_error (sh_workers s) w = Some (KBusy j JData ic false) -> sh_handler s = HRet ret io ->
    mstep s (slog (set_worker s w (if ret then KHandFal j JData ic else KBusy j JData ic false)) [EHand (ThWorker w)]) []
| MS_end s w j k d :
    nth_error (sh_workers s) w = Some (KBusy j k false d) ->
    d = match k with JMeta _ => true | JData => false end ->
    mstep s (slog (set_worker s w KIdle) [EJobEnd w j]) []
| MS_end_hnone s w j rid :
    nth_error (sh_workers s) w = Some (KBusy j (JMeta rid) false false) ->
    mstep s (slog (set_worker s w KIdle) [EHand (ThWorker w); EJobEnd w j]) [].

Inductive msteps : shell -> shell -> list nat -> Prop :=
| ms_refl s : msteps s s []
| ms_cons s1 s2 s3 c1 c2 : mstep s1 s2 c1 -> msteps s2 s3 c2 -> msteps s1 s3 (c1 ++ c2).

Lemma msteps_one s s' c : mstep s s' c -> msteps s s' c.
Proof. intros H. rewrite <- (app_nil_r c). eapply ms_cons; [exact H | apply ms_refl]. Qed.
Lemma msteps_neut s s' : neut s s' -> msteps s s' [].
Proof. intros H. apply msteps_one. apply MS_neut. exact H. Qed.
Lemma msteps_neut_l s x s' c : neut s x -> msteps x s' c -> msteps s s' c.
Proof. intros H Hm. change c with ([] ++ c). eapply ms_cons; [apply MS_neut; exact H | exact Hm]. Qed.
Lemma msteps_app s1 s2 s3 c1 c2 : msteps s1 s2 c1 -> msteps s2 s3 c2 -> msteps s1 s3 (c1 ++ c2).
Proof.
  intros H1 H2. induction H1 as [s|s1 s2 s3' d1 d2 Hm Hms IH]; simpl; auto.
  rewrite <- app_assoc. eapply ms_cons; [exact Hm | apply IH; exact H2].
Qed.

(* ================================================================== *)
(* 3. settle and step as micro-step sequences                           *)
(* ================================================================== *)

(* the only way to hold the subscription lock on the reader is to be a Data server *)
Definition lock_ok (s : shell) : bool :=
  match sh_rpc s with RLock1 | RLock2 => is_data s | _ => true end.

Lemma settle_lock : forall todo s, lock_ok (settle s todo) = true.
Proof.
  induction todo as [|ln rest IH]; intros s.
  - cbn [settle]. destruct (sh_stop s); reflexivity.
  - assert (Hhand : forall s0,
      lock_ok (match reader_hand s0 with
               | (s1, Some p) => set_reader s1 (sh_init_expected s1) (sh_close_expected s1) rest p
               | (s1, None) => settle s1 rest end) = true).
    { intros s0. unfold reader_hand. destruct (sh_handler s0); [destruct (is_data s0)|]; auto. }
    destruct ln as [|id0 rok|rid wf refused oldv|rid wf known]; cbn [settle];
      repeat match goal with |- context [if ?b then _ else _] => destruct b eqn:? end;
      try apply IH; try apply Hhand; try reflexivity.
  match goal with H : is_data _ = true |- _ => exact H end.
Qed.

Lemma settle_msteps : forall todo s, exists c, msteps s (settle s todo) c /\
  forall x, cnt x c + cnt x (rids (sh_todo (settle s todo))) <= cnt x (rids todo).
Proof.
  induction todo as [|ln rest IH]; intros s.
  - cbn [settle]. destruct (sh_stop s); exists []; (split; [apply msteps_neut; solve_neut | intros x; simpl; lia]).
  - assert (Hhand : forall s0, exists c,
      msteps s0 (match reader_hand s0 with
               | (s1, Some p) => set_reader s1 (sh_init_expected s1) (sh_close_expected s1) rest p
               | (s1, None) => settle s1 rest end) c /\
      forall x, cnt x c + cnt x (rids (sh_todo (match reader_hand s0 with
               | (s1, Some p) => set_reader s1 (sh_init_expected s1) (sh_close_expected s1) rest p
               | (s1, None) => settle s1 rest end))) <= cnt x (rids rest)).
    { intros s0. unfold reader_hand. destruct (sh_handler s0); [destruct (is_data s0)|].
      - exists []. split; [apply msteps_neut; solve_neut | intros x; simpl; lia].
      - destruct (IH (slog s0 [EHand ThReader])) as [c [Hm Hc]]. exists c. split; [|exact Hc].
        eapply msteps_neut_l; [|exact Hm]. solve_neut.
      - exists []. split; [apply msteps_neut; solve_neut | intros x; simpl; lia]. }
    destruct ln as [|id0 rok|rid wf refused oldv|rid wf known]; cbn [settle];
      repeat match goal with |- context [if ?b then _ else _] => destruct b eqn:? end;
      lazymatch goal with
      | |- exists c, msteps ?s (match reader_hand ?X with _ => _ end) c /\ _ =>
          destruct (Hhand X) as [c [Hm Hc]]; exists c; split;
          [ eapply msteps_neut_l; [| exact Hm]; solve_neut
          | intros x; specialize (Hc x); rewrite cnt_rids_cons; lia ]
      | |- exists c, msteps ?s (settle (submit ?s (JMeta ?r)) _) c /\ _ =>
          destruct (IH (submit s (JMeta r))) as [c [Hm Hc]]; exists ([r] ++ c); split;
          [ eapply ms_cons; [apply (MS_submit s (JMeta r)); discriminate | exact Hm]
          | intros x; specialize (Hc x); rewrite cnt_rids_cons, cnt_app; cbn [rid_of]; lia ]
      | |- exists c, msteps ?s (settle ?X _) c /\ _ =>
          destruct (IH X) as [c [Hm Hc]]; exists c; split;
          [ eapply msteps_neut_l; [| exact Hm]; solve_neut
          | intros x; specialize (Hc x); rewrite cnt_rids_cons; lia ]
      | |- _ => idtac
      end.
    all: try (exists []; split; [apply msteps_neut; solve_neut | intros x; rewrite cnt_rids_cons; simpl; lia]).
Qed.

Ltac destr_in H :=
  match type of H with
  | context [match ?x with _ => _ end] =>
      lazymatch x with
      | context [match _ with _ => _ end] => fail
      | _ => destruct x eqn:?
      end
  end.

Ltac ineq_leaf :=
  intros x;
  cbn [recv_rids sh_todo put slog set_hist set_out set_reader set_rpc set_misc set_pool set_worker submit app snd fst] in *;
  rewrite ?app_nil_r, ?cnt_nil;
  try match goal with Hc : forall x, _ <= _ |- _ => specialize (Hc x) end;
  lia.

Lemma step_msteps s th a s' : lock_ok s = true -> step s th a = Some s' ->
  lock_ok s' = true /\
  exists c, msteps s s' c /\
    forall x, cnt x c + cnt x (rids (sh_todo s')) <= cnt x (rids (sh_todo s)) + cnt x (recv_rids [(th, a)]).
Proof.
  intros Hlock H. unfold step, io_fail in H. destruct (sh_exited s) eqn:Hex; [discriminate|].
  unfold lock_ok in Hlock.
  destruct th; destruct a; try discriminate H; cbv beta iota zeta in H;
  repeat (destr_in H; try discriminate H);
  inversion H; subst; clear H.
  all: split.
  all: try apply settle_lock.
  all: try exact Hlock.
  all: try (lazymatch goal with |- lock_ok _ = true => idtac end; unfold lock_ok;
            cbn [sh_rpc put slog set_hist set_out set_reader set_rpc set_misc set_pool set_worker submit];
            repeat match goal with E : sh_rpc _ = _ |- _ => rewrite E end; first [reflexivity | exact Hlock]).
  all: try (lazymatch goal with |- lock_ok _ = true => idtac end; unfold lock_ok;
            destruct (sh_rpc _); first [reflexivity | assumption]).
  all: lazymatch goal with
  | |- exists c, msteps ?s (settle (submit ?s JData) ?T) c /\ _ =>
      destruct (settle_msteps T (submit s JData)) as [c [Hm Hc]]; exists ([] ++ c); split;
      [ eapply ms_cons; [apply (MS_submit s JData); intros _; exact Hlock | exact Hm] | ineq_leaf ]
  | |- exists c, msteps ?s (settle ?Y ?T) c /\ _ =>
      destruct (settle_msteps T Y) as [c [Hm Hc]]; exists c; split;
      [ eapply msteps_neut_l; [| exact Hm]; solve_neut | ineq_leaf ]
  | |- _ => exists []; split; [ | ineq_leaf ]
  end.
  all: try (apply msteps_neut; solve_neut).
  all: apply msteps_one;
    repeat match goal with
    | H : Nat.eqb _ _ = true |- _ => apply Nat.eqb_eq in H; subst
    | H : Bool.eqb _ _ = true |- _ => apply eqb_prop in H; subst
    end;
    first [ eapply MS_start; eassumption | eapply MS_exit; eassumption
          | eapply MS_callB; eassumption | eapply MS_callE; eassumption
          | eapply MS_put_meta; eassumption | eapply MS_put_data; eassumption | eapply MS_put_fal; eassumption
          | eapply MS_hand_meta; eassumption
          | eapply (MS_hand_data _ _ _ _ true); eassumption | eapply (MS_hand_data _ _ _ _ false); eassumption
          | eapply MS_end; [eassumption | reflexivity] | eapply MS_end_hnone; eassumption ].
Qed.

Lemma recv_rids_cons la r : recv_rids (la :: r) = recv_rids [la] ++ recv_rids r.
Proof. destruct la as [th a]; destruct a; simpl; rewrite ?app_nil_r; auto. Qed.

Lemma run_msteps : forall ls s0 s, lock_ok s0 = true -> run s0 ls = Some s ->
  lock_ok s = true /\ exists c, msteps s0 s c /\
   forall x, cnt x c + cnt x (rids (sh_todo s)) <= cnt x (rids (sh_todo s0)) + cnt x (recv_rids ls).
Proof.
  induction ls as [|[th a] r IH]; intros s0 s Hl Hr; simpl in Hr.
  - inversion Hr; subst. split; auto. exists []. split; [constructor | intros; simpl; lia].
  - destruct (step s0 th a) as [s1|] eqn:E; [|discriminate].
    destruct (step_msteps _ _ _ _ Hl E) as [Hl1 [c1 [Hm1 Hc1]]].
    destruct (IH _ _ Hl1 Hr) as [Hl2 [c2 [Hm2 Hc2]]].
    split; auto. exists (c1 ++ c2). split; [eapply msteps_app; eauto|].
    intros x. specialize (Hc1 x). specialize (Hc2 x). rewrite recv_rids_cons, !cnt_app. lia.
Qed.

(* ================================================================== *)
(* 4. Base invariant: static fields; a Metadata server has only Metadata jobs *)
(* ================================================================== *)

Definition jmeta (jk : nat * jkind) : bool := match snd jk with JMeta _ => true | JData => false end.
Definition wmeta (w : wstate) : bool :=
  match w with KBusy _ JData _ _ => false | KHandFal _ _ _ => false | _ => true end.
Definition allmeta (s : shell) : bool :=
  is_data s || (forallb jmeta (sh_jobs s) && forallb wmeta (sh_workers s)).

Definition Base (k : server_kind) (h : handler) (n : nat) (s : shell) : Prop :=
  sh_kind s = k /\ sh_handler s = h /\ length (sh_workers s) = n /\ allmeta s = true.

Lemma mstep_static s s' c : mstep s s' c ->
  sh_kind s' = sh_kind s /\ sh_handler s' = sh_handler s /\ length (sh_workers s') = length (sh_workers s).
Proof.
  intros Hm. destruct Hm; simpl; rewrite ?updw_length; auto.
  destruct H as (H1 & H2 & _ & _ & H5 & _). rewrite H1, H2, H5. auto.
Qed.

Lemma wmeta_busy l w j k ic d : forallb wmeta l = true -> nth_error l w = Some (KBusy j k ic d) ->
  forall ic' d', wmeta (KBusy j k ic' d') = true.
Proof. intros H Hn ic' d'. pose proof (forallb_nth _ _ _ _ H Hn) as Hw. destruct k; simpl in *; auto. Qed.

Lemma base_mstep k h n s s' c : Base k h n s -> mstep s s' c -> Base k h n s'.
Proof.
  intros (Hk & Hh & Hn & Ha) Hm.
  destruct (mstep_static _ _ _ Hm) as (S1 & S2 & S3).
  unfold Base. rewrite S1, S2, S3. repeat split; auto.
  unfold allmeta, is_data in *. rewrite S1. destruct (sh_kind s) eqn:Ek; [|reflexivity]. simpl in Ha |- *.
  apply andb_true_iff in Ha. destruct Ha as [Hj Hw]. apply andb_true_iff.
  destruct Hm; simpl.
  - destruct H as (_ & _ & H3 & _ & H5 & _). rewrite H3, H5. auto.
  - split; auto. rewrite forallb_app, Hj. simpl. unfold jmeta. simpl.
    destruct k0; auto. unfold is_data in H. rewrite Ek in H. specialize (H eq_refl). discriminate.
  - rewrite H0 in Hj. simpl in Hj. apply andb_true_iff in Hj. destruct Hj as [Hj1 Hj2]. split; auto.
    apply forallb_updw; auto.
  - split; auto. apply forallb_updw; auto.
  - split; auto. apply forallb_updw; auto. eapply wmeta_busy; eauto.
  - split; auto. apply forallb_updw; auto. eapply wmeta_busy; eauto.
  - split; auto. apply forallb_updw; auto.
  - split; auto.
  - pose proof (forallb_nth _ _ _ _ Hw H). discriminate.
  - split; auto. apply forallb_updw; auto.
  - pose proof (forallb_nth _ _ _ _ Hw H). discriminate.
  - split; auto. apply forallb_updw; auto.
  - split; auto. apply forallb_updw; auto.
Qed.

Lemma base_init k h n : Base k h n (shell_init k h n).
Proof.
  unfold Base, allmeta. simpl. rewrite repeat_length. repeat split; auto.
  apply orb_true_iff. right. induction n; simpl; auto.
Qed.

Lemma msteps_inv (P : shell -> Prop) :
  (forall s s' c, P s -> mstep s s' c -> P s') ->
  forall s s' c, msteps s s' c -> P s -> P s'.
Proof. intros Hp s s' c Hm. induction Hm; auto. intros. apply IHHm. eapply Hp; eauto. Qed.

Lemma lock_init k h n : lock_ok (shell_init k h n) = true.
Proof. reflexivity. Qed.

(* generic reachability principle: an invariant X may rely on Base *)
Lemma reach_inv k h n (X : shell -> Prop) :
  X (shell_init k h n) ->
  (forall s s' c, Base k h n s -> X s -> mstep s s' c -> X s') ->
  forall s, sreach k h n s -> Base k h n s /\ X s.
Proof.
  intros Hi Hp s [ls Hr].
  destruct (run_msteps _ _ _ (lock_init k h n) Hr) as [_ [c [Hm _]]].
  apply (msteps_inv (fun s => Base k h n s /\ X s)) with (s := shell_init k h n) (c := c); auto.
  - intros s1 s2 c1 [Hb Hx] Hs. split; [eapply base_mstep; eauto | eapply Hp; eauto].
  - split; auto. apply base_init.
Qed.

(* ================================================================== *)
(* 5. Counting invariants: quiet_all_ended, meta_quiet_one_outcome_each *)
(* ================================================================== *)

Lemma count_neutral (f : sevent -> bool) es :
  (forall e, neutral e = true -> f e = false) -> forallb neutral es = true -> count f es = 0.
Proof.
  intros Hf. unfold count. induction es as [|e r IH]; simpl; auto.
  intros H. apply andb_true_iff in H. destruct H as [H1 H2]. rewrite (Hf _ H1). auto.
Qed.

Definition busyb (w : wstate) : bool := match w with KBusy _ _ _ _ | KHandFal _ _ _ => true | _ => false end.
Definition undone (w : wstate) : bool := match w with KBusy _ _ _ false => true | _ => false end.

Definition is_end (e : sevent) : bool := match e with EJobEnd _ _ => true | _ => false end.
Definition is_sub (e : sevent) : bool := match e with ESubmit _ _ => true | _ => false end.
Definition is_outcome (e : sevent) : bool :=
  match e with EPut (ThWorker _) (OReply _) => true | EHand (ThWorker _) => true | _ => false end.

Definition outcome_events (h : list sevent) : nat :=
  count (fun e => match e with EPut (ThWorker _) (OReply _) => true | EHand (ThWorker _) => true | _ => false end) h.

Lemma ended_is h : ended_jobs h = count is_end h. Proof. reflexivity. Qed.
Lemma submitted_is h : submitted_jobs h = count is_sub h. Proof. reflexivity. Qed.
Lemma outcome_is h : outcome_events h = count is_outcome h. Proof. reflexivity. Qed.

Lemma neutral_end e : neutral e = true -> is_end e = false.
Proof. destruct e; simpl; auto; discriminate. Qed.
Lemma neutral_sub e : neutral e = true -> is_sub e = false.
Proof. destruct e; simpl; auto; discriminate. Qed.
Lemma neutral_outcome e : neutral e = true -> is_outcome e = false.
Proof. destruct e as [th l|th c|th c ok|th|th| |j k|w j|w j|l|th|th|th|n| |]; simpl; auto; destruct th; simpl; auto; try discriminate. Qed.

Definition cinv (s : shell) : Prop :=
  count is_end (sh_hist s) + count busyb (sh_workers s) + length (sh_jobs s) = count is_sub (sh_hist s).

Ltac use_count_updw f :=
  match goal with
  | H : nth_error (sh_workers ?s) ?w = Some _ |- context [updw ?w ?x (sh_workers ?s)] =>
      let Hcu := fresh "Hcu" in pose proof (count_updw f _ _ _ x H) as Hcu; unfold count in Hcu; simpl in Hcu
  end.

Lemma cinv_mstep s s' c : cinv s -> mstep s s' c -> cinv s'.
Proof.
  unfold cinv. intros Hi Hm. destruct Hm; simpl; rewrite ?count_app, ?app_length; unfold count in *; simpl;
    try (destruct ret); try use_count_updw busyb; try lia.
  - destruct H as (_ & _ & H3 & _ & H5 & es & H6 & H7). rewrite H3, H5, H6, !filter_app, !app_length.
    pose proof (count_neutral is_end es neutral_end H7) as N1.
    pose proof (count_neutral is_sub es neutral_sub H7) as N2. unfold count in N1, N2. lia.
  - rewrite H0 in Hi. simpl in Hi. lia.
Qed.

Lemma quiet_counts l :
  forallb (fun w => match w with KIdle | KExited => true | _ => false end) l = true ->
  count busyb l = 0 /\ count undone l = 0.
Proof.
  unfold count. induction l as [|w r IH]; simpl; auto.
  intros H. apply andb_true_iff in H. destruct H as [H1 H2]. destruct (IH H2).
  destruct w; simpl; auto; discriminate.
Qed.

Lemma count_repeat_idle (f : wstate -> bool) n : f KIdle = false -> count f (repeat KIdle n) = 0.
Proof. intros H. unfold count. induction n; simpl; auto. rewrite H. auto. Qed.

Theorem quiet_all_ended : forall k h n s, sreach k h n s -> pool_quiet s = true ->
  ended_jobs (sh_hist s) = submitted_jobs (sh_hist s).
Proof.
  intros k h n s Hr Hq.
  destruct (reach_inv k h n cinv) with (s := s) as [_ Hc]; auto.
  - unfold cinv. simpl. rewrite count_repeat_idle; auto.
  - intros; eapply cinv_mstep; eauto.
  - unfold pool_quiet in Hq. apply andb_true_iff in Hq. destruct Hq as [Hq1 Hq2].
    apply is_nil_true in Hq1. destruct (quiet_counts _ Hq2) as [Hb _].
    unfold cinv in Hc. rewrite Hq1, Hb in Hc. simpl in Hc. rewrite ended_is, submitted_is. lia.
Qed.

Definition oinv (s : shell) : Prop :=
  count is_outcome (sh_hist s) + count undone (sh_workers s) + length (sh_jobs s) = count is_sub (sh_hist s).

Lemma base_meta_w h n s : Base KMeta h n s -> forallb wmeta (sh_workers s) = true.
Proof.
  intros (Hk & _ & _ & Ha). unfold allmeta, is_data in Ha. rewrite Hk in Ha. simpl in Ha.
  apply andb_true_iff in Ha. tauto.
Qed.

Lemma oinv_mstep h n s s' c : Base KMeta h n s -> oinv s -> mstep s s' c -> oinv s'.
Proof.
  unfold oinv. intros Hb Hi Hm. pose proof (base_meta_w _ _ _ Hb) as Hw.
  destruct Hm; simpl; rewrite ?count_app, ?app_length; unfold count in *; simpl;
    try (pose proof (forallb_nth _ _ _ _ Hw H) as Hx; simpl in Hx; try discriminate Hx);
    try use_count_updw undone; try lia.
  - destruct H as (_ & _ & H3 & _ & H5 & es & H6 & H7). rewrite H3, H5, H6, !filter_app, !app_length.
    pose proof (count_neutral is_outcome es neutral_outcome H7) as N1.
    pose proof (count_neutral is_sub es neutral_sub H7) as N2. unfold count in N1, N2. lia.
  - rewrite H0 in Hi. simpl in Hi. lia.
  - subst d. destruct k; [simpl in Hcu; lia | discriminate Hx].
Qed.

Theorem meta_quiet_one_outcome_each : forall h n s, sreach KMeta h n s -> pool_quiet s = true ->
  outcome_events (sh_hist s) = submitted_jobs (sh_hist s).
Proof.
  intros h n s Hr Hq.
  destruct (reach_inv KMeta h n oinv) with (s := s) as [_ Hc]; auto.
  - unfold oinv. simpl. rewrite count_repeat_idle; auto.
  - intros; eapply oinv_mstep; eauto.
  - unfold pool_quiet in Hq. apply andb_true_iff in Hq. destruct Hq as [Hq1 Hq2].
    apply is_nil_true in Hq1. destruct (quiet_counts _ Hq2) as [_ Hu].
    unfold oinv in Hc. rewrite Hq1, Hu in Hc. simpl in Hc. rewrite outcome_is, submitted_is. lia.
Qed.

(* ================================================================== *)
(* 6. C18: calls on workers only, non_blocking, pool sizing             *)
(* ================================================================== *)

Definition okcall (e : sevent) : bool := match e with ECallB th COther => is_worker th | _ => true end.

Lemma neutral_okcall es : forallb neutral es = true -> forallb okcall es = true.
Proof.
  induction es as [|e r IH]; simpl; auto. intros H. apply andb_true_iff in H. destruct H as [H1 H2].
  rewrite (IH H2), andb_true_r. destruct e; simpl in *; auto. destruct c; auto.
  rewrite andb_false_r in H1. discriminate.
Qed.

Definition callinv (s : shell) : Prop := forallb okcall (sh_hist s) = true.

Lemma callinv_mstep s s' c : callinv s -> mstep s s' c -> callinv s'.
Proof.
  unfold callinv. intros Hi Hm. destruct Hm; simpl; rewrite ?forallb_app, ?Hi; simpl; auto.
  destruct H as (_ & _ & _ & _ & _ & es & H6 & H7). rewrite H6, forallb_app, Hi, (neutral_okcall _ H7). auto.
Qed.

Theorem calls_on_workers_only : forall k h n s th, sreach k h n s ->
  In (ECallB th COther) (sh_hist s) -> exists w, th = ThWorker w.
Proof.
  intros k h n s th Hr Hin.
  destruct (reach_inv k h n callinv) with (s := s) as [_ Hc]; auto.
  - reflexivity.
  - intros; eapply callinv_mstep; eauto.
  - unfold callinv in Hc. rewrite forallb_forall in Hc. specialize (Hc _ Hin). simpl in Hc.
    destruct th; try discriminate. eauto.
Qed.

Theorem non_blocking : forall s w j kd d lines,
  sh_exited s = false ->
  nth_error (sh_workers s) w = Some (KBusy j kd true d) ->
  (sh_rpc s = RRecv -> sh_sock_closed s = false -> step s ThReader (ARecv lines) <> None) /\
  (sh_wpc s = WWait -> sh_outq s <> [] -> step s ThWriter AGet <> None) /\
  (forall w' j' k' rest, nth_error (sh_workers s) w' = Some KIdle -> sh_jobs s = (j', k') :: rest ->
     step s (ThWorker w') (AJobStart j') <> None).
Proof.
  intros s w j kd d lines Hex _. unfold step. rewrite Hex. repeat split.
  - intros H1 H2. rewrite H1, H2. discriminate.
  - intros H1 H2. rewrite H1. destruct (sh_outq s) as [|l r]; [congruence|]. destruct l; discriminate.
  - intros w' j' k' rest H1 H2. rewrite H1, H2, Nat.eqb_refl. discriminate.
Qed.

Theorem pool_size_spec : forall c cpu,
  pool_size c cpu =
  match c with
  | Some z => if (0 <? z)%Z then Z.to_nat z else match cpu with Some n => n | None => 4 end
  | None => match cpu with Some n => n | None => 4 end
  end.
Proof.
  intros c cpu. unfold pool_size. destruct c as [z|]; auto.
  destruct (0 <? z)%Z eqn:E.
  - apply Z.ltb_lt in E. rewrite Z.max_r by lia. destruct (Z.to_nat z) eqn:E2; auto. lia.
  - apply Z.ltb_ge in E. rewrite Z.max_l by lia. reflexivity.
Qed.

(* ================================================================== *)
(* 7. pool_ok                                                           *)
(* ================================================================== *)

Definition pst := (list (nat * jkind) * nat * list (nat * wscan))%type.

Definition pool_step (st : pst) (e : sevent) : option pst :=
  let '(subs, next, m) := st in
  match e with
  | ESubmit j k => if Nat.eqb j (length subs) then Some (subs ++ [(j, k)], next, m) else None
  | EJobStart w j =>
      match job_kind j subs, ws_job (getw w m) with
      | Some k, None =>
          if Nat.eqb j next
          then Some (subs, S next, setw w {| ws_job := Some (j, k); ws_done := false; ws_incall := false |} m)
          else None
      | _, _ => None
      end
  | ECallB (ThWorker w) COther =>
      match ws_job (getw w m) with
      | Some jk => if negb (ws_done (getw w m)) && negb (ws_incall (getw w m))
                   then Some (subs, next, setw w {| ws_job := Some jk; ws_done := false; ws_incall := true |} m)
                   else None
      | None => None
      end
  | ECallE (ThWorker w) COther _ =>
      match ws_job (getw w m) with
      | Some jk => if ws_incall (getw w m)
                   then Some (subs, next, setw w {| ws_job := Some jk; ws_done := ws_done (getw w m); ws_incall := false |} m)
                   else None
      | None => None
      end
  | ECallB _ COther => None
  | EPut (ThWorker w) (OReply rid) =>
      match ws_job (getw w m) with
      | Some (j, JMeta rid') =>
          if Nat.eqb rid rid' && negb (ws_done (getw w m)) && negb (ws_incall (getw w m))
          then Some (subs, next, setw w {| ws_job := Some (j, JMeta rid'); ws_done := true; ws_incall := false |} m)
          else None
      | Some (j, JData) => Some (subs, next, m)
      | None => None
      end
  | EHand (ThWorker w) =>
      match ws_job (getw w m) with
      | Some (j, JMeta rid') =>
          if negb (ws_done (getw w m)) && negb (ws_incall (getw w m))
          then Some (subs, next, setw w {| ws_job := Some (j, JMeta rid'); ws_done := true; ws_incall := false |} m)
          else None
      | Some (j, JData) => Some (subs, next, m)
      | None => None
      end
  | EJobEnd w j =>
      match ws_job (getw w m) with
      | Some (j', k) =>
          if Nat.eqb j j' && negb (ws_incall (getw w m)) && match k with JMeta _ => ws_done (getw w m) | JData => true end
          then Some (subs, next, setw w ws_idle m)
          else None
      | None => None
      end
  | _ => Some (subs, next, m)
  end.

Fixpoint pool_run (st : pst) (h : list sevent) : option pst :=
  match h with
  | [] => Some st
  | e :: r => match pool_step st e with Some st' => pool_run st' r | None => None end
  end.

Lemma pool_run_ok : forall h subs next m st', pool_run (subs, next, m) h = Some st' ->
  pool_ok_from subs next m h = true.
Proof.
  induction h as [|e r IH]; intros subs next m st' H; [reflexivity|].
  cbn [pool_run] in H. destruct (pool_step (subs, next, m) e) as [[[subs' next'] m']|] eqn:E; [|discriminate].
  apply IH in H.
  destruct e as [th l|th c|th c ok|th|th| |j k|w j|w j|l|th|th|th|n0| |];
    try destruct th; try destruct c; try destruct l; cbn [pool_step] in E; cbn [pool_ok_from];
    try (inversion E; subst; exact H);
    repeat (destr_in E; try discriminate E); inversion E; subst; cbn; rewrite ?H; auto.
Qed.

Lemma pool_run_app : forall h st es,
  pool_run st (h ++ es) = match pool_run st h with Some st' => pool_run st' es | None => None end.
Proof.
  induction h as [|e r IH]; intros st es; simpl; auto. destruct (pool_step st e); auto.
Qed.

Lemma pool_step_neutral st e : neutral e = true -> pool_step st e = Some st.
Proof.
  destruct st as [[subs next] m].
  destruct e as [th l|th c|th c ok|th|th| |j k|w j|w j|l|th|th|th|n0| |];
    try destruct th; try destruct c; try destruct l; simpl; auto; discriminate.
Qed.

Lemma pool_run_neutral st es : forallb neutral es = true -> pool_run st es = Some st.
Proof.
  induction es as [|e r IH]; simpl; auto. intros H. apply andb_true_iff in H. destruct H as [H1 H2].
  rewrite (pool_step_neutral _ _ H1). auto.
Qed.

Lemma getw_setw_eq w v m : getw w (setw w v m) = v.
Proof.
  induction m as [|[k x] r IH]; simpl.
  - rewrite Nat.eqb_refl. auto.
  - destruct (Nat.eqb k w) eqn:E; simpl; rewrite E; auto.
Qed.

Lemma getw_setw_neq w w' v m : w <> w' -> getw w' (setw w v m) = getw w' m.
Proof.
  intros Hn. induction m as [|[k x] r IH]; simpl.
  - apply Nat.eqb_neq in Hn. rewrite Hn. auto.
  - destruct (Nat.eqb k w) eqn:E; simpl.
    + apply Nat.eqb_eq in E. subst k. apply Nat.eqb_neq in Hn. rewrite Hn. auto.
    + destruct (Nat.eqb k w'); auto.
Qed.

Lemma job_kind_seq : forall subs a i j k, map fst subs = seq a (length subs) ->
  nth_error subs i = Some (j, k) -> j = a + i /\ job_kind j subs = Some k.
Proof.
  induction subs as [|[j0 k0] r IH]; intros a i j k Hs Hn; [destruct i; discriminate|].
  simpl in Hs. inversion Hs as [[Hj Hr]]. destruct i as [|i]; simpl in Hn.
  - inversion Hn; subst. split; [lia|]. simpl. rewrite Nat.eqb_refl. auto.
  - destruct (IH _ _ _ _ Hr Hn) as [Hj' Hk]. split; [lia|]. simpl.
    assert (Nat.eqb a j = false) as -> by (apply Nat.eqb_neq; lia). auto.
Qed.

Lemma skipn_cons_nth {A} : forall n (l : list A) x r, skipn n l = x :: r ->
  nth_error l n = Some x /\ skipn (S n) l = r.
Proof.
  induction n as [|n IH]; intros [|y l] x r H; simpl in *; try discriminate.
  - inversion H; subst. auto.
  - apply IH in H. destruct H as [H1 H2]. split; auto.
Qed.

Definition wlink (ws : wstate) (x : wscan) : Prop :=
  match ws with
  | KIdle | KExited => ws_job x = None
  | KBusy j k ic d => x = {| ws_job := Some (j, k); ws_done := d; ws_incall := ic |}
  | KHandFal j k ic => x = {| ws_job := Some (j, k); ws_done := false; ws_incall := ic |}
  end.

Definition plink (st : pst) (s : shell) : Prop :=
  let '(subs, next, m) := st in
  length subs = sh_njobs s /\
  map fst subs = seq 0 (length subs) /\
  next <= length subs /\
  sh_jobs s = skipn next subs /\
  (forall w ws, nth_error (sh_workers s) w = Some ws -> wlink ws (getw w m)).

Definition pinv (s : shell) : Prop :=
  exists st, pool_run ([], 0, []) (sh_hist s) = Some st /\ plink st s.

Lemma wlink_upd l m w old x v :
  (forall w' ws, nth_error l w' = Some ws -> wlink ws (getw w' m)) ->
  nth_error l w = Some old -> wlink x v ->
  forall w' ws, nth_error (updw w x l) w' = Some ws -> wlink ws (getw w' (setw w v m)).
Proof.
  intros Hl Ho Hx w' ws Hn. destruct (Nat.eq_dec w w') as [->|Hne].
  - rewrite (nth_error_updw_eq _ _ _ _ Ho) in Hn. inversion Hn; subst. rewrite getw_setw_eq. auto.
  - rewrite nth_error_updw_neq in Hn by auto. rewrite getw_setw_neq by auto. auto.
Qed.

Lemma wlink_upd_same l m w old x :
  (forall w' ws, nth_error l w' = Some ws -> wlink ws (getw w' m)) ->
  nth_error l w = Some old -> wlink x (getw w m) ->
  forall w' ws, nth_error (updw w x l) w' = Some ws -> wlink ws (getw w' m).
Proof.
  intros Hl Ho Hx w' ws Hn. destruct (Nat.eq_dec w w') as [->|Hne].
  - rewrite (nth_error_updw_eq _ _ _ _ Ho) in Hn. inversion Hn; subst. auto.
  - rewrite nth_error_updw_neq in Hn by auto. auto.
Qed.

Lemma pinv_mstep s s' c : pinv s -> mstep s s' c -> pinv s'.
Proof.
  intros [[[subs next] m] [Hrun (L1 & L2 & L3 & L4 & L5)]] Hm. unfold pinv.
  destruct Hm; try (pose proof (L5 _ _ H) as Hwl; simpl in Hwl).
  - destruct H as (_ & _ & H3 & H4 & H5 & es & H6 & H7). exists (subs, next, m). split.
    + rewrite H6, pool_run_app, Hrun. apply pool_run_neutral; auto.
    + simpl. rewrite H3, H4, H5. auto.
  - exists (subs ++ [(sh_njobs s, k)], next, m). split.
    + simpl. rewrite pool_run_app, Hrun. simpl. rewrite <- L1, Nat.eqb_refl. auto.
    + simpl. rewrite app_length, map_app, Nat.add_1_r, seq_S. simpl. rewrite <- L2, L1.
      repeat split; auto; try lia.
      rewrite skipn_app, L4. replace (next - length subs) with 0 by lia. auto.
  - rewrite L4 in H0. apply skipn_cons_nth in H0. destruct H0 as [Hn Hsk].
    destruct (job_kind_seq _ _ _ _ _ L2 Hn) as [Hj Hjk]. simpl in Hj. subst j.
    eexists. split.
    + simpl. rewrite pool_run_app, Hrun. simpl. rewrite Hjk, Hwl, Nat.eqb_refl. reflexivity.
    + simpl. repeat split; auto.
      * assert (next < length subs) by (apply nth_error_Some; congruence). lia.
      * eapply wlink_upd; eauto. reflexivity.
  - exists (subs, next, m). split; auto. simpl. repeat split; auto.
    eapply wlink_upd_same; eauto.
  - eexists. split.
    + simpl. rewrite pool_run_app, Hrun. simpl. rewrite Hwl. simpl. reflexivity.
    + simpl. repeat split; auto. eapply wlink_upd; eauto. reflexivity.
  - eexists. split.
    + simpl. rewrite pool_run_app, Hrun. simpl. rewrite Hwl. simpl. reflexivity.
    + simpl. repeat split; auto. eapply wlink_upd; eauto. reflexivity.
  - eexists. split.
    + simpl. rewrite pool_run_app, Hrun. simpl. rewrite Hwl. simpl. rewrite Nat.eqb_refl. simpl. reflexivity.
    + simpl. repeat split; auto. eapply wlink_upd; eauto. reflexivity.
  - exists (subs, next, m). split.
    + simpl. rewrite pool_run_app, Hrun. simpl. destruct l; auto. rewrite Hwl. simpl. auto.
    + simpl. repeat split; auto.
  - exists (subs, next, m). split.
    + simpl. rewrite pool_run_app, Hrun. simpl. auto.
    + simpl. repeat split; auto. eapply wlink_upd_same; eauto.
  - eexists. split.
    + simpl. rewrite pool_run_app, Hrun. simpl. rewrite Hwl. simpl. reflexivity.
    + simpl. repeat split; auto. eapply wlink_upd; eauto. reflexivity.
  - exists (subs, next, m). split.
    + simpl. rewrite pool_run_app, Hrun. simpl. rewrite Hwl. simpl. auto.
    + simpl. repeat split; auto. eapply wlink_upd_same; eauto. destruct ret; exact Hwl.
  - eexists. split.
    + simpl. rewrite pool_run_app, Hrun. simpl. rewrite Hwl. simpl. rewrite Nat.eqb_refl. subst d.
      destruct k; simpl; reflexivity.
    + simpl. repeat split; auto. eapply wlink_upd; eauto. reflexivity.
  - eexists. split.
    + simpl. rewrite pool_run_app, Hrun. simpl. rewrite Hwl. simpl. rewrite getw_setw_eq. simpl.
      rewrite Nat.eqb_refl. simpl. reflexivity.
    + simpl. repeat split; auto. intros w' ws Hn.
      destruct (Nat.eq_dec w w') as [->|Hne].
      * rewrite (nth_error_updw_eq _ _ _ _ H) in Hn. inversion Hn; subst. rewrite getw_setw_eq. reflexivity.
      * rewrite nth_error_updw_neq in Hn by auto. rewrite !getw_setw_neq by auto. auto.
Qed.

Theorem pool_ok_reachable : forall k h n s, sreach k h n s -> pool_ok (sh_hist s) = true.
Proof.
  intros k h n s Hr.
  destruct (reach_inv k h n pinv) with (s := s) as [_ [[[subs next] m] [Hrun _]]]; auto.
  - exists ([], 0, []). split; auto. simpl. repeat split; auto.
    intros w ws Hn. apply nth_error_In in Hn. apply repeat_spec in Hn. subst. reflexivity.
  - intros; eapply pinv_mstep; eauto.
  - unfold pool_ok. eapply pool_run_ok; eauto.
Qed.

(* ================================================================== *)
(* 8. A pool of one is sequential                                       *)
(* ================================================================== *)

Definition serial_step (o : bool) (e : sevent) : option bool :=
  match e with
  | ECallB (ThWorker _) _ => if negb o then Some true else None
  | ECallE (ThWorker _) _ _ => if o then Some false else None
  | _ => Some o
  end.
Fixpoint serial_run (o : bool) (h : list sevent) : option bool :=
  match h with
  | [] => Some o
  | e :: r => match serial_step o e with Some o' => serial_run o' r | None => None end
  end.

Lemma serial_run_ok : forall h o o', serial_run o h = Some o' -> serial_calls_from o h = true.
Proof.
  induction h as [|e r IH]; intros o o' H; [reflexivity|].
  cbn [serial_run] in H. destruct (serial_step o e) as [o1|] eqn:E; [|discriminate]. apply IH in H.
  destruct e as [th l|th c|th c ok|th|th| |j k|w j|w j|l|th|th|th|n0| |];
    try destruct th; cbn [serial_step] in E; cbn [serial_calls_from];
    try (inversion E; subst; exact H); destruct o; simpl in *; try discriminate; inversion E; subst; auto.
Qed.

Lemma serial_run_app : forall h o es,
  serial_run o (h ++ es) = match serial_run o h with Some o' => serial_run o' es | None => None end.
Proof. induction h as [|e r IH]; intros o es; simpl; auto. destruct (serial_step o e); auto. Qed.

Lemma serial_run_neutral o es : forallb neutral es = true -> serial_run o es = Some o.
Proof.
  induction es as [|e r IH]; simpl; auto. intros H. apply andb_true_iff in H. destruct H as [H1 H2].
  assert (serial_step o e = Some o) as ->; auto.
  destruct e as [th l|th c|th c ok|th|th| |j k|w j|w j|l|th|th|th|n0| |]; try destruct th; simpl in *; auto; discriminate.
Qed.

Definition incall_of (ws : wstate) : bool :=
  match ws with KBusy _ _ ic _ => ic | KHandFal _ _ ic => ic | _ => false end.

Definition sinv (s : shell) : Prop :=
  exists o, serial_run false (sh_hist s) = Some o /\
            forall w ws, nth_error (sh_workers s) w = Some ws -> o = incall_of ws.

Lemma one_upd l w old x : length l = 1 -> nth_error l w = Some old ->
  forall w' ws, nth_error (updw w x l) w' = Some ws -> ws = x.
Proof.
  intros Hl Ho w' ws Hn. destruct (one_nth l w old) as [-> ->]; auto; [lia|].
  simpl in Hn. destruct w' as [|w']; simpl in Hn; [congruence | destruct w'; discriminate].
Qed.

Lemma sinv_mstep k h s s' c : Base k h 1 s -> sinv s -> mstep s s' c -> sinv s'.
Proof.
  intros (_ & _ & Hlen & _) [o [Hrun Hl]] Hm. unfold sinv.
  destruct Hm; try (pose proof (Hl _ _ H) as Ho; simpl in Ho).
  1: { destruct H as (_ & _ & _ & _ & H5 & es & H6 & H7). exists o. rewrite H5, H6, serial_run_app, Hrun.
       split; auto. apply serial_run_neutral; auto. }
  1: { exists o. simpl. rewrite serial_run_app, Hrun. split; auto. }
  all: subst o; eexists; (split;
      [ simpl; rewrite ?serial_run_app, Hrun; simpl; reflexivity
      | intros w' ws Hn; simpl in Hn;
        first [ eapply one_upd in Hn; [| eassumption | eassumption]; subst ws; try destruct ret; reflexivity
              | apply Hl in Hn; exact Hn ] ]).
Qed.

Definition ends_step (nx : nat) (e : sevent) : option nat :=
  match e with
  | EJobEnd _ j => if Nat.eqb j nx then Some (S nx) else None
  | _ => Some nx
  end.
Fixpoint ends_run (nx : nat) (h : list sevent) : option nat :=
  match h with
  | [] => Some nx
  | e :: r => match ends_step nx e with Some n' => ends_run n' r | None => None end
  end.

Lemma ends_run_ok : forall h nx n', ends_run nx h = Some n' -> ends_in_order_from nx h = true.
Proof.
  induction h as [|e r IH]; intros nx n' H; [reflexivity|].
  cbn [ends_run] in H. destruct (ends_step nx e) as [n1|] eqn:E; [|discriminate]. apply IH in H.
  destruct e; cbn [ends_step] in E; cbn [ends_in_order_from]; try (inversion E; subst; exact H).
  destruct (Nat.eqb j nx); [|discriminate]. inversion E; subst. simpl. exact H.
Qed.

Lemma ends_run_app : forall h nx es,
  ends_run nx (h ++ es) = match ends_run nx h with Some n' => ends_run n' es | None => None end.
Proof. induction h as [|e r IH]; intros nx es; simpl; auto. destruct (ends_step nx e); auto. Qed.

Lemma ends_run_neutral nx es : forallb neutral es = true -> ends_run nx es = Some nx.
Proof.
  induction es as [|e r IH]; simpl; auto. intros H. apply andb_true_iff in H. destruct H as [H1 H2].
  assert (ends_step nx e = Some nx) as ->; auto.
  destruct e; simpl in *; auto; discriminate.
Qed.

Definition jobof (ws : wstate) : option nat :=
  match ws with KBusy j _ _ _ | KHandFal j _ _ => Some j | _ => None end.
Definition bn (ws : wstate) : nat := if busyb ws then 1 else 0.

Definition elink (e : nat) (s : shell) (ws : wstate) : Prop :=
  map fst (sh_jobs s) = seq (e + bn ws) (length (sh_jobs s)) /\
  sh_njobs s = e + bn ws + length (sh_jobs s) /\
  (forall j, jobof ws = Some j -> j = e).

Definition einv (s : shell) : Prop :=
  exists e ws, ends_run 0 (sh_hist s) = Some e /\ sh_workers s = [ws] /\ elink e s ws.

Lemma einv_mstep s s' c : einv s -> mstep s s' c -> einv s'.
Proof.
  intros [e [ws [Hrun [Hw (E1 & E2 & E3)]]]] Hm. unfold einv, elink.
  destruct Hm;
    try (rewrite Hw in H; destruct w as [|w]; simpl in H; [|destruct w; discriminate]; inversion H; subst ws; clear H).
  - destruct H as (_ & _ & H3 & H4 & H5 & es & H6 & H7). exists e, ws.
    rewrite H3, H4, H5, H6, ends_run_app, Hrun. repeat split; auto. apply ends_run_neutral; auto.
  - exists e, ws. simpl. rewrite ends_run_app, Hrun. simpl. rewrite app_length, map_app. cbn [length map fst].
    rewrite Nat.add_1_r, seq_S, <- E1.
    repeat split; auto; try lia. rewrite E2. auto.
  - rewrite H0 in E1, E2. unfold bn in *. simpl in E1, E2. rewrite Nat.add_0_r in E1, E2.
    injection E1 as Hj Hr. subst j.
    exists e, (KBusy e k false false). simpl. rewrite ends_run_app, Hrun, Hw. simpl.
    repeat split; auto.
    + rewrite Nat.add_1_r. exact Hr.
    + lia.
    + intros j0 Hj0. inversion Hj0. auto.
  - exists e, KExited. simpl. rewrite Hrun, Hw. simpl. repeat split; auto.
  - exists e, (KBusy j k true false). simpl. rewrite ends_run_app, Hrun, Hw. simpl. repeat split; auto.
  - exists e, (KBusy j k false false). simpl. rewrite ends_run_app, Hrun, Hw. simpl. repeat split; auto.
  - exists e, (KBusy j (JMeta rid) false true). simpl. rewrite ends_run_app, Hrun, Hw. simpl. repeat split; auto.
  - exists e, (KBusy j JData ic false). simpl. rewrite ends_run_app, Hrun, Hw. simpl. repeat split; auto.
  - exists e, (KBusy j k ic false). simpl. rewrite ends_run_app, Hrun, Hw. simpl. repeat split; auto.
  - exists e, (KBusy j (JMeta rid) false true). simpl. rewrite ends_run_app, Hrun, Hw. simpl. repeat split; auto.
  - exists e, (if ret then KHandFal j JData ic else KBusy j JData ic false). simpl.
    rewrite ends_run_app, Hrun, Hw. simpl. destruct ret; repeat split; auto.
  - specialize (E3 j eq_refl). subst j. exists (S e), KIdle. simpl. rewrite ends_run_app, Hrun, Hw. simpl.
    rewrite Nat.eqb_refl. unfold bn in *. simpl in *. rewrite Nat.add_0_r. rewrite Nat.add_1_r in E1.
    repeat split; auto; try lia. intros; discriminate.
  - specialize (E3 j eq_refl). subst j. exists (S e), KIdle. simpl. rewrite ends_run_app, Hrun, Hw. simpl.
    rewrite Nat.eqb_refl. unfold bn in *. simpl in *. rewrite Nat.add_0_r. rewrite Nat.add_1_r in E1.
    repeat split; auto; try lia. intros; discriminate.
Qed.

Theorem one_worker_serial : forall k h s, sreach k h 1 s ->
  serial_calls (sh_hist s) = true /\ ends_in_order (sh_hist s) = true.
Proof.
  intros k h s Hr. split.
  - destruct (reach_inv k h 1 sinv) with (s := s) as [_ [o [Hrun _]]]; auto.
    + exists false. split; auto. intros w ws Hn. simpl in Hn.
      destruct w as [|w]; simpl in Hn; [inversion Hn; auto | destruct w; discriminate].
    + intros; eapply sinv_mstep; eauto.
    + unfold serial_calls. eapply serial_run_ok; eauto.
  - destruct (reach_inv k h 1 einv) with (s := s) as [_ [e [ws [Hrun _]]]]; auto.
    + exists 0, KIdle. simpl. repeat split; auto. intros; discriminate.
    + intros; eapply einv_mstep; eauto.
    + unfold ends_in_order. eapply ends_run_ok; eauto.
Qed.

(* ================================================================== *)
(* 9. No request id is answered twice (Metadata server)                 *)
(* ================================================================== *)

Lemma puts_of_app a b : puts_of (a ++ b) = puts_of a ++ puts_of b.
Proof. induction a as [|e r IH]; simpl; auto. destruct e; simpl; rewrite ?IH; auto. Qed.

Lemma replies_of_app a b : replies_of (a ++ b) = replies_of a ++ replies_of b.
Proof. unfold replies_of. rewrite puts_of_app, flat_map_app. auto. Qed.

Lemma replies_of_neutral es : forallb neutral es = true -> replies_of es = [].
Proof.
  induction es as [|e r IH]; auto. intros H. simpl in H. apply andb_true_iff in H. destruct H as [H1 H2].
  change (e :: r) with ([e] ++ r). rewrite replies_of_app, (IH H2), app_nil_r.
  destruct e; auto. simpl in H1. apply andb_true_iff in H1. destruct H1 as [_ H1]. destruct l; auto. discriminate.
Qed.

Definition wrid (w : wstate) : list nat := match w with KBusy _ k _ false => jrid k | _ => [] end.
Definition jobrid (jk : nat * jkind) : list nat := jrid (snd jk).

(* ids answered, being processed, or queued *)
Definition Rm (x : nat) (s : shell) : nat :=
  cnt x (replies_of (sh_hist s)) + cnt x (flat_map wrid (sh_workers s)) + cnt x (flat_map jobrid (sh_jobs s)).

Lemma cnt_flat_updw x (f : wstate -> list nat) l w old v : nth_error l w = Some old ->
  cnt x (flat_map f (updw w v l)) + cnt x (f old) = cnt x (flat_map f l) + cnt x (f v).
Proof.
  revert w; induction l as [|z r IH]; intros [|w] H; simpl in *; try discriminate.
  - inversion H; subst. rewrite !cnt_app. lia.
  - specialize (IH _ H). rewrite !cnt_app. lia.
Qed.

Ltac use_cnt_updw xx :=
  match goal with
  | H : nth_error (sh_workers ?s) ?w = Some _ |- context [updw ?w ?v (sh_workers ?s)] =>
      let Hcu := fresh "Hcu" in pose proof (cnt_flat_updw xx wrid _ _ _ v H) as Hcu; simpl in Hcu
  end.

Lemma rm_mstep h n s s' c : Base KMeta h n s -> mstep s s' c -> forall x, Rm x s' <= Rm x s + cnt x c.
Proof.
  intros Hb Hm x. pose proof (base_meta_w _ _ _ Hb) as Hw. unfold Rm.
  destruct Hm; simpl;
    try (pose proof (forallb_nth _ _ _ _ Hw H) as Hx; simpl in Hx; try discriminate Hx);
    rewrite ?replies_of_app, ?flat_map_app, ?cnt_app; simpl; rewrite ?cnt_nil;
    try use_cnt_updw x; try lia.
  - destruct H as (_ & _ & H3 & _ & H5 & es & H6 & H7).
    rewrite H3, H5, H6, replies_of_app, (replies_of_neutral _ H7), app_nil_r. lia.
  - unfold jobrid at 2. simpl. rewrite app_nil_r. lia.
  - rewrite H0. simpl. rewrite cnt_app. unfold jobrid at 2. simpl. rewrite ?cnt_nil in Hcu. lia.
Qed.

Lemma rm_msteps h n s s' c : msteps s s' c -> Base KMeta h n s -> forall x, Rm x s' <= Rm x s + cnt x c.
Proof.
  intros Hm. induction Hm as [s|s1 s2 s3 c1 c2 H1 H2 IH]; intros Hb x.
  - rewrite cnt_nil. lia.
  - pose proof (rm_mstep _ _ _ _ _ Hb H1 x). pose proof (IH (base_mstep _ _ _ _ _ _ Hb H1) x).
    rewrite cnt_app. lia.
Qed.

Lemma flat_wrid_idle n : flat_map wrid (repeat KIdle n) = [].
Proof. induction n; simpl; auto. Qed.

(* stated for the Metadata server only: a Data job may enqueue any reply (see the report) *)
Theorem replies_nodup_reachable : forall h n s, sreach_env KMeta h n s -> nodup_nat (replies_of (sh_hist s)) = true.
Proof.
  intros h n s [ls [Hr He]].
  destruct (run_msteps _ _ _ (lock_init KMeta h n) Hr) as [_ [c [Hm Hc]]].
  pose proof (rm_msteps h n _ _ _ Hm (base_init KMeta h n)) as Hrm.
  apply nodup_nat_NoDup. apply (NoDup_count_occ Nat.eq_dec). intros x.
  unfold env_ok in He. apply nodup_nat_NoDup in He. rewrite (NoDup_count_occ Nat.eq_dec) in He.
  specialize (He x). specialize (Hc x). specialize (Hrm x).
  unfold Rm in Hrm. simpl in Hrm, Hc. rewrite flat_wrid_idle in Hrm. unfold cnt in *. simpl in Hrm. lia.
Qed.

Print Assumptions pool_ok_reachable.
Print Assumptions replies_nodup_reachable.
Print Assumptions quiet_all_ended.
Print Assumptions meta_quiet_one_outcome_each.
Print Assumptions calls_on_workers_only.
Print Assumptions one_worker_serial.
Print Assumptions non_blocking.
Print Assumptions pool_size_spec.
