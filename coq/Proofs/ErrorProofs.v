(* Proofs/ErrorProofs.v — property C08: adapter exceptions map to the protocol's
   error subtype, payload intact. *)
From Coq Require Import String List Ascii NArith ZArith Bool Lia.
From LS Require Import Model.Bytes Model.Tags Gen.Consts Model.Quote Model.Base64 Model.Codec
  Model.Writers Model.AriReply Proofs.BytesProofs Proofs.QuoteProofs Proofs.CodecProofs.
Import ListNotations.

Definition int_len_ok (z : Z) : Prop := (N.of_nat (length (Z_to_dec z)) <= 4300)%N.
Definition mk_exn (c : exn_class) (msg : bytes) (code : Z) (um sid : text) : exn :=
  {| e_class := c; e_str := msg; e_code := code; e_user_msg := py_of_text um; e_session := py_of_text sid |}.
Definition credits_like (c : lib_class) : bool :=
  match c with CCreditsError | CConflictingSessionError => true | _ => false end.
Definition is_conflicting (c : lib_class) : bool :=
  match c with CConflictingSessionError => true | _ => false end.

(* ------------------------------------------------------------------ *)
(* tables                                                              *)
(* ------------------------------------------------------------------ *)

Theorem letters_match_spec : forall c, exceptions_map c = Some (spec_letter c).
Proof. intros c. destruct c; vm_compute; reflexivity. Qed.

Definition chk_designated (m : meth) (c : lib_class) : bool :=
  implb (spec_pair_in_scope m c)
        (Bool.eqb (existsb (fun X => lib_subclass c X) (designated m)) (spec_designated m c)).

Lemma sweep_designated :
  forallb (fun m => forallb (chk_designated m) all_lib_classes) request_methods = true.
Proof. vm_compute. reflexivity. Qed.

Lemma all_lib_classes_complete : forall c, In c all_lib_classes.
Proof. intros c. destruct c; cbn [all_lib_classes In]; tauto. Qed.

Theorem designated_matches_spec : forall m c,
  In m request_methods -> spec_pair_in_scope m c = true ->
  existsb (fun X => lib_subclass c X) (designated m) = spec_designated m c.
Proof.
  intros m c Hm Hs.
  pose proof sweep_designated as H.
  rewrite forallb_forall in H. specialize (H m Hm).
  rewrite forallb_forall in H. specialize (H c (all_lib_classes_complete c)).
  unfold chk_designated in H. rewrite Hs in H. cbn [implb] in H.
  apply eqb_prop in H. exact H.
Qed.

(* ------------------------------------------------------------------ *)
(* shape of the line                                                   *)
(* ------------------------------------------------------------------ *)

Lemma join_resp_generic : forall n t : bytes,
  join_pipe [n; [c_E]] ++ [c_pipe] ++ t = join_pipe [n; [c_E]; t].
Proof.
  intros n t. unfold join_pipe.
  rewrite !join_with_cons2, !join_with_singleton, <- !app_assoc. reflexivity.
Qed.

Lemma join_resp_letter : forall (n : bytes) l rest,
  join_pipe [n; [c_E]] ++ join_pipe ([l] :: rest) = join_pipe (n :: [c_E; l] :: rest).
Proof.
  intros n l rest. unfold join_pipe. destruct rest as [|y r].
  - rewrite !join_with_cons2, !join_with_singleton, <- !app_assoc. reflexivity.
  - rewrite (join_with_cons2 _ n), (join_with_cons2 _ n), join_with_singleton.
    rewrite (join_with_cons2 _ [l]), (join_with_cons2 _ [c_E; l]).
    rewrite <- !app_assoc. reflexivity.
Qed.

(* payload after the message token *)
Definition extra (c : lib_class) (code : Z) (um sid : text) : list bytes :=
  if credits_like c
  then Z_to_dec code :: encode_text um :: (if is_conflicting c then [encode_text sid] else [])
  else [].

(* tokens of the reply; d = "a subtype letter is written" *)
Definition exp_toks (m : meth) (c : lib_class) (d : bool) (msg : bytes) (code : Z) (um sid : text)
  : list bytes :=
  meth_name m :: (if d then [c_E; spec_letter c] else [c_E]) :: encode_text (Some msg)
    :: (if d then extra c code um sid else []).

Lemma encode_string_PStr : forall s, encode_string (PStr s) = WOk (encode_text (Some s)).
Proof. intros s. exact (encode_string_text (Some s)). Qed.

Lemma append_exceptions_nosub : forall resp e,
  append_exceptions resp e false = WOk (resp ++ [c_pipe] ++ encode_text (Some (e_str e))).
Proof.
  intros resp e. unfold append_exceptions.
  rewrite encode_string_PStr. cbn [wbind]. reflexivity.
Qed.

Lemma append_exceptions_noletter : forall resp e sub,
  exact_letter e = None ->
  append_exceptions resp e sub = WOk (resp ++ [c_pipe] ++ encode_text (Some (e_str e))).
Proof.
  intros resp e sub H. unfold append_exceptions.
  rewrite encode_string_PStr. cbn [wbind]. rewrite H.
  destruct sub; reflexivity.
Qed.

Lemma append_exceptions_lib : forall resp c msg code um sid,
  append_exceptions resp (mk_exn (ELib c) msg code um sid) true =
  WOk (resp ++ join_pipe ([spec_letter c] :: encode_text (Some msg) :: extra c code um sid)).
Proof.
  intros resp c msg code um sid. unfold append_exceptions.
  cbn [e_str mk_exn]. rewrite encode_string_PStr. cbn [wbind].
  unfold exact_letter. cbn [e_class mk_exn]. rewrite letters_match_spec.
  unfold isinstance, base_class. cbn [e_class e_user_msg e_session e_code mk_exn].
  destruct c;
    cbn [spec_letter c_C c_X Ascii.eqb Bool.eqb andb orb lib_subclass
         extra credits_like is_conflicting];
    rewrite ?encode_string_text; cbn [wbind];
    rewrite ?encode_string_text; cbn [wbind];
    reflexivity.
Qed.

Lemma isinstance_lib : forall c msg code um sid X,
  isinstance (mk_exn (ELib c) msg code um sid) X = lib_subclass c X.
Proof. reflexivity. Qed.

Lemma existsb_ext' : forall (A : Type) (f g : A -> bool) l,
  (forall x, f x = g x) -> existsb f l = existsb g l.
Proof.
  intros A f g l H. induction l as [|x r IH]; [reflexivity|].
  cbn [existsb]. rewrite H, IH. reflexivity.
Qed.

Lemma error_reply_lib_line : forall m c msg code um sid,
  In m request_methods -> spec_pair_in_scope m c = true ->
  error_reply m (mk_exn (ELib c) msg code um sid) =
  WOk (join_pipe (exp_toks m c (spec_designated m c) msg code um sid)).
Proof.
  intros m c msg code um sid Hm Hs.
  unfold error_reply, handle_exception.
  rewrite (existsb_ext' _ _ (fun X => lib_subclass c X) (designated m)
             (isinstance_lib c msg code um sid)).
  rewrite (designated_matches_spec m c Hm Hs).
  unfold exp_toks. destruct (spec_designated m c).
  - rewrite append_exceptions_lib, join_resp_letter. reflexivity.
  - rewrite append_exceptions_nosub, join_resp_generic. reflexivity.
Qed.

Lemma error_reply_noletter_line : forall m k c msg code um sid,
  exact_letter (mk_exn k msg code um sid) = None ->
  error_reply m (mk_exn k msg code um sid) =
  WOk (join_pipe (exp_toks m c false msg code um sid)).
Proof.
  intros m k c msg code um sid H.
  unfold error_reply, handle_exception.
  rewrite (append_exceptions_noletter _ _ _ H), join_resp_generic. reflexivity.
Qed.

(* ------------------------------------------------------------------ *)
(* separator freedom                                                   *)
(* ------------------------------------------------------------------ *)

Definition clean (t : bytes) : Prop := ~ In c_pipe t /\ ~ In c_cr t /\ ~ In c_lf t.

Definition sepb (c : ascii) : bool :=
  Ascii.eqb c c_pipe || Ascii.eqb c c_cr || Ascii.eqb c c_lf.

Lemma clean_of_forallb : forall t, forallb (fun c => negb (sepb c)) t = true -> clean t.
Proof.
  intros t H. rewrite forallb_forall in H.
  assert (G : forall x, sepb x = true -> ~ In x t).
  { intros x Hx Hin. specialize (H x Hin). rewrite Hx in H. discriminate. }
  unfold clean. repeat split; apply G; vm_compute; reflexivity.
Qed.

Lemma clean_meth_name : forall m, clean (meth_name m).
Proof. intros m. apply clean_of_forallb. destruct m; vm_compute; reflexivity. Qed.

Lemma clean_E : clean [c_E].
Proof. apply clean_of_forallb. vm_compute. reflexivity. Qed.

Lemma clean_E_letter : forall c, clean [c_E; spec_letter c].
Proof. intros c. apply clean_of_forallb. destruct c; vm_compute; reflexivity. Qed.

Lemma clean_encode_text : forall t, clean (encode_text t).
Proof.
  intros t. unfold clean.
  repeat split; intros Hin; apply encode_text_sep_free in Hin;
    destruct Hin as [H1 [H2 [H3 _]]]; congruence.
Qed.

Definition chk_dec_char (c : ascii) : bool :=
  implb (is_digit c || Ascii.eqb c c_minus) (negb (sepb c)).

Lemma sweep_dec_char : forallb chk_dec_char all_bytes = true.
Proof. vm_compute. reflexivity. Qed.

Lemma clean_Z_to_dec : forall z, clean (Z_to_dec z).
Proof.
  intros z. apply clean_of_forallb.
  destruct (Z_to_dec_chars z) as [H _].
  rewrite forallb_forall in H. apply forallb_forall. intros x Hx.
  specialize (H x Hx).
  pose proof sweep_dec_char as S. rewrite forallb_forall in S.
  specialize (S x (all_bytes_complete x)). unfold chk_dec_char in S.
  rewrite H in S. exact S.
Qed.

Lemma clean_extra : forall c code um sid, Forall clean (extra c code um sid).
Proof.
  intros c code um sid. unfold extra.
  destruct (credits_like c); [|constructor].
  constructor; [apply clean_Z_to_dec|].
  constructor; [apply clean_encode_text|].
  destruct (is_conflicting c); [|constructor].
  constructor; [apply clean_encode_text|constructor].
Qed.

Lemma clean_exp_toks : forall m c d msg code um sid,
  Forall clean (exp_toks m c d msg code um sid).
Proof.
  intros m c d msg code um sid. unfold exp_toks.
  constructor; [apply clean_meth_name|].
  constructor; [destruct d; [apply clean_E_letter|apply clean_E]|].
  constructor; [apply clean_encode_text|].
  destruct d; [apply clean_extra|constructor].
Qed.

Lemma in_join_with : forall sep (ts : list bytes) x,
  In x (join_with [sep] ts) -> x = sep \/ exists t, In t ts /\ In x t.
Proof.
  intros sep ts. induction ts as [|t r IH]; intros x Hin.
  - rewrite join_with_nil in Hin. destruct Hin.
  - destruct r as [|t2 r].
    + rewrite join_with_singleton in Hin. right. exists t. split; [left; reflexivity|exact Hin].
    + rewrite join_with_cons2 in Hin.
      apply in_app_or in Hin. destruct Hin as [Hin|Hin].
      * right. exists t. split; [left; reflexivity|exact Hin].
      * apply in_app_or in Hin. destruct Hin as [Hin|Hin].
        -- destruct Hin as [Hin|[]]. left. symmetry. exact Hin.
        -- destruct (IH x Hin) as [Hs|[t' [Ht' Hx]]].
           ++ left. exact Hs.
           ++ right. exists t'. split; [right; exact Ht'|exact Hx].
Qed.

Lemma join_pipe_no_crlf : forall ts,
  Forall clean ts -> ~ In c_cr (join_pipe ts) /\ ~ In c_lf (join_pipe ts).
Proof.
  intros ts Hall. rewrite Forall_forall in Hall. unfold join_pipe.
  split; intros Hin; apply in_join_with in Hin;
    destruct Hin as [Hs|[t [Ht Hx]]];
    try (vm_compute in Hs; discriminate Hs);
    destruct (Hall t Ht) as [_ [H2 H3]]; contradiction.
Qed.

Lemma toks_exp : forall m c d msg code um sid,
  toks (join_pipe (exp_toks m c d msg code um sid)) = exp_toks m c d msg code um sid.
Proof.
  intros m c d msg code um sid. unfold toks, join_pipe.
  apply split_join.
  - unfold exp_toks. discriminate.
  - pose proof (clean_exp_toks m c d msg code um sid) as H.
    rewrite Forall_forall in H. apply Forall_forall. intros t Ht.
    exact (proj1 (H t Ht)).
Qed.

(* ------------------------------------------------------------------ *)
(* decoding                                                            *)
(* ------------------------------------------------------------------ *)

Lemma decode_exp_generic : forall m c msg code um sid,
  decode_error (join_pipe (exp_toks m c false msg code um sid)) =
  Some {| er_method := meth_name m; er_subtype := None; er_msg := Some msg;
          er_code := None; er_user_msg := None; er_session := None |}.
Proof.
  intros m c msg code um sid. unfold decode_error. rewrite toks_exp.
  unfold exp_toks.
  cbn [c_E c_E' Ascii.eqb Bool.eqb andb].
  rewrite decode_encode_text. reflexivity.
Qed.

Lemma decode_exp_letter : forall m c msg code um sid,
  int_len_ok code ->
  decode_error (join_pipe (exp_toks m c true msg code um sid)) =
  Some {| er_method := meth_name m; er_subtype := Some (spec_letter c); er_msg := Some msg;
          er_code := if credits_like c then Some code else None;
          er_user_msg := if credits_like c then Some um else None;
          er_session := if is_conflicting c then Some sid else None |}.
Proof.
  intros m c msg code um sid Hlen. unfold decode_error. rewrite toks_exp.
  unfold exp_toks, extra.
  destruct c;
    cbn [spec_letter credits_like is_conflicting
         c_E c_E' c_C' c_X' Ascii.eqb Bool.eqb andb];
    rewrite ?(parse_int_Z_to_dec code Hlen), ?decode_encode_text; reflexivity.
Qed.

(* ------------------------------------------------------------------ *)
(* target theorems                                                     *)
(* ------------------------------------------------------------------ *)

Theorem error_reply_lib : forall m c msg code um sid,
  In m request_methods -> spec_pair_in_scope m c = true -> int_len_ok code ->
  exists line, error_reply m (mk_exn (ELib c) msg code um sid) = WOk line /\
    decode_error line = Some {|
      er_method := meth_name m;
      er_subtype := if spec_designated m c then Some (spec_letter c) else None;
      er_msg := Some msg;
      er_code := if spec_designated m c && credits_like c then Some code else None;
      er_user_msg := if spec_designated m c && credits_like c then Some um else None;
      er_session := if spec_designated m c && is_conflicting c then Some sid else None |} /\
    ~ In c_cr line /\ ~ In c_lf line.
Proof.
  intros m c msg code um sid Hm Hs Hlen.
  exists (join_pipe (exp_toks m c (spec_designated m c) msg code um sid)).
  split; [apply error_reply_lib_line; assumption|].
  split; [|apply join_pipe_no_crlf; apply clean_exp_toks].
  destruct (spec_designated m c); cbn [andb].
  - apply decode_exp_letter. exact Hlen.
  - apply decode_exp_generic.
Qed.

Theorem error_reply_foreign : forall m msg code um sid,
  In m request_methods ->
  exists line, error_reply m (mk_exn EForeign msg code um sid) = WOk line /\
    decode_error line = Some {| er_method := meth_name m; er_subtype := None; er_msg := Some msg;
                                er_code := None; er_user_msg := None; er_session := None |}.
Proof.
  intros m msg code um sid _.
  exists (join_pipe (exp_toks m CCreditsError false msg code um sid)).
  split; [apply error_reply_noletter_line; reflexivity|apply decode_exp_generic].
Qed.

Theorem error_reply_user_subclass : forall m c msg code um sid,
  In m request_methods ->
  exists line, error_reply m (mk_exn (EUserSub c) msg code um sid) = WOk line /\
    decode_error line = Some {| er_method := meth_name m; er_subtype := None; er_msg := Some msg;
                                er_code := None; er_user_msg := None; er_session := None |}.
Proof.
  intros m c msg code um sid _.
  exists (join_pipe (exp_toks m c false msg code um sid)).
  split; [apply error_reply_noletter_line; reflexivity|apply decode_exp_generic].
Qed.

Print Assumptions error_reply_lib.
Print Assumptions error_reply_foreign.
Print Assumptions error_reply_user_subclass.
Print Assumptions designated_matches_spec.
Print Assumptions letters_match_spec.
