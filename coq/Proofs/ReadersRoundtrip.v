(* Proofs/ReadersRoundtrip.v — the library's request decoding (Model/Readers.v)
   inverts the reference ARI request encoder (Model/AriSpec.v), for the 18
   request kinds and all argument values (property C06).

   Structure
   1. tokens produced by the encoder are "well formed" (non empty, no '|', no
      white space; this is exactly [wf_id]), hence [parse_request] recovers the
      token list of [encode_line] whatever blank terminator follows;
   2. positional reads: [read_S]/[read_I]/[read_M]/[read_P] at the head of a
      token list and two tokens further;
   3. [read_map], [read_seq], [read_tables] invert [enc_map], [enc_seq],
      [flat_map (enc_table true)];
   4. the 18 method cases and the line-level theorem. *)
From Coq Require Import String List Ascii NArith ZArith Bool Arith Lia.
From LS Require Import Model.Bytes Model.Tags Gen.Consts Model.Quote Model.Codec
  Model.Readers Model.AriSpec Proofs.BytesProofs Proofs.QuoteProofs
  Proofs.CodecProofs.
Import ListNotations.
Open Scope bool_scope.

(* ------------------------------------------------------------------ *)
(* 0. integer side condition                                           *)
(* ------------------------------------------------------------------ *)

(* Python's int() refuses numerals of more than 4300 digits *)
Definition int_ok (z : Z) : Prop :=
  (N.of_nat (length (Z_to_dec z)) <= 4300)%N.

Definition table_ints_ok (t : table) : Prop :=
  int_ok (t_win t) /\ int_ok (t_min t) /\ int_ok (t_max t).

Definition ints_ok (q : wire_request) : Prop :=
  match q with
  | WNNT _ _ ts => Forall table_ints_ok ts
  | WNTC _ ts => Forall table_ints_ok ts
  | WMSA _ _ t _ => table_ints_ok t
  | _ => True
  end.

(* every integer below 2^4298 in absolute value (in particular every 32/64 bit
   integer) satisfies the side condition *)
Lemma int_ok_bounded : forall z, (Z.abs z < 2 ^ 4298)%Z -> int_ok z.
Proof.
  intros z Hz. unfold int_ok.
  assert (H : (N.of_nat (length (Z_to_dec z)) <= 4298 + 2)%N).
  { apply Z_to_dec_length_pow2. exact Hz. }
  exact H.
Qed.

(* ------------------------------------------------------------------ *)
(* 1. well-formed tokens and parse_request                              *)
(* ------------------------------------------------------------------ *)

Definition tok_charb (c : ascii) : bool :=
  negb (Ascii.eqb c c_pipe) && negb (is_space c).

Lemma wf_id_unfold : forall t,
  wf_id t = negb (is_nil t) && forallb tok_charb t.
Proof. reflexivity. Qed.

Lemma wf_id_intro : forall t : bytes,
  t <> [] ->
  (forall c, In c t -> c <> c_pipe /\ is_space c = false) ->
  wf_id t = true.
Proof.
  intros t Hne Hc. rewrite wf_id_unfold. apply andb_true_iff. split.
  - destruct t as [|a t']; [congruence | reflexivity].
  - apply forallb_forall. intros c Hin. destruct (Hc c Hin) as [Hp Hs].
    unfold tok_charb. rewrite Hs.
    destruct (Ascii.eqb c c_pipe) eqn:E.
    + apply Ascii.eqb_eq in E. contradiction.
    + reflexivity.
Qed.

Lemma wf_id_not_nil : forall t, wf_id t = true -> t <> [].
Proof.
  intros t H. rewrite wf_id_unfold in H. apply andb_true_iff in H.
  destruct H as [H _]. destruct t as [|a t']; [discriminate H | discriminate].
Qed.

Lemma wf_id_chars : forall t c,
  wf_id t = true -> In c t -> c <> c_pipe /\ is_space c = false.
Proof.
  intros t c H Hin. rewrite wf_id_unfold in H. apply andb_true_iff in H.
  destruct H as [_ H]. rewrite forallb_forall in H. specialize (H c Hin).
  unfold tok_charb in H. apply andb_true_iff in H. destruct H as [Hp Hs].
  split.
  - intro E. subst c. rewrite Ascii.eqb_refl in Hp. discriminate Hp.
  - destruct (is_space c); [discriminate Hs | reflexivity].
Qed.

Lemma wf_id_no_pipe : forall t, wf_id t = true -> ~ In c_pipe t.
Proof.
  intros t H Hin. destruct (wf_id_chars t c_pipe H Hin) as [Hp _].
  apply Hp. reflexivity.
Qed.

Lemma wf_id_no_space : forall t,
  wf_id t = true -> forallb (fun c => negb (is_space c)) t = true.
Proof.
  intros t H. apply forallb_forall. intros c Hin.
  destruct (wf_id_chars t c H Hin) as [_ Hs]. rewrite Hs. reflexivity.
Qed.

Lemma wf_id_rstrip : forall t, wf_id t = true -> rstrip t = t.
Proof. intros t H. apply rstrip_no_space_id. apply wf_id_no_space. exact H. Qed.

Lemma wf_id_nonblank : forall t, wf_id t = true -> nonblank t = true.
Proof.
  intros t H. unfold nonblank. rewrite (wf_id_rstrip t H).
  pose proof (wf_id_not_nil t H) as Hne.
  destruct t as [|a t']; [congruence | reflexivity].
Qed.

Lemma wf_id_last : forall t,
  wf_id t = true -> exists (s : bytes) c, t = s ++ [c] /\ is_space c = false.
Proof.
  intros t H. destruct (exists_last (wf_id_not_nil t H)) as [s [c E]].
  exists s, c. split; [exact E|].
  destruct (wf_id_chars t c H) as [_ Hs]; [|exact Hs].
  rewrite E. apply in_or_app. right. left. reflexivity.
Qed.

Definition toks_ok (l : list bytes) : Prop := Forall (fun t => wf_id t = true) l.

Lemma toks_ok_app : forall a b, toks_ok a -> toks_ok b -> toks_ok (a ++ b).
Proof. intros a b Ha Hb. apply Forall_app. split; assumption. Qed.

Lemma toks_ok_flat_map : forall (A : Type) (f : A -> list bytes) l,
  (forall x, toks_ok (f x)) -> toks_ok (flat_map f l).
Proof.
  intros A f l Hf. induction l as [|x l IH].
  - constructor.
  - cbn [flat_map]. apply toks_ok_app; [apply Hf | exact IH].
Qed.

Lemma filter_nonblank_id : forall l, toks_ok l -> filter nonblank l = l.
Proof.
  intros l H. induction H as [|t l Ht _ IH].
  - reflexivity.
  - cbn [filter]. rewrite (wf_id_nonblank t Ht). rewrite IH. reflexivity.
Qed.

Lemma join_pipe_last : forall l,
  l <> [] -> toks_ok l ->
  exists (s : bytes) c, join_pipe l = s ++ [c] /\ is_space c = false.
Proof.
  intros l Hne Hok. destruct (exists_last Hne) as [ts [t E]]. subst l.
  apply Forall_app in Hok. destruct Hok as [_ Ht].
  inversion Ht as [|t0 l0 Hwt _]; subst.
  destruct (wf_id_last t Hwt) as [s [c [Et Hc]]].
  unfold join_pipe. destruct ts as [|t1 ts'].
  - exists s, c. cbn [app]. rewrite join_with_singleton. split; assumption.
  - exists (join_with [c_pipe] (t1 :: ts') ++ [c_pipe] ++ s), c. split; [|exact Hc].
    rewrite join_with_app_singleton by discriminate.
    rewrite Et. rewrite <- !app_assoc. reflexivity.
Qed.

Lemma rstrip_join_term : forall l term,
  l <> [] -> toks_ok l -> forallb is_space term = true ->
  rstrip (join_pipe l ++ term) = join_pipe l.
Proof.
  intros l term Hne Hok Hterm. rewrite rstrip_app_space by exact Hterm.
  destruct (join_pipe_last l Hne Hok) as [s [c [E Hc]]].
  rewrite E. apply rstrip_id. exact Hc.
Qed.

Lemma split_join_pipe : forall l,
  l <> [] -> toks_ok l -> split_on c_pipe (join_pipe l) = l.
Proof.
  intros l Hne Hok. unfold join_pipe. apply split_join; [exact Hne|].
  eapply Forall_impl; [|exact Hok]. intros t Ht. apply wf_id_no_pipe. exact Ht.
Qed.

(* parse_request on the encoder's line shape *)
Theorem parse_request_join : forall id m data term,
  toks_ok (id :: m :: data) -> forallb is_space term = true ->
  parse_request (join_pipe (id :: m :: data) ++ term) =
  Some {| p_id := id; p_method := m; p_data := data |}.
Proof.
  intros id m data term Hok Hterm. unfold parse_request.
  rewrite rstrip_join_term by (try discriminate; assumption).
  rewrite split_join_pipe by (try discriminate; assumption).
  rewrite filter_nonblank_id by exact Hok.
  reflexivity.
Qed.

(* only the stripped line matters: any blank suffix is irrelevant *)
Lemma parse_request_app_space : forall body w,
  forallb is_space w = true -> parse_request (body ++ w) = parse_request body.
Proof.
  intros body w Hw. unfold parse_request. rewrite rstrip_app_space by exact Hw.
  reflexivity.
Qed.

Theorem decode_line_app_space : forall body w,
  forallb is_space w = true -> decode_line (body ++ w) = decode_line body.
Proof.
  intros body w Hw. unfold decode_line.
  rewrite parse_request_app_space by exact Hw. reflexivity.
Qed.

Lemma crlf_space : forallb is_space crlf = true.
Proof. vm_compute. reflexivity. Qed.

Lemma lf_space : forallb is_space lf = true.
Proof. vm_compute. reflexivity. Qed.

Lemma term_space : forall term,
  term = crlf \/ term = lf -> forallb is_space term = true.
Proof. intros term [E|E]; subst term; [apply crlf_space | apply lf_space]. Qed.

(* ------------------------------------------------------------------ *)
(* 1b. every token the reference encoder emits is well formed           *)
(* ------------------------------------------------------------------ *)

Lemma wf_encode_text : forall t, wf_id (encode_text t) = true.
Proof.
  intros t. apply wf_id_intro.
  - apply encode_text_not_nil.
  - intros c Hin. destruct (encode_text_sep_free t c Hin) as [Hp [_ [_ Hs]]].
    split; assumption.
Qed.

Definition chk_dec_char (c : ascii) : bool :=
  implb (is_digit c || Ascii.eqb c c_minus) (tok_charb c).

Lemma sweep_dec_char : forallb chk_dec_char all_bytes = true.
Proof. vm_compute. reflexivity. Qed.

Lemma wf_Z_to_dec : forall z, wf_id (Z_to_dec z) = true.
Proof.
  intros z. destruct (Z_to_dec_chars z) as [Hc Hne].
  rewrite wf_id_unfold. apply andb_true_iff. split.
  - destruct (Z_to_dec z) as [|a r]; [congruence | reflexivity].
  - apply forallb_forall. intros c Hin.
    rewrite forallb_forall in Hc. specialize (Hc c Hin).
    pose proof (sweep_all chk_dec_char sweep_dec_char c) as Hs.
    unfold chk_dec_char in Hs. rewrite Hc in Hs. exact Hs.
Qed.

Definition mode_tok (m : option mode) : bytes :=
  match m with None => [c_hash] | Some m' => mode_value m' end.
Definition plat_tok (p : platres) : bytes :=
  match p with PlNone => [c_hash] | PlEmpty => [c_dollar]
          | PlMember p' => platform_value p' end.

Lemma wf_mode_tok : forall m, wf_id (mode_tok m) = true.
Proof. intros [[| | |]|]; vm_compute; reflexivity. Qed.

Lemma wf_plat_tok : forall p, wf_id (plat_tok p) = true.
Proof. intros [| |[|]]; vm_compute; reflexivity. Qed.

Lemma wf_markers :
  wf_id [c_S] = true /\ wf_id [c_I] = true /\ wf_id [c_M] = true /\ wf_id [c_P] = true.
Proof. vm_compute. repeat split. Qed.

Lemma enc_S_cells : forall t, enc_S t = [[c_S]; encode_text t].
Proof. reflexivity. Qed.
Lemma enc_I_cells : forall z, enc_I z = [[c_I]; Z_to_dec z].
Proof. reflexivity. Qed.
Lemma enc_M_cells : forall m, enc_M m = [[c_M]; mode_tok m].
Proof. reflexivity. Qed.
Lemma enc_P_cells : forall p, enc_P p = [[c_P]; plat_tok p].
Proof. reflexivity. Qed.

Lemma toks_ok_enc_S : forall t, toks_ok (enc_S t).
Proof.
  intros t. rewrite enc_S_cells. destruct wf_markers as [HS _].
  constructor; [exact HS|]. constructor; [apply wf_encode_text | constructor].
Qed.

Lemma toks_ok_enc_I : forall z, toks_ok (enc_I z).
Proof.
  intros z. rewrite enc_I_cells. destruct wf_markers as [_ [HI _]].
  constructor; [exact HI|]. constructor; [apply wf_Z_to_dec | constructor].
Qed.

Lemma toks_ok_enc_M : forall m, toks_ok (enc_M m).
Proof.
  intros m. rewrite enc_M_cells. destruct wf_markers as [_ [_ [HM _]]].
  constructor; [exact HM|]. constructor; [apply wf_mode_tok | constructor].
Qed.

Lemma toks_ok_enc_P : forall p, toks_ok (enc_P p).
Proof.
  intros p. rewrite enc_P_cells. destruct wf_markers as [_ [_ [_ HP]]].
  constructor; [exact HP|]. constructor; [apply wf_plat_tok | constructor].
Qed.

Lemma toks_ok_enc_map : forall d, toks_ok (enc_map d).
Proof.
  intros d. unfold enc_map. apply toks_ok_flat_map. intros kv.
  apply toks_ok_app; apply toks_ok_enc_S.
Qed.

Lemma toks_ok_enc_seq : forall l, toks_ok (enc_seq l).
Proof.
  intros l. unfold enc_seq. apply toks_ok_flat_map. apply toks_ok_enc_S.
Qed.

Lemma toks_ok_enc_table : forall ws t, toks_ok (enc_table ws t).
Proof.
  intros ws t. unfold enc_table.
  repeat (apply toks_ok_app;
          [first [apply toks_ok_enc_S | apply toks_ok_enc_I | apply toks_ok_enc_M]|]).
  destruct ws; [apply toks_ok_enc_S | constructor].
Qed.

Lemma toks_ok_enc_tables : forall ts, toks_ok (flat_map (enc_table true) ts).
Proof. intros ts. apply toks_ok_flat_map. apply toks_ok_enc_table. Qed.

Lemma toks_ok_enc_device : forall d, toks_ok (enc_device d).
Proof.
  intros d. unfold enc_device.
  apply toks_ok_app; [apply toks_ok_enc_P|].
  apply toks_ok_app; apply toks_ok_enc_S.
Qed.

Lemma toks_ok_enc_subinfo : forall s, toks_ok (enc_subinfo s).
Proof.
  intros s. unfold enc_subinfo.
  apply toks_ok_app; [apply toks_ok_enc_device|].
  apply toks_ok_app; apply toks_ok_enc_S.
Qed.

Theorem toks_ok_encode_args : forall q, toks_ok (encode_args q).
Proof.
  intros q. destruct q; cbn [encode_args];
  repeat first
    [ apply toks_ok_enc_S | apply toks_ok_enc_map | apply toks_ok_enc_seq
    | apply toks_ok_enc_tables | apply toks_ok_enc_device
    | apply toks_ok_enc_subinfo | apply toks_ok_enc_table
    | apply toks_ok_app ].
Qed.

(* method names: closed finite checks *)
Lemma wf_meth_name : forall m, wf_id (meth_name m) = true.
Proof. intros m. destruct m; vm_compute; reflexivity. Qed.

Definition is_request_meth (m : meth) : bool :=
  existsb (meth_eqb m) request_methods.

Lemma find_meth_name : forall m,
  is_request_meth m = true ->
  find (fun m' => bytes_eqb (meth_name m') (meth_name m)) request_methods = Some m.
Proof.
  intros m H. destruct m; try (vm_compute in H; discriminate H);
  vm_compute; reflexivity.
Qed.

Lemma shape_ok_request_meth : forall m q,
  shape_ok m q = true -> is_request_meth m = true.
Proof.
  intros m q H. destruct m; try reflexivity; destruct q; discriminate H.
Qed.

Theorem parse_request_encode_line : forall id m q term,
  wf_id id = true -> forallb is_space term = true ->
  parse_request (encode_line id m q term) =
  Some {| p_id := id; p_method := meth_name m; p_data := encode_args q |}.
Proof.
  intros id m q term Hid Hterm. unfold encode_line.
  apply parse_request_join; [|exact Hterm].
  constructor; [exact Hid|]. constructor; [apply wf_meth_name|].
  apply toks_ok_encode_args.
Qed.

(* ------------------------------------------------------------------ *)
(* 2. positional reads                                                  *)
(* ------------------------------------------------------------------ *)

Lemma bytes_eqb_single : forall c, bytes_eqb [c] [c] = true.
Proof. intros c. apply bytes_eqb_refl. Qed.

(* reading a typed value at the head of the token list *)
Lemma read_typed_here : forall (A : Type) ty (dec : bytes -> rres A) v r,
  read_typed ty dec ([ty] :: v :: r) 0 = dec v.
Proof.
  intros A ty dec v r. unfold read_typed, read_token.
  cbn [nth_error rbind]. rewrite bytes_eqb_single. reflexivity.
Qed.

(* ... and two tokens further *)
Lemma read_typed_skip : forall (A : Type) ty (dec : bytes -> rres A) a b r n,
  read_typed ty dec (a :: b :: r) (S (S n)) = read_typed ty dec r n.
Proof. intros A ty dec a b r n. reflexivity. Qed.

(* general positional form: at offset [length pre] in [pre ++ [ty] :: v :: post] *)
Lemma read_typed_at : forall (A : Type) ty (dec : bytes -> rres A) pre v post n,
  n = length pre ->
  read_typed ty dec (pre ++ [ty] :: v :: post) n = dec v.
Proof.
  intros A ty dec pre v post n Hn. subst n. unfold read_typed, read_token.
  rewrite (nth_error_app2 pre _ (Nat.le_succ_diag_r (length pre))).
  rewrite (nth_error_app2 pre _ (Nat.le_refl (length pre))).
  rewrite Nat.sub_diag.
  replace (S (length pre) - length pre) with 1 by lia.
  cbn [nth_error rbind]. rewrite bytes_eqb_single. reflexivity.
Qed.

Lemma decode_modes_tok : forall m, decode_modes (mode_tok m) = DOk m.
Proof. intros [[| | |]|]; vm_compute; reflexivity. Qed.

Lemma decode_platform_tok : forall p, decode_platform (plat_tok p) = DOk p.
Proof. intros [| |[|]]; vm_compute; reflexivity. Qed.

(* mode characters are recognised by mode_of_char (closed check over all_modes) *)
Lemma mode_of_char_value : forall m,
  In m all_modes -> exists c, mode_value m = [c] /\ mode_of_char c = Some m.
Proof.
  intros m _. destruct m.
  - exists "R"%char. split; vm_compute; reflexivity.
  - exists "M"%char. split; vm_compute; reflexivity.
  - exists "D"%char. split; vm_compute; reflexivity.
  - exists "C"%char. split; vm_compute; reflexivity.
Qed.

Lemma read_S_here : forall t r, read_S ([c_S] :: encode_text t :: r) 0 = ROk t.
Proof.
  intros t r. unfold read_S. rewrite read_typed_here.
  rewrite decode_encode_text. reflexivity.
Qed.

Lemma read_S_skip : forall a b r n, read_S (a :: b :: r) (S (S n)) = read_S r n.
Proof. intros a b r n. reflexivity. Qed.

Lemma read_S_at : forall pre t post n,
  n = length pre -> read_S (pre ++ enc_S t ++ post) n = ROk t.
Proof.
  intros pre t post n Hn. rewrite enc_S_cells. cbn [app]. unfold read_S.
  rewrite read_typed_at by exact Hn. rewrite decode_encode_text. reflexivity.
Qed.

Lemma read_I_here : forall z r,
  int_ok z -> read_I ([c_I] :: Z_to_dec z :: r) 0 = ROk z.
Proof.
  intros z r Hz. unfold read_I. rewrite read_typed_here.
  rewrite parse_int_Z_to_dec by exact Hz. reflexivity.
Qed.

Lemma read_I_skip : forall a b r n, read_I (a :: b :: r) (S (S n)) = read_I r n.
Proof. intros a b r n. reflexivity. Qed.

Lemma read_I_at : forall pre z post n,
  int_ok z -> n = length pre -> read_I (pre ++ enc_I z ++ post) n = ROk z.
Proof.
  intros pre z post n Hz Hn. rewrite enc_I_cells. cbn [app]. unfold read_I.
  rewrite read_typed_at by exact Hn.
  rewrite parse_int_Z_to_dec by exact Hz. reflexivity.
Qed.

Lemma read_M_here : forall m r, read_M ([c_M] :: mode_tok m :: r) 0 = ROk m.
Proof.
  intros m r. unfold read_M. rewrite read_typed_here.
  rewrite decode_modes_tok. reflexivity.
Qed.

Lemma read_M_skip : forall a b r n, read_M (a :: b :: r) (S (S n)) = read_M r n.
Proof. intros a b r n. reflexivity. Qed.

Lemma read_M_at : forall pre m post n,
  n = length pre -> read_M (pre ++ enc_M m ++ post) n = ROk m.
Proof.
  intros pre m post n Hn. rewrite enc_M_cells. cbn [app]. unfold read_M.
  rewrite read_typed_at by exact Hn. rewrite decode_modes_tok. reflexivity.
Qed.

Lemma read_P_here : forall p r, read_P ([c_P] :: plat_tok p :: r) 0 = ROk p.
Proof.
  intros p r. unfold read_P. rewrite read_typed_here.
  rewrite decode_platform_tok. reflexivity.
Qed.

Lemma read_P_skip : forall a b r n, read_P (a :: b :: r) (S (S n)) = read_P r n.
Proof. intros a b r n. reflexivity. Qed.

Lemma read_P_at : forall pre p post n,
  n = length pre -> read_P (pre ++ enc_P p ++ post) n = ROk p.
Proof.
  intros pre p post n Hn. rewrite enc_P_cells. cbn [app]. unfold read_P.
  rewrite read_typed_at by exact Hn. rewrite decode_platform_tok. reflexivity.
Qed.

(* ------------------------------------------------------------------ *)
(* 3. maps, sequences, tables                                           *)
(* ------------------------------------------------------------------ *)

Lemma enc_S_length : forall t, length (enc_S t) = 2.
Proof. reflexivity. Qed.

Lemma enc_map_cons : forall k v d,
  enc_map ((k, v) :: d) = enc_S k ++ enc_S v ++ enc_map d.
Proof.
  intros k v d. unfold enc_map. cbn [flat_map fst snd].
  rewrite <- app_assoc. reflexivity.
Qed.

Lemma enc_map_length : forall d, length (enc_map d) = 4 * length d.
Proof.
  induction d as [|[k v] d IH].
  - reflexivity.
  - rewrite enc_map_cons. rewrite !app_length, !enc_S_length, IH.
    cbn [length]. lia.
Qed.

Lemma read_pairs_enc : forall d pre fuel stop,
  length d <= fuel -> stop = length pre + 4 * length d - 2 ->
  read_pairs fuel (pre ++ enc_map d) (length pre) stop = ROk d.
Proof.
  induction d as [|[k v] d IH]; intros pre fuel stop Hf Hs; cbn [length] in Hf, Hs.
  - destruct fuel as [|f]; [reflexivity|]. cbn [read_pairs].
    destruct (Nat.ltb_spec (length pre) stop) as [Hlt|Hge]; [lia | reflexivity].
  - destruct fuel as [|f]; [lia|]. cbn [read_pairs].
    destruct (Nat.ltb_spec (length pre) stop) as [Hlt|Hge]; [|lia].
    rewrite enc_map_cons.
    rewrite (read_S_at pre k (enc_S v ++ enc_map d) (length pre) eq_refl).
    cbn [rbind].
    rewrite (app_assoc pre (enc_S k)).
    rewrite (read_S_at (pre ++ enc_S k) v (enc_map d) (length pre + 2))
      by (rewrite app_length, enc_S_length; reflexivity).
    cbn [rbind].
    rewrite (app_assoc (pre ++ enc_S k) (enc_S v)).
    replace (length pre + 4) with (length ((pre ++ enc_S k) ++ enc_S v))
      by (rewrite !app_length, !enc_S_length; lia).
    rewrite (IH ((pre ++ enc_S k) ++ enc_S v) f stop).
    + reflexivity.
    + lia.
    + rewrite !app_length, !enc_S_length. lia.
Qed.

Theorem read_map_enc : forall d, read_map (enc_map d) 0 = ROk (dict_of_pairs d).
Proof.
  intros d. unfold read_map. cbn [skipn].
  assert (Hm : length (enc_map d) mod 2 = 0).
  { rewrite enc_map_length.
    replace (4 * length d) with ((2 * length d) * 2) by lia.
    apply Nat.mod_mul. discriminate. }
  rewrite Hm. cbn [Nat.eqb].
  pose proof (read_pairs_enc d [] (length (enc_map d)) (length (enc_map d) - 2)) as H.
  cbn [app length] in H. rewrite H.
  - reflexivity.
  - rewrite enc_map_length. lia.
  - rewrite enc_map_length. lia.
Qed.

Lemma read_map_skip : forall a b r n, read_map (a :: b :: r) (S (S n)) = read_map r n.
Proof. intros a b r n. reflexivity. Qed.

(* positional form *)
Theorem read_map_at : forall pre d n,
  n = length pre -> read_map (pre ++ enc_map d) n = ROk (dict_of_pairs d).
Proof.
  intros pre d n Hn. subst n.
  assert (Hsk : skipn (length pre) (pre ++ enc_map d) = enc_map d).
  { rewrite skipn_app, Nat.sub_diag, skipn_all. reflexivity. }
  pose proof (read_map_enc d) as H. unfold read_map in *. cbn [skipn] in H.
  rewrite Hsk. exact H.
Qed.

(* sequences *)
Lemma enc_seq_cons : forall t l, enc_seq (t :: l) = enc_S t ++ enc_seq l.
Proof. reflexivity. Qed.

Lemma enc_seq_length : forall l, length (enc_seq l) = 2 * length l.
Proof.
  induction l as [|t l IH].
  - reflexivity.
  - rewrite enc_seq_cons, app_length, enc_S_length, IH. cbn [length]. lia.
Qed.

Lemma read_seq_aux_enc : forall l pre fuel,
  length l <= fuel ->
  read_seq_aux fuel (pre ++ enc_seq l) (length pre) = ROk l.
Proof.
  induction l as [|t l IH]; intros pre fuel Hf; cbn [length] in Hf.
  - destruct fuel as [|f]; [reflexivity|]. cbn [read_seq_aux].
    change (enc_seq []) with (@nil bytes). rewrite app_nil_r.
    rewrite Nat.ltb_irrefl. reflexivity.
  - destruct fuel as [|f]; [lia|]. cbn [read_seq_aux].
    rewrite enc_seq_cons.
    destruct (Nat.ltb_spec (length pre) (length (pre ++ enc_S t ++ enc_seq l)))
      as [Hlt|Hge]; [|rewrite !app_length, enc_S_length in Hge; lia].
    rewrite (read_S_at pre t (enc_seq l) (length pre) eq_refl).
    cbn [rbind].
    rewrite (app_assoc pre (enc_S t)).
    replace (length pre + 2) with (length (pre ++ enc_S t))
      by (rewrite app_length, enc_S_length; reflexivity).
    rewrite (IH (pre ++ enc_S t) f) by lia.
    reflexivity.
Qed.

Theorem read_seq_enc : forall l, read_seq (enc_seq l) 0 = ROk l.
Proof.
  intros l. unfold read_seq. cbn [skipn].
  pose proof (read_seq_aux_enc l [] (length (enc_seq l))) as H.
  cbn [app length] in H. apply H. rewrite enc_seq_length. lia.
Qed.

Lemma read_seq_skip : forall a b r n, read_seq (a :: b :: r) (S (S n)) = read_seq r n.
Proof. intros a b r n. reflexivity. Qed.

Theorem read_seq_at : forall pre l n,
  n = length pre -> read_seq (pre ++ enc_seq l) n = ROk l.
Proof.
  intros pre l n Hn. subst n.
  assert (Hsk : skipn (length pre) (pre ++ enc_seq l) = enc_seq l).
  { rewrite skipn_app, Nat.sub_diag, skipn_all. reflexivity. }
  pose proof (read_seq_enc l) as H. unfold read_seq in *. cbn [skipn] in H.
  rewrite Hsk. exact H.
Qed.

(* tables *)
Lemma enc_table_true_cells : forall t,
  enc_table true t =
  [[c_I]; Z_to_dec (t_win t); [c_M]; mode_tok (t_mode t);
   [c_S]; encode_text (t_group t); [c_S]; encode_text (t_schema t);
   [c_I]; Z_to_dec (t_min t); [c_I]; Z_to_dec (t_max t);
   [c_S]; encode_text (t_selector t)].
Proof. reflexivity. Qed.

Lemma enc_table_false_cells : forall t,
  enc_table false t =
  [[c_I]; Z_to_dec (t_win t); [c_M]; mode_tok (t_mode t);
   [c_S]; encode_text (t_group t); [c_S]; encode_text (t_schema t);
   [c_I]; Z_to_dec (t_min t); [c_I]; Z_to_dec (t_max t)].
Proof. reflexivity. Qed.

Lemma enc_table_true_length : forall t, length (enc_table true t) = 14.
Proof. reflexivity. Qed.

Lemma enc_table_false_length : forall t, length (enc_table false t) = 12.
Proof. reflexivity. Qed.

Definition no_selector (t : table) : table :=
  {| t_win := t_win t; t_mode := t_mode t; t_group := t_group t;
     t_schema := t_schema t; t_min := t_min t; t_max := t_max t;
     t_selector := None |}.

Lemma read_table_true_here : forall t r,
  table_ints_ok t -> read_table (enc_table true t ++ r) 0 true = ROk t.
Proof.
  intros t r [Hw [Hmi Hma]]. rewrite enc_table_true_cells. cbn [app].
  unfold read_table. cbn [Nat.add].
  rewrite read_I_here by exact Hw. cbn [rbind].
  rewrite ?read_M_skip, read_M_here. cbn [rbind].
  rewrite ?read_S_skip, read_S_here. cbn [rbind].
  rewrite ?read_S_skip, read_S_here. cbn [rbind].
  rewrite ?read_I_skip, read_I_here by exact Hmi. cbn [rbind].
  rewrite ?read_I_skip, read_I_here by exact Hma. cbn [rbind].
  rewrite ?read_S_skip, read_S_here. cbn [rbind].
  destruct t; reflexivity.
Qed.

Lemma read_table_false_here : forall t r,
  table_ints_ok t -> read_table (enc_table false t ++ r) 0 false = ROk (no_selector t).
Proof.
  intros t r [Hw [Hmi Hma]]. rewrite enc_table_false_cells. cbn [app].
  unfold read_table. cbn [Nat.add].
  rewrite read_I_here by exact Hw. cbn [rbind].
  rewrite ?read_M_skip, read_M_here. cbn [rbind].
  rewrite ?read_S_skip, read_S_here. cbn [rbind].
  rewrite ?read_S_skip, read_S_here. cbn [rbind].
  rewrite ?read_I_skip, read_I_here by exact Hmi. cbn [rbind].
  rewrite ?read_I_skip, read_I_here by exact Hma. cbn [rbind].
  reflexivity.
Qed.

Lemma read_table_skip : forall a b r n ws,
  read_table (a :: b :: r) (S (S n)) ws = read_table r n ws.
Proof. intros a b r n ws. reflexivity. Qed.

Lemma read_tables_aux_step : forall f t rest,
  read_tables_aux (S f) (enc_table true t ++ rest) =
  rbind (read_table (enc_table true t ++ []) 0 true) (fun t' =>
  rbind (read_tables_aux f rest) (fun rest' => ROk (t' :: rest'))).
Proof. intros f t rest. rewrite enc_table_true_cells. reflexivity. Qed.

Lemma read_tables_aux_enc : forall ts fuel,
  length ts <= fuel -> Forall table_ints_ok ts ->
  read_tables_aux fuel (flat_map (enc_table true) ts) = ROk ts.
Proof.
  induction ts as [|t ts IH]; intros fuel Hf Hok; cbn [length] in Hf.
  - destruct fuel as [|f]; reflexivity.
  - destruct fuel as [|f]; [lia|]. cbn [flat_map].
    inversion Hok as [|t0 ts0 Ht Hts]; subst.
    rewrite read_tables_aux_step.
    rewrite read_table_true_here by exact Ht. cbn [rbind].
    rewrite IH by (try lia; assumption). reflexivity.
Qed.

Lemma enc_tables_length : forall ts,
  length (flat_map (enc_table true) ts) = 14 * length ts.
Proof.
  induction ts as [|t ts IH].
  - reflexivity.
  - cbn [flat_map]. rewrite app_length, enc_table_true_length, IH.
    cbn [length]. lia.
Qed.

Theorem read_tables_enc : forall ts,
  Forall table_ints_ok ts ->
  read_tables (flat_map (enc_table true) ts) 0 = ROk ts.
Proof.
  intros ts Hok. unfold read_tables. cbn [skipn].
  apply read_tables_aux_enc; [|exact Hok].
  rewrite enc_tables_length. lia.
Qed.

Lemma read_tables_skip : forall a b r n,
  read_tables (a :: b :: r) (S (S n)) = read_tables r n.
Proof. intros a b r n. reflexivity. Qed.

Theorem read_tables_at : forall pre ts n,
  Forall table_ints_ok ts -> n = length pre ->
  read_tables (pre ++ flat_map (enc_table true) ts) n = ROk ts.
Proof.
  intros pre ts n Hok Hn. subst n.
  assert (Hsk : skipn (length pre) (pre ++ flat_map (enc_table true) ts)
                = flat_map (enc_table true) ts).
  { rewrite skipn_app, Nat.sub_diag, skipn_all. reflexivity. }
  pose proof (read_tables_enc ts Hok) as H. unfold read_tables in *.
  cbn [skipn] in H. rewrite Hsk. exact H.
Qed.

(* MPN descriptors *)
Lemma enc_device_cells : forall d,
  enc_device d =
  [[c_P]; plat_tok (d_platform d); [c_S]; encode_text (d_app d);
   [c_S]; encode_text (d_token d)].
Proof. reflexivity. Qed.

Lemma read_device_here : forall d r, read_device (enc_device d ++ r) 0 = ROk d.
Proof.
  intros d r. rewrite enc_device_cells. cbn [app].
  unfold read_device. cbn [Nat.add].
  rewrite read_P_here. cbn [rbind].
  rewrite ?read_S_skip, read_S_here. cbn [rbind].
  rewrite ?read_S_skip, read_S_here. cbn [rbind].
  destruct d; reflexivity.
Qed.

Lemma read_device_skip : forall a b r n,
  read_device (a :: b :: r) (S (S n)) = read_device r n.
Proof. intros a b r n. reflexivity. Qed.

Lemma enc_subinfo_cells : forall s,
  enc_subinfo s =
  [[c_P]; plat_tok (d_platform (s_device s)); [c_S]; encode_text (d_app (s_device s));
   [c_S]; encode_text (d_token (s_device s));
   [c_S]; encode_text (s_trigger s); [c_S]; encode_text (s_format s)].
Proof. reflexivity. Qed.

Lemma read_subinfo_here : forall s r, read_subinfo (enc_subinfo s ++ r) 0 = ROk s.
Proof.
  intros s r. unfold read_subinfo, enc_subinfo. cbn [Nat.add].
  rewrite <- app_assoc. rewrite read_device_here. cbn [rbind].
  rewrite enc_device_cells, !enc_S_cells. cbn [app].
  rewrite ?read_S_skip, read_S_here. cbn [rbind].
  rewrite ?read_S_skip, read_S_here. cbn [rbind].
  destruct s; reflexivity.
Qed.

Lemma read_subinfo_skip : forall a b r n,
  read_subinfo (a :: b :: r) (S (S n)) = read_subinfo r n.
Proof. intros a b r n. reflexivity. Qed.

Lemma read_device_here0 : forall d, read_device (enc_device d) 0 = ROk d.
Proof.
  intros d. rewrite <- (app_nil_r (enc_device d)). apply read_device_here.
Qed.

Lemma read_subinfo_here0 : forall s, read_subinfo (enc_subinfo s) 0 = ROk s.
Proof.
  intros s. rewrite <- (app_nil_r (enc_subinfo s)). apply read_subinfo_here.
Qed.

(* ------------------------------------------------------------------ *)
(* 4. the 18 request kinds                                              *)
(* ------------------------------------------------------------------ *)

Ltac rd :=
  rewrite ?enc_S_cells; cbn [app];
  repeat first
    [ progress cbn [rbind]
    | rewrite read_S_here
    | rewrite read_S_skip
    | rewrite read_map_skip
    | rewrite read_map_enc
    | rewrite read_seq_skip
    | rewrite read_seq_enc
    | rewrite read_tables_skip
    | rewrite read_table_skip
    | rewrite read_device_skip
    | rewrite read_subinfo_skip
    | rewrite read_device_here
    | rewrite read_device_here0
    | rewrite read_subinfo_here0
    | rewrite enc_device_cells; cbn [app]
    | rewrite enc_table_false_cells; cbn [app] ].

Theorem read_body_enc : forall m q,
  shape_ok m q = true -> ints_ok q ->
  read_body m (encode_args q) = ROk (expected q).
Proof.
  intros m q Hs Hi.
  destruct m; destruct q; try discriminate Hs;
    cbn [read_body encode_args expected]; cbn [ints_ok] in Hi.
  - (* DPI *) rd. reflexivity.
  - (* SUB *) rd. reflexivity.
  - (* USB *) rd. reflexivity.
  - (* MPI *) rd. reflexivity.
  - (* NUS *) rd. reflexivity.
  - (* NUA *) rd. reflexivity.
  - (* NNS *) rd. reflexivity.
  - (* NSC *) rd. reflexivity.
  - (* GIS *) rd. reflexivity.
  - (* GSC *) rd. reflexivity.
  - (* GIT *) rd. reflexivity.
  - (* GUI *) rd. reflexivity.
  - (* NUM *) rd. reflexivity.
  - (* NNT *) rd. rewrite read_tables_enc by exact Hi. reflexivity.
  - (* NTC *) rd. rewrite read_tables_enc by exact Hi. reflexivity.
  - (* MDA *) rd. reflexivity.
  - (* MSA *)
    rewrite ?enc_S_cells; cbn [app].
    rewrite !read_S_skip, !read_S_here. cbn [rbind].
    rewrite !read_table_skip, read_table_false_here by exact Hi. cbn [rbind].
    rd. reflexivity.
  - (* MDC *) rd. reflexivity.
Qed.

Theorem read_request_enc : forall m q,
  shape_ok m q = true -> ints_ok q ->
  read_request m (encode_args q) = POk (expected q).
Proof.
  intros m q Hs Hi. unfold read_request.
  rewrite read_body_enc by assumption. reflexivity.
Qed.

(* line level, for any blank terminator (CRLF, LF, none, trailing blanks) *)
Theorem decode_encode_line_blank : forall id m q term,
  wf_id id = true -> shape_ok m q = true -> forallb is_space term = true ->
  ints_ok q ->
  decode_line (encode_line id m q term) = LReq id m (POk (expected q)).
Proof.
  intros id m q term Hid Hs Hterm Hi. unfold decode_line.
  rewrite parse_request_encode_line by assumption.
  cbn [p_id p_method p_data].
  rewrite find_meth_name by (apply (shape_ok_request_meth m q); exact Hs).
  rewrite read_request_enc by assumption. reflexivity.
Qed.

Theorem decode_encode_line : forall id m q term,
  wf_id id = true -> shape_ok m q = true -> (term = crlf \/ term = lf) ->
  ints_ok q ->
  decode_line (encode_line id m q term) = LReq id m (POk (expected q)).
Proof.
  intros id m q term Hid Hs Hterm Hi.
  apply decode_encode_line_blank; try assumption.
  apply term_space. exact Hterm.
Qed.

(* the id and the method come back for every request method, whatever the
   argument tokens are (shape mismatch, oversized integers: the reader result
   may then be an error, but it is reported under the right id and method) *)
Lemma in_request_methods : forall m,
  In m request_methods -> is_request_meth m = true.
Proof.
  intros m H. unfold is_request_meth. apply existsb_exists. exists m.
  split; [exact H|]. unfold meth_eqb. apply N.eqb_refl.
Qed.

Theorem decode_encode_line_id_method : forall id m q term,
  wf_id id = true -> In m request_methods -> forallb is_space term = true ->
  decode_line (encode_line id m q term) =
  LReq id m (read_request m (encode_args q)).
Proof.
  intros id m q term Hid Hm Hterm. unfold decode_line.
  rewrite parse_request_encode_line by assumption.
  cbn [p_id p_method p_data].
  rewrite find_meth_name by (apply in_request_methods; exact Hm).
  reflexivity.
Qed.

Print Assumptions parse_request_join.
Print Assumptions decode_encode_line_id_method.
Print Assumptions read_body_enc.
Print Assumptions decode_line_app_space.
Print Assumptions decode_encode_line.
