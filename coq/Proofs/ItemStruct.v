(* Proofs/ItemStruct.v — structural invariants of the per-item machinery
   (inv_struct = inv_gen && inv_single && inv_count && inv_start) are inductive;
   consequences: single dequeuer (C02), nothing retained after deletion (C19). *)
From Coq Require Import String List Ascii NArith ZArith Bool Lia PeanoNat.
From LS Require Import Model.Bytes Model.Tags Gen.Consts Model.Codec Model.Writers Model.AriReply Model.Item Model.ItemSpec.
Import ListNotations.

Opaque error_reply write_update_map write_eos write_cls void_reply.

(* ================================================================== *)
(* 1. list library                                                     *)
(* ================================================================== *)
Lemma length_upd : forall A n (x : A) l, length (upd n x l) = length l.
Proof.
  intros A n x l; revert n; induction l as [|y r IH]; intros [|n]; simpl; auto.
Qed.

Lemma nth_error_upd_eq : forall A n (x y : A) l,
  nth_error l n = Some y -> nth_error (upd n x l) n = Some x.
Proof.
  intros A n x y l; revert n; induction l as [|z r IH]; intros [|n]; simpl; intros H; try discriminate; auto.
Qed.

Lemma nth_error_upd_neq : forall A n k (x : A) l,
  n <> k -> nth_error (upd n x l) k = nth_error l k.
Proof.
  intros A n k x l; revert n k; induction l as [|z r IH]; intros [|n] [|k] H; simpl; auto.
  - congruence.
Qed.

Lemma nth_error_upd_inv : forall A n k (x y : A) l,
  nth_error (upd n x l) k = Some y ->
  (n = k /\ y = x) \/ (n <> k /\ nth_error l k = Some y).
Proof.
  intros A n k x y l H.
  destruct (Nat.eq_dec n k) as [E|E].
  - subst k. left. split; auto.
    destruct (nth_error l n) as [z|] eqn:Hz.
    + rewrite (nth_error_upd_eq _ _ _ _ _ Hz) in H. congruence.
    + exfalso. apply nth_error_None in Hz.
      assert (Hn : nth_error (upd n x l) n = None) by (apply nth_error_None; rewrite length_upd; exact Hz).
      congruence.
  - right. split; auto. rewrite nth_error_upd_neq in H; auto.
Qed.

Lemma upd_same : forall A n (x : A) l, nth_error l n = Some x -> upd n x l = l.
Proof.
  intros A n x l; revert n; induction l as [|z r IH]; intros [|n]; simpl; intros H; try discriminate; auto.
  - congruence.
  - f_equal; auto.
Qed.

Lemma nth_error_snoc_inv : forall A (l : list A) x k y,
  nth_error (l ++ [x]) k = Some y ->
  nth_error l k = Some y \/ (k = length l /\ y = x).
Proof.
  intros A l x k y H.
  destruct (Nat.lt_ge_cases k (length l)) as [L|L].
  - rewrite nth_error_app1 in H; auto.
  - rewrite nth_error_app2 in H; auto.
    destruct (k - length l) as [|q] eqn:E.
    + simpl in H. right. split; [lia|congruence].
    + simpl in H. destruct q; discriminate.
Qed.

Lemma nth_error_snoc_last : forall A (l : list A) x, nth_error (l ++ [x]) (length l) = Some x.
Proof.
  intros A l x. rewrite nth_error_app2; auto. rewrite Nat.sub_diag. reflexivity.
Qed.

Lemma forallb_nth : forall A (f : A -> bool) l,
  forallb f l = true <-> (forall j d, nth_error l j = Some d -> f d = true).
Proof.
  intros A f l. rewrite forallb_forall. split.
  - intros H j d Hj. apply H. eapply nth_error_In; eauto.
  - intros H d Hin. destruct (In_nth_error _ _ Hin) as [j Hj]. eauto.
Qed.

(* ---------- count_inloop ---------- *)
Definition b2n (b : bool) : nat := if b then 1 else 0.

Lemma count_inloop_upd : forall l j d d',
  nth_error l j = Some d ->
  count_inloop (upd j d' l) + b2n (inloop d) = count_inloop l + b2n (inloop d').
Proof.
  induction l as [|x r IH]; intros [|j] d d' H; simpl in *; try discriminate.
  - inversion H; subst. unfold b2n. destruct (inloop d), (inloop d'); lia.
  - specialize (IH j d d' H). lia.
Qed.

Lemma count_inloop_snoc : forall l x, count_inloop (l ++ [x]) = count_inloop l + b2n (inloop x).
Proof.
  induction l as [|y r IH]; intros x; simpl.
  - unfold b2n; destruct (inloop x); lia.
  - rewrite IH. lia.
Qed.

Lemma count_inloop_ge : forall l j d, nth_error l j = Some d -> inloop d = true -> 1 <= count_inloop l.
Proof.
  induction l as [|x r IH]; intros [|j] d H Hin; simpl in *; try discriminate.
  - inversion H; subst. rewrite Hin. lia.
  - specialize (IH j d H Hin). lia.
Qed.

Lemma count_inloop_two : forall l i j di dj,
  nth_error l i = Some di -> nth_error l j = Some dj ->
  inloop di = true -> inloop dj = true -> i <> j -> 2 <= count_inloop l.
Proof.
  induction l as [|x r IH]; intros [|i] [|j] di dj Hi Hj Ii Ij Hne; simpl in *; try discriminate.
  - congruence.
  - inversion Hi; subst. rewrite Ii. pose proof (count_inloop_ge _ _ _ Hj Ij). lia.
  - inversion Hj; subst. rewrite Ij. pose proof (count_inloop_ge _ _ _ Hi Ii). lia.
  - assert (i <> j) by congruence. specialize (IH i j di dj Hi Hj Ii Ij H). lia.
Qed.

Lemma count_inloop_zero : forall l,
  (forall j d, nth_error l j = Some d -> inloop d = false) -> count_inloop l = 0.
Proof.
  induction l as [|x r IH]; intros H; simpl; auto.
  rewrite (H 0 x eq_refl). rewrite IH; auto.
  intros j d Hj. apply (H (S j) d Hj).
Qed.

(* ---------- sum_dequeued ---------- *)
Definition lz (d : dq) : Z := if live_dq d then d_dequeued d else 0%Z.

Lemma sum_dequeued_cons : forall d l, sum_dequeued (d :: l) = (lz d + sum_dequeued l)%Z.
Proof.
  intros d l. unfold sum_dequeued, lz. simpl. destruct (live_dq d); lia.
Qed.

Lemma sum_dequeued_upd : forall l j d d',
  nth_error l j = Some d ->
  (sum_dequeued (upd j d' l) + lz d = sum_dequeued l + lz d')%Z.
Proof.
  induction l as [|x r IH]; intros [|j] d d' H; simpl upd; simpl nth_error in H; try discriminate.
  - inversion H; subst. rewrite !sum_dequeued_cons. lia.
  - rewrite !sum_dequeued_cons. specialize (IH j d d' H). lia.
Qed.

Lemma sum_dequeued_snoc : forall l x, sum_dequeued (l ++ [x]) = (sum_dequeued l + lz x)%Z.
Proof.
  induction l as [|y r IH]; intros x.
  - simpl app. rewrite sum_dequeued_cons. unfold sum_dequeued at 1 2. simpl. lia.
  - simpl app. rewrite !sum_dequeued_cons. rewrite IH. lia.
Qed.

Lemma sum_dequeued_nonneg : forall l,
  (forall j d, nth_error l j = Some d -> (0 <= lz d)%Z) -> (0 <= sum_dequeued l)%Z.
Proof.
  induction l as [|x r IH]; intros H.
  - unfold sum_dequeued; simpl; lia.
  - rewrite sum_dequeued_cons. pose proof (H 0 x eq_refl).
    assert (0 <= sum_dequeued r)%Z by (apply IH; intros j d Hj; apply (H (S j) d Hj)). lia.
Qed.

Lemma sum_dequeued_zero_each : forall l,
  (forall j d, nth_error l j = Some d -> (0 <= lz d)%Z) -> (sum_dequeued l <= 0)%Z ->
  forall j d, nth_error l j = Some d -> lz d = 0%Z.
Proof.
  induction l as [|x r IH]; intros H Hs [|j] d Hj; simpl in Hj; try discriminate.
  - inversion Hj; subst. rewrite sum_dequeued_cons in Hs. pose proof (H 0 d eq_refl).
    assert (0 <= sum_dequeued r)%Z by (apply sum_dequeued_nonneg; intros k e Hk; apply (H (S k) e Hk)). lia.
  - rewrite sum_dequeued_cons in Hs. pose proof (H 0 x eq_refl).
    assert (Hr : forall k e, nth_error r k = Some e -> (0 <= lz e)%Z) by (intros k e Hk; apply (H (S k) e Hk)).
    pose proof (sum_dequeued_nonneg r Hr).
    apply (IH Hr) with (j := j); auto. lia.
Qed.

Lemma sum_dequeued_dead : forall l,
  (forall j d, nth_error l j = Some d -> live_dq d = false) -> sum_dequeued l = 0%Z.
Proof.
  induction l as [|x r IH]; intros H.
  - reflexivity.
  - rewrite sum_dequeued_cons. unfold lz. rewrite (H 0 x eq_refl). rewrite IH; auto.
    intros j d Hj. apply (H (S j) d Hj).
Qed.

(* ================================================================== *)
(* 2. Prop forms of the four invariants                                *)
(* ================================================================== *)
Inductive pcls := CStart | CMid | CDec | CDone.
Definition cls (p : pc) : pcls :=
  match p with PQueued | PTop => CStart | PDec => CDec | PDone => CDone | _ => CMid end.

Lemma live_cls : forall d, live_dq d = match cls (d_pc d) with CDone => false | _ => true end.
Proof. intros d. unfold live_dq, pc_done, cls. destruct (d_pc d); reflexivity. Qed.

Lemma inloop_cls : forall d, inloop d = match cls (d_pc d) with CDone | CDec => false | _ => true end.
Proof. intros d. unfold inloop, cls. destruct (d_pc d); reflexivity. Qed.

Lemma inloop_live : forall d, inloop d = true -> live_dq d = true.
Proof. intros d. rewrite inloop_cls, live_cls. destruct (cls (d_pc d)); auto. Qed.

Lemma pc_done_live : forall d, pc_done (d_pc d) = negb (live_dq d).
Proof. intros d. unfold live_dq. rewrite negb_involutive. reflexivity. Qed.

(* start condition with the manager lookup abstracted to "its deque is non-empty" *)
Definition start_okb (ne : bool) (d : dq) : bool :=
  match cls (d_pc d) with
  | CDone => true
  | CStart => Z.leb 0 (d_dequeued d) && (negb (Z.eqb (d_dequeued d) 0) || ne)
  | _ => Z.leb 1 (d_dequeued d)
  end.

Definition mgr_ne (ms : list mgr) (g : nat) : bool :=
  match nth_error ms g with Some m => negb (is_nil (m_deq m)) | None => false end.

Definition start_ok (ms : list mgr) (d : dq) : bool := start_okb (mgr_ne ms (d_gen d)) d.

Lemma inv_start_eq : forall s, inv_start s = forallb (start_ok (s_mgrs s)) (s_dqs s).
Proof.
  intros s. unfold inv_start. induction (s_dqs s) as [|d r IH]; auto.
  simpl forallb. rewrite IH. f_equal.
  unfold start_ok, start_okb, mgr_ne, cls. destruct (d_pc d); reflexivity.
Qed.

Lemma start_ok_at : forall ms d m, nth_error ms (d_gen d) = Some m ->
  start_ok ms d = start_okb (negb (is_nil (m_deq m))) d.
Proof. intros ms d m H. unfold start_ok, mgr_ne. rewrite H. reflexivity. Qed.

Lemma start_okb_mono : forall d, start_okb false d = true -> forall b, start_okb b d = true.
Proof.
  intros d H b. unfold start_okb in *. destruct (cls (d_pc d)); auto.
  rewrite orb_false_r in H. apply andb_true_iff in H. destruct H as [H1 H2].
  rewrite H1, H2. reflexivity.
Qed.

Lemma start_okb_nostart : forall d b b', cls (d_pc d) <> CStart -> start_okb b d = start_okb b' d.
Proof. intros d b b' H. unfold start_okb. destruct (cls (d_pc d)); congruence. Qed.

Lemma start_okb_nonneg : forall b d, start_okb b d = true -> (0 <= lz d)%Z.
Proof.
  intros b d H. unfold lz. rewrite live_cls. unfold start_okb in H.
  destruct (cls (d_pc d)); try (apply andb_true_iff in H; destruct H as [H _]);
    try apply Z.leb_le in H; lia.
Qed.

Definition GenP (s : istate) : Prop :=
  (forall g, s_active s = Some g -> S g = length (s_mgrs s)) /\
  (forall j d, nth_error (s_dqs s) j = Some d -> live_dq d = true -> s_active s = Some (d_gen d)) /\
  (forall t g, s_pending s = Some (t, g) -> s_active s = Some g) /\
  (s_mgrs s = [] -> s_dqs s = []).

Definition SingleP (s : istate) : Prop :=
  count_inloop (s_dqs s) <= 1 /\
  match active_mgr s with
  | Some m => m_running m = Nat.eqb (count_inloop (s_dqs s)) 1
  | None => count_inloop (s_dqs s) = 0
  end.

Definition CountP (s : istate) : Prop :=
  match active_mgr s with
  | Some m => m_queued m = (Z.of_nat (length (m_deq m)) + (if is_some (s_pending s) then 1 else 0)
                            + sum_dequeued (s_dqs s))%Z
  | None => True
  end.

Definition StartP (s : istate) : Prop :=
  forall j d, nth_error (s_dqs s) j = Some d -> start_ok (s_mgrs s) d = true.

Lemma inv_gen_iff : forall s, inv_gen s = true <-> GenP s.
Proof.
  intros s. unfold inv_gen, cur_gen, GenP.
  destruct (s_mgrs s) as [|m0 r] eqn:Hm; simpl length.
  - rewrite !andb_true_iff. split.
    + intros [[H1 H2] H3].
      destruct (s_active s); try discriminate. destruct (s_pending s); try discriminate.
      destruct (s_dqs s); try discriminate.
      repeat split; intros; try discriminate; auto. destruct j; discriminate.
    + intros (G1 & G2 & G3 & G4).
      destruct (s_active s) as [g|]. { specialize (G1 g eq_refl). discriminate. }
      destruct (s_pending s) as [[t g]|]. { specialize (G3 t g eq_refl). discriminate. }
      rewrite (G4 eq_refl). auto.
  - rewrite !andb_true_iff, forallb_nth. split.
    + intros [[H1 H2] H3]. repeat split.
      * intros g Hg. rewrite Hg in H1. apply Nat.eqb_eq in H1. lia.
      * intros j d Hj Hl. specialize (H2 j d Hj). rewrite Hl in H2. simpl in H2.
        apply andb_true_iff in H2. destruct H2 as [Ha Hb].
        destruct (s_active s) as [g|]; try discriminate.
        apply Nat.eqb_eq in Ha, Hb. congruence.
      * intros t g Hp. rewrite Hp in H3. apply andb_true_iff in H3. destruct H3 as [Ha Hb].
        destruct (s_active s) as [g'|]; try discriminate.
        apply Nat.eqb_eq in Ha, Hb. congruence.
      * discriminate.
    + intros (G1 & G2 & G3 & G4). repeat split.
      * destruct (s_active s) as [g|]; auto. specialize (G1 g eq_refl). apply Nat.eqb_eq. lia.
      * intros j d Hj. destruct (live_dq d) eqn:Hl; simpl; auto.
        specialize (G2 j d Hj Hl). rewrite G2. specialize (G1 _ G2).
        assert (E : d_gen d = length r) by lia. rewrite E, Nat.eqb_refl. reflexivity.
      * destruct (s_pending s) as [[t g]|]; auto. specialize (G3 t g eq_refl). rewrite G3.
        specialize (G1 _ G3). assert (E : g = length r) by lia. rewrite E, Nat.eqb_refl. reflexivity.
Qed.

Lemma inv_single_iff : forall s, inv_single s = true <-> SingleP s.
Proof.
  intros s. unfold inv_single, SingleP. rewrite andb_true_iff, Nat.leb_le.
  destruct (active_mgr s) as [m|].
  - rewrite eqb_true_iff. tauto.
  - rewrite Nat.eqb_eq. tauto.
Qed.

Lemma inv_count_iff : forall s, inv_count s = true <-> CountP s.
Proof.
  intros s. unfold inv_count, CountP. destruct (active_mgr s) as [m|].
  - rewrite Z.eqb_eq. tauto.
  - tauto.
Qed.

Lemma inv_start_iff : forall s, inv_start s = true <-> StartP s.
Proof. intros s. rewrite inv_start_eq, forallb_nth. unfold StartP. tauto. Qed.

Lemma inv_struct_iff : forall s, inv_struct s = true <-> GenP s /\ SingleP s /\ CountP s /\ StartP s.
Proof.
  intros s. unfold inv_struct. rewrite !andb_true_iff, inv_gen_iff, inv_single_iff, inv_count_iff, inv_start_iff.
  tauto.
Qed.

Lemma inv_all_struct : forall s, inv_all s = true -> inv_struct s = true.
Proof.
  intros s H. unfold inv_all in H. rewrite !andb_true_iff in H. tauto.
Qed.

(* inv_struct looks at four fields only *)
Lemma inv_struct_ext : forall s1 s2,
  s_mgrs s1 = s_mgrs s2 -> s_active s1 = s_active s2 -> s_pending s1 = s_pending s2 ->
  s_dqs s1 = s_dqs s2 -> inv_struct s1 = inv_struct s2.
Proof.
  intros [i1 m1 a1 p1 d1 l1 h1] [i2 m2 a2 p2 d2 l2 h2]. simpl. intros; subst. reflexivity.
Qed.

(* ---------- first consequences ---------- *)
Lemma single_two : forall s i j di dj,
  SingleP s -> nth_error (s_dqs s) i = Some di -> nth_error (s_dqs s) j = Some dj ->
  inloop di = true -> inloop dj = true -> i = j.
Proof.
  intros s i j di dj [Hle _] Hi Hj Ii Ij.
  destruct (Nat.eq_dec i j) as [E|E]; auto.
  pose proof (count_inloop_two _ _ _ _ _ Hi Hj Ii Ij E). lia.
Qed.

(* a live job points at the active manager, which exists *)
Lemma live_active : forall s j d, GenP s -> nth_error (s_dqs s) j = Some d -> live_dq d = true ->
  s_active s = Some (d_gen d) /\ exists m, nth_error (s_mgrs s) (d_gen d) = Some m /\ active_mgr s = Some m.
Proof.
  intros s j d (G1 & G2 & G3 & G4) Hj Hl.
  pose proof (G2 j d Hj Hl) as Ha. split; auto.
  specialize (G1 _ Ha).
  destruct (nth_error (s_mgrs s) (d_gen d)) as [m|] eqn:Hm.
  - exists m. split; auto. unfold active_mgr. rewrite Ha. exact Hm.
  - apply nth_error_None in Hm. lia.
Qed.

Lemma start_ok_upd_other : forall ms g m' x, d_gen x <> g -> start_ok (upd g m' ms) x = start_ok ms x.
Proof.
  intros ms g m' x H. unfold start_ok, mgr_ne. rewrite nth_error_upd_neq; auto.
Qed.

(* ================================================================== *)
(* 3. master lemma for the steps of a dequeuer job                     *)
(* ================================================================== *)
Lemma dq_master : forall s s' j d d' m m',
  inv_struct s = true ->
  nth_error (s_dqs s) j = Some d ->
  live_dq d = true ->
  nth_error (s_mgrs s) (d_gen d) = Some m ->
  s_mgrs s' = upd (d_gen d) m' (s_mgrs s) ->
  s_active s' = s_active s -> s_pending s' = s_pending s ->
  s_dqs s' = upd j d' (s_dqs s) ->
  d_gen d' = d_gen d ->
  ((inloop d' = inloop d /\ m_running m' = m_running m) \/
   (inloop d = true /\ inloop d' = false /\ m_running m' = false)) ->
  (m_queued m' + Z.of_nat (length (m_deq m)) + d_dequeued d
   = m_queued m + Z.of_nat (length (m_deq m')) + lz d')%Z ->
  (start_okb (negb (is_nil (m_deq m))) d = true -> start_okb (negb (is_nil (m_deq m'))) d' = true) ->
  ((is_nil (m_deq m') = true -> is_nil (m_deq m) = true) \/ inloop d = true) ->
  inv_struct s' = true.
Proof.
  intros s s' j d d' m m' Hinv Hd Hl Hm Em Ea Ep Ed Eg Hsingle Hcount Hself Hoth.
  apply inv_struct_iff in Hinv. destruct Hinv as (HG & HS & HC & HT).
  destruct (live_active _ _ _ HG Hd Hl) as [Hact [m1 [Hm1 Ham]]].
  rewrite Hm in Hm1. inversion Hm1; subst m1. clear Hm1.
  assert (Hm' : nth_error (s_mgrs s') (d_gen d) = Some m')
    by (rewrite Em; eapply nth_error_upd_eq; eauto).
  assert (Ham' : active_mgr s' = Some m') by (unfold active_mgr; rewrite Ea, Hact; exact Hm').
  apply inv_struct_iff. split; [|split; [|split]].
  - (* gen *)
    destruct HG as (G1 & G2 & G3 & G4). unfold GenP. rewrite Em, Ea, Ep, Ed. repeat split.
    + intros g Hg. rewrite length_upd. auto.
    + intros k x Hk Hlx. destruct (nth_error_upd_inv _ _ _ _ _ _ Hk) as [[_ Hx]|[_ Hk']].
      * subst x. rewrite Eg. exact Hact.
      * eauto.
    + exact G3.
    + intros E. apply (f_equal (@length _)) in E. rewrite length_upd in E.
      destruct (s_mgrs s); [destruct (d_gen d); discriminate | discriminate].
  - (* single *)
    destruct HS as [Hle Hrun]. unfold SingleP. rewrite Ham', Ed. rewrite Ham in Hrun.
    pose proof (count_inloop_upd _ _ _ d' Hd) as Hc.
    destruct Hsingle as [[Hi Hr]|[Hi [Hi' Hr]]].
    + rewrite Hi in Hc.
      assert (E : count_inloop (upd j d' (s_dqs s)) = count_inloop (s_dqs s)) by lia.
      rewrite E, Hr. auto.
    + rewrite Hi, Hi' in Hc. simpl in Hc.
      assert (E : count_inloop (upd j d' (s_dqs s)) = 0) by lia.
      rewrite E, Hr. split; [lia|reflexivity].
  - (* count *)
    unfold CountP in *. rewrite Ham', Ep, Ed. rewrite Ham in HC.
    pose proof (sum_dequeued_upd _ _ _ d' Hd) as Hs.
    assert (lz d = d_dequeued d) by (unfold lz; rewrite Hl; reflexivity). lia.
  - (* start *)
    intros k x Hk. rewrite Ed in Hk.
    destruct (nth_error_upd_inv _ _ _ _ _ _ Hk) as [[_ Hx]|[Hne Hk']].
    + subst x. rewrite (start_ok_at _ _ m') by (rewrite Eg; exact Hm').
      apply Hself. rewrite <- (start_ok_at _ _ _ Hm). apply (HT j d Hd).
    + specialize (HT k x Hk'). destruct (Nat.eq_dec (d_gen x) (d_gen d)) as [E|E].
      * rewrite (start_ok_at (s_mgrs s') x m') by (rewrite E; exact Hm').
        rewrite (start_ok_at _ x m) in HT by (rewrite E; exact Hm).
        destruct Hoth as [Hmono|Hin].
        -- destruct (is_nil (m_deq m')) eqn:N'.
           ++ rewrite (Hmono eq_refl) in HT. exact HT.
           ++ simpl. destruct (is_nil (m_deq m)); simpl in HT; auto.
              apply start_okb_mono; exact HT.
        -- destruct (cls (d_pc x)) eqn:C.
           ++ exfalso. apply Hne.
              assert (Ix : inloop x = true) by (rewrite inloop_cls, C; reflexivity).
              exact (single_two s j k d x HS Hd Hk' Hin Ix).
           ++ rewrite (start_okb_nostart x _ (negb (is_nil (m_deq m)))) by congruence. exact HT.
           ++ rewrite (start_okb_nostart x _ (negb (is_nil (m_deq m)))) by congruence. exact HT.
           ++ rewrite (start_okb_nostart x _ (negb (is_nil (m_deq m)))) by congruence. exact HT.
      * rewrite Em, start_ok_upd_other; auto.
Qed.

(* the uneventful steps: the job moves inside its loop, the counters stay *)
Definition pc_trans_ok (p p' : pc) : bool :=
  match cls p, cls p' with
  | CStart, CStart | CMid, CMid | CMid, CStart => true
  | _, _ => false
  end.

Lemma dq_boring_m : forall s s' j d d' m m',
  inv_struct s = true -> nth_error (s_dqs s) j = Some d ->
  nth_error (s_mgrs s) (d_gen d) = Some m ->
  m_deq m' = m_deq m -> m_running m' = m_running m -> m_queued m' = m_queued m ->
  d_gen d' = d_gen d -> d_dequeued d' = d_dequeued d -> pc_trans_ok (d_pc d) (d_pc d') = true ->
  s_mgrs s' = upd (d_gen d) m' (s_mgrs s) -> s_active s' = s_active s ->
  s_pending s' = s_pending s -> s_dqs s' = upd j d' (s_dqs s) ->
  inv_struct s' = true.
Proof.
  intros s s' j d d' m m' Hinv Hd Hm Eq Er Eqd Eg Edq Ht Em Ea Ep Ed.
  unfold pc_trans_ok in Ht.
  apply (dq_master s s' j d d' m m'); auto.
  - rewrite live_cls. destruct (cls (d_pc d)); auto; discriminate.
  - left. split; auto. rewrite !inloop_cls.
    destruct (cls (d_pc d)), (cls (d_pc d')); auto; discriminate.
  - rewrite Eq, Eqd. unfold lz. rewrite live_cls.
    destruct (cls (d_pc d)), (cls (d_pc d')); try discriminate; lia.
  - rewrite Eq. unfold start_okb. rewrite Edq.
    destruct (cls (d_pc d)), (cls (d_pc d')); try discriminate; auto.
    intros H. apply Z.leb_le in H.
    assert (H0 : (0 <=? d_dequeued d)%Z = true) by (apply Z.leb_le; lia).
    assert (H1 : (d_dequeued d =? 0)%Z = false) by (apply Z.eqb_neq; lia).
    rewrite H0, H1. reflexivity.
  - left. rewrite Eq. auto.
Qed.

Lemma dq_boring : forall s s' j d d',
  inv_struct s = true -> nth_error (s_dqs s) j = Some d ->
  d_gen d' = d_gen d -> d_dequeued d' = d_dequeued d -> pc_trans_ok (d_pc d) (d_pc d') = true ->
  s_mgrs s' = s_mgrs s -> s_active s' = s_active s ->
  s_pending s' = s_pending s -> s_dqs s' = upd j d' (s_dqs s) ->
  inv_struct s' = true.
Proof.
  intros s s' j d d' Hinv Hd Eg Edq Ht Em Ea Ep Ed.
  assert (Hl : live_dq d = true).
  { unfold pc_trans_ok in Ht. rewrite live_cls. destruct (cls (d_pc d)); auto; discriminate. }
  pose proof (proj1 (inv_struct_iff s) Hinv) as (HG & _).
  destruct (live_active _ _ _ HG Hd Hl) as [_ [m [Hm _]]].
  apply (dq_boring_m s s' j d d' m m); auto.
  rewrite (upd_same _ _ _ _ Hm). exact Em.
Qed.

(* a step that touches only s_lis / s_hist *)
Lemma struct_same : forall s s',
  inv_struct s = true ->
  s_mgrs s' = s_mgrs s -> s_active s' = s_active s -> s_pending s' = s_pending s -> s_dqs s' = s_dqs s ->
  inv_struct s' = true.
Proof. intros s s' H E1 E2 E3 E4. rewrite (inv_struct_ext s' s); auto. Qed.

(* ================================================================== *)
(* 4. the uneventful labels                                            *)
(* ================================================================== *)
Lemma listener_put_log : forall s o k c s1,
  listener_put s o k c = Some s1 -> exists es, s1 = log s es.
Proof.
  intros s o k c s1. unfold listener_put.
  destruct (live c) as [rid|]; [|discriminate].
  destruct (notif_line (s_item s) rid k) as [line|e]; [|discriminate].
  intros H. injection H as <-. eexists; reflexivity.
Qed.

Ltac dq_inv H :=
  match type of H with
  | context [nth_error (s_dqs ?s) ?j] =>
      let d := fresh "d" in
      destruct (nth_error (s_dqs s) j) as [d|] eqn:Hd; [|discriminate];
      destruct (d_pc d) eqn:Hpc; try discriminate
  end.

Ltac boring Hinv Hd Hpc :=
  repeat match goal with |- context [if ?b then _ else _] => destruct b end;
  match goal with
  | |- context [set_dq _ ?j ?D] =>
      apply (dq_boring _ _ j _ D Hinv Hd);
      [reflexivity | reflexivity | rewrite Hpc; reflexivity | reflexivity ..]
  end.

Lemma struct_JobStart : forall s j s',
  inv_struct s = true -> step_JobStart s j = Some s' -> inv_struct s' = true.
Proof.
  intros s j s' Hinv H. unfold step_JobStart in H. dq_inv H.
  injection H as <-. boring Hinv Hd Hpc.
Qed.

Lemma struct_Put : forall s j s',
  inv_struct s = true -> step_Put s j = Some s' -> inv_struct s' = true.
Proof.
  intros s j s' Hinv H. unfold step_Put in H. dq_inv H.
  - destruct (reply_line _ _) as [line|]; [|discriminate]. injection H as <-. boring Hinv Hd Hpc.
  - destruct (listener_put _ _ _ _) as [s1|] eqn:Hlp; [|discriminate].
    apply listener_put_log in Hlp. destruct Hlp as [es ->]. injection H as <-. boring Hinv Hd Hpc.
  - destruct (listener_put _ _ _ _) as [s1|] eqn:Hlp; [|discriminate].
    apply listener_put_log in Hlp. destruct Hlp as [es ->]. injection H as <-. boring Hinv Hd Hpc.
  - destruct (reply_line _ _) as [line|]; [|discriminate]. injection H as <-. boring Hinv Hd Hpc.
  - destruct (reply_line _ _) as [line|]; [|discriminate]. injection H as <-. boring Hinv Hd Hpc.
Qed.

Lemma struct_CallB : forall s j s',
  inv_struct s = true -> step_CallB s j = Some s' -> inv_struct s' = true.
Proof.
  intros s j s' Hinv H. unfold step_CallB in H. dq_inv H; injection H as <-; boring Hinv Hd Hpc.
Qed.

Lemma struct_CallE : forall s j o s',
  inv_struct s = true -> step_CallE s j o = Some s' -> inv_struct s' = true.
Proof.
  intros s j o s' Hinv H. unfold step_CallE in H. dq_inv H; injection H as <-.
  - destruct o as [[|]|e]; boring Hinv Hd Hpc.
  - destruct o as [b|e]; boring Hinv Hd Hpc.
  - boring Hinv Hd Hpc.
Qed.

Lemma struct_Nest : forall s j k s',
  inv_struct s = true -> step_Nest s j k = Some s' -> inv_struct s' = true.
Proof.
  intros s j k s' Hinv H. unfold step_Nest in H. dq_inv H; injection H as <-; boring Hinv Hd Hpc.
Qed.

Ltac same Hinv := apply (struct_same _ _ Hinv); reflexivity.

Lemma struct_FreeBegin : forall s l k s',
  inv_struct s = true -> step_FreeBegin s l k = Some s' -> inv_struct s' = true.
Proof.
  intros s l k s' Hinv H. unfold step_FreeBegin in H.
  destruct (nth_error (s_lis s) l) as [[| |]|].
  - injection H as <-. same Hinv.
  - discriminate.
  - discriminate.
  - destruct (Nat.eqb l (length (s_lis s))); [|discriminate]. injection H as <-. same Hinv.
Qed.

Lemma struct_FreeLockM : forall s l s',
  inv_struct s = true -> step_FreeLockM s l = Some s' -> inv_struct s' = true.
Proof.
  intros s l s' Hinv H. unfold step_FreeLockM in H.
  destruct (nth_error (s_lis s) l) as [[| k |]|]; try discriminate.
  destruct (live (active_code s)); injection H as <-; same Hinv.
Qed.

Lemma struct_FreePut : forall s l s',
  inv_struct s = true -> step_FreePut s l = Some s' -> inv_struct s' = true.
Proof.
  intros s l s' Hinv H. unfold step_FreePut in H.
  destruct (nth_error (s_lis s) l) as [[| | k c]|]; try discriminate.
  destruct (listener_put _ _ _ _) as [s1|] eqn:Hlp; [|discriminate].
  apply listener_put_log in Hlp. destruct Hlp as [es ->]. injection H as <-. same Hinv.
Qed.

(* ================================================================== *)
(* 5. the eventful labels                                              *)
(* ================================================================== *)
Ltac case_ifs :=
  repeat match goal with
         | |- context [if ?b then _ else _] =>
             lazymatch b with
             | context [if _ then _ else _] => fail
             | _ => destruct b
             end
         end.

Ltac master Hinv Hd Hm :=
  match goal with
  | |- context [set_dq (set_mgr _ _ ?M) ?j ?D] =>
      match type of Hm with _ = Some ?m0 => apply (dq_master _ _ j _ D m0 M Hinv Hd) end; [ | exact Hm | reflexivity | reflexivity | reflexivity
                                                | reflexivity | reflexivity | | | | ]
  end.

Lemma inv_struct_if_log : forall (b : bool) s es, inv_struct (if b then log s es else s) = inv_struct s.
Proof. intros b s es. destruct b; [apply inv_struct_ext|]; reflexivity. Qed.

Lemma struct_LockI : forall s j s',
  inv_struct s = true -> step_LockI s j = Some s' -> inv_struct s' = true.
Proof.
  intros s j s' Hinv H. unfold step_LockI in H.
  destruct (nth_error (s_dqs s) j) as [d|] eqn:Hd; [|discriminate].
  destruct (d_pc d) eqn:Hpc; try discriminate.
  destruct (nth_error (s_mgrs s) (d_gen d)) as [m|] eqn:Hm; [|discriminate].
  cbv zeta in H.
  destruct (m_deq m) as [|t rest] eqn:Hq; injection H as <-.
  - master Hinv Hd Hm.
    + rewrite live_cls, Hpc. reflexivity.
    + right. rewrite inloop_cls, Hpc. auto.
    + unfold lz, live_dq. cbn [d_pc d_dequeued m_queued m_deq pc_done negb]. rewrite Hq. lia.
    + rewrite Hq. unfold start_okb. rewrite Hpc. cbn [d_pc d_dequeued cls is_nil negb orb].
      rewrite orb_false_r. intros H. apply andb_true_iff in H. destruct H as [H0 H1].
      apply Z.leb_le in H0. apply negb_true_iff in H1. apply Z.eqb_neq in H1. apply Z.leb_le. lia.
    + left. rewrite Hq. reflexivity.
  - rewrite inv_struct_if_log. master Hinv Hd Hm.
    + rewrite live_cls, Hpc. reflexivity.
    + left. split; [|reflexivity]. rewrite !inloop_cls, Hpc. cbn [d_pc]. case_ifs; reflexivity.
    + unfold lz, live_dq. cbn [d_pc d_dequeued m_queued m_deq]. rewrite Hq.
      destruct (t_sub t); destruct (is_nil rest);
        destruct (if (d_dequeued d =? 0)%Z then m_last_ok m else d_lso d);
        cbn [pc_done negb length andb]; lia.
    + unfold start_okb. rewrite Hpc. cbn [d_pc d_dequeued cls].
      intros H. apply andb_true_iff in H. destruct H as [H0 _]. apply Z.leb_le in H0.
      case_ifs; cbn [cls]; apply Z.leb_le; lia.
    + right. rewrite inloop_cls, Hpc. reflexivity.
Qed.

(* a manager whose counter is zero has nothing left: used for the deletion in _dec_queued *)
Lemma zero_clean : forall s m,
  inv_struct s = true -> active_mgr s = Some m -> m_queued m = 0%Z ->
  s_pending s = None /\ m_deq m = [] /\
  (forall j d, nth_error (s_dqs s) j = Some d -> live_dq d = false).
Proof.
  intros s m Hinv Ham Hq0.
  apply inv_struct_iff in Hinv. destruct Hinv as (HG & HS & HC & HT).
  unfold CountP in HC. rewrite Ham, Hq0 in HC.
  assert (Hnn : forall j d, nth_error (s_dqs s) j = Some d -> (0 <= lz d)%Z).
  { intros j d Hj. eapply start_okb_nonneg. apply (HT j d Hj). }
  pose proof (sum_dequeued_nonneg _ Hnn) as Hs0.
  assert (Hp : s_pending s = None).
  { destruct (s_pending s); auto. simpl in HC. lia. }
  rewrite Hp in HC. simpl in HC.
  assert (Hdq : m_deq m = []).
  { destruct (m_deq m); auto. simpl length in HC. lia. }
  rewrite Hdq in HC. simpl in HC.
  assert (Hz : forall j d, nth_error (s_dqs s) j = Some d -> lz d = 0%Z).
  { apply sum_dequeued_zero_each; auto. lia. }
  repeat split; auto.
  intros j d Hj. destruct (live_dq d) eqn:Hl; auto. exfalso.
  destruct (live_active _ _ _ HG Hj Hl) as [_ [m1 [Hm1 Ham1]]].
  rewrite Ham in Ham1. inversion Ham1; subst m1.
  pose proof (HT j d Hj) as Hst. rewrite (start_ok_at _ _ _ Hm1), Hdq in Hst.
  pose proof (Hz j d Hj) as Hz0. unfold lz in Hz0. rewrite Hl in Hz0.
  unfold start_okb in Hst. rewrite Hz0 in Hst. rewrite live_cls in Hl.
  destruct (cls (d_pc d)); simpl in Hst; discriminate.
Qed.

Lemma struct_delete : forall s1 s' m,
  inv_struct s1 = true -> active_mgr s1 = Some m -> m_queued m = 0%Z ->
  s_mgrs s' = s_mgrs s1 -> s_active s' = None -> s_pending s' = s_pending s1 -> s_dqs s' = s_dqs s1 ->
  inv_struct s' = true.
Proof.
  intros s1 s' m Hinv Ham Hq0 Em Ea Ep Ed.
  destruct (zero_clean _ _ Hinv Ham Hq0) as (Hp & Hdq & Hdead).
  apply inv_struct_iff in Hinv. destruct Hinv as (HG & HS & HC & HT).
  apply inv_struct_iff. split; [|split; [|split]].
  - destruct HG as (G1 & G2 & G3 & G4). unfold GenP. rewrite Em, Ea, Ep, Ed. repeat split.
    + discriminate.
    + intros j d Hj Hl. rewrite (Hdead j d Hj) in Hl. discriminate.
    + intros t g H. rewrite Hp in H. discriminate.
    + exact G4.
  - unfold SingleP, active_mgr. rewrite Ea, Ed.
    assert (E : count_inloop (s_dqs s1) = 0).
    { apply count_inloop_zero. intros j d Hj. destruct (inloop d) eqn:Hi; auto.
      apply inloop_live in Hi. rewrite (Hdead j d Hj) in Hi. discriminate. }
    rewrite E. split; [lia|reflexivity].
  - unfold CountP, active_mgr. rewrite Ea. exact I.
  - intros j d Hj. rewrite Ed in Hj. pose proof (Hdead j d Hj) as Hl.
    unfold start_ok, start_okb. rewrite live_cls in Hl. destruct (cls (d_pc d)); try discriminate. reflexivity.
Qed.

Lemma struct_LockM : forall s j s',
  inv_struct s = true -> step_LockM s j = Some s' -> inv_struct s' = true.
Proof.
  intros s j s' Hinv H. unfold step_LockM in H.
  destruct (nth_error (s_dqs s) j) as [d|] eqn:Hd; [|discriminate].
  destruct (nth_error (s_mgrs s) (d_gen d)) as [m|] eqn:Hm;
    destruct (d_pc d) eqn:Hpc; try discriminate.
  - (* PSetCode *)
    injection H as <-.
    match goal with
    | |- context [set_dq (set_mgr _ _ ?M) ?j ?D] =>
        apply (dq_boring_m s _ j d D m M Hinv Hd Hm); try reflexivity
    end.
    rewrite Hpc. reflexivity.
  - (* PEosRead *)
    destruct (live (active_code s)); injection H as <-; boring Hinv Hd Hpc.
  - (* PNestRead *)
    destruct (live (active_code s)); injection H as <-; boring Hinv Hd Hpc.
  - (* PClear *)
    injection H as <-.
    match goal with
    | |- context [set_dq (set_mgr _ _ ?M) ?j ?D] =>
        apply (dq_boring_m s _ j d D m M Hinv Hd Hm); try reflexivity
    end.
    rewrite Hpc. reflexivity.
  - (* PDec *)
    cbv zeta in H.
    assert (Hl : live_dq d = true) by (rewrite live_cls, Hpc; reflexivity).
    match type of H with context [set_dq (set_mgr s ?g ?M) j ?D] =>
      assert (H1 : inv_struct (set_dq (set_mgr s g M) j D) = true)
    end.
    { master Hinv Hd Hm.
      - exact Hl.
      - left. split; [|reflexivity]. rewrite !inloop_cls, Hpc. reflexivity.
      - unfold lz, live_dq. cbn [with_pc d_pc d_dequeued m_queued m_deq pc_done negb]. lia.
      - intros _. reflexivity.
      - left. auto. }
    match type of H with (if ?c then _ else _) = _ => destruct c eqn:Hdel end; injection H as <-.
    + apply andb_true_iff in Hdel. destruct Hdel as [Hdel _].
      apply andb_true_iff in Hdel. destruct Hdel as [_ Hq0]. apply Z.eqb_eq in Hq0.
      pose proof (proj1 (inv_struct_iff s) Hinv) as (HG & _).
      destruct (live_active _ _ _ HG Hd Hl) as [Hact _].
      match type of H1 with inv_struct (set_dq (set_mgr _ _ ?M) _ _) = true =>
        apply (struct_delete _ _ M H1); [ | exact Hq0 | reflexivity ..]
      end.
      unfold active_mgr. cbn [s_active set_dq set_mgr s_mgrs]. rewrite Hact.
      eapply nth_error_upd_eq; eauto.
    + exact H1.
Qed.

(* ---------- the reader ---------- *)
Lemma start_ok_upd_mono : forall ms g m m' x,
  nth_error ms g = Some m -> (is_nil (m_deq m') = true -> is_nil (m_deq m) = true) ->
  start_ok ms x = true -> start_ok (upd g m' ms) x = true.
Proof.
  intros ms g m m' x Hm Hmono H.
  destruct (Nat.eq_dec (d_gen x) g) as [E|E].
  - subst g. rewrite (start_ok_at _ _ m') by (eapply nth_error_upd_eq; eauto).
    rewrite (start_ok_at _ _ _ Hm) in H.
    destruct (is_nil (m_deq m')) eqn:N'.
    + rewrite (Hmono eq_refl) in H. exact H.
    + simpl. destruct (is_nil (m_deq m)); simpl in H; auto. apply start_okb_mono; exact H.
  - rewrite start_ok_upd_other; auto.
Qed.

Lemma upd_nonnil : forall A g (x y : A) l, nth_error l g = Some y -> upd g x l <> [].
Proof.
  intros A g x y l H E. apply (f_equal (@length _)) in E. rewrite length_upd in E.
  destruct l; [destruct g; discriminate | discriminate].
Qed.

Lemma dead_start_ok : forall ms d, live_dq d = false -> start_ok ms d = true.
Proof.
  intros ms d Hl. unfold start_ok, start_okb. rewrite live_cls in Hl.
  destruct (cls (d_pc d)); try discriminate. reflexivity.
Qed.

Lemma struct_R1 : forall s t s',
  inv_struct s = true -> step_R1 s t = Some s' -> inv_struct s' = true.
Proof.
  intros s t s' Hinv H. unfold step_R1 in H.
  destruct (s_pending s) as [p|] eqn:Hp; [discriminate|].
  pose proof (proj1 (inv_struct_iff s) Hinv) as (HG & HS & HC & HT).
  destruct HG as (G1 & G2 & G3 & G4).
  destruct (s_active s) as [g|] eqn:Ha.
  - destruct (nth_error (s_mgrs s) g) as [m|] eqn:Hm; [|discriminate].
    cbv zeta in H. injection H as <-.
    assert (Ham : active_mgr s = Some m) by (unfold active_mgr; rewrite Ha; exact Hm).
    apply inv_struct_iff. unfold GenP, SingleP, CountP, StartP, active_mgr.
    cbn [log set_mgr s_mgrs s_active s_pending s_dqs]. rewrite Ha.
    rewrite (nth_error_upd_eq _ _ _ _ _ Hm). cbn [m_running m_queued m_deq is_some].
    split; [|split; [|split]].
    + repeat split.
      * intros g0 E. inversion E; subst g0. rewrite length_upd. apply G1. reflexivity.
      * intros j d Hj Hl. exact (G2 j d Hj Hl).
      * intros t0 g0 E. inversion E. reflexivity.
      * intros E. exfalso. exact (upd_nonnil _ _ _ _ _ Hm E).
    + unfold SingleP in HS. rewrite Ham in HS. exact HS.
    + unfold CountP in HC. rewrite Ham, Hp in HC. cbn [is_some] in HC. lia.
    + intros j d Hj. apply (start_ok_upd_mono _ _ m); [exact Hm | cbn [m_deq]; auto | exact (HT j d Hj)].
  - assert (Hdead : forall j d, nth_error (s_dqs s) j = Some d -> live_dq d = false).
    { intros j d Hj. destruct (live_dq d) eqn:Hl; auto. specialize (G2 j d Hj Hl). discriminate. }
    assert (Hamn : active_mgr s = None) by (unfold active_mgr; rewrite Ha; reflexivity).
    destruct (t_sub t); injection H as <-.
    + apply inv_struct_iff. unfold GenP, SingleP, CountP, StartP, active_mgr.
      cbn [log s_mgrs s_active s_pending s_dqs].
      rewrite nth_error_snoc_last. cbn [m_running m_queued m_deq is_some length].
      unfold SingleP in HS. rewrite Hamn in HS. destruct HS as [_ Hc0].
      split; [|split; [|split]].
      * repeat split.
        -- intros g0 E. inversion E; subst g0. rewrite app_length. simpl. lia.
        -- intros j d Hj Hl. rewrite (Hdead j d Hj) in Hl. discriminate.
        -- intros t0 g0 E. inversion E. reflexivity.
        -- intros E. destruct (s_mgrs s); discriminate.
      * rewrite Hc0. split; [lia|reflexivity].
      * rewrite (sum_dequeued_dead _ Hdead). reflexivity.
      * intros j d Hj. apply dead_start_ok. eauto.
    + apply (struct_same _ _ Hinv); reflexivity.
Qed.

Lemma struct_R2 : forall s s',
  inv_struct s = true -> step_R2 s = Some s' -> inv_struct s' = true.
Proof.
  intros s s' Hinv H. unfold step_R2 in H.
  destruct (s_pending s) as [[t g]|] eqn:Hp; [|discriminate].
  destruct (nth_error (s_mgrs s) g) as [m|] eqn:Hm; [|discriminate].
  cbv zeta in H. injection H as <-.
  pose proof (proj1 (inv_struct_iff s) Hinv) as (HG & HS & HC & HT).
  destruct HG as (G1 & G2 & G3 & G4).
  pose proof (G3 t g Hp) as Ha.
  assert (Ham : active_mgr s = Some m) by (unfold active_mgr; rewrite Ha; exact Hm).
  unfold SingleP in HS. rewrite Ham in HS. destruct HS as [Hle Hrun].
  unfold CountP in HC. rewrite Ham, Hp in HC. cbn [is_some] in HC.
  assert (Hne : is_nil (m_deq m ++ [t]) = false) by (destruct (m_deq m); reflexivity).
  apply inv_struct_iff. unfold GenP, SingleP, CountP, StartP, active_mgr.
  cbn [set_mgr s_mgrs s_active s_pending s_dqs]. rewrite Ha.
  rewrite (nth_error_upd_eq _ _ _ _ _ Hm). cbn [m_running m_queued m_deq is_some].
  rewrite app_length. simpl length.
  destruct (m_running m) eqn:Hr.
  - symmetry in Hrun. split; [|split; [|split]].
    + repeat split.
      * intros g0 E. inversion E; subst g0. rewrite length_upd. apply G1. exact Ha.
      * intros j d Hj Hl. rewrite <- Ha. exact (G2 j d Hj Hl).
      * discriminate.
      * intros E. exfalso. exact (upd_nonnil _ _ _ _ _ Hm E).
    + rewrite Hrun. auto.
    + lia.
    + intros j d Hj. apply (start_ok_upd_mono _ _ m); [exact Hm | | exact (HT j d Hj)].
      cbn [m_deq]. rewrite Hne. discriminate.
  - symmetry in Hrun. apply Nat.eqb_neq in Hrun.
    assert (Hc0 : count_inloop (s_dqs s) = 0) by lia.
    split; [|split; [|split]].
    + repeat split.
      * intros g0 E. inversion E; subst g0. rewrite length_upd. apply G1. exact Ha.
      * intros j d Hj Hl. destruct (nth_error_snoc_inv _ _ _ _ _ Hj) as [Hj'|[_ Hx]].
        -- rewrite <- Ha. exact (G2 j d Hj' Hl).
        -- subst d. reflexivity.
      * discriminate.
      * intros E. exfalso. exact (upd_nonnil _ _ _ _ _ Hm E).
    + rewrite count_inloop_snoc, Hc0. simpl. split; [lia|reflexivity].
    + rewrite sum_dequeued_snoc. unfold lz. simpl. lia.
    + intros j d Hj. destruct (nth_error_snoc_inv _ _ _ _ _ Hj) as [Hj'|[_ Hx]].
      * apply (start_ok_upd_mono _ _ m); [exact Hm | | exact (HT j d Hj')]. cbn [m_deq]. rewrite Hne. discriminate.
      * subst d. unfold start_ok, mgr_ne. cbn [d_gen]. rewrite (nth_error_upd_eq _ _ _ _ _ Hm).
        cbn [m_deq]. rewrite Hne. reflexivity.
Qed.

(* ================================================================== *)
(* 6. the target lemmas                                                *)
(* ================================================================== *)
Lemma inv_struct_step_core : forall s lb s',
  inv_struct s = true -> step s lb = Some s' -> inv_struct s' = true.
Proof.
  intros s lb s' Hinv H. destruct lb; simpl in H.
  - eapply struct_R1; eauto.
  - eapply struct_R2; eauto.
  - eapply struct_JobStart; eauto.
  - eapply struct_LockI; eauto.
  - eapply struct_LockM; eauto.
  - eapply struct_Put; eauto.
  - eapply struct_CallB; eauto.
  - eapply struct_CallE; eauto.
  - eapply struct_Nest; eauto.
  - eapply struct_FreeBegin; eauto.
  - eapply struct_FreeLockM; eauto.
  - eapply struct_FreePut; eauto.
Qed.

Lemma inv_struct_step : forall s lb s',
  inv_all s = true -> env_ok s lb = true -> step s lb = Some s' -> inv_struct s' = true.
Proof.
  intros s lb s' Hall _ H. eapply inv_struct_step_core; eauto. apply inv_all_struct; exact Hall.
Qed.

Lemma inv_struct_init : forall item, inv_struct (init_state item) = true.
Proof. intros item. reflexivity. Qed.

Lemma single_inloop : forall s i j di dj,
  inv_struct s = true ->
  nth_error (s_dqs s) i = Some di -> nth_error (s_dqs s) j = Some dj ->
  inloop di = true -> inloop dj = true -> i = j.
Proof.
  intros s i j di dj Hinv. apply inv_struct_iff in Hinv. destruct Hinv as (_ & HS & _).
  apply single_two; exact HS.
Qed.

Lemma deleted_clean : forall s,
  inv_struct s = true -> s_active s = None ->
  s_pending s = None /\ forallb (fun d => pc_done (d_pc d)) (s_dqs s) = true.
Proof.
  intros s Hinv Ha. apply inv_struct_iff in Hinv. destruct Hinv as ((G1 & G2 & G3 & G4) & _).
  split.
  - destruct (s_pending s) as [[t g]|] eqn:Hp; auto. rewrite (G3 t g eq_refl) in Ha. discriminate.
  - apply forallb_nth. intros j d Hj. rewrite pc_done_live.
    destruct (live_dq d) eqn:Hl; auto. rewrite (G2 j d Hj Hl) in Ha. discriminate.
Qed.

(* what inv_struct alone gives for a quiescent state (the deque need not be empty, see inv_run below) *)
Lemma quiescent_counts_partial : forall s m,
  inv_struct s = true -> quiescent s = true -> active_mgr s = Some m ->
  m_queued m = Z.of_nat (length (m_deq m)) /\ m_running m = false.
Proof.
  intros s m Hinv Hq Ham. apply inv_struct_iff in Hinv. destruct Hinv as (HG & HS & HC & HT).
  unfold quiescent in Hq. apply andb_true_iff in Hq. destruct Hq as [Hp Hdone].
  rewrite forallb_nth in Hdone.
  assert (Hdead : forall j d, nth_error (s_dqs s) j = Some d -> live_dq d = false).
  { intros j d Hj. specialize (Hdone j d Hj). rewrite pc_done_live in Hdone.
    destruct (live_dq d); auto; discriminate. }
  unfold CountP in HC. rewrite Ham in HC. rewrite (sum_dequeued_dead _ Hdead) in HC.
  destruct (is_some (s_pending s)); [discriminate|].
  unfold SingleP in HS. rewrite Ham in HS. destruct HS as [_ Hr].
  assert (E : count_inloop (s_dqs s) = 0).
  { apply count_inloop_zero. intros j d Hj. destruct (inloop d) eqn:Hi; auto.
    apply inloop_live in Hi. rewrite (Hdead j d Hj) in Hi. discriminate. }
  rewrite E in Hr. split; [lia|exact Hr].
Qed.

(* ================================================================== *)
(* 7. the missing conjunct: a non-empty deque has a dequeuer running   *)
(* ================================================================== *)
(* inv_all does not imply that a quiescent manager has an empty deque: the state
   s_mgrs = [{deq=[t]; running=false; queued=1}], s_active = Some 0, nothing else,
   s_hist = [EArr t] satisfies inv_all and quiescent.  The extra invariant below is
   inductive on its own and excludes it. *)
Definition inv_run (s : istate) : bool :=
  match active_mgr s with
  | Some m => is_nil (m_deq m) || m_running m
  | None => true
  end.

Lemma inv_run_set_mgr : forall s s' g m m',
  inv_run s = true -> nth_error (s_mgrs s) g = Some m ->
  s_mgrs s' = upd g m' (s_mgrs s) -> s_active s' = s_active s ->
  (is_nil (m_deq m) || m_running m = true -> is_nil (m_deq m') || m_running m' = true) ->
  inv_run s' = true.
Proof.
  intros s s' g m m' Hrun Hm Em Ea Hc. unfold inv_run, active_mgr in *. rewrite Em, Ea.
  destruct (s_active s) as [a|]; auto.
  destruct (Nat.eq_dec g a) as [E|E].
  - subst a. rewrite (nth_error_upd_eq _ _ _ _ _ Hm). rewrite Hm in Hrun. auto.
  - rewrite nth_error_upd_neq; auto.
Qed.

Ltac break H :=
  repeat match type of H with
         | context [match ?x with _ => _ end] =>
             lazymatch x with
             | context [match _ with _ => _ end] => fail
             | _ => destruct x eqn:?; try discriminate
             end
         end.

Ltac run_cond :=
  cbn [m_deq m_running];
  let Hx := fresh "Hx" in
  intros Hx;
  first [ exact Hx
        | apply orb_true_r
        | reflexivity
        | match goal with
          | E : m_deq _ = _ :: _ |- _ =>
              rewrite E in Hx; cbn [is_nil orb] in Hx; rewrite Hx; apply orb_true_r
          end ].

Ltac run_fin Hrun :=
  first [ exact Hrun
        | reflexivity
        | (unfold inv_run, active_mgr; cbn [log s_active s_mgrs];
           rewrite nth_error_snoc_last; reflexivity)
        | (eapply inv_run_set_mgr; [exact Hrun | eassumption | reflexivity | reflexivity | run_cond]) ].

Ltac run_case Hrun H :=
  cbv zeta in H; break H;
  repeat match goal with
         | E : listener_put _ _ _ _ = Some _ |- _ =>
             apply listener_put_log in E; destruct E as [? ->]
         end;
  injection H as <-; run_fin Hrun.

Lemma inv_run_step_core : forall s lb s',
  inv_run s = true -> step s lb = Some s' -> inv_run s' = true.
Proof.
  intros s lb s' Hrun H. destruct lb; simpl in H.
  - unfold step_R1 in H. run_case Hrun H.
  - unfold step_R2 in H. run_case Hrun H.
  - unfold step_JobStart in H. run_case Hrun H.
  - unfold step_LockI in H. run_case Hrun H.
  - unfold step_LockM in H. run_case Hrun H.
  - unfold step_Put in H. run_case Hrun H.
  - unfold step_CallB in H. run_case Hrun H.
  - unfold step_CallE in H. run_case Hrun H.
  - unfold step_Nest in H. run_case Hrun H.
  - unfold step_FreeBegin in H. run_case Hrun H.
  - unfold step_FreeLockM in H. run_case Hrun H.
  - unfold step_FreePut in H. run_case Hrun H.
Qed.

Lemma inv_run_step : forall s lb s',
  inv_all s = true -> inv_run s = true -> env_ok s lb = true -> step s lb = Some s' ->
  inv_run s' = true.
Proof. intros s lb s' _ Hrun _ H. eapply inv_run_step_core; eauto. Qed.

Lemma inv_run_init : forall item, inv_run (init_state item) = true.
Proof. intros item. reflexivity. Qed.

(* a quiescent state with an entry: the counter is zero and the queue is empty.
   NOTE: the statement of the task (without the hypothesis inv_run s = true) is false, see above;
   quiescent_counts_partial is what holds without it. *)
Lemma quiescent_counts : forall s m,
  inv_struct s = true -> inv_run s = true -> quiescent s = true -> active_mgr s = Some m ->
  m_queued m = 0%Z /\ m_deq m = [] /\ m_running m = false.
Proof.
  intros s m Hinv Hrun Hq Ham.
  destruct (quiescent_counts_partial s m Hinv Hq Ham) as [Hc Hr].
  unfold inv_run in Hrun. rewrite Ham, Hr, orb_false_r in Hrun.
  destruct (m_deq m) as [|t r]; [|discriminate].
  simpl in Hc. auto.
Qed.

Print Assumptions inv_struct_step.
Print Assumptions inv_struct_init.
Print Assumptions single_inloop.
Print Assumptions deleted_clean.
Print Assumptions quiescent_counts_partial.
Print Assumptions quiescent_counts.
Print Assumptions inv_run_step.
Print Assumptions inv_run_init.
