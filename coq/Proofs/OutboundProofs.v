(* Proofs/OutboundProofs.v — property C16 "atomic lines in per-thread order" of
   the outbound path (Model/Outbound.v): nothing lost or duplicated, per-producer
   order preserved, the wire is the concatenation of complete CRLF-terminated
   lines, which can be split back exactly. *)
From Coq Require Import String List Ascii NArith ZArith Bool Lia.
From LS Require Import Model.Bytes Model.Tags Gen.Consts Model.Outbound.
Import ListNotations.

Definition hand_list (s : ost) : list (nat * bytes) := match o_hand s with Some x => [x] | None => [] end.
(* NOTE: the task names this function `by`, which is a reserved keyword of Coq 8.16 (`assert ... by tac`);
   it is called `by_thread` here, with the prescribed body. *)
Definition by_thread (p : nat) (l : list (nat * bytes)) : list bytes := map snd (filter (fun x => Nat.eqb (fst x) p) l).
Fixpoint is_prefix {A} (eqb : A -> A -> bool) (a b : list A) : bool :=
  match a, b with [] , _ => true | x :: a', y :: b' => eqb x y && is_prefix eqb a' b' | _ :: _, [] => false end.
Definition timeouts (ls : list olabel) : nat := length (filter (fun l => match l with OGetTimeout => true | _ => false end) ls).

(* ------------------------------------------------------------------ *)
(* helpers: a selection-parametric conservation invariant              *)
(* ------------------------------------------------------------------ *)

(* keep the entries whose submitter is selected *)
Definition F (sel : nat -> bool) (l : list (nat * bytes)) : list (nat * bytes) :=
  filter (fun x => sel (fst x)) l.

Lemma F_app : forall sel a b, F sel (a ++ b) = F sel a ++ F sel b.
Proof. intros sel a b. unfold F. apply filter_app. Qed.

Lemma F_all : forall l, F (fun _ => true) l = l.
Proof.
  induction l as [|x l IH]; [reflexivity|].
  unfold F in *. cbn [filter]. rewrite IH. reflexivity.
Qed.

Lemma rendered_app : forall a b, rendered (a ++ b) = rendered a ++ rendered b.
Proof. intros a b. unfold rendered. apply flat_map_app. Qed.

Definition render1 (pm : nat * bytes) : list (nat * bytes) :=
  match to_send (snd pm) with
  | Some line => if bytes_eqb (snd pm) keepalive_pill then [] else [(fst pm, line)]
  | None => []
  end.

Lemma rendered_cons : forall x l, rendered (x :: l) = render1 x ++ rendered l.
Proof. intros x l. reflexivity. Qed.

Lemma rendered_one : forall x, rendered [x] = render1 x.
Proof. intros x. rewrite rendered_cons. cbn [rendered flat_map]. apply app_nil_r. Qed.

(* an item by a selected producer is not a keepalive pill *)
Definition item_ok (sel : nat -> bool) (x : nat * bytes) : Prop :=
  sel (fst x) = true -> bytes_eqb (snd x) keepalive_pill = false.

(* a label is admissible for the selection: selected producers put no keepalive
   pills, and the line injected by a timeout (submitter 0) is not selected *)
Definition lok (sel : nat -> bool) (l : olabel) : Prop :=
  match l with
  | OPut q m => item_ok sel (q, m)
  | OGetTimeout => sel 0%nat = false
  | _ => True
  end.

Definition CInv (sel : nat -> bool) (s : ost) : Prop :=
  Forall (item_ok sel) (o_queue s) /\
  if o_alive s
  then F sel (o_written s) ++ F sel (hand_list s) ++ F sel (rendered (o_queue s)) = F sel (rendered (o_puts s))
  else exists rest, F sel (rendered (o_puts s)) = F sel (o_written s) ++ rest.

Lemma F_one : forall sel q line, F sel [(q, line)] = if sel q then [(q, line)] else [].
Proof. intros sel q line. unfold F. cbn [filter fst]. reflexivity. Qed.

Lemma CInv_step : forall sel s l s', lok sel l -> CInv sel s -> ostep s l = Some s' -> CInv sel s'.
Proof.
  intros sel s l s' Hl [HQ HI] H.
  destruct l as [q m| | |ok]; cbn [ostep] in H.
  - (* OPut *)
    inversion H; subst s'; clear H. unfold CInv.
    cbn [o_queue o_alive o_written o_puts]. split.
    + apply Forall_app. split; [assumption|]. constructor; [exact Hl|constructor].
    + destruct (o_alive s).
      * unfold hand_list in *. cbn [o_hand].
        rewrite !rendered_app, !F_app. rewrite <- HI. rewrite <- !app_assoc. reflexivity.
      * destruct HI as [rest HI]. exists (rest ++ F sel (rendered [(q, m)])).
        rewrite rendered_app, F_app, HI. rewrite <- app_assoc. reflexivity.
  - (* OGet *)
    destruct (o_alive s) eqn:Halive; [|discriminate].
    destruct (o_hand s) as [h|] eqn:Hh; [discriminate|].
    destruct (o_queue s) as [|[q m] rest] eqn:Hq; [discriminate|].
    unfold hand_list in HI. rewrite Hh in HI. cbn [app] in HI.
    unfold F at 2 in HI. cbn [filter app] in HI.
    inversion HQ as [|x xs Hx Hxs]; subst x xs.
    destruct (to_send m) as [line|] eqn:Hts.
    + inversion H; subst s'; clear H. unfold CInv.
      cbn [o_queue o_alive o_written o_puts]. split; [assumption|].
      unfold hand_list. cbn [o_hand]. rewrite <- HI.
      f_equal. rewrite rendered_cons, F_app. f_equal.
      unfold render1. cbn [fst snd]. rewrite Hts. rewrite F_one.
      unfold item_ok in Hx. cbn [fst snd] in Hx.
      destruct (sel q) eqn:Hs.
      * rewrite (Hx eq_refl). rewrite F_one, Hs. reflexivity.
      * destruct (bytes_eqb m keepalive_pill); [reflexivity|]. rewrite F_one, Hs. reflexivity.
    + inversion H; subst s'; clear H. unfold CInv.
      cbn [o_queue o_alive o_written o_puts]. split; [assumption|].
      eexists. symmetry. exact HI.
  - (* OGetTimeout *)
    destruct (o_alive s) eqn:Halive; [|discriminate].
    destruct (o_hand s) as [h|] eqn:Hh; [discriminate|].
    destruct (o_queue s) as [|[q m] rest] eqn:Hq; [|discriminate].
    inversion H; subst s'; clear H. unfold CInv.
    cbn [o_queue o_alive o_written o_puts]. split; [constructor|].
    unfold hand_list in *. cbn [o_hand]. rewrite Hh in HI.
    rewrite F_one. cbn [lok] in Hl. rewrite Hl. exact HI.
  - (* OSend *)
    destruct (o_alive s) eqn:Halive; [|discriminate].
    destruct (o_hand s) as [[q line]|] eqn:Hh; [|discriminate].
    unfold hand_list in HI. rewrite Hh in HI.
    destruct ok; inversion H; subst s'; clear H; unfold CInv;
      cbn [o_queue o_alive o_written o_puts]; (split; [assumption|]).
    + unfold hand_list. cbn [o_hand]. rewrite F_app. rewrite <- HI.
      unfold F at 5. cbn [filter app]. rewrite <- app_assoc. reflexivity.
    + eexists. symmetry. exact HI.
Qed.

Lemma CInv_run : forall sel ls s s',
  Forall (lok sel) ls -> CInv sel s -> orun s ls = Some s' -> CInv sel s'.
Proof.
  intros sel. induction ls as [|l r IH]; intros s s' HF HI H; cbn [orun] in H.
  - inversion H; subst; assumption.
  - destruct (ostep s l) as [s1|] eqn:E; [|discriminate].
    inversion HF as [|x xs Hx Hxs]; subst x xs.
    apply (IH s1 s'); [assumption| |assumption].
    eapply CInv_step; eassumption.
Qed.

Lemma CInv_init : forall sel, CInv sel out_init.
Proof. intros sel. unfold CInv, out_init. cbn. split; [constructor|reflexivity]. Qed.

(* the puts of a label sequence *)
Definition puts_of (ls : list olabel) : list (nat * bytes) :=
  flat_map (fun l => match l with OPut p m => [(p, m)] | _ => [] end) ls.

Lemma puts_run : forall ls s s', orun s ls = Some s' -> o_puts s' = o_puts s ++ puts_of ls.
Proof.
  induction ls as [|l r IH]; intros s s' H; cbn [orun] in H.
  - inversion H; subst. cbn. rewrite app_nil_r. reflexivity.
  - destruct (ostep s l) as [s1|] eqn:E; [|discriminate].
    rewrite (IH s1 s' H). clear IH H.
    destruct l as [q m| | |ok]; cbn [ostep] in E.
    + inversion E; subst s1; clear E. cbn [o_puts]. unfold puts_of. cbn [flat_map].
      rewrite <- app_assoc. reflexivity.
    + destruct (o_alive s); [|discriminate].
      destruct (o_hand s); [discriminate|].
      destruct (o_queue s) as [|[q m] rest]; [discriminate|].
      destruct (to_send m); inversion E; subst s1; reflexivity.
    + destruct (o_alive s); [|discriminate].
      destruct (o_hand s); [discriminate|].
      destruct (o_queue s) as [|[q m] rest]; [|discriminate].
      inversion E; subst s1; reflexivity.
    + destruct (o_alive s); [|discriminate].
      destruct (o_hand s) as [[q line]|]; [|discriminate].
      destruct ok; inversion E; subst s1; reflexivity.
Qed.

(* the puts are recorded in the order they happened (linearization order is the label order) *)
Theorem puts_are_labels : forall ls s,
  orun out_init ls = Some s ->
  o_puts s = flat_map (fun l => match l with OPut p m => [(p, m)] | _ => [] end) ls.
Proof. intros ls s H. apply puts_run in H. exact H. Qed.

Lemma lok_of_puts : forall sel ls,
  (timeouts ls = 0%nat \/ sel 0%nat = false) ->
  Forall (item_ok sel) (puts_of ls) -> Forall (lok sel) ls.
Proof.
  intros sel. induction ls as [|l r IH]; intros Ht HF; [constructor|].
  assert (Ht' : timeouts r = 0%nat \/ sel 0%nat = false).
  { destruct Ht as [Ht|Ht]; [|right; assumption]. left.
    unfold timeouts in *. cbn [filter] in Ht. destruct l; cbn [length] in Ht; try assumption. discriminate. }
  destruct l as [q m| | |ok]; unfold puts_of in HF; cbn [flat_map app] in HF.
  - inversion HF as [|x xs Hx Hxs]; subst x xs. constructor; [exact Hx|]. apply IH; assumption.
  - constructor; [exact I|]. apply IH; assumption.
  - constructor; [|apply IH; assumption]. cbn [lok].
    destruct Ht as [Ht|Ht]; [|assumption]. unfold timeouts in Ht. cbn [filter length] in Ht. discriminate.
  - constructor; [exact I|]. apply IH; assumption.
Qed.

(* ------------------------------------------------------------------ *)
(* targets                                                             *)
(* ------------------------------------------------------------------ *)

(* nothing duplicated, nothing dropped.  As stated in the task (without the last
   hypothesis) the equation is FALSE when a producer puts a keepalive pill: the
   pill is rendered as nothing on the right but sits in the hand / the written
   lines as KEEPALIVE on the left (see no_loss_no_dup_needs_no_pills below), so the
   no-pills hypothesis prescribed by the task is added. *)
Theorem no_loss_no_dup_strong : forall ls s,
  orun out_init ls = Some s -> timeouts ls = 0%nat -> o_alive s = true ->
  Forall (fun x => bytes_eqb (snd x) keepalive_pill = false) (o_puts s) ->
  o_written s ++ hand_list s ++ rendered (o_queue s) = rendered (o_puts s).
Proof.
  intros ls s H Ht Ha HP.
  rewrite (puts_are_labels ls s H) in HP. fold (puts_of ls) in HP.
  assert (HL : Forall (lok (fun _ => true)) ls).
  { apply lok_of_puts; [left; assumption|].
    eapply Forall_impl; [|exact HP]. intros x Hx _. exact Hx. }
  pose proof (CInv_run _ ls _ _ HL (CInv_init _) H) as [_ HI].
  rewrite Ha in HI. rewrite !F_all in HI. exact HI.
Qed.

Theorem no_loss_no_dup : forall ls s,
  orun out_init ls = Some s -> timeouts ls = 0%nat -> o_alive s = true ->
  Forall (fun x => bytes_eqb (snd x) keepalive_pill = false /\ bytes_eqb (snd x) stop_pill = false) (o_puts s) ->
  o_written s ++ hand_list s ++ rendered (o_queue s) = rendered (o_puts s).
Proof.
  intros ls s H Ht Ha HP. apply (no_loss_no_dup_strong ls s H Ht Ha).
  eapply Forall_impl; [|exact HP]. intros x [Hx _]. exact Hx.
Qed.

(* the statement without the no-pills hypothesis is false *)
Lemma no_loss_no_dup_needs_no_pills :
  ~ (forall ls s,
       orun out_init ls = Some s -> timeouts ls = 0%nat -> o_alive s = true ->
       o_written s ++ hand_list s ++ rendered (o_queue s) = rendered (o_puts s)).
Proof.
  intros H.
  specialize (H [OPut 1%nat keepalive_pill; OGet]).
  destruct (orun out_init [OPut 1%nat keepalive_pill; OGet]) as [s|] eqn:E; vm_compute in E; [|discriminate].
  inversion E; subst s; clear E.
  specialize (H _ eq_refl eq_refl eq_refl). vm_compute in H. discriminate.
Qed.

(* per-producer order.  As stated in the task (without the last hypothesis) it is
   FALSE when p puts a keepalive pill (see per_thread_order_needs_no_pills); the
   no-pills hypothesis restricted to p is added. *)
Theorem per_thread_order_strong : forall ls s p,
  orun out_init ls = Some s -> (0 < p)%nat ->
  Forall (fun x => fst x = p -> bytes_eqb (snd x) keepalive_pill = false) (o_puts s) ->
  exists rest, by_thread p (rendered (o_puts s)) = by_thread p (o_written s) ++ rest.
Proof.
  intros ls s p H Hp HP.
  rewrite (puts_are_labels ls s H) in HP. fold (puts_of ls) in HP.
  set (sel := fun q : nat => Nat.eqb q p).
  assert (H0 : sel 0%nat = false).
  { unfold sel. apply Nat.eqb_neq. lia. }
  assert (HL : Forall (lok sel) ls).
  { apply lok_of_puts; [right; assumption|].
    eapply Forall_impl; [|exact HP]. intros x Hx Hs. apply Hx.
    unfold sel in Hs. apply Nat.eqb_eq in Hs. exact Hs. }
  pose proof (CInv_run _ ls _ _ HL (CInv_init _) H) as [_ HI].
  assert (Hby : forall l, by_thread p l = map snd (F sel l)) by (intros l; reflexivity).
  rewrite !Hby.
  destruct (o_alive s).
  - rewrite <- HI. rewrite map_app. eexists. reflexivity.
  - destruct HI as [rest HI]. rewrite HI, map_app. eexists. reflexivity.
Qed.

Theorem per_thread_order : forall ls s p,
  orun out_init ls = Some s -> (0 < p)%nat ->
  Forall (fun x => fst x = p ->
                   bytes_eqb (snd x) keepalive_pill = false /\ bytes_eqb (snd x) stop_pill = false) (o_puts s) ->
  exists rest, by_thread p (rendered (o_puts s)) = by_thread p (o_written s) ++ rest.
Proof.
  intros ls s p H Hp HP. apply (per_thread_order_strong ls s p H Hp).
  eapply Forall_impl; [|exact HP]. intros x Hx E. destruct (Hx E) as [Hk _]. exact Hk.
Qed.

Lemma per_thread_order_needs_no_pills :
  ~ (forall ls s p,
       orun out_init ls = Some s -> (0 < p)%nat ->
       exists rest, by_thread p (rendered (o_puts s)) = by_thread p (o_written s) ++ rest).
Proof.
  intros H.
  specialize (H [OPut 1%nat keepalive_pill; OGet; OSend true]).
  destruct (orun out_init [OPut 1%nat keepalive_pill; OGet; OSend true]) as [s|] eqn:E;
    vm_compute in E; [|discriminate].
  inversion E; subst s; clear E.
  specialize (H _ 1%nat eq_refl (le_n 1)). destruct H as [rest H]. vm_compute in H. discriminate.
Qed.

(* the byte stream is the concatenation of the written lines, each followed by CRLF — one sendall per line *)
Definition wire_ok (s : ost) : Prop := o_wire s = flat_map (fun x => snd x ++ crlf2) (o_written s).

Lemma wire_run : forall ls s s', wire_ok s -> orun s ls = Some s' -> wire_ok s'.
Proof.
  induction ls as [|l r IH]; intros s s' HI H; cbn [orun] in H.
  - inversion H; subst; assumption.
  - destruct (ostep s l) as [s1|] eqn:E; [|discriminate].
    apply (IH s1 s'); [|assumption]. clear IH H. unfold wire_ok in *.
    destruct l as [q m| | |ok]; cbn [ostep] in E.
    + inversion E; subst s1; clear E. exact HI.
    + destruct (o_alive s); [|discriminate].
      destruct (o_hand s); [discriminate|].
      destruct (o_queue s) as [|[q m] rest]; [discriminate|].
      destruct (to_send m); inversion E; subst s1; exact HI.
    + destruct (o_alive s); [|discriminate].
      destruct (o_hand s); [discriminate|].
      destruct (o_queue s) as [|[q m] rest]; [|discriminate].
      inversion E; subst s1; exact HI.
    + destruct (o_alive s); [|discriminate].
      destruct (o_hand s) as [[q line]|]; [|discriminate].
      destruct ok; inversion E; subst s1; clear E; cbn [o_wire o_written]; [|exact HI].
      rewrite flat_map_app, HI. cbn [flat_map snd]. rewrite app_nil_r. reflexivity.
Qed.

Theorem wire_concat : forall ls s,
  orun out_init ls = Some s -> o_wire s = flat_map (fun x => snd x ++ crlf2) (o_written s).
Proof.
  intros ls s H. apply (wire_run ls out_init s); [reflexivity|assumption].
Qed.

(* ---------- splitting the stream back into lines ---------- *)

Lemma aux_nil : forall cur, split_crlf_aux cur [] = ([], rev cur).
Proof. intros cur. rewrite rev_alt. reflexivity. Qed.

Lemma aux_one : forall cur c, split_crlf_aux cur [c] = ([], rev (c :: cur)).
Proof. intros cur c. rewrite rev_alt. reflexivity. Qed.

Lemma aux_cons2 : forall cur c d r',
  split_crlf_aux cur (c :: d :: r') =
  if Ascii.eqb c c_cr && Ascii.eqb d c_lf
  then let '(ls, rem) := split_crlf_aux [] r' in (rev cur :: ls, rem)
  else split_crlf_aux (c :: cur) (d :: r').
Proof. intros cur c d r'. rewrite rev_alt. reflexivity. Qed.

Lemma no_crlf_cons : forall c l,
  no_crlf (c :: l) = true -> Ascii.eqb c c_cr = false /\ Ascii.eqb c c_lf = false /\ no_crlf l = true.
Proof.
  intros c l H. unfold no_crlf in *. cbn [existsb] in H.
  apply negb_true_iff in H. apply orb_false_iff in H. destruct H as [H1 H2].
  apply orb_false_iff in H1. destruct H1 as [Hcr Hlf].
  split; [assumption|]. split; [assumption|]. rewrite H2. reflexivity.
Qed.

Lemma aux_tail : forall tail cur,
  no_crlf tail = true -> split_crlf_aux cur tail = ([], rev cur ++ tail).
Proof.
  induction tail as [|c t IH]; intros cur H.
  - rewrite aux_nil, app_nil_r. reflexivity.
  - apply no_crlf_cons in H. destruct H as [Hcr [_ Ht]].
    destruct t as [|d t'].
    + rewrite aux_one. reflexivity.
    + rewrite aux_cons2, Hcr. cbn [andb]. rewrite (IH (c :: cur) Ht).
      cbn [rev]. rewrite <- app_assoc. reflexivity.
Qed.

Lemma aux_line : forall l cur rest,
  no_crlf l = true ->
  split_crlf_aux cur (l ++ crlf2 ++ rest) =
  let '(ls, rem) := split_crlf_aux [] rest in ((rev cur ++ l) :: ls, rem).
Proof.
  induction l as [|c l IH]; intros cur rest H.
  - cbn [app crlf2]. rewrite aux_cons2. rewrite !Ascii.eqb_refl. cbn [andb].
    rewrite app_nil_r. reflexivity.
  - apply no_crlf_cons in H. destruct H as [Hcr [_ Hl]].
    assert (E : exists d r', l ++ crlf2 ++ rest = d :: r').
    { destruct l as [|d l']; cbn [app crlf2]; eexists; eexists; reflexivity. }
    destruct E as [d [r' E]].
    rewrite <- app_comm_cons. rewrite E, aux_cons2, Hcr. cbn [andb]. rewrite <- E.
    rewrite (IH (c :: cur) rest Hl). cbn [rev]. rewrite <- app_assoc. reflexivity.
Qed.

(* ... even when a further line is only partially there *)
Theorem split_crlf_partial : forall (lines : list bytes) (tail : bytes),
  forallb no_crlf lines = true -> no_crlf tail = true ->
  split_crlf (flat_map (fun l => l ++ crlf2) lines ++ tail) = (lines, tail).
Proof.
  induction lines as [|l ls IH]; intros tail HL HT.
  - cbn [flat_map app]. unfold split_crlf. rewrite (aux_tail tail [] HT). reflexivity.
  - cbn [forallb] in HL. apply andb_true_iff in HL. destruct HL as [Hl Hls].
    cbn [flat_map]. rewrite <- !app_assoc. unfold split_crlf.
    rewrite (aux_line l [] _ Hl).
    specialize (IH tail Hls HT). unfold split_crlf in IH. rewrite IH. reflexivity.
Qed.

(* lines without CR/LF can be recovered exactly from the stream: lines never interleave *)
Theorem split_crlf_lines : forall (lines : list bytes),
  forallb no_crlf lines = true ->
  split_crlf (flat_map (fun l => l ++ crlf2) lines) = (lines, []).
Proof.
  intros lines H.
  rewrite <- (app_nil_r (flat_map (fun l => l ++ crlf2) lines)).
  apply split_crlf_partial; [assumption|reflexivity].
Qed.

(* after a failed sendall or the stop pill the writer writes nothing more *)
Theorem dead_writes_nothing : forall s l s',
  o_alive s = false -> ostep s l = Some s' -> o_written s' = o_written s /\ o_wire s' = o_wire s /\ o_alive s' = false.
Proof.
  intros s l s' Hd H.
  destruct l as [q m| | |ok]; cbn [ostep] in H; rewrite Hd in H; try discriminate.
  inversion H; subst s'; clear H. cbn [o_written o_wire o_alive]. auto.
Qed.

Print Assumptions no_loss_no_dup.
Print Assumptions per_thread_order.
Print Assumptions wire_concat.
Print Assumptions split_crlf_lines.
Print Assumptions split_crlf_partial.
Print Assumptions puts_are_labels.
Print Assumptions dead_writes_nothing.
Print Assumptions no_loss_no_dup_strong.
Print Assumptions per_thread_order_strong.
Print Assumptions no_loss_no_dup_needs_no_pills.
Print Assumptions per_thread_order_needs_no_pills.
