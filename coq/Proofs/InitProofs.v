(* Proofs/InitProofs.v — property C11: version negotiation and init parameters
   follow the compatibility table (Model/Init.v against the specification side
   in Model/AriReply.v). *)
From Coq Require Import String List Ascii NArith ZArith QArith Bool Lia.
From LS Require Import Model.Bytes Model.Tags Gen.Consts Model.Quote Model.Codec Model.Writers Model.AriReply
  Model.Keepalive Model.Init Proofs.BytesProofs Proofs.QuoteProofs Proofs.CodecProofs.
Import ListNotations.

Definition announced_of (proxy : dict text) : option bytes :=
  match dict_get (okey ari_version_key) proxy with Some (Some v) => Some v | _ => None end.
(* keys of a Python dict are unique *)
Fixpoint dict_wf {V} (d : dict V) : Prop :=
  match d with [] => True | (k, _) :: r => dict_mem k r = false /\ dict_wf r end.
Definition reserved (k : option bytes) : bool :=
  okey_eqb k (okey ari_version_key) || okey_eqb k (okey keepalive_hints_key).
Definition is_ret (o : init_outcome) : bool := match o with IRet => true | IRaise _ => false end.
Definition generic_error (m : meth) (line : bytes) : Prop :=
  exists msg, decode_error line = Some {| er_method := meth_name m; er_subtype := None; er_msg := Some msg;
                                          er_code := None; er_user_msg := None; er_session := None |}.

(* ====================================================================== *)
(* A. keys                                                                *)
(* ====================================================================== *)

Lemma okey_eqb_refl : forall a, okey_eqb a a = true.
Proof. intros [a|]; [apply bytes_eqb_refl|reflexivity]. Qed.

Lemma okey_eqb_true : forall a b, okey_eqb a b = true -> a = b.
Proof.
  intros [a|] [b|] H; cbn [okey_eqb] in H; try discriminate H.
  - f_equal. apply bytes_eqb_true. exact H.
  - reflexivity.
Qed.

Lemma okey_eqb_sym : forall a b, okey_eqb a b = okey_eqb b a.
Proof.
  intros a b. destruct (okey_eqb a b) eqn:E.
  - apply okey_eqb_true in E. subst b. symmetry. apply okey_eqb_refl.
  - destruct (okey_eqb b a) eqn:E2; [|reflexivity].
    apply okey_eqb_true in E2. subst b. rewrite okey_eqb_refl in E. discriminate E.
Qed.

(* ====================================================================== *)
(* B. dicts                                                               *)
(* ====================================================================== *)

Section DictLemmas.
  Context {V : Type}.
  Implicit Types (d e : dict V) (k key : option bytes) (v : V).

  Lemma dict_get_cons : forall key k v d,
    dict_get key ((k, v) :: d) = if okey_eqb key k then Some v else dict_get key d.
  Proof. reflexivity. Qed.

  Lemma dict_mem_false_get : forall k d, dict_mem k d = false -> dict_get k d = None.
  Proof.
    intros k d. induction d as [|[k' v'] r IH]; intros H.
    - reflexivity.
    - cbn [dict_mem] in H. apply orb_false_elim in H. destruct H as [H1 H2].
      rewrite dict_get_cons, H1. apply IH. exact H2.
  Qed.

  Lemma dict_get_set : forall key k v d,
    dict_get key (dict_set k v d) = if okey_eqb key k then Some v else dict_get key d.
  Proof.
    intros key k v d. induction d as [|[k' v'] r IH].
    - reflexivity.
    - cbn [dict_set]. destruct (okey_eqb k k') eqn:E.
      + apply okey_eqb_true in E. subst k'.
        rewrite !dict_get_cons. destruct (okey_eqb key k); reflexivity.
      + rewrite !dict_get_cons, IH.
        destruct (okey_eqb key k') eqn:E2; [|reflexivity].
        apply okey_eqb_true in E2. subst k'.
        rewrite (okey_eqb_sym key k), E. reflexivity.
  Qed.

  Lemma dict_mem_set : forall k' k v d,
    dict_mem k' (dict_set k v d) = okey_eqb k' k || dict_mem k' d.
  Proof.
    intros k' k v d. induction d as [|[k2 v2] r IH].
    - reflexivity.
    - cbn [dict_set]. destruct (okey_eqb k k2) eqn:E.
      + apply okey_eqb_true in E. subst k2. cbn [dict_mem].
        destruct (okey_eqb k' k); reflexivity.
      + cbn [dict_mem]. rewrite IH.
        destruct (okey_eqb k' k2), (okey_eqb k' k); reflexivity.
  Qed.

  Lemma dict_wf_set : forall k v d, dict_wf d -> dict_wf (dict_set k v d).
  Proof.
    intros k v d. induction d as [|[k' v'] r IH]; intros Hwf.
    - cbn. split; [reflexivity|exact I].
    - cbn [dict_wf] in Hwf. destruct Hwf as [Hm Hr].
      cbn [dict_set]. destruct (okey_eqb k k') eqn:E.
      + cbn [dict_wf]. split; assumption.
      + cbn [dict_wf]. split.
        * rewrite dict_mem_set, Hm, (okey_eqb_sym k' k), E. reflexivity.
        * apply IH. exact Hr.
  Qed.

  Lemma dict_mem_del_false : forall k' k d,
    dict_mem k' d = false -> dict_mem k' (dict_del k d) = false.
  Proof.
    intros k' k d. induction d as [|[k2 v2] r IH]; intros H.
    - reflexivity.
    - cbn [dict_mem] in H. apply orb_false_elim in H. destruct H as [H1 H2].
      cbn [dict_del]. destruct (okey_eqb k k2).
      + exact H2.
      + cbn [dict_mem]. rewrite H1, (IH H2). reflexivity.
  Qed.

  Lemma dict_wf_del : forall k d, dict_wf d -> dict_wf (dict_del k d).
  Proof.
    intros k d. induction d as [|[k' v'] r IH]; intros Hwf.
    - exact I.
    - cbn [dict_wf] in Hwf. destruct Hwf as [Hm Hr].
      cbn [dict_del]. destruct (okey_eqb k k').
      + exact Hr.
      + cbn [dict_wf]. split.
        * apply dict_mem_del_false. exact Hm.
        * apply IH. exact Hr.
  Qed.

  Lemma dict_get_del : forall key k d, dict_wf d ->
    dict_get key (dict_del k d) = if okey_eqb key k then None else dict_get key d.
  Proof.
    intros key k d. induction d as [|[k' v'] r IH]; intros Hwf.
    - cbn. destruct (okey_eqb key k); reflexivity.
    - cbn [dict_wf] in Hwf. destruct Hwf as [Hm Hr].
      cbn [dict_del]. destruct (okey_eqb k k') eqn:E.
      + apply okey_eqb_true in E. subst k'. rewrite dict_get_cons.
        destruct (okey_eqb key k) eqn:E2; [|reflexivity].
        apply okey_eqb_true in E2. subst key.
        apply dict_mem_false_get. exact Hm.
      + rewrite !dict_get_cons, (IH Hr).
        destruct (okey_eqb key k') eqn:E2; [|reflexivity].
        apply okey_eqb_true in E2. subst k'.
        rewrite (okey_eqb_sym key k), E. reflexivity.
  Qed.

  Lemma dict_update_cons : forall d k v e,
    dict_update d ((k, v) :: e) = dict_update (dict_set k v d) e.
  Proof. reflexivity. Qed.

  Lemma dict_get_update : forall e d key, dict_wf e ->
    dict_get key (dict_update d e) =
      match dict_get key e with Some v => Some v | None => dict_get key d end.
  Proof.
    intros e. induction e as [|[k v] r IH]; intros d key Hwf.
    - reflexivity.
    - cbn [dict_wf] in Hwf. destruct Hwf as [Hm Hr].
      rewrite dict_update_cons, (IH _ _ Hr), dict_get_cons, dict_get_set.
      destruct (okey_eqb key k) eqn:E; [|reflexivity].
      apply okey_eqb_true in E. subst key.
      rewrite (dict_mem_false_get _ _ Hm). reflexivity.
  Qed.

  Lemma dict_wf_fold_set : forall (l : list (option bytes * V)) d,
    dict_wf d -> dict_wf (fold_left (fun d kv => dict_set (fst kv) (snd kv) d) l d).
  Proof.
    intros l. induction l as [|[k v] r IH]; intros d Hwf.
    - exact Hwf.
    - cbn [fold_left fst snd]. apply IH. apply dict_wf_set. exact Hwf.
  Qed.
End DictLemmas.

(* dicts produced by the request decoder have unique keys *)
Theorem dict_of_pairs_wf : forall (V : Type) (l : list (option bytes * V)), dict_wf (dict_of_pairs l).
Proof.
  intros V l. unfold dict_of_pairs. apply dict_wf_fold_set. exact I.
Qed.

(* ====================================================================== *)
(* C. the specification table spelled out                                 *)
(* ====================================================================== *)

Theorem spec_version_meta : forall v,
  spec_version KMeta None = VBare /\
  spec_version KMeta (Some (bs "1.8.1")) = VRefuse /\ spec_version KMeta (Some (bs "1.8.0")) = VRefuse /\
  spec_version KMeta (Some (bs "1.8.2")) = VAnswer (bs "1.8.2") /\
  (v <> bs "1.8.0" -> v <> bs "1.8.1" -> v <> bs "1.8.2" -> spec_version KMeta (Some v) = VAnswer (bs "1.8.3")).
Proof.
  intros v.
  split; [reflexivity|]. split; [vm_compute; reflexivity|]. split; [vm_compute; reflexivity|].
  split; [vm_compute; reflexivity|].
  intros H0 H1 H2. unfold spec_version, v180, v181, v182, v183.
  rewrite (bytes_eqb_neq _ _ H0), (bytes_eqb_neq _ _ H1), (bytes_eqb_neq _ _ H2).
  reflexivity.
Qed.

Theorem spec_version_data : forall v,
  spec_version KData None = VRefuse /\
  (starts_with (bs "1.8.") v = true -> spec_version KData (Some v) = VRefuse) /\
  spec_version KData (Some (bs "1.9.0")) = VRefuse /\
  (starts_with (bs "1.8.") v = false -> v <> bs "1.9.0" -> spec_version KData (Some v) = VAnswer (bs "1.8.3")).
Proof.
  intros v.
  split; [reflexivity|]. split; [|split; [vm_compute; reflexivity|]].
  - intros H. unfold spec_version, v18_prefix. rewrite H. reflexivity.
  - intros H H1. unfold spec_version, v18_prefix, v190, v183.
    rewrite H, (bytes_eqb_neq _ _ H1). reflexivity.
Qed.

(* ====================================================================== *)
(* D. negotiate against the table                                         *)
(* ====================================================================== *)

Lemma negotiate_spec : forall k a,
  match spec_version k a with
  | VRefuse => exists msg, negotiate k a = inr (foreign_exn msg)
  | VBare => negotiate k a = inl (bs "1.8.0")
  | VAnswer x => negotiate k a = inl x /\ (x = bs "1.8.2" \/ x = bs "1.8.3")
  end.
Proof.
  intros [|] [s|].
  - (* KMeta, Some s *)
    unfold spec_version, negotiate, supported_version, v180, v181, v182, v183, max_version.
    destruct (bytes_eqb s (bs "1.8.0")) eqn:E0.
    { rewrite orb_true_r. eexists. reflexivity. }
    destruct (bytes_eqb s (bs "1.8.1")) eqn:E1.
    { cbn [orb]. eexists. reflexivity. }
    cbn [orb].
    destruct (bytes_eqb s (bs "1.8.2")) eqn:E2.
    { apply bytes_eqb_true in E2. subst s. split; [reflexivity|left; reflexivity]. }
    destruct (bytes_eqb s (bs "1.8.3")) eqn:E3.
    { apply bytes_eqb_true in E3. subst s. split; [reflexivity|right; reflexivity]. }
    split; [reflexivity|right; reflexivity].
  - (* KMeta, None *)
    vm_compute. reflexivity.
  - (* KData, Some s *)
    unfold spec_version, negotiate, supported_version, v18_prefix, v190, v183, max_version.
    destruct (starts_with (bs "1.8.") s) eqn:SW.
    { cbn [orb].
      destruct (bytes_eqb s (bs "1.8.0")); [eexists; reflexivity|].
      destruct (bytes_eqb s (bs "1.8.1")); [eexists; reflexivity|].
      destruct (bytes_eqb s (bs "1.8.3")); eexists; reflexivity. }
    cbn [orb].
    destruct (bytes_eqb s (bs "1.8.0")) eqn:E0.
    { apply bytes_eqb_true in E0. subst s. vm_compute in SW. discriminate SW. }
    destruct (bytes_eqb s (bs "1.8.1")) eqn:E1.
    { apply bytes_eqb_true in E1. subst s. vm_compute in SW. discriminate SW. }
    destruct (bytes_eqb s (bs "1.8.3")) eqn:E3.
    { apply bytes_eqb_true in E3. subst s. vm_compute in SW. discriminate SW. }
    destruct (bytes_eqb s (bs "1.9.0")) eqn:E9.
    { eexists. reflexivity. }
    split; [reflexivity|right; reflexivity].
  - (* KData, None *)
    exists (incompatible_msg (bs "1.8.0")). vm_compute. reflexivity.
Qed.

(* ====================================================================== *)
(* E. unfolding on_init                                                   *)
(* ====================================================================== *)

Definition init_rest (proxy : dict text) : dict text :=
  dict_del (okey keepalive_hints_key) (dict_del (okey ari_version_key) proxy).

Definition init_params_of (local : option (dict text)) (proxy : dict text) : dict text :=
  match local with Some l => dict_update (init_rest proxy) l | None => init_rest proxy end.

Definition init_hint_of (proxy : dict text) : hint :=
  parse_hint (dict_get (okey keepalive_hints_key) proxy).

Lemma on_init_refuse : forall k local proxy cb outcome e,
  negotiate k (announced_of proxy) = inr e ->
  on_init k local proxy cb outcome =
    {| ir_initialize := None; ir_listener := false; ir_reply := error_reply (init_method k) e;
       ir_close_expected := cb; ir_hint := init_hint_of proxy |}.
Proof.
  intros k local proxy cb outcome e H. unfold announced_of in H.
  unfold on_init. cbv zeta. rewrite H. reflexivity.
Qed.

Lemma on_init_raise : forall k local proxy cb adv e,
  negotiate k (announced_of proxy) = inl adv ->
  on_init k local proxy cb (IRaise e) =
    {| ir_initialize := Some (init_params_of local proxy); ir_listener := false;
       ir_reply := error_reply (init_method k) e;
       ir_close_expected := cb; ir_hint := init_hint_of proxy |}.
Proof.
  intros k local proxy cb adv e H. unfold announced_of in H.
  unfold on_init. cbv zeta. rewrite H. reflexivity.
Qed.

Lemma on_init_ret : forall k local proxy cb adv,
  negotiate k (announced_of proxy) = inl adv ->
  on_init k local proxy cb IRet =
    {| ir_initialize := Some (init_params_of local proxy);
       ir_listener := match k with KData => true | KMeta => false end;
       ir_reply := if bytes_eqb adv (bs "1.8.0") then write_init_ok (init_method k) []
                   else write_init_ok (init_method k) [(ari_version_key, PStr adv)];
       ir_close_expected := if bytes_eqb adv (bs "1.8.0") || bytes_eqb adv (bs "1.8.2")
                            then false else cb;
       ir_hint := init_hint_of proxy |}.
Proof.
  intros k local proxy cb adv H. unfold announced_of in H.
  unfold on_init. cbv zeta. rewrite H. reflexivity.
Qed.

(* three-way case analysis used by all the theorems below *)
Lemma on_init_cases : forall k local proxy cb outcome,
  (exists e, negotiate k (announced_of proxy) = inr e /\
     on_init k local proxy cb outcome =
       {| ir_initialize := None; ir_listener := false; ir_reply := error_reply (init_method k) e;
          ir_close_expected := cb; ir_hint := init_hint_of proxy |}) \/
  (exists adv, negotiate k (announced_of proxy) = inl adv /\
     match outcome with
     | IRaise e =>
         on_init k local proxy cb outcome =
           {| ir_initialize := Some (init_params_of local proxy); ir_listener := false;
              ir_reply := error_reply (init_method k) e;
              ir_close_expected := cb; ir_hint := init_hint_of proxy |}
     | IRet =>
         on_init k local proxy cb outcome =
           {| ir_initialize := Some (init_params_of local proxy);
              ir_listener := match k with KData => true | KMeta => false end;
              ir_reply := if bytes_eqb adv (bs "1.8.0") then write_init_ok (init_method k) []
                          else write_init_ok (init_method k) [(ari_version_key, PStr adv)];
              ir_close_expected := if bytes_eqb adv (bs "1.8.0") || bytes_eqb adv (bs "1.8.2")
                                   then false else cb;
              ir_hint := init_hint_of proxy |}
     end).
Proof.
  intros k local proxy cb outcome.
  destruct (negotiate k (announced_of proxy)) as [adv|e] eqn:H.
  - right. exists adv. split; [reflexivity|]. destruct outcome as [|e].
    + apply on_init_ret. exact H.
    + apply (on_init_raise _ _ _ _ adv). exact H.
  - left. exists e. split; [reflexivity|]. apply on_init_refuse. exact H.
Qed.

(* ====================================================================== *)
(* F. the error reply of a refusal                                        *)
(* ====================================================================== *)

Lemma init_meth_name_no_pipe : forall k, ~ In c_pipe (meth_name (init_method k)).
Proof.
  intros [|]; vm_compute; intros H;
    repeat (destruct H as [H|H]; [discriminate H|]); exact H.
Qed.

Lemma error_reply_foreign_init : forall k msg,
  error_reply (init_method k) (foreign_exn msg) =
    WOk (join_pipe [meth_name (init_method k); [c_E]; encode_text (Some msg)]).
Proof.
  intros k msg. unfold error_reply, handle_exception, append_exceptions.
  assert (Hl : (if existsb (isinstance (foreign_exn msg)) (designated (init_method k))
                then exact_letter (foreign_exn msg) else None) = None).
  { destruct (existsb _ _); reflexivity. }
  rewrite Hl. clear Hl.
  change (e_str (foreign_exn msg)) with msg.
  change (PStr msg) with (py_of_text (Some msg)).
  rewrite encode_string_text. cbn [wbind].
  f_equal. unfold join_pipe.
  rewrite !join_with_cons2, !join_with_singleton, <- !app_assoc. reflexivity.
Qed.

Lemma decode_error_generic : forall (mn msg : bytes),
  ~ In c_pipe mn ->
  decode_error (join_pipe [mn; [c_E]; encode_text (Some msg)]) =
    Some {| er_method := mn; er_subtype := None; er_msg := Some msg;
            er_code := None; er_user_msg := None; er_session := None |}.
Proof.
  intros mn msg Hmn. unfold decode_error, toks, join_pipe.
  rewrite split_join.
  - cbv beta iota.
    change (Ascii.eqb c_E c_E') with true. cbv beta iota.
    rewrite decode_encode_text. reflexivity.
  - discriminate.
  - constructor; [exact Hmn|]. constructor.
    + intros [H|[]]. vm_compute in H. discriminate H.
    + constructor; [|constructor].
      intros H. apply encode_text_sep_free in H. destruct H as [H _]. apply H. reflexivity.
Qed.

(* ====================================================================== *)
(* G. target theorems                                                     *)
(* ====================================================================== *)

Theorem init_table : forall k local proxy cb outcome,
  let r := on_init k local proxy cb outcome in
  let m := init_method k in
  match spec_version k (announced_of proxy) with
  | VRefuse => ir_initialize r = None /\ ir_listener r = false /\
               exists line, ir_reply r = WOk line /\ generic_error m line
  | VBare => ir_initialize r <> None /\
             (outcome = IRet -> ir_reply r = WOk (void_reply m) /\ decode_void (void_reply m) = Some (meth_name m))
  | VAnswer a => ir_initialize r <> None /\
             (outcome = IRet -> exists line, ir_reply r = WOk line /\
                 decode_params line = Some (meth_name m, [(ari_version_key, Some a)]))
  end.
Proof.
  intros k local proxy cb outcome r m.
  pose proof (negotiate_spec k (announced_of proxy)) as Hn.
  destruct (spec_version k (announced_of proxy)) as [| |a].
  - (* refuse *)
    destruct Hn as [msg Hn].
    assert (Hr : r = {| ir_initialize := None; ir_listener := false;
                        ir_reply := error_reply (init_method k) (foreign_exn msg);
                        ir_close_expected := cb; ir_hint := init_hint_of proxy |}).
    { apply on_init_refuse. exact Hn. }
    rewrite Hr. cbn [ir_initialize ir_listener ir_reply].
    split; [reflexivity|]. split; [reflexivity|].
    eexists. split; [apply error_reply_foreign_init|].
    exists msg. apply decode_error_generic. apply init_meth_name_no_pipe.
  - (* bare *)
    split.
    + destruct outcome as [|e].
      * unfold r. rewrite (on_init_ret _ _ _ _ _ Hn). discriminate.
      * unfold r. rewrite (on_init_raise _ _ _ _ _ _ Hn). discriminate.
    + intros ->. unfold r. rewrite (on_init_ret _ _ _ _ _ Hn). cbn [ir_reply].
      unfold m. destruct k; vm_compute; split; reflexivity.
  - (* answer *)
    destruct Hn as [Hn Ha].
    split.
    + destruct outcome as [|e].
      * unfold r. rewrite (on_init_ret _ _ _ _ _ Hn). discriminate.
      * unfold r. rewrite (on_init_raise _ _ _ _ _ _ Hn). discriminate.
    + intros ->. unfold r. rewrite (on_init_ret _ _ _ _ _ Hn). cbn [ir_reply].
      unfold m. destruct Ha as [-> | ->]; destruct k;
        (eexists; split; [vm_compute; reflexivity|vm_compute; reflexivity]).
Qed.

(* The statement of [init_params] given in the task is FALSE when the local
   parameter dict has a repeated key (dict_update lets the LAST binding win,
   dict_get returns the FIRST).  It holds as soon as [local] also has unique
   keys, which is always the case for a Python dict. *)
Theorem init_params_partial : forall k local proxy cb outcome params key,
  dict_wf proxy ->
  (forall l, local = Some l -> dict_wf l) ->
  ir_initialize (on_init k local proxy cb outcome) = Some params ->
  dict_get key params =
    match (match local with Some l => dict_get key l | None => None end) with
    | Some v => Some v
    | None => if reserved key then None else dict_get key proxy
    end.
Proof.
  intros k local proxy cb outcome params key Hwf Hl Hi.
  assert (Hp : params = init_params_of local proxy).
  { destruct (on_init_cases k local proxy cb outcome) as [[e [_ Hr]]|[adv [_ Hr]]].
    - rewrite Hr in Hi. discriminate Hi.
    - destruct outcome as [|e]; rewrite Hr in Hi; cbn [ir_initialize] in Hi; congruence. }
  subst params.
  assert (Hrest : dict_get key (init_rest proxy) = if reserved key then None else dict_get key proxy).
  { unfold init_rest, reserved.
    rewrite dict_get_del by (apply dict_wf_del; exact Hwf).
    rewrite dict_get_del by exact Hwf.
    destruct (okey_eqb key (okey ari_version_key)), (okey_eqb key (okey keepalive_hints_key)); reflexivity. }
  unfold init_params_of. destruct local as [l|].
  - rewrite dict_get_update by (apply Hl; reflexivity).
    rewrite Hrest. reflexivity.
  - exact Hrest.
Qed.

(* concrete counterexample to the statement of init_params as given *)
Definition cex_local : dict text :=
  [(Some (bs "a"), Some (bs "x")); (Some (bs "a"), Some (bs "y"))].

Theorem init_params_as_stated_false :
  ~ (forall k local proxy cb outcome params key,
      dict_wf proxy ->
      ir_initialize (on_init k local proxy cb outcome) = Some params ->
      dict_get key params =
        match (match local with Some l => dict_get key l | None => None end) with
        | Some v => Some v
        | None => if reserved key then None else dict_get key proxy
        end).
Proof.
  intros H.
  specialize (H KMeta (Some cex_local) [] true IRet
                [(Some (bs "a"), Some (bs "y"))] (Some (bs "a")) I).
  assert (Hi : ir_initialize (on_init KMeta (Some cex_local) [] true IRet) =
               Some [(Some (bs "a"), Some (bs "y"))]) by (vm_compute; reflexivity).
  specialize (H Hi). vm_compute in H. discriminate H.
Qed.

Theorem init_listener : forall k local proxy cb outcome,
  ir_listener (on_init k local proxy cb outcome) = true <->
  (k = KData /\ outcome = IRet /\ ir_initialize (on_init k local proxy cb outcome) <> None).
Proof.
  intros k local proxy cb outcome.
  destruct (on_init_cases k local proxy cb outcome) as [[e [_ Hr]]|[adv [_ Hr]]].
  - rewrite Hr. cbn [ir_listener ir_initialize]. split.
    + intros H. discriminate H.
    + intros [_ [_ H]]. exfalso. apply H. reflexivity.
  - destruct outcome as [|e]; rewrite Hr; cbn [ir_listener ir_initialize]; split.
    + intros H. destruct k; [discriminate H|]. split; [reflexivity|]. split; [reflexivity|discriminate].
    + intros [-> _]. reflexivity.
    + intros H. discriminate H.
    + intros [_ [H _]]. discriminate H.
Qed.

Theorem init_error_typed : forall k local proxy cb e,
  ir_initialize (on_init k local proxy cb (IRaise e)) <> None ->
  ir_reply (on_init k local proxy cb (IRaise e)) = error_reply (init_method k) e.
Proof.
  intros k local proxy cb e H.
  destruct (on_init_cases k local proxy cb (IRaise e)) as [[e' [_ Hr]]|[adv [_ Hr]]].
  - rewrite Hr in H. exfalso. apply H. reflexivity.
  - rewrite Hr. reflexivity.
Qed.

Theorem init_close_flag : forall k local proxy outcome,
  ir_close_expected (on_init k local proxy true outcome) =
  spec_close_honoured k (announced_of proxy) (is_ret outcome).
Proof.
  intros k local proxy outcome.
  pose proof (negotiate_spec k (announced_of proxy)) as Hn.
  unfold spec_close_honoured.
  destruct (spec_version k (announced_of proxy)) as [| |a].
  - destruct Hn as [msg Hn]. rewrite (on_init_refuse _ _ _ _ _ _ Hn). reflexivity.
  - destruct outcome as [|e].
    + rewrite (on_init_ret _ _ _ _ _ Hn). reflexivity.
    + rewrite (on_init_raise _ _ _ _ _ _ Hn). reflexivity.
  - destruct Hn as [Hn Ha]. destruct outcome as [|e].
    + rewrite (on_init_ret _ _ _ _ _ Hn). cbn [ir_close_expected is_ret].
      destruct Ha as [-> | ->]; vm_compute; reflexivity.
    + rewrite (on_init_raise _ _ _ _ _ _ Hn). reflexivity.
Qed.

Theorem init_hint_regardless : forall k local proxy cb outcome,
  ir_hint (on_init k local proxy cb outcome) = parse_hint (dict_get (okey keepalive_hints_key) proxy).
Proof.
  intros k local proxy cb outcome.
  destruct (on_init_cases k local proxy cb outcome) as [[e [_ Hr]]|[adv [_ Hr]]].
  - rewrite Hr. reflexivity.
  - destruct outcome as [|e]; rewrite Hr; reflexivity.
Qed.

Print Assumptions init_table.
Print Assumptions spec_version_meta.
Print Assumptions spec_version_data.
Print Assumptions init_params_partial.
Print Assumptions init_params_as_stated_false.
Print Assumptions dict_of_pairs_wf.
Print Assumptions init_listener.
Print Assumptions init_error_typed.
Print Assumptions init_close_flag.
Print Assumptions init_hint_regardless.

(* ------------------------------------------------------------------ malformed keepalive hints *)
Lemma float_char_digit : forall c, is_digit c = true -> float_char c = true.
Proof. intros c H. unfold float_char. rewrite H. reflexivity. Qed.

Lemma all_digits_float : forall s, all_digits s = true -> forallb float_char s = true.
Proof.
  induction s as [|c r IH]; intros H; [reflexivity|].
  cbn [all_digits] in H. apply andb_true_iff in H. destruct H as [Hc Hr].
  cbn [forallb]. rewrite (float_char_digit _ Hc), (IH Hr). reflexivity.
Qed.

Lemma parse_unsigned_dec_float_chars : forall s q,
  parse_unsigned_dec s = Some q -> s <> [] /\ forallb float_char s = true.
Proof.
  intros s q H. unfold parse_unsigned_dec in H.
  pose proof (join_split "."%char s) as J.
  destruct (split_on "."%char s) as [|ip [|fp [|x xs]]] eqn:E; try discriminate.
  - rewrite join_with_singleton in J. subst ip.
    destruct (negb (is_nil s) && all_digits s) eqn:C; [|discriminate].
    apply andb_true_iff in C. destruct C as [Cn Cd]. split.
    + destruct s; [discriminate|discriminate].
    + exact (all_digits_float _ Cd).
  - rewrite join_with_cons2, join_with_singleton in J. cbn [app] in J.
    destruct (negb (is_nil ip && is_nil fp) && all_digits ip && all_digits fp) eqn:C; [|discriminate].
    apply andb_true_iff in C. destruct C as [C Cf]. apply andb_true_iff in C. destruct C as [Cn Ci].
    subst s. split.
    + destruct ip; discriminate.
    + rewrite forallb_app. rewrite (all_digits_float _ Ci). cbn [forallb andb].
      rewrite (all_digits_float _ Cf). reflexivity.
Qed.

Lemma float_chars_no_witness : forall s, forallb float_char s = true ->
  existsb (fun c => (code c <? 128)%N && negb (float_char c)) s = false.
Proof.
  induction s as [|x xs IH]; intros H; [reflexivity|].
  cbn [forallb] in H. apply andb_true_iff in H. destruct H as [Hx Hxs].
  cbn [existsb]. rewrite Hx. cbn [negb]. rewrite andb_false_r. cbn [orb]. exact (IH Hxs).
Qed.

Lemma float_chars_not_surely : forall s, s <> [] -> forallb float_char s = true -> surely_not_float s = false.
Proof.
  intros s Hne H. unfold surely_not_float. destruct s as [|c r]; [congruence|]. cbn [is_nil orb].
  exact (float_chars_no_witness _ H).
Qed.

(* a hint that float() certainly rejects is discarded ... *)
Theorem malformed_hint_discarded : forall s,
  surely_not_float s = true -> parse_hint (Some (Some s)) = HMalformed.
Proof.
  intros s H. unfold parse_hint. destruct s as [|c r]; [reflexivity|]. rewrite H.
  assert (K : forall t q, parse_unsigned_dec t = Some q -> forallb float_char t = true /\ t <> [])
    by (intros t q Ht; destruct (parse_unsigned_dec_float_chars _ _ Ht); split; assumption).
  destruct (Ascii.eqb c c_minus) eqn:Em.
  - destruct (parse_unsigned_dec r) as [q|] eqn:P; [|reflexivity]. exfalso.
    destruct (K _ _ P) as [Hf _]. apply Ascii.eqb_eq in Em. subst c.
    assert (X : surely_not_float (c_minus :: r) = false)
      by (apply float_chars_not_surely; [discriminate|cbn [forallb]; rewrite Hf; reflexivity]).
    congruence.
  - destruct (Ascii.eqb c c_plus) eqn:Ep.
    + destruct (parse_unsigned_dec r) as [q|] eqn:P; [|reflexivity]. exfalso.
      destruct (K _ _ P) as [Hf _]. apply Ascii.eqb_eq in Ep. subst c.
      assert (X : surely_not_float (c_plus :: r) = false)
        by (apply float_chars_not_surely; [discriminate|cbn [forallb]; rewrite Hf; reflexivity]).
      congruence.
    + destruct (parse_unsigned_dec (c :: r)) as [q|] eqn:P; [|reflexivity]. exfalso.
      destruct (K _ _ P) as [Hf Hn].
      pose proof (float_chars_not_surely _ Hn Hf). congruence.
Qed.

(* ... and the interval in force afterwards is the one of an init request without a hint *)
Theorem malformed_hint_as_absent : forall configured r,
  ir_hint r = HMalformed -> ka_after_init configured r = Some (ka_after configured None).
Proof. intros configured r H. unfold ka_after_init. rewrite H. reflexivity. Qed.

Example malformed_hint_examples :
  parse_hint (Some (Some (bs "abc"))) = HMalformed /\ parse_hint (Some (Some [])) = HMalformed /\
  parse_hint (Some (Some (bs "0x10"))) = HMalformed /\ parse_hint (Some (Some (bs "1,5"))) = HMalformed /\
  parse_hint (Some (Some (bs "1500"))) = HValue 1500 /\ parse_hint (Some (Some (bs "2e3"))) = HUnmodelled.
Proof. vm_compute. repeat split; reflexivity. Qed.
