(* Proofs/SenderProofs.v — property C13 "keepalive liveness" of the writer loop
   (Model/Sender.v): silence is bounded by the timeout in force, gaps between
   writes are bounded, interval changes take effect at the next write, and
   keepalive lines never disturb the submitted messages. *)
From Coq Require Import String List Ascii NArith ZArith QArith Lqa Bool Lia.
From LS Require Import Model.Bytes Model.Tags Gen.Consts Model.Sender.
Import ListNotations.

Definition last_write_time (out : list wrec) : Q := match rev out with w :: _ => w_time w | [] => 0 end.
(* the timeout the wait preceding the k-th write was started with: that of the previous record, or of the initial wait *)
Fixpoint gaps_ok (prev_time : Q) (prev_next : option Q) (out : list wrec) : Prop :=
  match out with
  | [] => True
  | w :: r =>
      0 <= w_time w - prev_time /\
      (match prev_next with Some T => w_time w - prev_time <= T | None => True end) /\
      (match w_kind w with
       | WTimeout => match prev_next with Some T => w_time w - prev_time == T /\ 0 < T | None => False end
       | _ => True
       end) /\
      gaps_ok (w_time w) (w_next w) r
  end.
Fixpoint setks (ls : list slabel) : list Q :=
  match ls with [] => [] | SSetK k :: r => k :: setks r | _ :: r => setks r end.

(* ------------------------------------------------------------------ *)
(* helpers                                                             *)
(* ------------------------------------------------------------------ *)

Definition lastt (t0 : Q) (out : list wrec) : Q :=
  match rev out with w :: _ => w_time w | [] => t0 end.
Definition lastn (n0 : option Q) (out : list wrec) : option Q :=
  match rev out with w :: _ => w_next w | [] => n0 end.

Definition step_ok (pt : Q) (pn : option Q) (w : wrec) : Prop :=
  0 <= w_time w - pt /\
  (match pn with Some T => w_time w - pt <= T | None => True end) /\
  (match w_kind w with
   | WTimeout => match pn with Some T => w_time w - pt == T /\ 0 < T | None => False end
   | _ => True
   end).

Lemma gaps_ok_cons : forall pt pn w r,
  gaps_ok pt pn (w :: r) <-> step_ok pt pn w /\ gaps_ok (w_time w) (w_next w) r.
Proof. intros pt pn w r. cbn [gaps_ok]. unfold step_ok. tauto. Qed.

Lemma lastt_snoc : forall t0 out w, lastt t0 (out ++ [w]) = w_time w.
Proof. intros t0 out w. unfold lastt. rewrite rev_app_distr. reflexivity. Qed.

Lemma lastn_snoc : forall n0 out w, lastn n0 (out ++ [w]) = w_next w.
Proof. intros n0 out w. unfold lastn. rewrite rev_app_distr. reflexivity. Qed.

Lemma lastt_cons : forall t0 a r, lastt t0 (a :: r) = lastt (w_time a) r.
Proof.
  intros t0 a r. unfold lastt. cbn [rev].
  destruct (rev r) as [|x xs]; reflexivity.
Qed.

Lemma lastn_cons : forall n0 a r, lastn n0 (a :: r) = lastn (w_next a) r.
Proof.
  intros n0 a r. unfold lastn. cbn [rev].
  destruct (rev r) as [|x xs]; reflexivity.
Qed.

Lemma gaps_ok_snoc : forall out pt pn w,
  gaps_ok pt pn (out ++ [w]) <-> gaps_ok pt pn out /\ step_ok (lastt pt out) (lastn pn out) w.
Proof.
  induction out as [|a r IH]; intros pt pn w.
  - cbn [app]. rewrite gaps_ok_cons. cbn [gaps_ok]. unfold lastt, lastn. cbn [rev]. tauto.
  - rewrite <- app_comm_cons. rewrite !gaps_ok_cons. rewrite IH.
    rewrite lastt_cons, lastn_cons. tauto.
Qed.

Lemma wait_of_some : forall k T, wait_of k = Some T -> T = k /\ 0 < T.
Proof.
  intros k T H. unfold wait_of, Qpos in H.
  destruct (Qle_bool k 0) eqn:E; cbn [negb] in H; [discriminate|].
  inversion H; subst T. split; [reflexivity|].
  destruct (Qlt_le_dec 0 k) as [Hlt|Hle]; [assumption|].
  apply Qle_bool_iff in Hle. congruence.
Qed.

Lemma wait_of_nonpos : forall k, k <= 0 -> wait_of k = None.
Proof.
  intros k H. unfold wait_of, Qpos. apply Qle_bool_iff in H. rewrite H. reflexivity.
Qed.

(* ------------------------------------------------------------------ *)
(* the main invariant                                                  *)
(* ------------------------------------------------------------------ *)

Definition Inv (k : Q) (s : sst) : Prop :=
  gaps_ok 0 (wait_of k) (ss_out s) /\
  (ss_alive s = true ->
     ss_elapsed s == ss_now s - lastt 0 (ss_out s) /\
     0 <= ss_elapsed s /\
     (match ss_tmo s with Some T => ss_elapsed s <= T /\ 0 < T | None => True end) /\
     ss_tmo s = lastn (wait_of k) (ss_out s)).

Lemma Inv_init : forall k, Inv k (sender_init k).
Proof.
  intros k. unfold Inv, sender_init. cbn [ss_out ss_alive ss_elapsed ss_now ss_tmo gaps_ok].
  split; [exact I|]. intros _. unfold lastt, lastn. cbn [rev].
  split; [lra|]. split; [lra|]. split; [|reflexivity].
  destruct (wait_of k) as [T|] eqn:E; [|exact I].
  apply wait_of_some in E. destruct E as [_ E]. split; lra.
Qed.

Lemma Inv_write : forall k s kind from line,
  Inv k s -> ss_alive s = true ->
  (kind = WTimeout -> exists T, ss_tmo s = Some T /\ ss_elapsed s == T) ->
  Inv k (write s kind from line).
Proof.
  intros k s kind from line [Hg Ha] Halive Hk.
  destruct (Ha Halive) as [He [H0 [Hb Hn]]].
  unfold Inv, write. cbn [ss_out ss_alive ss_elapsed ss_now ss_tmo].
  split.
  - apply gaps_ok_snoc. split; [assumption|].
    unfold step_ok. cbn [w_time w_kind w_next]. rewrite <- Hn.
    split; [lra|]. split.
    + destruct (ss_tmo s) as [T|]; [|exact I]. lra.
    + destruct kind; try exact I.
      destruct (Hk eq_refl) as [T [HT HeT]]. rewrite HT in *. split; lra.
  - intros _. rewrite lastt_snoc, lastn_snoc. cbn [w_time w_next].
    split; [lra|]. split; [lra|]. split; [|reflexivity].
    destruct (wait_of (ss_k s)) as [T|] eqn:E; [|exact I].
    apply wait_of_some in E. destruct E as [_ E]. split; lra.
Qed.

Lemma Inv_dead : forall k s s',
  Inv k s -> ss_out s' = ss_out s -> ss_alive s' = false -> Inv k s'.
Proof.
  intros k s s' [Hg _] Ho Hd. unfold Inv. rewrite Ho, Hd. split; [assumption|]. discriminate.
Qed.

Lemma some_inj : forall (A : Type) (a b : A), Some a = Some b -> a = b.
Proof. intros A a b H. congruence. Qed.

Lemma Inv_step : forall k s l s', Inv k s -> sstep s l = Some s' -> Inv k s'.
Proof.
  intros k s l s' HI H. unfold sstep in H.
  destruct (ss_alive s) eqn:Halive; simpl negb in H.
  - destruct l as [d| |p m|q].
    + destruct (Qle_bool 0 d) eqn:Hd; simpl andb in H; [|discriminate].
      apply Qle_bool_iff in Hd.
      destruct HI as [Hg Ha]. destruct (Ha Halive) as [He [H0 [Hb Hn]]].
      destruct (ss_tmo s) as [T|] eqn:HT.
      * destruct (Qle_bool (ss_elapsed s + d) T) eqn:HdT; [|discriminate].
        apply Qle_bool_iff in HdT.
        apply some_inj in H; subst s'. unfold Inv.
        generalize (Qred_correct (ss_elapsed s + d)) (Qred_correct (ss_now s + d)).
        generalize (Qred (ss_elapsed s + d)) (Qred (ss_now s + d)). intros e n Hr1 Hr2.
        cbn [ss_out ss_alive ss_elapsed ss_now ss_tmo].
        split; [assumption|]. intros _.
        split; [lra|]. split; [lra|]. split; [|assumption]. split; lra.
      * apply some_inj in H; subst s'. unfold Inv.
        generalize (Qred_correct (ss_elapsed s + d)) (Qred_correct (ss_now s + d)).
        generalize (Qred (ss_elapsed s + d)) (Qred (ss_now s + d)). intros e n Hr1 Hr2.
        cbn [ss_out ss_alive ss_elapsed ss_now ss_tmo].
        split; [assumption|]. intros _.
        split; [lra|]. split; [lra|]. split; [exact I|assumption].
    + destruct (ss_tmo s) as [T|] eqn:HT; [|discriminate].
      destruct (Qeq_bool (ss_elapsed s) T) eqn:HeT; [|discriminate].
      apply Qeq_bool_iff in HeT.
      inversion H; subst s'; clear H.
      apply Inv_write; [assumption|assumption|].
      intros _. exists T. split; assumption.
    + destruct m as [m|].
      * destruct (bytes_eqb m stop_pill).
        { inversion H; subst s'; clear H. eapply Inv_dead; [eassumption| |]; reflexivity. }
        destruct (bytes_eqb m keepalive_pill);
          inversion H; subst s'; clear H;
          (apply Inv_write; [assumption|assumption|discriminate]).
      * inversion H; subst s'; clear H.
        apply Inv_write; [assumption|assumption|discriminate].
    + inversion H; subst s'; clear H.
      destruct HI as [Hg Ha]. unfold Inv.
      cbn [ss_out ss_alive ss_elapsed ss_now ss_tmo].
      split; [assumption|]. intros _. apply Ha. assumption.
  - destruct l as [d| |p m|q].
    + destruct (Qle_bool 0 d); [|discriminate].
      inversion H; subst s'; clear H. eapply Inv_dead; [eassumption| |]; reflexivity.
    + discriminate.
    + inversion H; subst s'; clear H. assumption.
    + inversion H; subst s'; clear H. eapply Inv_dead; [eassumption| |]; reflexivity.
Qed.

Lemma Inv_run : forall k ls s s', Inv k s -> srun s ls = Some s' -> Inv k s'.
Proof.
  intros k ls. induction ls as [|l r IH]; intros s s' HI H; cbn [srun] in H.
  - inversion H; subst; assumption.
  - destruct (sstep s l) as [s1|] eqn:E; [|discriminate].
    eapply IH; [|eassumption]. eapply Inv_step; eassumption.
Qed.

(* ------------------------------------------------------------------ *)
(* targets                                                             *)
(* ------------------------------------------------------------------ *)

(* while a wait with timeout T is in progress, the silence so far never exceeds T; the clock is consistent *)
Theorem silence_bounded : forall k ls s,
  srun (sender_init k) ls = Some s -> ss_alive s = true ->
  ss_elapsed s == ss_now s - last_write_time (ss_out s) /\ 0 <= ss_elapsed s /\
  match ss_tmo s with Some T => ss_elapsed s <= T /\ 0 < T | None => True end.
Proof.
  intros k ls s H Ha.
  pose proof (Inv_run k ls _ _ (Inv_init k) H) as [_ HI].
  destruct (HI Ha) as [He [H0 [Hb _]]].
  change (last_write_time (ss_out s)) with (lastt 0 (ss_out s)).
  split; [assumption|]. split; assumption.
Qed.

(* every gap between consecutive writes is bounded by the timeout in force for that wait, and a KEEPALIVE written by
   timeout comes after exactly that timeout of silence *)
Theorem gaps_bounded : forall k ls s,
  srun (sender_init k) ls = Some s -> gaps_ok 0 (wait_of k) (ss_out s).
Proof.
  intros k ls s H.
  pose proof (Inv_run k ls _ _ (Inv_init k) H) as [Hg _]. exact Hg.
Qed.

(* the timeout of each wait is the keepalive value current when the wait began: positive K => Some K *)
Definition KInv (K : list Q) (s : sst) : Prop :=
  In (ss_k s) K /\
  forall w, In w (ss_out s) -> exists k', w_next w = wait_of k' /\ In k' K.

Lemma KInv_mono : forall K K' s, (forall x, In x K -> In x K') -> KInv K s -> KInv K' s.
Proof.
  intros K K' s Hsub [Hk Hw]. split; [auto|].
  intros w Hin. destruct (Hw w Hin) as [k' [E Hk']]. exists k'. split; auto.
Qed.

Lemma KInv_write : forall K s kind from line, KInv K s -> KInv K (write s kind from line).
Proof.
  intros K s kind from line [Hk Hw]. unfold KInv, write. cbn [ss_k ss_out].
  split; [assumption|]. intros w Hin. apply in_app_or in Hin. destruct Hin as [Hin|Hin].
  - apply Hw; assumption.
  - destruct Hin as [Hin|[]]. subst w. cbn [w_next]. exists (ss_k s). split; [reflexivity|assumption].
Qed.

Lemma KInv_step : forall K s l s',
  KInv K s -> sstep s l = Some s' ->
  KInv (K ++ match l with SSetK q => [q] | _ => [] end) s'.
Proof.
  intros K s l s' HI H.
  assert (Hsame : forall s2, ss_k s2 = ss_k s -> ss_out s2 = ss_out s -> KInv K s2).
  { intros s2 E1 E2. destruct HI as [Hk Hw]. unfold KInv. rewrite E1, E2. split; assumption. }
  unfold sstep in H.
  destruct (ss_alive s) eqn:Halive; cbn [negb] in H.
  - destruct l as [d| |p m|q]; try rewrite app_nil_r.
    + destruct (Qle_bool 0 d && _); [|discriminate].
      inversion H; subst s'; clear H. apply Hsame; reflexivity.
    + destruct (ss_tmo s) as [T|]; [|discriminate].
      destruct (Qeq_bool (ss_elapsed s) T); [|discriminate].
      inversion H; subst s'; clear H. apply KInv_write; assumption.
    + destruct m as [m|].
      * destruct (bytes_eqb m stop_pill).
        { inversion H; subst s'; clear H. apply Hsame; reflexivity. }
        destruct (bytes_eqb m keepalive_pill);
          inversion H; subst s'; clear H; apply KInv_write; assumption.
      * inversion H; subst s'; clear H. apply KInv_write; assumption.
    + inversion H; subst s'; clear H. destruct HI as [Hk Hw].
      unfold KInv. cbn [ss_k ss_out]. split.
      * apply in_or_app. right. left. reflexivity.
      * intros w Hin. destruct (Hw w Hin) as [k' [E Hk']]. exists k'.
        split; [assumption|]. apply in_or_app. left. assumption.
  - destruct l as [d| |p m|q]; try rewrite app_nil_r.
    + destruct (Qle_bool 0 d); [|discriminate].
      inversion H; subst s'; clear H. apply Hsame; reflexivity.
    + discriminate.
    + inversion H; subst s'; clear H. assumption.
    + inversion H; subst s'; clear H. destruct HI as [Hk Hw].
      unfold KInv. cbn [ss_k ss_out]. split.
      * apply in_or_app. right. left. reflexivity.
      * intros w Hin. destruct (Hw w Hin) as [k' [E Hk']]. exists k'.
        split; [assumption|]. apply in_or_app. left. assumption.
Qed.

Lemma setks_cons : forall l r,
  setks (l :: r) = match l with SSetK q => [q] | _ => [] end ++ setks r.
Proof. intros l r. destruct l; reflexivity. Qed.

Lemma KInv_run : forall ls K s s',
  KInv K s -> srun s ls = Some s' -> KInv (K ++ setks ls) s'.
Proof.
  induction ls as [|l r IH]; intros K s s' HI H; cbn [srun] in H.
  - inversion H; subst. cbn [setks]. rewrite app_nil_r. assumption.
  - destruct (sstep s l) as [s1|] eqn:E; [|discriminate].
    rewrite setks_cons, app_assoc. eapply IH; [|eassumption].
    eapply KInv_step; eassumption.
Qed.

Theorem wait_is_current_k : forall k ls s w,
  srun (sender_init k) ls = Some s -> In w (ss_out s) ->
  exists k', w_next w = wait_of k' /\ In k' (k :: setks ls).
Proof.
  intros k ls s w H Hin.
  assert (HI : KInv [k] (sender_init k)).
  { unfold KInv, sender_init. cbn [ss_k ss_out]. split; [left; reflexivity|]. intros w' []. }
  pose proof (KInv_run ls _ _ _ HI H) as [_ Hw].
  exact (Hw w Hin).
Qed.

Theorem wait_positive : forall k, (0 < k -> wait_of k = Some k) /\ (k <= 0 -> wait_of k = None).
Proof.
  intros k. split.
  - intros Hk. unfold wait_of, Qpos. destruct (Qle_bool k 0) eqn:E; [|reflexivity].
    apply Qle_bool_iff in E. lra.
  - apply wait_of_nonpos.
Qed.

(* keepalives disabled throughout => no KEEPALIVE by timeout, ever *)
Definition DInv (s : sst) : Prop :=
  ss_k s <= 0 /\ ss_tmo s = None /\ forallb (fun w => negb (is_timeout w)) (ss_out s) = true.

Lemma DInv_write : forall s kind from line,
  DInv s -> kind <> WTimeout -> DInv (write s kind from line).
Proof.
  intros s kind from line [Hk [Ht Hf]] Hkind. unfold DInv, write. cbn [ss_k ss_tmo ss_out].
  split; [assumption|]. split; [apply wait_of_nonpos; assumption|].
  rewrite forallb_app, Hf. cbn [forallb andb]. unfold is_timeout. cbn [w_kind].
  destruct kind; try reflexivity. congruence.
Qed.

Lemma DInv_run : forall ls s s',
  DInv s -> Forall (fun k' => k' <= 0) (setks ls) -> srun s ls = Some s' -> DInv s'.
Proof.
  induction ls as [|l r IH]; intros s s' HI HF H; cbn [srun] in H.
  - inversion H; subst; assumption.
  - destruct (sstep s l) as [s1|] eqn:E; [|discriminate].
    rewrite setks_cons in HF. apply Forall_app in HF. destruct HF as [HF1 HF2].
    apply (IH s1 s'); [|assumption|assumption]. clear IH H HF2 s'.
    assert (Hsame : forall s2, ss_k s2 = ss_k s -> ss_tmo s2 = ss_tmo s \/ ss_tmo s2 = None ->
                               ss_out s2 = ss_out s -> DInv s2).
    { intros s2 E1 E2 E3. destruct HI as [Hk [Ht Hf]]. unfold DInv. rewrite E1, E3.
      split; [assumption|]. split; [|assumption]. destruct E2 as [E2|E2]; congruence. }
    unfold sstep in E.
    destruct (ss_alive s) eqn:Halive; cbn [negb] in E.
    + destruct l as [d| |p m|q].
      * destruct (Qle_bool 0 d && _); [|discriminate].
        inversion E; subst s1; clear E. apply Hsame; auto.
      * destruct HI as [_ [Ht _]]. rewrite Ht in E. discriminate.
      * destruct m as [m|].
        -- destruct (bytes_eqb m stop_pill).
           { inversion E; subst s1; clear E. apply Hsame; auto. }
           destruct (bytes_eqb m keepalive_pill);
             inversion E; subst s1; clear E; apply DInv_write; try assumption; discriminate.
        -- inversion E; subst s1; clear E. apply DInv_write; try assumption; discriminate.
      * inversion E; subst s1; clear E. destruct HI as [Hk [Ht Hf]].
        unfold DInv. cbn [ss_k ss_tmo ss_out]. inversion HF1; subst. auto.
    + destruct l as [d| |p m|q].
      * destruct (Qle_bool 0 d); [|discriminate].
        inversion E; subst s1; clear E. apply Hsame; auto.
      * discriminate.
      * inversion E; subst s1; clear E. assumption.
      * inversion E; subst s1; clear E. destruct HI as [Hk [Ht Hf]].
        unfold DInv. cbn [ss_k ss_tmo ss_out]. inversion HF1; subst. auto.
Qed.

Theorem disabled_no_timeout : forall k ls s,
  k <= 0 -> Forall (fun k' => k' <= 0) (setks ls) ->
  srun (sender_init k) ls = Some s -> forallb (fun w => negb (is_timeout w)) (ss_out s) = true.
Proof.
  intros k ls s Hk HF H.
  assert (HI : DInv (sender_init k)).
  { unfold DInv, sender_init. cbn [ss_k ss_tmo ss_out forallb].
    split; [assumption|]. split; [apply wait_of_nonpos; assumption|reflexivity]. }
  pose proof (DInv_run ls _ _ HI HF H) as [_ [_ Hf]]. exact Hf.
Qed.

(* an interval change takes effect at the next write: the wait started by a write uses the latest value set before it *)
Theorem change_takes_effect : forall k ls s p m k' s1 s2,
  srun (sender_init k) ls = Some s -> ss_alive s = true ->
  sstep s (SSetK k') = Some s1 -> sstep s1 (SPut p (Some m)) = Some s2 -> ss_alive s2 = true ->
  ss_tmo s2 = wait_of k' /\ ss_elapsed s2 == 0.
Proof.
  intros k ls s p m k' s1 s2 _ Halive H1 H2 Ha2.
  unfold sstep in H1. rewrite Halive in H1. cbn [negb] in H1.
  inversion H1; subst s1; clear H1.
  unfold sstep in H2. cbn [ss_alive negb] in H2.
  destruct (bytes_eqb m stop_pill).
  - inversion H2; subst s2. cbn [ss_alive] in Ha2. discriminate.
  - destruct (bytes_eqb m keepalive_pill);
      inversion H2; subst s2; clear H2; unfold write; cbn [ss_tmo ss_elapsed ss_k];
      (split; [reflexivity|lra]).
Qed.

(* keepalive lines never split, reorder or replace other messages *)
Definition pl (w : wrec) : nat * bytes := (w_from w, w_line w).

Lemma msgs_write : forall s kind from line,
  map pl (filter is_msg (ss_out (write s kind from line))) =
  map pl (filter is_msg (ss_out s)) ++
  match kind with WMsg => [(from, line)] | _ => [] end.
Proof.
  intros s kind from line. unfold write. cbn [ss_out].
  rewrite filter_app, map_app. f_equal.
  cbn [filter]. unfold is_msg. cbn [w_kind]. destruct kind; reflexivity.
Qed.

Lemma lines_run : forall ls s s',
  srun s ls = Some s' ->
  map pl (filter is_msg (ss_out s')) =
  map pl (filter is_msg (ss_out s)) ++ (if ss_alive s then submitted ls else []).
Proof.
  induction ls as [|l r IH]; intros s s' H; cbn [srun] in H.
  - inversion H; subst. cbn [submitted]. destruct (ss_alive s'); rewrite app_nil_r; reflexivity.
  - destruct (sstep s l) as [s1|] eqn:E; [|discriminate].
    rewrite (IH s1 s' H). clear IH H.
    unfold sstep in E.
    destruct (ss_alive s) eqn:Halive; cbn [negb] in E.
    + destruct l as [d| |p m|q].
      * destruct (Qle_bool 0 d && _); [|discriminate].
        inversion E; subst s1; clear E. reflexivity.
      * destruct (ss_tmo s) as [T|]; [|discriminate].
        destruct (Qeq_bool (ss_elapsed s) T); [|discriminate].
        inversion E; subst s1; clear E. rewrite msgs_write, app_nil_r. reflexivity.
      * destruct m as [m|].
        -- cbn [submitted].
           destruct (bytes_eqb m stop_pill).
           { inversion E; subst s1; clear E. reflexivity. }
           destruct (bytes_eqb m keepalive_pill);
             inversion E; subst s1; clear E; rewrite msgs_write.
           ++ rewrite app_nil_r. reflexivity.
           ++ rewrite <- app_assoc. reflexivity.
        -- inversion E; subst s1; clear E. rewrite msgs_write, app_nil_r. reflexivity.
      * inversion E; subst s1; clear E. reflexivity.
    + destruct l as [d| |p m|q].
      * destruct (Qle_bool 0 d); [|discriminate].
        inversion E; subst s1; clear E. reflexivity.
      * discriminate.
      * inversion E; subst s1; clear E. rewrite Halive. reflexivity.
      * inversion E; subst s1; clear E. reflexivity.
Qed.

Theorem lines_intact : forall k ls s,
  srun (sender_init k) ls = Some s ->
  map (fun w => (w_from w, w_line w)) (filter is_msg (ss_out s)) = submitted ls.
Proof.
  intros k ls s H. apply lines_run in H. exact H.
Qed.

Theorem wire_is_lines : forall out, wire_of out = flat_map (fun w => w_line w ++ crlf_) out.
Proof. intros out. reflexivity. Qed.

Definition NInv (s : sst) : Prop :=
  forall w, In w (ss_out s) -> is_msg w = false -> w_line w = keepalive_line.

Lemma NInv_write : forall s kind from line,
  NInv s -> (kind <> WMsg -> line = keepalive_line) -> NInv (write s kind from line).
Proof.
  intros s kind from line HI Hk. unfold NInv, write. cbn [ss_out].
  intros w Hin Hm. apply in_app_or in Hin. destruct Hin as [Hin|Hin].
  - apply HI; assumption.
  - destruct Hin as [Hin|[]]. subst w. unfold is_msg in Hm. cbn [w_kind w_line] in *.
    apply Hk. destruct kind; congruence.
Qed.

Lemma NInv_run : forall ls s s', NInv s -> srun s ls = Some s' -> NInv s'.
Proof.
  induction ls as [|l r IH]; intros s s' HI H; cbn [srun] in H.
  - inversion H; subst; assumption.
  - destruct (sstep s l) as [s1|] eqn:E; [|discriminate].
    apply (IH s1 s'); [|assumption]. clear IH H s'.
    unfold sstep in E.
    destruct (ss_alive s) eqn:Halive; cbn [negb] in E.
    + destruct l as [d| |p m|q].
      * destruct (Qle_bool 0 d && _); [|discriminate].
        inversion E; subst s1; clear E. exact HI.
      * destruct (ss_tmo s) as [T|]; [|discriminate].
        destruct (Qeq_bool (ss_elapsed s) T); [|discriminate].
        inversion E; subst s1; clear E. apply NInv_write; auto.
      * destruct m as [m|].
        -- destruct (bytes_eqb m stop_pill).
           { inversion E; subst s1; clear E. exact HI. }
           destruct (bytes_eqb m keepalive_pill);
             inversion E; subst s1; clear E; apply NInv_write; auto.
           intros Hne. exfalso. apply Hne. reflexivity.
        -- inversion E; subst s1; clear E. apply NInv_write; auto.
      * inversion E; subst s1; clear E. exact HI.
    + destruct l as [d| |p m|q].
      * destruct (Qle_bool 0 d); [|discriminate].
        inversion E; subst s1; clear E. exact HI.
      * discriminate.
      * inversion E; subst s1; clear E. assumption.
      * inversion E; subst s1; clear E. exact HI.
Qed.

Theorem non_msg_is_keepalive : forall k ls s w,
  srun (sender_init k) ls = Some s -> In w (ss_out s) -> is_msg w = false -> w_line w = keepalive_line.
Proof.
  intros k ls s w H. revert w.
  apply (NInv_run ls (sender_init k) s); [|assumption].
  intros w [].
Qed.

Print Assumptions silence_bounded.
Print Assumptions gaps_bounded.
Print Assumptions wait_is_current_k.
Print Assumptions wait_positive.
Print Assumptions disabled_no_timeout.
Print Assumptions change_takes_effect.
Print Assumptions lines_intact.
Print Assumptions wire_is_lines.
Print Assumptions non_msg_is_keepalive.
