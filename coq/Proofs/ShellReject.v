(* Proofs/ShellReject.v — the server-level clause of C09 in the connection-level model:
   a malformed request of a known method, read after initialization, is rejected like a
   protocol error (handler only) and the following lines of the same chunk are still
   dispatched. *)
From Coq Require Import String List Ascii NArith ZArith Bool Lia.
From LS Require Import Model.Bytes Model.Tags Model.AriReply Model.Shell Model.ShellSpec Proofs.ShellStart.
Import ListNotations.

Theorem malformed_request_rejected : forall s rid,
  sh_init_expected s = false ->
  let s' := settle s [LcReq rid false true] in
  quiet_fields s s' /\
  (match sh_handler s with
   | HNone => sh_hist s' = sh_hist s ++ [EHand ThReader] /\ sh_rpc s' = (if is_data s then RFalPut else (if sh_stop s then RDead else RRecv)) \/
              sh_hist s' = sh_hist s ++ [EHand ThReader; EReaderEnd]
   | HRet _ _ => sh_hist s' = sh_hist s /\ sh_rpc s' = RHandY
   end).
Proof.
  intros s rid Hie. cbn [settle]. rewrite Hie. cbn [negb]. apply reject_spec.
Qed.

(* a line of an unknown method is skipped silently: nothing at all changes but the position in the chunk *)
Theorem unknown_method_skipped : forall s rid wf rest,
  sh_init_expected s = false ->
  settle s (LcReq rid wf false :: rest) = settle s rest.
Proof. intros s rid wf rest Hie. cbn [settle]. rewrite Hie. reflexivity. Qed.

(* garbage lines likewise *)
Theorem garbage_skipped : forall s rest, settle s (LcGarbage :: rest) = settle s rest.
Proof. intros. reflexivity. Qed.

(* service continues: with no handler installed on a Metadata server (default handling = log and go on) the
   remaining lines of the chunk are dispatched from a state that differs from s by the handler record only *)
Theorem malformed_then_rest_meta : forall s rid rest,
  sh_init_expected s = false -> is_data s = false -> sh_handler s = HNone ->
  settle s (LcReq rid false true :: rest) = settle (slog s [EHand ThReader]) rest.
Proof.
  intros s rid rest Hie Hd Hh. cbn [settle]. rewrite Hie. cbn [negb].
  unfold reader_hand. rewrite Hh, Hd. reflexivity.
Qed.

Print Assumptions malformed_request_rejected.
Print Assumptions unknown_method_skipped.
Print Assumptions garbage_skipped.
Print Assumptions malformed_then_rest_meta.
