(* Proofs/ItemMonB.v — property monitors over the ghost history of the item LTS:
     eos_ok               (C17: the library's own end-of-snapshot),
     nested_ok            (C03: events sent from inside subscribe() carry its id),
     notif_ids_published  (C03: every notification carries a published id),
   plus notif_lines (every notification line is the encoding of (item, id, event))
   and published_not_skipped (an id is never published for a skipped subscription).

   Method: one abstraction lemma (step_abs) reduces every step of the LTS, under
   the assembled invariant Inv, to a transition of the program counter of THE
   in-loop job (pcstep), a transition of an adapter thread (lstep), a background
   event, or the creation of a job.  Each monitor is then a small automaton
   (check / next-state functions) linked to the program counter. *)
From Coq Require Import String List Ascii NArith ZArith Bool Arith Lia.
From LS Require Import Model.Bytes Model.Tags Gen.Consts Model.Codec Model.Writers Model.AriReply
  Model.Item Model.ItemSpec.
From LS Require Proofs.ItemStruct Proofs.ItemFifo Proofs.ItemCode Proofs.ItemLso.
From LS Require Import Proofs.ItemInv.
Import ListNotations.

Opaque error_reply write_update_map write_eos write_cls void_reply.

(* ================================================================== *)
(* 1. The program counter of the job in the loop                        *)
(* ================================================================== *)

Definition cur_pc (s : istate) : pc :=
  match find inloop (s_dqs s) with Some d => d_pc d | None => PDone end.

Lemma cur_pc_at s j d :
  inv_single s = true -> nth_error (s_dqs s) j = Some d -> inloop d = true ->
  cur_pc s = d_pc d.
Proof.
  intros Hs Hd Hi. unfold cur_pc.
  pose proof (ItemLso.find_upd_uniq _ _ _ d (ItemLso.single_le _ Hs) Hd Hi) as Hf.
  rewrite (ItemLso.upd_same _ _ _ Hd), Hi in Hf. rewrite Hf. reflexivity.
Qed.

Lemma inhand_cur s : inv_single s = true -> inhand s = inhand_pc (cur_pc s).
Proof.
  intros Hs. unfold cur_pc.
  destruct (find inloop (s_dqs s)) as [d|] eqn:Hf.
  - apply find_some in Hf. destruct Hf as [Hin Hi].
    apply In_nth_error in Hin. destruct Hin as [j Hd].
    apply (ItemFifo.inhand_at _ _ _ Hs Hd Hi).
  - rewrite ItemFifo.inhand_unfold. apply ItemFifo.count0_hand.
    pose proof (ItemLso.single_le _ Hs) as Hle.
    destruct (count_inloop (s_dqs s)) as [|n] eqn:Hc; [reflexivity|].
    exfalso. clear Hle. revert Hf Hc. generalize (s_dqs s) as l.
    induction l as [|x r IH]; simpl; [discriminate|].
    destruct (inloop x); [discriminate|]. simpl. intros Hf Hc. apply (IH Hf Hc).
Qed.

(* ================================================================== *)
(* 2. Abstract transitions                                              *)
(* ================================================================== *)

(* transitions of the in-loop job j from state s: old pc, new pc (PDone when it
   leaves the loop), events logged *)
Inductive pcstep (s : istate) (j : nat) : pc -> pc -> list event -> Prop :=
| ps_start : pcstep s j PQueued PTop []
| ps_empty : pcstep s j PTop PDone []
| ps_pop_sub t : In t (deque_tasks s) -> pcstep s j PTop (PSetCode t) []
| ps_pop_late t : In t (deque_tasks s) -> pcstep s j PTop (PLate t) [ESkip t]
| ps_pop_usb t : In t (deque_tasks s) -> pcstep s j PTop (PUsbB t) []
| ps_pop_usblate t : In t (deque_tasks s) -> pcstep s j PTop (PUsbLate t) []
| ps_setcode t : pcstep s j (PSetCode t) (PSnapB t) [ESetCode t]
| ps_eosread t : pcstep s j (PEosRead t) (PEosPut t (Some (t_rid t))) [ELisB OLib LEos]
| ps_nestread_sub t k :
    pcstep s j (PNestRead t true k) (PNestPut t true k (Some (t_rid t))) []
| ps_nestread_fwd t k rid :
    hist_code (s_hist s) = Some rid ->
    pcstep s j (PNestRead t false k) (PNestPut t false k (Some rid)) []
| ps_nestread_drop t k :
    pcstep s j (PNestRead t false k) (PInUsb t) [ELisDropped (ONested j) k]
| ps_clear : pcstep s j PClear PTop [EClearCode]
| ps_late_put t line : pcstep s j (PLate t) PTop [EReply t line]
| ps_eosput t c line :
    hist_code (s_hist s) = Some (t_rid t) ->
    notif_line (s_item s) (t_rid t) LEos = WOk line ->
    pcstep s j (PEosPut t c) (PSubB t) [ENotif OLib LEos (t_rid t) line]
| ps_nestput_sub t k c line :
    hist_code (s_hist s) = Some (t_rid t) ->
    notif_line (s_item s) (t_rid t) k = WOk line ->
    pcstep s j (PNestPut t true k c) (PInSub t) [ENotif (ONested j) k (t_rid t) line]
| ps_nestput_usb t k rid line :
    notif_line (s_item s) rid k = WOk line ->
    pcstep s j (PNestPut t false k (Some rid)) (PInUsb t) [ENotif (ONested j) k rid line]
| ps_reply_sub t o line : pcstep s j (PReply t o) PTop [EReply t line]
| ps_reply_usb t o line : pcstep s j (PReply t o) PClear [EReply t line]
| ps_usblate t line : pcstep s j (PUsbLate t) PClear [EReply t line]
| ps_snapb t : pcstep s j (PSnapB t) (PSnapE t) [ECallB KSnap t]
| ps_subb t : pcstep s j (PSubB t) (PInSub t) [ECallB KSub t]
| ps_usbb t : pcstep s j (PUsbB t) (PInUsb t) [ECallB KUsb t]
| ps_snape_eos t : pcstep s j (PSnapE t) (PEosRead t) [ECallE KSnap t (CRet true)]
| ps_snape_noeos t : pcstep s j (PSnapE t) (PSubB t) [ECallE KSnap t (CRet false)]
| ps_snape_raise t e : pcstep s j (PSnapE t) (PReply t (CRaise e)) [ECallE KSnap t (CRaise e)]
| ps_insub_e t o : pcstep s j (PInSub t) (PReply t o) [ECallE KSub t o]
| ps_inusb_e t o : pcstep s j (PInUsb t) (PReply t o) [ECallE KUsb t o]
| ps_nest_sub t k : pcstep s j (PInSub t) (PNestRead t true k) [ELisB (ONested j) k]
| ps_nest_usb t k : pcstep s j (PInUsb t) (PNestRead t false k) [ELisB (ONested j) k].

(* transitions of adapter thread l: new lpc, events *)
Inductive lstep (s : istate) (l : nat) : lpc -> list event -> Prop :=
| ls_begin k : lstep s l (LRead k) [ELisB (OFree l) k]
| ls_read k rid :
    hist_code (s_hist s) = Some rid -> lstep s l (LPutS k (Some rid)) []
| ls_drop k : lstep s l LIdle [ELisDropped (OFree l) k]
| ls_put k rid line :
    nth_error (s_lis s) l = Some (LPutS k (Some rid)) ->
    notif_line (s_item s) rid k = WOk line ->
    lstep s l LIdle [ENotif (OFree l) k rid line].

(* events of steps that touch neither a job in the loop nor an adapter thread *)
Inductive bgev : list event -> Prop :=
| bg_nil : bgev []
| bg_arr t : bgev [EArr t]
| bg_drop t : bgev [EArrDropped t]
| bg_del : bgev [EDel].

Definition lis_upd (s s' : istate) (l : nat) (p' : lpc) : Prop :=
  forall l' q, nth_error (s_lis s') l' = Some q ->
    (l' = l /\ q = p') \/ nth_error (s_lis s) l' = Some q.

Inductive absstep (s s' : istate) : Prop :=
| as_job j p' es :
    pcstep s j (cur_pc s) p' es -> s_hist s' = s_hist s ++ es -> cur_pc s' = p' ->
    s_lis s' = s_lis s -> absstep s s'
| as_bg es :
    bgev es -> s_hist s' = s_hist s ++ es -> cur_pc s' = cur_pc s ->
    s_lis s' = s_lis s -> absstep s s'
| as_spawn :
    cur_pc s = PDone -> cur_pc s' = PQueued -> s_hist s' = s_hist s ->
    s_lis s' = s_lis s -> absstep s s'
| as_lis l p' es :
    lstep s l p' es -> s_hist s' = s_hist s ++ es -> cur_pc s' = cur_pc s ->
    lis_upd s s' l p' -> absstep s s'.

Lemma abs_job s s' j d d' es :
  inv_single s = true -> nth_error (s_dqs s) j = Some d -> inloop d = true ->
  s_dqs s' = upd j d' (s_dqs s) -> s_hist s' = s_hist s ++ es -> s_lis s' = s_lis s ->
  pcstep s j (d_pc d) (if inloop d' then d_pc d' else PDone) es ->
  absstep s s'.
Proof.
  intros Hs Hd Hi Hdq Hh Hl Hp.
  eapply as_job with (j := j) (es := es);
    [rewrite (cur_pc_at _ _ _ Hs Hd Hi); exact Hp | exact Hh | | exact Hl].
  unfold cur_pc.
  rewrite Hdq, (ItemLso.find_upd_uniq _ _ _ d' (ItemLso.single_le _ Hs) Hd Hi).
  destruct (inloop d'); reflexivity.
Qed.

Ltac abs_job_tac s j d :=
  match goal with
  | Hsingle : inv_single s = true, Hd : nth_error (s_dqs s) j = Some d, Hi : inloop d = true |- _ =>
      eapply (abs_job s _ j d);
      [exact Hsingle|exact Hd|exact Hi|reflexivity
      |first [reflexivity | symmetry; apply app_nil_r]
      |reflexivity
      |]
  end.

Ltac start_abs HI H :=
  let Hinv := fresh "Hinv" in
  pose proof (Inv_all _ HI) as Hinv; ItemLso.split_inv Hinv.

Lemma abs_JobStart s j s' : Inv s -> step_JobStart s j = Some s' -> absstep s s'.
Proof.
  intros HI H. start_abs HI H. unfold step_JobStart in H.
  ItemLso.job_prelude H s j d m; inversion H; subst; clear H.
  abs_job_tac s j d. rewrite Hpc. cbn. constructor.
Qed.

Lemma abs_CallB s j s' : Inv s -> step_CallB s j = Some s' -> absstep s s'.
Proof.
  intros HI H. start_abs HI H. unfold step_CallB in H.
  ItemLso.job_prelude H s j d m; inversion H; subst; clear H;
    abs_job_tac s j d; rewrite Hpc; cbn; constructor.
Qed.

Lemma abs_CallE s j o s' : Inv s -> step_CallE s j o = Some s' -> absstep s s'.
Proof.
  intros HI H. start_abs HI H. unfold step_CallE in H.
  ItemLso.job_prelude H s j d m; inversion H; subst; clear H;
    abs_job_tac s j d; rewrite Hpc.
  - destruct o as [[|]|e]; cbn; constructor.
  - cbn; constructor.
  - cbn; constructor.
Qed.

Lemma abs_Nest s j k s' : Inv s -> step_Nest s j k = Some s' -> absstep s s'.
Proof.
  intros HI H. start_abs HI H. unfold step_Nest in H.
  ItemLso.job_prelude H s j d m; inversion H; subst; clear H;
    abs_job_tac s j d; rewrite Hpc; cbn; constructor.
Qed.

Lemma abs_LockI s j s' : Inv s -> step_LockI s j = Some s' -> absstep s s'.
Proof.
  intros HI H. start_abs HI H. unfold step_LockI in H.
  ItemLso.job_prelude H s j d m.
  assert (Hdq : deque_tasks s = m_deq m).
  { unfold deque_tasks. rewrite (ItemLso.active_mgr_at _ _ Ha), Hm. reflexivity. }
  destruct (m_deq m) as [|t rest] eqn:Hdeq.
  - inversion H; subst; clear H. abs_job_tac s j d. rewrite Hpc. cbn. constructor.
  - assert (Hin : In t (deque_tasks s)) by (rewrite Hdq; left; reflexivity).
    destruct (t_sub t) eqn:Hsub; [destruct rest as [|t2 rest2]|];
      cbn [is_nil negb andb] in H.
    + inversion H; subst; clear H. abs_job_tac s j d. rewrite Hpc. cbn. constructor. exact Hin.
    + inversion H; subst; clear H. abs_job_tac s j d. rewrite Hpc. cbn. constructor. exact Hin.
    + destruct (if Z.eqb (d_dequeued d) 0 then m_last_ok m else d_lso d) eqn:Elso;
        inversion H; subst; clear H; abs_job_tac s j d; rewrite Hpc; cbn; constructor; exact Hin.
Qed.

Lemma code_eq s j d :
  inv_code s = true -> nth_error (s_dqs s) j = Some d ->
  active_code s = hist_code (s_hist s) /\ pc_code_ok (active_code s) (d_pc d) = true.
Proof.
  intros Hc Hd. split.
  - apply (proj1 (ItemCode.inv_code_elim _ Hc)).
  - apply (ItemCode.inv_code_job _ _ _ Hc Hd).
Qed.

Lemma abs_Put s j s' : Inv s -> step_Put s j = Some s' -> absstep s s'.
Proof.
  intros HI H. start_abs HI H. unfold step_Put in H.
  destruct (nth_error (s_dqs s) j) as [d|] eqn:Hd; try discriminate H.
  destruct (code_eq _ _ _ Hcode Hd) as [Hac Hok].
  destruct (d_pc d) eqn:Hpc; try discriminate H;
    ItemLso.get_inloop d Hpc Hi; cbv beta iota zeta in H.
  - (* PLate *)
    destruct (reply_line t (error_reply MSUB late_exn)) as [line|]; [|discriminate].
    inversion H; subst; clear H. abs_job_tac s j d. rewrite Hpc. cbn. constructor.
  - (* PEosPut *)
    destruct (listener_put s OLib LEos c) as [s1|] eqn:Hl; [|discriminate].
    inversion H; subst; clear H.
    unfold listener_put in Hl.
    destruct (live c) as [rid|] eqn:Hlv; [|discriminate].
    destruct (notif_line (s_item s) rid LEos) as [line|e] eqn:Hnl; [|discriminate].
    inversion Hl; subst; clear Hl.
    cbn [pc_code_ok] in Hok. apply andb_true_iff in Hok. destruct Hok as [Hok1 Hok2].
    apply ItemCode.obytes_eqb_true in Hok1. apply ItemCode.obytes_eqb_true in Hok2.
    apply ItemCode.live_some in Hlv. destruct Hlv as [Hc _]. rewrite Hc in Hok2.
    injection Hok2 as ->.
    abs_job_tac s j d. rewrite Hpc. cbn. constructor; [congruence|exact Hnl].
  - (* PNestPut *)
    destruct (listener_put s (ONested j) k c) as [s1|] eqn:Hl; [|discriminate].
    inversion H; subst; clear H.
    unfold listener_put in Hl.
    destruct (live c) as [rid|] eqn:Hlv; [|discriminate].
    destruct (notif_line (s_item s) rid k) as [line|e] eqn:Hnl; [|discriminate].
    inversion Hl; subst; clear Hl.
    apply ItemCode.live_some in Hlv. destruct Hlv as [Hc _]. subst c.
    destruct insub.
    + cbn [pc_code_ok] in Hok. apply andb_true_iff in Hok. destruct Hok as [Hok1 Hok2].
      apply ItemCode.obytes_eqb_true in Hok1. apply ItemCode.obytes_eqb_true in Hok2.
      injection Hok2 as ->.
      abs_job_tac s j d. rewrite Hpc. cbn. constructor; [congruence|exact Hnl].
    + abs_job_tac s j d. rewrite Hpc. cbn. constructor. exact Hnl.
  - (* PReply *)
    destruct (reply_line t (outcome_payload t o)) as [line|]; [|discriminate].
    inversion H; subst; clear H. abs_job_tac s j d. rewrite Hpc.
    destruct (t_sub t); cbn; constructor.
  - (* PUsbLate *)
    destruct (reply_line t (WOk (void_reply MUSB))) as [line|]; [|discriminate].
    inversion H; subst; clear H. abs_job_tac s j d. rewrite Hpc. cbn. constructor.
Qed.

Lemma abs_LockM s j s' : Inv s -> step_LockM s j = Some s' -> absstep s s'.
Proof.
  intros HI H. start_abs HI H. unfold step_LockM in H.
  destruct (nth_error (s_dqs s) j) as [d|] eqn:Hd; try discriminate H.
  destruct (code_eq _ _ _ Hcode Hd) as [Hac Hok].
  pose proof (ItemCode.rids_code_nonempty _ Hrids) as Hne.
  destruct (d_pc d) eqn:Hpc; try discriminate H.
  5: { (* PDec *)
    assert (Hl : live_dq d = true) by (unfold live_dq; rewrite Hpc; reflexivity).
    assert (Hi : inloop d = false) by (unfold inloop; rewrite Hpc; reflexivity).
    destruct (ItemLso.gen_live _ _ _ Hgen Hd Hl) as [Ha [m Hm]].
    rewrite Hm in H. cbv beta iota zeta in H.
    match type of H with (if ?c then _ else _) = _ => destruct c end;
      inversion H; subst; clear H.
    - apply as_bg with (es := [EDel]); [constructor|reflexivity| |reflexivity].
      unfold cur_pc. cbn [s_dqs log set_dq set_mgr].
      rewrite (ItemLso.find_upd_out _ _ _ (with_pc d PDone) Hd Hi eq_refl). reflexivity.
    - apply as_bg with (es := []); [constructor|symmetry; apply app_nil_r| |reflexivity].
      unfold cur_pc. cbn [s_dqs log set_dq set_mgr].
      rewrite (ItemLso.find_upd_out _ _ _ (with_pc d PDone) Hd Hi eq_refl). reflexivity. }
  all: ItemLso.get_inloop d Hpc Hi;
    destruct (ItemLso.gen_live _ _ _ Hgen Hd (ItemLso.inloop_live _ Hi)) as [Ha [m Hm]];
    rewrite Hm in H; cbv beta iota zeta in H.
  - (* PSetCode *)
    inversion H; subst; clear H. abs_job_tac s j d. rewrite Hpc. cbn. constructor.
  - (* PEosRead *)
    cbn [pc_code_ok] in Hok. apply ItemCode.obytes_eqb_true in Hok.
    rewrite Hok in H, Hne.
    rewrite ItemCode.live_of_nonempty in H by (intro E; apply Hne; rewrite E; reflexivity).
    inversion H; subst; clear H. abs_job_tac s j d. rewrite Hpc. cbn. constructor.
  - (* PNestRead *)
    destruct insub.
    + cbn [pc_code_ok] in Hok. apply ItemCode.obytes_eqb_true in Hok.
      rewrite Hok in H, Hne.
      rewrite ItemCode.live_of_nonempty in H by (intro E; apply Hne; rewrite E; reflexivity).
      inversion H; subst; clear H. abs_job_tac s j d. rewrite Hpc. cbn. constructor.
    + destruct (live (active_code s)) as [rid|] eqn:Hlv; inversion H; subst; clear H.
      * apply ItemCode.live_some in Hlv. destruct Hlv as [Hc _].
        abs_job_tac s j d. rewrite Hpc, Hc. cbn. constructor. congruence.
      * abs_job_tac s j d. rewrite Hpc. cbn. constructor.
  - (* PClear *)
    inversion H; subst; clear H. abs_job_tac s j d. rewrite Hpc. cbn. constructor.
Qed.

Lemma abs_R1 s t s' : Inv s -> step_R1 s t = Some s' -> absstep s s'.
Proof.
  intros HI H. unfold step_R1 in H.
  ItemLso.destr_H H; inversion H; subst; clear H.
  - apply as_bg with (es := [EArr t]); [constructor|reflexivity|reflexivity|reflexivity].
  - apply as_bg with (es := [EArr t]); [constructor|reflexivity|reflexivity|reflexivity].
  - apply as_bg with (es := [EArrDropped t]); [constructor|reflexivity|reflexivity|reflexivity].
Qed.

Lemma abs_R2 s s' : Inv s -> step_R2 s = Some s' -> absstep s s'.
Proof.
  intros HI H. start_abs HI H. unfold step_R2 in H.
  destruct (s_pending s) as [[t g]|] eqn:Hp; try discriminate.
  destruct (nth_error (s_mgrs s) g) as [m|] eqn:Hm; try discriminate.
  pose proof (ItemLso.gen_pending _ _ _ Hgen Hp) as Ha.
  assert (Hact : active_mgr s = Some m) by (rewrite (ItemLso.active_mgr_at _ _ Ha); exact Hm).
  destruct (m_running m) eqn:Hrun; inversion H; subst; clear H.
  - apply as_bg with (es := []); [constructor|symmetry; apply app_nil_r|reflexivity|reflexivity].
  - pose proof (ItemLso.single_running _ _ Hsingle Hact) as Hr. rewrite Hrun in Hr.
    pose proof (ItemLso.single_le _ Hsingle) as Hle.
    assert (Hc0 : count_inloop (s_dqs s) = 0).
    { symmetry in Hr. apply Nat.eqb_neq in Hr. lia. }
    pose proof (ItemLso.count0_find _ Hc0) as Hf.
    apply as_spawn; try reflexivity.
    + unfold cur_pc. rewrite Hf. reflexivity.
    + unfold cur_pc. cbn [s_dqs set_mgr]. rewrite (ItemLso.find_app_none _ _ _ Hf). reflexivity.
Qed.

Lemma lis_upd_upd s s' l p p' :
  nth_error (s_lis s) l = Some p -> s_lis s' = upd l p' (s_lis s) -> lis_upd s s' l p'.
Proof.
  intros Hl E l' q Hq. rewrite E in Hq.
  destruct (ItemFifo.nth_error_upd_inv _ _ _ _ _ _ Hq) as [[E1 E2]|[_ E2]]; auto.
Qed.

Lemma abs_FreeBegin s l k s' : Inv s -> step_FreeBegin s l k = Some s' -> absstep s s'.
Proof.
  intros HI H. unfold step_FreeBegin in H.
  destruct (nth_error (s_lis s) l) as [p|] eqn:Hl.
  - destruct p; try discriminate. inversion H; subst; clear H.
    apply as_lis with (l := l) (p' := LRead k) (es := [ELisB (OFree l) k]);
      [constructor|reflexivity|reflexivity|].
    eapply lis_upd_upd; [exact Hl|reflexivity].
  - destruct (Nat.eqb l (length (s_lis s))) eqn:E; [|discriminate].
    apply Nat.eqb_eq in E. inversion H; subst; clear H.
    apply as_lis with (l := length (s_lis s)) (p' := LRead k)
                      (es := [ELisB (OFree (length (s_lis s))) k]);
      [constructor|reflexivity|reflexivity|].
    intros l' q Hq. cbn [s_lis log] in Hq.
    destruct (ItemFifo.nth_error_snoc_inv _ _ _ _ _ Hq) as [E1|[E1 E2]]; auto.
Qed.

Lemma abs_FreeLockM s l s' : Inv s -> step_FreeLockM s l = Some s' -> absstep s s'.
Proof.
  intros HI H. start_abs HI H. unfold step_FreeLockM in H.
  destruct (nth_error (s_lis s) l) as [p|] eqn:Hl; [|discriminate].
  destruct p; try discriminate. cbv beta iota zeta in H.
  pose proof (proj1 (ItemCode.inv_code_elim _ Hcode)) as Hac.
  destruct (live (active_code s)) as [rid|] eqn:Hlv; inversion H; subst; clear H.
  - apply ItemCode.live_some in Hlv. destruct Hlv as [Hc _]. rewrite Hc.
    apply as_lis with (l := l) (p' := LPutS k (Some rid)) (es := []);
      [constructor; congruence|symmetry; apply app_nil_r|reflexivity|].
    eapply lis_upd_upd; [exact Hl|reflexivity].
  - apply as_lis with (l := l) (p' := LIdle) (es := [ELisDropped (OFree l) k]);
      [constructor|reflexivity|reflexivity|].
    eapply lis_upd_upd; [exact Hl|reflexivity].
Qed.

Lemma abs_FreePut s l s' : Inv s -> step_FreePut s l = Some s' -> absstep s s'.
Proof.
  intros HI H. unfold step_FreePut in H.
  destruct (nth_error (s_lis s) l) as [p|] eqn:Hl; [|discriminate].
  destruct p; try discriminate.
  destruct (listener_put s (OFree l) k c) as [s1|] eqn:Hp; [|discriminate].
  inversion H; subst; clear H. unfold listener_put in Hp.
  destruct (live c) as [rid|] eqn:Hlv; [|discriminate].
  destruct (notif_line (s_item s) rid k) as [line|e] eqn:Hnl; [|discriminate].
  inversion Hp; subst; clear Hp.
  apply ItemCode.live_some in Hlv. destruct Hlv as [Hc _]. subst c.
  apply as_lis with (l := l) (p' := LIdle) (es := [ENotif (OFree l) k rid line]);
    [econstructor; eassumption|reflexivity|reflexivity|].
  eapply lis_upd_upd; [exact Hl|reflexivity].
Qed.

Lemma step_abs s lb s' : Inv s -> step s lb = Some s' -> absstep s s'.
Proof.
  intros HI H. destruct lb; simpl in H.
  - eapply abs_R1; eauto.
  - eapply abs_R2; eauto.
  - eapply abs_JobStart; eauto.
  - eapply abs_LockI; eauto.
  - eapply abs_LockM; eauto.
  - eapply abs_Put; eauto.
  - eapply abs_CallB; eauto.
  - eapply abs_CallE; eauto.
  - eapply abs_Nest; eauto.
  - eapply abs_FreeBegin; eauto.
  - eapply abs_FreeLockM; eauto.
  - eapply abs_FreePut; eauto.
Qed.

Lemma step_item s lb s' : step s lb = Some s' -> s_item s' = s_item s.
Proof.
  intros H. destruct lb; simpl in H;
    [unfold step_R1 in H|unfold step_R2 in H|unfold step_JobStart in H|unfold step_LockI in H
    |unfold step_LockM in H|unfold step_Put, listener_put in H|unfold step_CallB in H
    |unfold step_CallE in H|unfold step_Nest in H|unfold step_FreeBegin in H
    |unfold step_FreeLockM in H|unfold step_FreePut, listener_put in H];
    ItemLso.destr_H H; inversion H; subst; clear H; try reflexivity.
  all: match goal with |- s_item (if ?b then _ else _) = _ => destruct b; reflexivity end.
Qed.

(* ================================================================== *)
(* 3. Monitors as automata                                              *)
(* ================================================================== *)

Section Automaton.
  Variable St : Type.
  Variable chk : St -> event -> bool.
  Variable next : St -> event -> St.

  Fixpoint run_ok (st : St) (h : list event) : bool :=
    match h with [] => true | e :: r => chk st e && run_ok (next st e) r end.

  Fixpoint run_st (st : St) (h : list event) : St :=
    match h with [] => st | e :: r => run_st (next st e) r end.

  Lemma run_ok_app h es st : run_ok st (h ++ es) = run_ok st h && run_ok (run_st st h) es.
  Proof.
    revert st; induction h as [|e r IH]; intros st; simpl; auto.
    rewrite IH, andb_assoc. reflexivity.
  Qed.

  Lemma run_st_app h es st : run_st st (h ++ es) = run_st (run_st st h) es.
  Proof. revert st; induction h as [|e r IH]; intros st; simpl; auto. Qed.

  (* linking the automaton's state to the pc of the job in the loop *)
  Variable st0 : St.
  Variable rel : pc -> St -> Prop.

  Definition link (s : istate) : Prop :=
    run_ok st0 (s_hist s) = true /\ rel (cur_pc s) (run_st st0 (s_hist s)).

  Hypothesis rel_spawn : forall st, rel PDone st -> rel PQueued st.
  Hypothesis rel_job : forall s j p p' es st,
    pcstep s j p p' es -> rel p st -> run_ok st es = true /\ rel p' (run_st st es).
  Hypothesis rel_bg : forall es st, bgev es -> run_ok st es = true /\ run_st st es = st.
  Hypothesis rel_lis : forall s l p' es st,
    lstep s l p' es -> run_ok st es = true /\ run_st st es = st.

  Lemma link_abs s s' : link s -> absstep s s' -> link s'.
  Proof.
    intros [Hok Hrel] Ha. unfold link.
    destruct Ha as [j p' es Hp Hh Hc Hl|es Hb Hh Hc Hl|Hc Hc' Hh Hl|l p' es Hp Hh Hc Hl].
    - rewrite Hh, run_ok_app, run_st_app, Hok, Hc.
      destruct (rel_job _ _ _ _ _ _ Hp Hrel) as [H1 H2]. rewrite H1. auto.
    - rewrite Hh, run_ok_app, run_st_app, Hok, Hc.
      destruct (rel_bg _ (run_st st0 (s_hist s)) Hb) as [H1 H2]. rewrite H1, H2. auto.
    - rewrite Hh, Hc'. rewrite Hc in Hrel. auto.
    - rewrite Hh, run_ok_app, run_st_app, Hok, Hc.
      destruct (rel_lis _ _ _ _ (run_st st0 (s_hist s)) Hp) as [H1 H2]. rewrite H1, H2. auto.
  Qed.
End Automaton.

Arguments run_ok {St}.
Arguments run_st {St}.

(* induction over reachable states, carrying Inv *)
Lemma reach_ind (P : istate -> Prop) item :
  P (init_state item) ->
  (forall s lb s', Inv s -> P s -> env_ok s lb = true -> step s lb = Some s' -> P s') ->
  forall s, reachable item s -> P s.
Proof.
  intros H0 Hstep s [ls Hr].
  pose proof (Inv_init item) as HI. revert HI H0 Hr.
  generalize (init_state item) as s0. induction ls as [|l ls IH]; intros s0 HI H0 Hr.
  - cbn [run_env] in Hr. inversion Hr; subst; exact H0.
  - cbn [run_env] in Hr. unfold step_env in Hr.
    destruct (env_ok s0 l) eqn:He; [|discriminate].
    destruct (step s0 l) as [s1|] eqn:Hs; [|discriminate].
    apply (IH s1); [eapply Inv_step; eassumption|eapply Hstep; eassumption|exact Hr].
Qed.

Lemma task_eqb_refl t : task_eqb t t = true.
Proof. apply ItemFifo.task_eqb_rfl. Qed.
Lemma bytes_eqb_refl' x : bytes_eqb x x = true.
Proof. apply ItemFifo.bytes_eqb_rfl. Qed.

(* ================================================================== *)
(* 4. eos_ok                                                            *)
(* ================================================================== *)

Definition eos_chk (st : eos_st) (e : event) : bool :=
  match e with
  | ENotif OLib k rid _ =>
      match st, k with EsWant t, LEos => bytes_eqb rid (t_rid t) | _, _ => false end
  | ECallB KSub t =>
      match st with EsGot u | EsNoEos u => task_eqb u t | _ => false end
  | EReply t _ =>
      match st with EsNone => true | EsNoSub u => task_eqb u t | _ => false end
  | _ => true
  end.

Definition eos_next (st : eos_st) (e : event) : eos_st :=
  match e with
  | ECallE KSnap t (CRet true) => EsWant t
  | ECallE KSnap t (CRet false) => EsNoEos t
  | ECallE KSnap t (CRaise _) => EsNoSub t
  | ENotif OLib k rid _ =>
      match st, k with EsWant t, LEos => EsGot t | _, _ => st end
  | ECallB KSub t => EsNone
  | EReply t _ => EsNone
  | _ => st
  end.

Lemma eos_ok_run h : forall st, eos_ok_from st h = run_ok eos_chk eos_next st h.
Proof.
  induction h as [|e r IH]; intros st; [reflexivity|].
  destruct e; cbn [eos_ok_from run_ok eos_chk eos_next]; rewrite <- ?IH; try reflexivity.
  - destruct c; try reflexivity. destruct st; reflexivity.
  - destruct c; try reflexivity. destruct o as [[|]|e]; reflexivity.
  - destruct st; reflexivity.
  - destruct o; try reflexivity. destruct st; try reflexivity. destruct k; reflexivity.
Qed.

Definition eos_rel (p : pc) (st : eos_st) : Prop :=
  match p with
  | PEosRead t | PEosPut t _ => st = EsWant t
  | PSubB t => st = EsGot t \/ st = EsNoEos t
  | PReply t _ => st = EsNone \/ st = EsNoSub t
  | _ => st = EsNone
  end.

Definition inv_eos : istate -> Prop := link eos_st eos_chk eos_next EsNone eos_rel.

Lemma inv_eos_init : forall item, inv_eos (init_state item).
Proof. intros item. split; reflexivity. Qed.

Lemma eos_rel_job s j p p' es st :
  pcstep s j p p' es -> eos_rel p st ->
  run_ok eos_chk eos_next st es = true /\ eos_rel p' (run_st eos_next st es).
Proof.
  intros Hp Hr.
  destruct Hp; cbn [eos_rel] in Hr;
    try (destruct Hr as [Hr|Hr]); subst st;
    cbn [run_ok run_st eos_chk eos_next eos_rel andb];
    rewrite ?task_eqb_refl, ?bytes_eqb_refl'; auto.
Qed.

Lemma inv_eos_step : forall s lb s',
  Inv s -> inv_eos s -> env_ok s lb = true -> step s lb = Some s' -> inv_eos s'.
Proof.
  intros s lb s' HI Hl _ H. unfold inv_eos in *.
  eapply link_abs; [| | | |exact Hl|eapply step_abs; eassumption].
  - intros st Hs; exact Hs.
  - apply eos_rel_job.
  - intros es st Hb. destruct Hb; auto.
  - intros s0 l p' es st Hp. destruct Hp; auto.
Qed.

Lemma inv_eos_ok : forall s, inv_eos s -> eos_ok (s_hist s) = true.
Proof. intros s [H _]. unfold eos_ok. rewrite eos_ok_run. exact H. Qed.

Theorem eos_ok_reachable : forall item s, reachable item s -> eos_ok (s_hist s) = true.
Proof.
  intros item s Hr. apply inv_eos_ok. revert s Hr. apply reach_ind.
  - apply inv_eos_init.
  - intros s lb s' HI Hp He Hs. eapply inv_eos_step; eassumption.
Qed.

(* ================================================================== *)
(* 5. nested_ok                                                         *)
(* ================================================================== *)

Definition nested_chk (st : option task) (e : event) : bool :=
  match e with
  | ENotif (ONested _) _ rid _ =>
      match st with Some t => bytes_eqb rid (t_rid t) | None => true end
  | ELisDropped (ONested _) _ => match st with Some _ => false | None => true end
  | _ => true
  end.

Definition nested_next (st : option task) (e : event) : option task :=
  match e with
  | ECallB KSub t => Some t
  | ECallE KSub _ _ => None
  | _ => st
  end.

Lemma nested_ok_run h : forall st, nested_ok_from st h = run_ok nested_chk nested_next st h.
Proof.
  induction h as [|e r IH]; intros st; [reflexivity|].
  destruct e; cbn [nested_ok_from run_ok nested_chk nested_next]; rewrite <- ?IH; try reflexivity.
  - destruct c; reflexivity.
  - destruct c; reflexivity.
  - destruct o; reflexivity.
  - destruct o; reflexivity.
Qed.

Definition nested_rel (p : pc) (st : option task) : Prop :=
  match p with
  | PInSub t | PNestRead t true _ | PNestPut t true _ _ => st = Some t
  | _ => st = None
  end.

Definition inv_nested : istate -> Prop :=
  link (option task) nested_chk nested_next None nested_rel.

Lemma inv_nested_init : forall item, inv_nested (init_state item).
Proof. intros item. split; reflexivity. Qed.

Lemma nested_rel_job s j p p' es st :
  pcstep s j p p' es -> nested_rel p st ->
  run_ok nested_chk nested_next st es = true /\ nested_rel p' (run_st nested_next st es).
Proof.
  intros Hp Hr.
  destruct Hp; cbn [nested_rel] in Hr; subst st;
    cbn [run_ok run_st nested_chk nested_next nested_rel andb];
    rewrite ?bytes_eqb_refl'; auto.
Qed.

Lemma inv_nested_step : forall s lb s',
  Inv s -> inv_nested s -> env_ok s lb = true -> step s lb = Some s' -> inv_nested s'.
Proof.
  intros s lb s' HI Hl _ H. unfold inv_nested in *.
  eapply link_abs; [| | | |exact Hl|eapply step_abs; eassumption].
  - intros st Hs; exact Hs.
  - apply nested_rel_job.
  - intros es st Hb. destruct Hb; auto.
  - intros s0 l p' es st Hp. destruct Hp; auto.
Qed.

Lemma inv_nested_ok : forall s, inv_nested s -> nested_ok (s_hist s) = true.
Proof. intros s [H _]. unfold nested_ok. rewrite nested_ok_run. exact H. Qed.

Theorem nested_ok_reachable : forall item s, reachable item s -> nested_ok (s_hist s) = true.
Proof.
  intros item s Hr. apply inv_nested_ok. revert s Hr. apply reach_ind.
  - apply inv_nested_init.
  - intros s lb s' HI Hp He Hs. eapply inv_nested_step; eassumption.
Qed.

(* ================================================================== *)
(* 6. notif_ids_published                                               *)
(* ================================================================== *)

Definition nip_chk (P : list bytes) (e : event) : bool :=
  match e with ENotif _ _ rid _ => existsb (bytes_eqb rid) P | _ => true end.

Definition nip_next (P : list bytes) (e : event) : list bytes :=
  match e with ESetCode t => t_rid t :: P | _ => P end.

Lemma nip_run h : forall P,
  (fix go (seen_ : list bytes) (h : list event) : bool :=
     match h with
     | [] => true
     | ESetCode t :: r => go (t_rid t :: seen_) r
     | ENotif _ _ rid _ :: r => existsb (bytes_eqb rid) seen_ && go seen_ r
     | _ :: r => go seen_ r
     end) P h = run_ok nip_chk nip_next P h.
Proof.
  induction h as [|e r IH]; intros P; [reflexivity|].
  destruct e; cbn [run_ok nip_chk nip_next andb]; rewrite <- ?IH; reflexivity.
Qed.

Lemma notif_ids_published_run h : notif_ids_published h = run_ok nip_chk nip_next [] h.
Proof. unfold notif_ids_published. apply nip_run. Qed.

Definition pubs (h : list event) : list bytes := run_st nip_next [] h.

Lemma nip_mono es : forall P r, In r P -> In r (run_st nip_next P es).
Proof.
  induction es as [|e es IH]; intros P r H; [exact H|].
  cbn [run_st]. apply IH. destruct e; cbn [nip_next]; auto. right. exact H.
Qed.

Lemma hist_code_pub h : forall c P,
  (forall r, c = Some r -> In r P) ->
  forall r, hist_code_from c h = Some r -> In r (run_st nip_next P h).
Proof.
  induction h as [|e h IH]; intros c P Hc r Hr; [apply Hc; exact Hr|].
  cbn [run_st].
  destruct e; cbn [hist_code_from nip_next] in *;
    try (apply (IH c P Hc r Hr)).
  - apply (IH (Some (t_rid t)) (t_rid t :: P)); [|exact Hr].
    intros r0 E. injection E as <-. left. reflexivity.
  - apply (IH None P); [|exact Hr]. intros r0 E. discriminate.
Qed.

Lemma hist_code_pubs h r : hist_code h = Some r -> In r (pubs h).
Proof. apply hist_code_pub. intros r0 E. discriminate. Qed.

Lemma existsb_bytes_In r P : In r P -> existsb (bytes_eqb r) P = true.
Proof.
  intros H. apply existsb_exists. exists r. split; [exact H|apply bytes_eqb_refl'].
Qed.

(* a code value read for an unsubscription-time nested call *)
Definition held_pc (p : pc) : option bytes :=
  match p with PNestPut _ false _ c => c | _ => None end.

Definition inv_nip (s : istate) : Prop :=
  run_ok nip_chk nip_next [] (s_hist s) = true /\
  (forall rid, held_pc (cur_pc s) = Some rid -> In rid (pubs (s_hist s))) /\
  (forall l k rid, nth_error (s_lis s) l = Some (LPutS k (Some rid)) -> In rid (pubs (s_hist s))).

Lemma inv_nip_init : forall item, inv_nip (init_state item).
Proof.
  intros item. split; [reflexivity|]. split.
  - intros rid H. discriminate.
  - intros l k rid H. destruct l; discriminate.
Qed.

Lemma nip_job s j p p' es :
  pcstep s j p p' es ->
  (forall rid, held_pc p = Some rid -> In rid (pubs (s_hist s))) ->
  run_ok nip_chk nip_next (pubs (s_hist s)) es = true /\
  (forall rid, held_pc p' = Some rid -> In rid (run_st nip_next (pubs (s_hist s)) es)).
Proof.
  intros Hp Hh.
  destruct Hp; cbn [run_ok run_st nip_chk nip_next held_pc andb] in *;
    (split; [|try (intros rid0 E; discriminate E)]); try reflexivity.
  - intros r0 E. injection E as <-. apply hist_code_pubs. assumption.
  - rewrite existsb_bytes_In; [reflexivity|]. apply hist_code_pubs. assumption.
  - rewrite existsb_bytes_In; [reflexivity|]. apply hist_code_pubs. assumption.
  - rewrite existsb_bytes_In; [reflexivity|]. apply Hh. reflexivity.
Qed.

Lemma inv_nip_step : forall s lb s',
  Inv s -> inv_nip s -> env_ok s lb = true -> step s lb = Some s' -> inv_nip s'.
Proof.
  intros s lb s' HI (Hok & Hheld & Hlis) _ H.
  pose proof (step_abs _ _ _ HI H) as Ha. unfold inv_nip, pubs in *.
  destruct Ha as [j p' es Hp Hh Hc Hl|es Hb Hh Hc Hl|Hc Hc' Hh Hl|l p' es Hp Hh Hc Hl].
  - rewrite Hh, run_ok_app, run_st_app, Hok, Hc, Hl.
    destruct (nip_job _ _ _ _ _ Hp Hheld) as [H1 H2]. unfold pubs in H1, H2. rewrite H1.
    split; [reflexivity|]. split; [exact H2|].
    intros l k rid Hn. apply nip_mono. eapply Hlis. exact Hn.
  - rewrite Hh, run_ok_app, run_st_app, Hok, Hc, Hl.
    destruct Hb; cbn [run_ok run_st nip_chk nip_next andb]; auto.
  - rewrite Hh, Hc', Hl. split; [exact Hok|]. split; [intros rid E; discriminate E|exact Hlis].
  - rewrite Hh, run_ok_app, run_st_app, Hok, Hc.
    assert (Hlis' : forall es0 l0 k rid,
               (forall k0 r0, p' = LPutS k0 (Some r0) ->
                              In r0 (run_st nip_next (run_st nip_next [] (s_hist s)) es0)) ->
               nth_error (s_lis s') l0 = Some (LPutS k rid) ->
               forall r, rid = Some r ->
               In r (run_st nip_next (run_st nip_next [] (s_hist s)) es0)).
    { intros es0 l0 k rid Hnew Hn r ->. destruct (Hl _ _ Hn) as [[_ E]|Hold].
      - eapply Hnew. symmetry. exact E.
      - apply nip_mono. eapply Hlis. exact Hold. }
    destruct Hp as [k|k rid Hhc|k|k rid line Hnth Hnl];
      cbn [run_ok run_st nip_chk nip_next andb] in *.
    + split; [reflexivity|]. split; [exact Hheld|].
      intros l0 k0 rid Hn. apply (Hlis' [] l0 k0 (Some rid)); auto. intros k1 r1 E; discriminate E.
    + split; [reflexivity|]. split; [exact Hheld|].
      intros l0 k0 rid0 Hn. apply (Hlis' [] l0 k0 (Some rid0)); auto.
      intros k1 r1 E. injection E as _ <-. apply (hist_code_pubs _ _ Hhc).
    + split; [reflexivity|]. split; [exact Hheld|].
      intros l0 k0 rid Hn. apply (Hlis' [] l0 k0 (Some rid)); auto. intros k1 r1 E; discriminate E.
    + rewrite existsb_bytes_In by (eapply Hlis; exact Hnth).
      split; [reflexivity|]. split; [exact Hheld|].
      intros l0 k0 rid0 Hn. apply (Hlis' [] l0 k0 (Some rid0)); auto. intros k1 r1 E; discriminate E.
Qed.

Lemma inv_nip_ok : forall s, inv_nip s -> notif_ids_published (s_hist s) = true.
Proof. intros s [H _]. rewrite notif_ids_published_run. exact H. Qed.

Theorem notif_ids_published_reachable : forall item s,
  reachable item s -> notif_ids_published (s_hist s) = true.
Proof.
  intros item s Hr. apply inv_nip_ok. revert s Hr. apply reach_ind.
  - apply inv_nip_init.
  - intros s lb s' HI Hp He Hs. eapply inv_nip_step; eassumption.
Qed.

(* ================================================================== *)
(* 7. notif_lines                                                       *)
(* ================================================================== *)

Lemma abs_notifs s s' :
  absstep s s' ->
  exists es, s_hist s' = s_hist s ++ es /\
    forall o k rid line, In (ENotif o k rid line) es -> notif_line (s_item s) rid k = WOk line.
Proof.
  intros Ha.
  destruct Ha as [j p' es Hp Hh Hc Hl|es Hb Hh Hc Hl|Hc Hc' Hh Hl|l p' es Hp Hh Hc Hl].
  - exists es. split; [exact Hh|]. intros o k0 rid0 line0 Hin.
    destruct Hp; cbn [In] in Hin;
      repeat (destruct Hin as [Hin|Hin]; [try discriminate Hin|]); try contradiction;
      inversion Hin; subst; assumption.
  - exists es. split; [exact Hh|]. intros o k0 rid0 line0 Hin.
    destruct Hb; cbn [In] in Hin;
      repeat (destruct Hin as [Hin|Hin]; [try discriminate Hin|]); contradiction.
  - exists []. split; [rewrite app_nil_r; exact Hh|]. intros o k0 rid0 line0 [].
  - exists es. split; [exact Hh|]. intros o k0 rid0 line0 Hin.
    destruct Hp; cbn [In] in Hin;
      repeat (destruct Hin as [Hin|Hin]; [try discriminate Hin|]); try contradiction.
    inversion Hin; subst; assumption.
Qed.

Definition inv_nl (item : bytes) (s : istate) : Prop :=
  s_item s = item /\
  forall o k rid line, In (ENotif o k rid line) (s_hist s) -> notif_line item rid k = WOk line.

Theorem notif_lines : forall item s o k rid line,
  reachable item s -> In (ENotif o k rid line) (s_hist s) -> notif_line item rid k = WOk line.
Proof.
  intros item s o k rid line Hr.
  assert (H : inv_nl item s).
  { revert s Hr. apply reach_ind.
    - split; [reflexivity|]. intros o0 k0 rid0 line0 [].
    - intros s lb s' HI [Hit Hn] He Hs. split.
      + rewrite (step_item _ _ _ Hs). exact Hit.
      + destruct (abs_notifs _ _ (step_abs _ _ _ HI Hs)) as (es & Hh & Hes).
        intros o0 k0 rid0 line0 Hin. rewrite Hh in Hin. apply in_app_or in Hin.
        destruct Hin as [Hin|Hin]; [eapply Hn; exact Hin|].
        rewrite <- Hit. eapply Hes. exact Hin. }
  destruct H as [_ H]. apply H.
Qed.

(* ================================================================== *)
(* 8. published_not_skipped                                             *)
(* ================================================================== *)

Lemma NoDup_app_disj {A} (a b : list A) x : NoDup (a ++ b) -> In x a -> In x b -> False.
Proof.
  induction a as [|y a IH]; intros Hn Ha Hb; [contradiction|].
  cbn [app] in Hn. inversion Hn as [|z l Hy Hd]; subst.
  destruct Ha as [->|Ha].
  - apply Hy. apply in_or_app. right. exact Hb.
  - apply IH; assumption.
Qed.

(* an answered request is nowhere in the machinery any more *)
Lemma replied_not_mach s t :
  Inv s -> In t (replied (s_hist s)) -> In t (ItemFifo.mach s) -> False.
Proof.
  intros HI Hr Hm. pose proof (Inv_all _ HI) as Hinv. ItemLso.split_inv Hinv.
  apply ItemFifo.fifo_iff in Hfifo. destruct Hfifo as [F1 F2].
  apply ItemFifo.rids_iff in Hrids. destruct Hrids as [_ [R2 _]].
  rewrite (ItemFifo.seen_no_drop _ F2), F1 in R2. apply ItemFifo.nodup_rids_NoDup in R2.
  rewrite map_app in R2.
  apply (NoDup_app_disj _ _ (t_rid t) R2); apply in_map; assumption.
Qed.

Definition skip_pc (p : pc) : list task := match p with PLate t => [t] | _ => [] end.
Definition exec_pc (p : pc) : list task :=
  match p with PLate _ | PSetCode _ => [] | _ => inhand_pc p end.

Definition pns (h : list event) (p : pc) : Prop :=
  forall t,
    (In (ESkip t) h -> In t (replied h) \/ In t (skip_pc p)) /\
    (In (ESetCode t) h -> In t (replied h) \/ In t (exec_pc p)) /\
    ~ (In (ESkip t) h /\ In (ESetCode t) h).

Lemma pns_neutral h p p' es :
  (forall t, ~ In (ESkip t) es) -> (forall t, ~ In (ESetCode t) es) ->
  (forall t, In t (skip_pc p) -> In t (replied es) \/ In t (skip_pc p')) ->
  (forall t, In t (exec_pc p) -> In t (replied es) \/ In t (exec_pc p')) ->
  pns h p -> pns (h ++ es) p'.
Proof.
  intros N1 N2 S1 S2 Hp t. destruct (Hp t) as (A & B & C).
  rewrite ItemFifo.replied_app. split; [|split].
  - intros Hin. apply in_app_or in Hin. destruct Hin as [Hin|Hin]; [|exfalso; eapply N1; exact Hin].
    destruct (A Hin) as [X|X]; [left; apply in_or_app; auto|].
    destruct (S1 _ X) as [Y|Y]; [left; apply in_or_app; auto|right; exact Y].
  - intros Hin. apply in_app_or in Hin. destruct Hin as [Hin|Hin]; [|exfalso; eapply N2; exact Hin].
    destruct (B Hin) as [X|X]; [left; apply in_or_app; auto|].
    destruct (S2 _ X) as [Y|Y]; [left; apply in_or_app; auto|right; exact Y].
  - intros [H1 H2]. apply C. split.
    + apply in_app_or in H1. destruct H1 as [H1|H1]; [exact H1|exfalso; eapply N1; exact H1].
    + apply in_app_or in H2. destruct H2 as [H2|H2]; [exact H2|exfalso; eapply N2; exact H2].
Qed.

Lemma pns_skip h t :
  ~ In t (replied h) -> pns h PTop -> pns (h ++ [ESkip t]) (PLate t).
Proof.
  intros Hn Hp u. destruct (Hp u) as (A & B & C).
  rewrite ItemFifo.replied_app. cbn [replied]. rewrite app_nil_r. split; [|split].
  - intros Hin. apply in_app_or in Hin. destruct Hin as [Hin|[E|[]]].
    + destruct (A Hin) as [X|[]]. left; exact X.
    + injection E as <-. right. left. reflexivity.
  - intros Hin. apply in_app_or in Hin. destruct Hin as [Hin|[E|[]]]; [|discriminate E].
    destruct (B Hin) as [X|[]]. left; exact X.
  - intros [H1 H2].
    apply in_app_or in H2. destruct H2 as [H2|[E|[]]]; [|discriminate E].
    apply in_app_or in H1. destruct H1 as [H1|[E|[]]]; [apply C; auto|].
    injection E as <-. destruct (B H2) as [X|[]]. apply Hn. exact X.
Qed.

Lemma pns_set h t :
  ~ In t (replied h) -> pns h (PSetCode t) -> pns (h ++ [ESetCode t]) (PSnapB t).
Proof.
  intros Hn Hp u. destruct (Hp u) as (A & B & C).
  rewrite ItemFifo.replied_app. cbn [replied]. rewrite app_nil_r. split; [|split].
  - intros Hin. apply in_app_or in Hin. destruct Hin as [Hin|[E|[]]]; [|discriminate E].
    destruct (A Hin) as [X|[]]. left; exact X.
  - intros Hin. apply in_app_or in Hin. destruct Hin as [Hin|[E|[]]].
    + destruct (B Hin) as [X|[]]. left; exact X.
    + injection E as <-. right. left. reflexivity.
  - intros [H1 H2].
    apply in_app_or in H1. destruct H1 as [H1|[E|[]]]; [|discriminate E].
    apply in_app_or in H2. destruct H2 as [H2|[E|[]]]; [apply C; auto|].
    injection E as <-. destruct (A H1) as [X|[]]. apply Hn. exact X.
Qed.

Definition inv_pns (s : istate) : Prop := pns (s_hist s) (cur_pc s).

Ltac no_ev := intros ? Hin; cbn [In] in Hin;
  repeat (destruct Hin as [Hin|Hin]; [discriminate Hin|]); contradiction.

Ltac sub_ev := intros ? Hin; cbn [skip_pc exec_pc inhand_pc replied In] in *;
  first [contradiction | destruct Hin as [<-|[]]; auto].

Lemma pns_job s j p p' es :
  Inv s -> cur_pc s = p -> pcstep s j p p' es -> pns (s_hist s) p -> pns (s_hist s ++ es) p'.
Proof.
  intros HI Hcur Hp Hpns.
  assert (Hdq : forall t, In t (deque_tasks s) -> ~ In t (replied (s_hist s))).
  { intros t Hin Hr. apply (replied_not_mach s t HI Hr). unfold ItemFifo.mach.
    apply in_or_app. right. apply in_or_app. left. exact Hin. }
  assert (Hih : forall t, In t (inhand_pc p) -> ~ In t (replied (s_hist s))).
  { intros t Hin Hr. apply (replied_not_mach s t HI Hr). unfold ItemFifo.mach.
    apply in_or_app. left.
    pose proof (Inv_all _ HI) as Hinv. ItemLso.split_inv Hinv.
    rewrite (inhand_cur _ Hsingle), Hcur. exact Hin. }
  destruct Hp;
    try (refine (pns_neutral _ _ _ _ _ _ _ _ Hpns); [no_ev|no_ev|sub_ev|sub_ev]).
  - apply pns_skip; [apply Hdq; assumption|exact Hpns].
  - apply pns_set; [apply Hih; left; reflexivity|exact Hpns].
Qed.

Lemma inv_pns_init : forall item, inv_pns (init_state item).
Proof. intros item t. cbn. split; [|split]; try contradiction. intros [[] _]. Qed.

Lemma inv_pns_step : forall s lb s',
  Inv s -> inv_pns s -> env_ok s lb = true -> step s lb = Some s' -> inv_pns s'.
Proof.
  intros s lb s' HI Hp _ H. unfold inv_pns in *.
  destruct (step_abs _ _ _ HI H)
    as [j p' es Hs Hh Hc Hl|es Hb Hh Hc Hl|Hc Hc' Hh Hl|l p' es Hs Hh Hc Hl].
  - rewrite Hh, Hc. eapply pns_job; [exact HI|reflexivity|exact Hs|exact Hp].
  - rewrite Hh, Hc. refine (pns_neutral _ _ _ _ _ _ _ _ Hp); auto; destruct Hb; no_ev.
  - rewrite Hh, Hc'. rewrite Hc in Hp. rewrite <- (app_nil_r (s_hist s)).
    refine (pns_neutral _ _ _ _ _ _ _ _ Hp); try no_ev; sub_ev.
  - rewrite Hh, Hc. refine (pns_neutral _ _ _ _ _ _ _ _ Hp); auto; destruct Hs; no_ev.
Qed.

Lemma inv_pns_reachable : forall item s, reachable item s -> inv_pns s.
Proof.
  intros item. apply reach_ind.
  - apply inv_pns_init.
  - intros s lb s' HI Hp He Hs. eapply inv_pns_step; eassumption.
Qed.

Theorem published_not_skipped : forall item s t,
  reachable item s -> In (ESetCode t) (s_hist s) -> ~ In (ESkip t) (s_hist s).
Proof.
  intros item s t Hr Hset Hskip.
  destruct (inv_pns_reachable item s Hr t) as (_ & _ & C). apply C. split; assumption.
Qed.

Print Assumptions eos_ok_reachable.
Print Assumptions nested_ok_reachable.
Print Assumptions notif_ids_published_reachable.
Print Assumptions notif_lines.
Print Assumptions published_not_skipped.
