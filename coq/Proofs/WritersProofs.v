(* Proofs/WritersProofs.v — property C07 "replies and notifications decode to the
   adapter's data" and the content part of C14: every line produced by the
   writers of Model/Writers.v on supported values is decoded by the reference
   decoders of Model/AriReply.v to the data the adapter supplied; the line has
   no CR / LF; unsupported value types give an error, never a line.

   Method: each line is rewritten into [join_pipe tokens] for an explicit token
   list, [split_join] gives [toks line = tokens] because every token is free of
   '|' (and CR / LF), and the recursive decoders are run on the token list by
   induction on the data. *)
From Coq Require Import String List Ascii NArith ZArith Bool Lia.
From LS Require Import Model.Bytes Model.Tags Gen.Consts Model.Quote Model.Base64 Model.Codec
  Model.Writers Model.AriReply Proofs.BytesProofs Proofs.QuoteProofs Proofs.Base64Proofs Proofs.CodecProofs.
Import ListNotations.

(* a float token: what repr(float) prints; only its separator-freeness matters here *)
Definition ftok_ok (r : bytes) : Prop := r <> [] /\ ~ In c_pipe r /\ ~ In c_cr r /\ ~ In c_lf r.
Definition int_len_ok (z : Z) : Prop := (N.of_nat (length (Z_to_dec z)) <= 4300)%N.
Definition clean (line : bytes) : Prop := ~ In c_cr line /\ ~ In c_lf line.
Definition py_of_uval (u : uval) : pyval := match u with UText t => py_of_text t | UBytes b => PBytes b end.
Definition text_like (v : pyval) : bool := match v with PNone | PStr _ | PBytes _ => true | _ => false end.
Definition item_triple (x : Z * bytes * list mode) : pyval * pyval * pyval :=
  (PInt (fst (fst x)), PFloat (snd (fst x)), PList (map PMode (snd x))).
Definition cred (o : option bytes) : pyval := match o with None => PNone | Some s => PStr s end.

(* ====================================================================== *)
(* A. good tokens, lines as join_pipe of good tokens                      *)
(* ====================================================================== *)

Definition good (t : bytes) : Prop := ~ In c_pipe t /\ ~ In c_cr t /\ ~ In c_lf t.

Definition goodc (c : ascii) : bool :=
  negb (Ascii.eqb c c_pipe) && negb (Ascii.eqb c c_cr) && negb (Ascii.eqb c c_lf).

Lemma good_of_chars : forall t : bytes,
  (forall c, In c t -> c <> c_pipe /\ c <> c_cr /\ c <> c_lf) -> good t.
Proof.
  intros t H. unfold good. split; [|split]; intros Hin; apply H in Hin;
    destruct Hin as [H1 [H2 H3]]; congruence.
Qed.

Lemma goodc_spec : forall c, goodc c = true -> c <> c_pipe /\ c <> c_cr /\ c <> c_lf.
Proof.
  intros c H. unfold goodc in H.
  apply andb_true_iff in H. destruct H as [H H3].
  apply andb_true_iff in H. destruct H as [H1 H2].
  split; [|split]; apply neqb_neq; assumption.
Qed.

Lemma goodb_good : forall t : bytes, forallb goodc t = true -> good t.
Proof.
  intros t H. apply good_of_chars. intros c Hc. apply goodc_spec.
  exact (proj1 (forallb_forall _ _) H c Hc).
Qed.

Ltac closed_good := apply goodb_good; vm_compute; reflexivity.

Lemma in_join : forall (sep : bytes) (ts : list bytes) c,
  In c (join_with sep ts) -> In c sep \/ exists t, In t ts /\ In c t.
Proof.
  intros sep ts c. induction ts as [|t ts IH]; intros H.
  - cbn [join_with] in H. contradiction.
  - destruct ts as [|t2 ts].
    + rewrite join_with_singleton in H. right. exists t. split; [left; reflexivity|exact H].
    + rewrite join_with_cons2 in H.
      apply in_app_or in H. destruct H as [H|H].
      * right. exists t. split; [left; reflexivity|exact H].
      * apply in_app_or in H. destruct H as [H|H]; [left; exact H|].
        destruct (IH H) as [H'|[t' [Ht' Hc]]]; [left; exact H'|].
        right. exists t'. split; [right; exact Ht'|exact Hc].
Qed.

Lemma pipe_not_cr : c_pipe <> c_cr.
Proof. intros H. vm_compute in H. discriminate H. Qed.
Lemma pipe_not_lf : c_pipe <> c_lf.
Proof. intros H. vm_compute in H. discriminate H. Qed.

Lemma clean_join : forall ts, Forall good ts -> clean (join_pipe ts).
Proof.
  intros ts Hall. unfold clean, join_pipe.
  split; intros H; apply in_join in H; destruct H as [H|[t [Ht Hc]]].
  - destruct H as [H|[]]. exact (pipe_not_cr H).
  - pose proof (proj1 (Forall_forall _ _) Hall t Ht) as [_ [G _]]. exact (G Hc).
  - destruct H as [H|[]]. exact (pipe_not_lf H).
  - pose proof (proj1 (Forall_forall _ _) Hall t Ht) as [_ [_ G]]. exact (G Hc).
Qed.

Lemma toks_join : forall ts, ts <> [] -> Forall good ts -> toks (join_pipe ts) = ts.
Proof.
  intros ts Hne Hall. unfold toks, join_pipe. apply split_join; [exact Hne|].
  eapply Forall_impl; [|exact Hall]. intros t Ht. exact (proj1 Ht).
Qed.

(* ---------- where good tokens come from ---------- *)

Lemma good_meth : forall m, good (meth_name m).
Proof. intros m. destruct m; closed_good. Qed.

Lemma good_text : forall t, good (encode_text t).
Proof.
  intros t. apply good_of_chars. intros c Hc.
  destruct (encode_text_sep_free t c Hc) as [H1 [H2 [H3 _]]]. auto.
Qed.

Lemma good_b64 : forall b, good (b64_enc b).
Proof.
  intros b. apply good_of_chars. intros c Hc.
  destruct (b64_enc_no_sep b c Hc) as [H1 [H2 [H3 _]]]. auto.
Qed.

Lemma digit_or_minus_good : forall c,
  is_digit c || Ascii.eqb c c_minus = true -> goodc c = true.
Proof.
  intros c H.
  assert (S : forallb (fun c => implb (is_digit c || Ascii.eqb c c_minus) (goodc c)) QuoteProofs.all_bytes = true)
    by (vm_compute; reflexivity).
  pose proof (sweep_all _ S c) as Hc. cbv beta in Hc. rewrite H in Hc. exact Hc.
Qed.

Lemma good_int : forall z, good (Z_to_dec z).
Proof.
  intros z. apply goodb_good. destruct (Z_to_dec_chars z) as [H _].
  apply forallb_forall. intros c Hc. apply digit_or_minus_good.
  exact (proj1 (forallb_forall _ _) H c Hc).
Qed.

Lemma good_ftok : forall r, ftok_ok r -> good r.
Proof. intros r [_ H]. exact H. Qed.

Lemma good_S : good (bs "S"). Proof. closed_good. Qed.
Lemma good_B : good (bs "B"). Proof. closed_good. Qed.
Lemma good_D : good (bs "D"). Proof. closed_good. Qed.
Lemma good_I : good (bs "I"). Proof. closed_good. Qed.
Lemma good_M : good (bs "M"). Proof. closed_good. Qed.
Lemma good_Y : good (bs "Y"). Proof. closed_good. Qed.
Lemma good_0 : good (bs "0"). Proof. closed_good. Qed.
Lemma good_1 : good (bs "1"). Proof. closed_good. Qed.
Lemma good_cE : good [c_E]. Proof. closed_good. Qed.
Lemma good_cV : good [c_V]. Proof. closed_good. Qed.
Lemma good_bool : forall b : bool, good (if b then bs "1" else bs "0").
Proof. intros [|]; closed_good. Qed.

(* ====================================================================== *)
(* B. the model's line shapes as one join_pipe                            *)
(* ====================================================================== *)

Definition sprefix (ps : list bytes) : list bytes := flat_map (fun p => [bs "S"; p]) ps.

Lemma sprefix_cons : forall p ps, sprefix (p :: ps) = bs "S" :: p :: sprefix ps.
Proof. reflexivity. Qed.

Lemma sprefix_length : forall ps, length (sprefix ps) = 2 * length ps.
Proof.
  intros ps. induction ps as [|p ps IH]; [reflexivity|].
  rewrite sprefix_cons. cbn [length]. rewrite IH. lia.
Qed.

Lemma S_join : forall ps, ps <> [] ->
  bs "S" ++ [c_pipe] ++ join_with (bs "|S|") ps = join_pipe (sprefix ps).
Proof.
  intros ps. induction ps as [|p ps IH]; intros Hne; [congruence|].
  destruct ps as [|q ps].
  - reflexivity.
  - rewrite join_with_cons2. rewrite sprefix_cons. unfold join_pipe.
    rewrite join_with_cons2.
    rewrite (join_with_cons_nonempty [c_pipe] p (sprefix (q :: ps))) by (rewrite sprefix_cons; discriminate).
    fold (join_pipe (sprefix (q :: ps))).
    rewrite <- IH by discriminate.
    reflexivity.
Qed.

Lemma head_S_join : forall m ps, ps <> [] ->
  join_pipe [m; bs "S"] ++ [c_pipe] ++ join_with (bs "|S|") ps = join_pipe (m :: sprefix ps).
Proof.
  intros m ps Hne. unfold join_pipe at 2.
  rewrite join_with_cons_nonempty by (destruct ps; [congruence|rewrite sprefix_cons; discriminate]).
  fold (join_pipe (sprefix ps)). rewrite <- S_join by exact Hne.
  unfold join_pipe. rewrite join_with_cons2, join_with_singleton.
  rewrite <- !app_assoc. reflexivity.
Qed.

Lemma head_S_join_cons : forall m ps, ps <> [] ->
  join_pipe [m; bs "S"] ++ c_pipe :: join_with (bs "|S|") ps = join_pipe (m :: sprefix ps).
Proof. exact head_S_join. Qed.

Lemma join_groups : forall gs : list (list bytes),
  Forall (fun g => g <> []) gs -> join_pipe (map join_pipe gs) = join_pipe (concat gs).
Proof.
  intros gs. induction gs as [|g gs IH]; intros Hall; [reflexivity|].
  inversion Hall as [|g' gs' Hg Hgs]; subst.
  destruct gs as [|g2 gs].
  - cbn [map concat]. rewrite app_nil_r. reflexivity.
  - change (map join_pipe (g :: g2 :: gs)) with (join_pipe g :: map join_pipe (g2 :: gs)).
    unfold join_pipe at 1.
    rewrite join_with_cons_nonempty by (cbn [map]; discriminate).
    fold (join_pipe (map join_pipe (g2 :: gs))). rewrite IH by exact Hgs.
    change (concat (g :: g2 :: gs)) with (g ++ concat (g2 :: gs)).
    unfold join_pipe. rewrite join_with_app; [reflexivity|exact Hg|].
    inversion Hgs as [|g2' gs2 Hg2 _]; subst. cbn [concat].
    destruct g2; [congruence|discriminate].
Qed.

Lemma head_join_groups : forall (hd : list bytes) (gs : list (list bytes)),
  hd <> [] -> gs <> [] -> Forall (fun g => g <> []) gs ->
  join_pipe hd ++ [c_pipe] ++ join_pipe (map join_pipe gs) = join_pipe (hd ++ concat gs).
Proof.
  intros hd gs Hhd Hgs Hall. rewrite join_groups by exact Hall.
  unfold join_pipe. rewrite join_with_app; [reflexivity|exact Hhd|].
  destruct gs as [|g gs]; [congruence|].
  inversion Hall as [|g' gs' Hg _]; subst. cbn [concat].
  destruct g; [congruence|discriminate].
Qed.

(* ====================================================================== *)
(* C. simple writers                                                      *)
(* ====================================================================== *)

Create HintDb goodtok.
#[local] Hint Resolve good_meth good_text good_b64 good_int good_ftok good_S good_B good_D good_I
  good_M good_Y good_0 good_1 good_cE good_cV good_bool : goodtok.

Ltac goods :=
  repeat (first [apply Forall_nil | apply Forall_cons]); try solve [auto with goodtok].

Lemma tok_is_refl : forall s, tok_is s (bs s) = true.
Proof. intros s. unfold tok_is. apply bytes_eqb_refl. Qed.

Lemma dec_bool_enc : forall b : bool, dec_bool (if b then bs "1" else bs "0") = Some b.
Proof. intros [|]; reflexivity. Qed.

Lemma dec_double_ftok : forall r, ftok_ok r -> dec_double r = Some r.
Proof. intros r [Hne _]. destruct r; [congruence|reflexivity]. Qed.

Theorem void_reply_decodes : forall m, decode_void (void_reply m) = Some (meth_name m) /\ clean (void_reply m).
Proof.
  intros m. unfold void_reply. split.
  - unfold decode_void. rewrite toks_join by (try discriminate; goods). reflexivity.
  - apply clean_join. goods.
Qed.

Theorem write_failure_decodes : forall msg,
  exists line, write_failure msg = WOk line /\ decode_failure line = Some (Some msg) /\ clean line.
Proof.
  intros msg. unfold write_failure.
  change (PStr msg) with (py_of_text (Some msg)).
  rewrite encode_string_text. cbn [wbind].
  eexists. split; [reflexivity|]. split.
  - unfold decode_failure. rewrite toks_join by (try discriminate; goods).
    change (tok_is "FAL" (meth_name MFAL)) with true.
    change (tok_is "E" [c_E]) with true. cbn [andb].
    rewrite decode_encode_text. reflexivity.
  - apply clean_join. goods.
Qed.

Theorem write_item_notify_decodes : forall m (item rid : text),
  exists line, write_item_notify m (py_of_text item) (py_of_text rid) = WOk line /\
    decode_item_notify line = Some (meth_name m, item, rid) /\ clean line.
Proof.
  intros m item rid. unfold write_item_notify.
  rewrite !encode_string_text. cbn [wbind].
  eexists. split; [reflexivity|]. split.
  - unfold decode_item_notify. rewrite toks_join by (try discriminate; goods).
    rewrite !tok_is_refl. cbn [andb]. rewrite !decode_encode_text. reflexivity.
  - apply clean_join. goods.
Qed.

Theorem write_notify_user_decodes : forall m bw b, ftok_ok bw ->
  exists line, write_notify_user m (PFloat bw) (PBool b) = WOk line /\
    decode_notify_user line = Some (meth_name m, bw, b) /\ clean line.
Proof.
  intros m bw b Hbw. unfold write_notify_user. cbn [encode_double encode_boolean wbind].
  eexists. split; [reflexivity|]. split.
  - unfold decode_notify_user. rewrite toks_join by (try discriminate; goods).
    rewrite !tok_is_refl. cbn [andb].
    rewrite (dec_double_ftok bw Hbw), dec_bool_enc. reflexivity.
  - apply clean_join. goods.
Qed.

Theorem write_notify_user_unsupported : forall m bw b,
  (match bw with PFloat _ => False | _ => True end) \/ (match b with PBool _ => False | _ => True end) ->
  exists e, write_notify_user m bw b = WErr e.
Proof.
  intros m bw b H. unfold write_notify_user.
  destruct bw; cbn [encode_double wbind]; try (eexists; reflexivity).
  destruct b; cbn [encode_boolean wbind]; try (eexists; reflexivity).
  destruct H as [[]|[]].
Qed.

(* ====================================================================== *)
(* D. S-lists: get_items / get_schema replies                             *)
(* ====================================================================== *)

Lemma encode_string_PStr : forall s, encode_string (PStr s) = WOk (encode_text (Some s)).
Proof. intros s. exact (encode_string_text (Some s)). Qed.

Lemma enc_each_text : forall l : list text,
  enc_each encode_string (map py_of_text l) = WOk (map encode_text l).
Proof.
  intros l. induction l as [|t l IH]; [reflexivity|].
  cbn [map enc_each]. rewrite encode_string_text. cbn [wbind]. rewrite IH. reflexivity.
Qed.

Lemma good_map_text : forall l : list text, Forall good (map encode_text l).
Proof.
  intros l. apply Forall_forall. intros t Ht. apply in_map_iff in Ht.
  destruct Ht as [x [Hx _]]. subst t. apply good_text.
Qed.

Lemma good_sprefix : forall ps, Forall good ps -> Forall good (sprefix ps).
Proof.
  intros ps H. induction H as [|p ps Hp Hps IH]; [constructor|].
  rewrite sprefix_cons. constructor; [exact good_S|]. constructor; assumption.
Qed.

Lemma dec_S_list_cons2 : forall s v r,
  dec_S_list (s :: v :: r) =
  if tok_is "S" s then
    match dec_S_list r with Some l => Some (decode_string v :: l) | None => None end
  else None.
Proof. reflexivity. Qed.

Lemma dec_S_list_text : forall l : list text, dec_S_list (sprefix (map encode_text l)) = Some l.
Proof.
  intros l. induction l as [|t l IH]; [reflexivity|].
  cbn [map]. rewrite sprefix_cons, dec_S_list_cons2, tok_is_refl, IH, decode_encode_text.
  reflexivity.
Qed.

Lemma write_list_line : forall m (l : list text),
  write_list_reply m (PList (map py_of_text l)) =
  WOk (join_pipe (meth_name m :: sprefix (map encode_text l))).
Proof.
  intros m l. destruct l as [|t l]; [reflexivity|].
  unfold write_list_reply.
  change (truthy (PList (map py_of_text (t :: l)))) with true.
  cbn [iter_of wbind]. rewrite enc_each_text. cbn [wbind].
  rewrite head_S_join by (cbn [map]; discriminate). reflexivity.
Qed.

Theorem write_list_decodes : forall m (l : list text),
  exists line, write_list_reply m (PList (map py_of_text l)) = WOk line /\
    decode_strings line = Some (meth_name m, l) /\ clean line /\
    length (toks line) = 1 + 2 * length l.
Proof.
  intros m l. eexists. split; [apply write_list_line|].
  assert (G : Forall good (meth_name m :: sprefix (map encode_text l))).
  { constructor; [apply good_meth|]. apply good_sprefix, good_map_text. }
  split; [|split].
  - unfold decode_strings. rewrite toks_join by (try discriminate; exact G).
    rewrite dec_S_list_text. reflexivity.
  - apply clean_join. exact G.
  - rewrite toks_join by (try discriminate; exact G).
    cbn [length]. rewrite sprefix_length, map_length. reflexivity.
Qed.

Lemma enc_each_unsupported : forall l,
  existsb (fun v => negb (text_like v)) l = true ->
  exists e, enc_each encode_string l = WErr e.
Proof.
  intros l. induction l as [|x l IH]; intros H; [discriminate H|].
  cbn [existsb] in H. cbn [enc_each].
  destruct (text_like x) eqn:Ex.
  - cbn [negb orb] in H. destruct (IH H) as [e He].
    destruct (encode_string x) as [a|e']; cbn [wbind]; [|eexists; reflexivity].
    rewrite He. cbn [wbind]. eexists; reflexivity.
  - destruct x; try discriminate Ex; cbn [encode_string wbind]; eexists; reflexivity.
Qed.

Theorem write_list_unsupported : forall m l,
  existsb (fun v => negb (text_like v)) l = true ->
  exists e, write_list_reply m (PList l) = WErr e.
Proof.
  intros m l H. unfold write_list_reply.
  destruct l as [|x l]; [discriminate H|].
  change (truthy (PList (x :: l))) with true. cbn [iter_of wbind].
  destruct (enc_each_unsupported _ H) as [e He]. rewrite He. cbn [wbind].
  eexists; reflexivity.
Qed.

(* ====================================================================== *)
(* E. parameter replies: init reply, RAC                                  *)
(* ====================================================================== *)

Definition kv_toks (kvs : list (bytes * text)) : list bytes :=
  flat_map (fun kv => [fst kv; encode_text (snd kv)]) kvs.

Lemma dec_params_cons4 : forall s1 k s2 v r,
  dec_params (s1 :: k :: s2 :: v :: r) =
  if tok_is "S" s1 && tok_is "S" s2 then
    match dec_params r with Some l => Some ((k, decode_string v) :: l) | None => None end
  else None.
Proof. reflexivity. Qed.

Lemma dec_params_kv : forall kvs, dec_params (sprefix (kv_toks kvs)) = Some kvs.
Proof.
  intros kvs. induction kvs as [|[k v] kvs IH]; [reflexivity|].
  change (sprefix (kv_toks ((k, v) :: kvs)))
    with (bs "S" :: k :: bs "S" :: encode_text v :: sprefix (kv_toks kvs)).
  rewrite dec_params_cons4, !tok_is_refl, IH, decode_encode_text. reflexivity.
Qed.

Lemma good_kv_toks : forall kvs : list (bytes * text),
  Forall (fun kv => good (fst kv)) kvs -> Forall good (kv_toks kvs).
Proof.
  intros kvs H. induction H as [|[k v] kvs Hk Hkvs IH]; [constructor|].
  change (kv_toks ((k, v) :: kvs)) with (k :: encode_text v :: kv_toks kvs).
  constructor; [exact Hk|]. constructor; [apply good_text|exact IH].
Qed.

Lemma params_line_decodes : forall m (kvs : list (bytes * text)),
  Forall (fun kv => good (fst kv)) kvs ->
  decode_params (join_pipe (meth_name m :: sprefix (kv_toks kvs))) = Some (meth_name m, kvs) /\
  clean (join_pipe (meth_name m :: sprefix (kv_toks kvs))).
Proof.
  intros m kvs H.
  assert (G : Forall good (meth_name m :: sprefix (kv_toks kvs))).
  { constructor; [apply good_meth|]. apply good_sprefix, good_kv_toks, H. }
  split.
  - unfold decode_params. rewrite toks_join by (try discriminate; exact G).
    rewrite dec_params_kv. reflexivity.
  - apply clean_join. exact G.
Qed.

Ltac good_keys := repeat (first [apply Forall_nil | apply Forall_cons]); cbn [fst]; closed_good.

Theorem write_init_ok_decodes : forall m (v : bytes),
  write_init_ok m [] = WOk (void_reply m) /\
  exists line, write_init_ok m [(ari_version_key, PStr v)] = WOk line /\
    decode_params line = Some (meth_name m, [(ari_version_key, Some v)]) /\ clean line.
Proof.
  intros m v. split; [reflexivity|].
  exists (join_pipe (meth_name m :: sprefix (kv_toks [(ari_version_key, Some v)]))). split.
  - unfold write_init_ok. cbn [is_nil init_params]. rewrite encode_string_PStr. cbn [wbind].
    rewrite head_S_join by discriminate. reflexivity.
  - apply params_line_decodes. good_keys.
Qed.

Theorem write_credentials_decodes : forall (u p : option bytes),
  exists line, write_credentials (cred u) (cred p) = WOk line /\
    decode_params line = Some (bs "RAC",
      (match u with Some s => [(bs "user", Some s)] | None => [] end) ++
      (match p with Some s => [(bs "password", Some s)] | None => [] end) ++
      [(bs "enableClosePacket", Some (bs "true")); (bs "SDK", Some (bs "Python Adapter SDK"))]) /\
    clean line.
Proof.
  intros u p.
  exists (join_pipe (meth_name MRAC :: sprefix (kv_toks (
      (match u with Some s => [(bs "user", Some s)] | None => [] end) ++
      (match p with Some s => [(bs "password", Some s)] | None => [] end) ++
      [(bs "enableClosePacket", Some (bs "true")); (bs "SDK", Some (bs "Python Adapter SDK"))])))).
  split.
  - unfold write_credentials.
    destruct u as [su|]; destruct p as [sp|]; cbn [cred];
      rewrite !encode_string_PStr; cbn [wbind app].
    all: rewrite (head_S_join_cons (meth_name MRAC)) by discriminate; reflexivity.
  - apply (params_line_decodes MRAC).
    destruct u as [su|]; destruct p as [sp|]; cbn [app]; good_keys.
Qed.

(* ====================================================================== *)
(* F. modes                                                               *)
(* ====================================================================== *)

Definition mode_char (m : mode) : ascii :=
  match m with ModeRaw => "R" | ModeMerge => "M" | ModeDistinct => "D" | ModeCommand => "C" end%char.

Lemma mode_value_char : forall m, mode_value m = [mode_char m].
Proof. intros m. destruct m; reflexivity. Qed.

(* the M token written for a list of modes: "$" for the empty list *)
Definition mtok (ms : list mode) : bytes :=
  match ms with [] => empty_value | _ :: _ => map mode_char ms end.

Lemma mode_values_ok : forall ms, mode_values (map PMode ms) = WOk (map mode_char ms).
Proof.
  intros ms. induction ms as [|m ms IH]; [reflexivity|].
  cbn [map mode_values]. rewrite IH. cbn [wbind]. rewrite mode_value_char. reflexivity.
Qed.

Lemma encode_modes_ok : forall ms, encode_modes (PList (map PMode ms)) = WOk (mtok ms).
Proof.
  intros ms. destruct ms as [|m ms]; [reflexivity|].
  unfold encode_modes. change (is_nil (map PMode (m :: ms))) with false. cbv iota.
  apply mode_values_ok.
Qed.

Lemma mode_of_char_ok : forall m, mode_of_char (mode_char m) = Some m.
Proof. intros m. destruct m; vm_compute; reflexivity. Qed.

Lemma dec_mode_letters_ok : forall ms, dec_mode_letters (map mode_char ms) = Some ms.
Proof.
  intros ms. induction ms as [|m ms IH]; [reflexivity|].
  cbn [map dec_mode_letters]. rewrite mode_of_char_ok, IH. reflexivity.
Qed.

Lemma mode_char_not_special : forall m r,
  tok_is "#" (mode_char m :: r) = false /\ tok_is "$" (mode_char m :: r) = false.
Proof. intros m r. destruct m; split; reflexivity. Qed.

Lemma dec_modeset_mtok : forall ms, dec_modeset (mtok ms) = Some (Some ms).
Proof.
  intros ms. destruct ms as [|m ms]; [reflexivity|].
  unfold dec_modeset, mtok. cbn [map].
  destruct (mode_char_not_special m (map mode_char ms)) as [H1 H2].
  rewrite H1, H2. change (mode_char m :: map mode_char ms) with (map mode_char (m :: ms)).
  rewrite dec_mode_letters_ok. reflexivity.
Qed.

Lemma goodc_mode_char : forall m, goodc (mode_char m) = true.
Proof. intros m. destruct m; vm_compute; reflexivity. Qed.

Lemma good_mtok : forall ms, good (mtok ms).
Proof.
  intros ms. destruct ms as [|m ms]; [closed_good|].
  apply goodb_good. unfold mtok. apply forallb_forall. intros c Hc.
  apply in_map_iff in Hc. destruct Hc as [m' [Hm' _]]. subst c. apply goodc_mode_char.
Qed.

(* ====================================================================== *)
(* G. item data replies                                                   *)
(* ====================================================================== *)

Definition item_toks (x : Z * bytes * list mode) : list bytes :=
  [bs "I"; Z_to_dec (fst (fst x)); bs "D"; snd (fst x); bs "M"; mtok (snd x)].

Lemma enc_item_data_ok : forall x,
  enc_item_data (item_triple x) = WOk (join_pipe (item_toks x)).
Proof.
  intros [[n f] ms]. unfold enc_item_data, item_triple. cbn [fst snd].
  cbn [encode_integer encode_double wbind]. rewrite encode_modes_ok. cbn [wbind].
  reflexivity.
Qed.

Lemma enc_items_data_ok : forall l,
  enc_items_data (map item_triple l) = WOk (map join_pipe (map item_toks l)).
Proof.
  intros l. induction l as [|x l IH]; [reflexivity|].
  cbn [map enc_items_data]. rewrite enc_item_data_ok. cbn [wbind]. rewrite IH. reflexivity.
Qed.

Lemma item_toks_nonempty : forall l, Forall (fun g : list bytes => g <> []) (map item_toks l).
Proof.
  intros l. apply Forall_forall. intros g Hg. apply in_map_iff in Hg.
  destruct Hg as [x [Hx _]]. subst g. discriminate.
Qed.

Lemma write_item_data_line : forall m l,
  write_item_data_reply m (map item_triple l) =
  WOk (join_pipe (meth_name m :: concat (map item_toks l))).
Proof.
  intros m l. destruct l as [|x l]; [reflexivity|].
  unfold write_item_data_reply.
  change (is_nil (map item_triple (x :: l))) with false. cbv iota.
  rewrite enc_items_data_ok. cbn [wbind].
  change (meth_name m) with (join_pipe [meth_name m]) at 1.
  rewrite head_join_groups; [reflexivity|discriminate|cbn [map]; discriminate|apply item_toks_nonempty].
Qed.

Lemma dec_item_triples_cons6 : forall i n d x m ms r,
  dec_item_triples (i :: n :: d :: x :: m :: ms :: r) =
  if tok_is "I" i && tok_is "D" d && tok_is "M" m then
    match parse_int n, dec_double x, dec_modeset ms, dec_item_triples r with
    | Some n', Some x', Some ms', Some l => Some ((n', x', ms') :: l)
    | _, _, _, _ => None
    end
  else None.
Proof. reflexivity. Qed.

Lemma dec_item_triples_ok : forall l : list (Z * bytes * list mode),
  Forall (fun x => ftok_ok (snd (fst x)) /\ int_len_ok (fst (fst x))) l ->
  dec_item_triples (concat (map item_toks l)) =
  Some (map (fun x => (fst (fst x), snd (fst x), Some (snd x))) l).
Proof.
  intros l H. induction H as [|x l [Hf Hn] Hl IH]; [reflexivity|].
  cbn [map concat]. unfold item_toks at 1. cbn [app].
  rewrite dec_item_triples_cons6, !tok_is_refl. cbn [andb].
  rewrite (parse_int_Z_to_dec _ Hn), (dec_double_ftok _ Hf), dec_modeset_mtok, IH.
  reflexivity.
Qed.

Lemma good_item_toks : forall l : list (Z * bytes * list mode),
  Forall (fun x => ftok_ok (snd (fst x)) /\ int_len_ok (fst (fst x))) l ->
  Forall good (concat (map item_toks l)).
Proof.
  intros l H. induction H as [|x l [Hf Hn] Hl IH]; [constructor|].
  cbn [map concat]. unfold item_toks at 1. cbn [app].
  repeat (apply Forall_cons; [solve [auto with goodtok | apply good_mtok]|]). exact IH.
Qed.

Lemma item_toks_length : forall l, length (concat (map item_toks l)) = 6 * length l.
Proof.
  intros l. induction l as [|x l IH]; [reflexivity|].
  cbn [map concat]. rewrite app_length, IH. cbn [item_toks length]. lia.
Qed.

Theorem write_item_data_decodes : forall m (l : list (Z * bytes * list mode)),
  Forall (fun x => ftok_ok (snd (fst x)) /\ int_len_ok (fst (fst x))) l ->
  exists line, write_item_data_reply m (map item_triple l) = WOk line /\
    decode_item_data line = Some (meth_name m, map (fun x => (fst (fst x), snd (fst x), Some (snd x))) l) /\
    clean line /\ length (toks line) = 1 + 6 * length l.
Proof.
  intros m l H. eexists. split; [apply write_item_data_line|].
  assert (G : Forall good (meth_name m :: concat (map item_toks l))).
  { constructor; [apply good_meth|]. apply good_item_toks. exact H. }
  split; [|split].
  - unfold decode_item_data. rewrite toks_join by (try discriminate; exact G).
    rewrite (dec_item_triples_ok l H). reflexivity.
  - apply clean_join. exact G.
  - rewrite toks_join by (try discriminate; exact G).
    cbn [length]. rewrite item_toks_length. reflexivity.
Qed.

Lemma enc_items_data_unsupported : forall l,
  existsb (fun d : pyval * pyval * pyval =>
             negb (match fst (fst d) with PInt _ => true | _ => false end) ||
             negb (match snd (fst d) with PFloat _ => true | _ => false end)) l = true ->
  exists e, enc_items_data l = WErr e.
Proof.
  intros l. induction l as [|[[i f] ms] l IH]; intros H; [discriminate H|].
  cbn [existsb fst snd] in H. cbn [enc_items_data enc_item_data].
  destruct i; cbn [encode_integer wbind]; try (eexists; reflexivity).
  destruct f; cbn [encode_double wbind]; try (eexists; reflexivity).
  cbn [negb orb] in H. destruct (IH H) as [e He].
  destruct (encode_modes ms) as [a|e']; cbn [wbind]; [|eexists; reflexivity].
  rewrite He. cbn [wbind]. eexists; reflexivity.
Qed.

Theorem write_item_data_unsupported : forall m l,
  existsb (fun d : pyval * pyval * pyval =>
             negb (match fst (fst d) with PInt _ => true | _ => false end) ||
             negb (match snd (fst d) with PFloat _ => true | _ => false end)) l = true ->
  exists e, write_item_data_reply m l = WErr e.
Proof.
  intros m l H. unfold write_item_data_reply.
  destruct l as [|x l]; [discriminate H|]. cbn [is_nil].
  destruct (enc_items_data_unsupported _ H) as [e He]. rewrite He. cbn [wbind].
  eexists; reflexivity.
Qed.

(* ====================================================================== *)
(* H. update notifications                                                *)
(* ====================================================================== *)

Definition field_toks (fv : text * uval) : list bytes :=
  match snd fv with
  | UText t => [bs "S"; encode_text (fst fv); bs "S"; encode_text t]
  | UBytes b => [bs "S"; encode_text (fst fv); bs "Y"; b64_enc b]
  end.

Definition py_field (fv : text * uval) : pyval * pyval :=
  (py_of_text (fst fv), py_of_uval (snd fv)).

Lemma encode_value_text : forall t,
  encode_value (py_of_text t) = WOk (bs "S|" ++ encode_text t).
Proof.
  intros t. destruct t as [s|]; cbn [py_of_text encode_value].
  - rewrite encode_string_PStr. reflexivity.
  - reflexivity.
Qed.

Lemma enc_fields_ok : forall fields : list (text * uval),
  enc_fields (map py_field fields) = WOk (map join_pipe (map field_toks fields)).
Proof.
  intros fields. induction fields as [|[f u] fields IH]; [reflexivity|].
  cbn [map]. unfold py_field at 1. cbn [fst snd enc_fields].
  rewrite encode_string_text. cbn [wbind].
  destruct u as [t|b]; cbn [py_of_uval].
  - rewrite encode_value_text. cbn [wbind]. rewrite IH. cbn [wbind]. reflexivity.
  - cbn [encode_value encode_byte wbind]. rewrite IH. cbn [wbind]. reflexivity.
Qed.

Lemma field_toks_nonempty : forall l, Forall (fun g : list bytes => g <> []) (map field_toks l).
Proof.
  intros l. apply Forall_forall. intros g Hg. apply in_map_iff in Hg.
  destruct Hg as [[f [t|b]] [Hx _]]; subst g; discriminate.
Qed.

Definition update_head (item rid : text) (snap : bool) : list bytes :=
  [meth_name MUD3; bs "S"; encode_text item; bs "S"; encode_text rid; bs "B";
   if snap then bs "1" else bs "0"].

Lemma write_update_line : forall (item rid : text) snap (fields : list (text * uval)),
  write_update_map (py_of_text item) (py_of_text rid) (PBool snap) (PDict (map py_field fields)) =
  WOk (join_pipe (update_head item rid snap ++ concat (map field_toks fields))).
Proof.
  intros item rid snap fields. unfold write_update_map.
  rewrite !encode_string_text. cbn [wbind encode_boolean].
  destruct fields as [|fv fields].
  - cbn [map concat truthy is_nil negb]. rewrite app_nil_r. reflexivity.
  - change (truthy (PDict (map py_field (fv :: fields)))) with true. cbv iota.
    rewrite enc_fields_ok. cbn [wbind].
    fold (update_head item rid snap).
    rewrite head_join_groups;
      [reflexivity|discriminate|cbn [map]; discriminate|apply field_toks_nonempty].
Qed.

Lemma dec_fields_cons4 : forall s f ty v r,
  dec_fields (s :: f :: ty :: v :: r) =
  if tok_is "S" s then
    match (if tok_is "S" ty then Some (UText (decode_string v))
           else if tok_is "Y" ty then
                  match b64_dec v with Some b => Some (UBytes b) | None => None end
           else None),
          dec_fields r with
    | Some u, Some l => Some ((decode_string f, u) :: l)
    | _, _ => None
    end
  else None.
Proof. reflexivity. Qed.

Lemma tok_is_S_Y : tok_is "S" (bs "Y") = false.
Proof. reflexivity. Qed.

Lemma dec_fields_ok : forall fields : list (text * uval),
  dec_fields (concat (map field_toks fields)) = Some fields.
Proof.
  intros fields. induction fields as [|[f u] fields IH]; [reflexivity|].
  cbn [map concat]. unfold field_toks at 1. cbn [fst snd].
  destruct u as [t|b]; cbn [app]; rewrite dec_fields_cons4, tok_is_refl.
  - rewrite IH, !decode_encode_text. reflexivity.
  - rewrite tok_is_S_Y, tok_is_refl, b64_dec_enc, IH, decode_encode_text. reflexivity.
Qed.

Lemma good_field_toks : forall fields : list (text * uval),
  Forall good (concat (map field_toks fields)).
Proof.
  intros fields. induction fields as [|[f u] fields IH]; [constructor|].
  cbn [map concat]. unfold field_toks at 1. cbn [fst snd].
  destruct u as [t|b]; cbn [app];
    repeat (apply Forall_cons; [solve [auto with goodtok]|]); exact IH.
Qed.

Lemma field_toks_length : forall fields, length (concat (map field_toks fields)) = 4 * length fields.
Proof.
  intros fields. induction fields as [|[f u] fields IH]; [reflexivity|].
  cbn [map concat]. rewrite app_length, IH. destruct u; cbn [field_toks snd length]; lia.
Qed.

Lemma good_update_head : forall item rid snap, Forall good (update_head item rid snap).
Proof. intros item rid snap. unfold update_head. goods. Qed.

Theorem write_update_decodes : forall (item rid : text) snap (fields : list (text * uval)),
  exists line, write_update_map (py_of_text item) (py_of_text rid) (PBool snap)
                 (PDict (map (fun fv => (py_of_text (fst fv), py_of_uval (snd fv))) fields)) = WOk line /\
    decode_update line = Some (item, rid, snap, fields) /\ clean line /\
    length (toks line) = 7 + 4 * length fields.
Proof.
  intros item rid snap fields. eexists. split; [apply write_update_line|].
  assert (G : Forall good (update_head item rid snap ++ concat (map field_toks fields))).
  { apply Forall_app. split; [apply good_update_head|apply good_field_toks]. }
  assert (Hne : update_head item rid snap ++ concat (map field_toks fields) <> [])
    by (unfold update_head; discriminate).
  split; [|split].
  - unfold decode_update. rewrite toks_join by assumption.
    unfold update_head. cbn [app].
    change (tok_is "UD3" (meth_name MUD3)) with true.
    rewrite !tok_is_refl. cbn [andb].
    rewrite dec_bool_enc, dec_fields_ok, !decode_encode_text. reflexivity.
  - apply clean_join. exact G.
  - rewrite toks_join by assumption.
    rewrite app_length, field_toks_length. reflexivity.
Qed.

Lemma encode_string_cases : forall v,
  (text_like v = true /\ exists e, encode_string v = WOk e) \/
  (text_like v = false /\ encode_string v = WErr WRemoting).
Proof.
  intros v. destruct v; try (right; split; reflexivity); left; (split; [reflexivity|]).
  - eexists; reflexivity.
  - rewrite encode_string_PStr. eexists; reflexivity.
  - rewrite encode_string_bytes. eexists; reflexivity.
Qed.

Lemma encode_value_cases : forall v,
  (text_like v = true /\ exists e, encode_value v = WOk e) \/
  (text_like v = false /\ encode_value v = WErr WRemoting).
Proof.
  intros v. destruct v; try (right; split; reflexivity); left; (split; [reflexivity|]);
    cbn [encode_value].
  - eexists; reflexivity.
  - rewrite encode_string_PStr. eexists; reflexivity.
  - eexists; reflexivity.
Qed.

Lemma enc_fields_unsupported : forall fields : list (pyval * pyval),
  existsb (fun fv : pyval * pyval => negb (text_like (fst fv)) || negb (text_like (snd fv))) fields = true ->
  exists e, enc_fields fields = WErr e.
Proof.
  intros fields. induction fields as [|[f v] fields IH]; intros H; [discriminate H|].
  cbn [existsb fst snd] in H. cbn [enc_fields].
  destruct (encode_string_cases f) as [[Tf [ef Ef]]|[Tf Ef]]; rewrite Ef; cbn [wbind];
    [|eexists; reflexivity].
  destruct (encode_value_cases v) as [[Tv [ev Ev]]|[Tv Ev]]; rewrite Ev; cbn [wbind];
    [|eexists; reflexivity].
  rewrite Tf, Tv in H. cbn [negb orb] in H.
  destruct (IH H) as [e He]. rewrite He. cbn [wbind]. eexists; reflexivity.
Qed.

Theorem write_update_unsupported : forall item rid snap (fields : list (pyval * pyval)),
  negb (text_like item) || negb (text_like rid)
  || negb (match snap with PBool _ => true | _ => false end)
  || existsb (fun fv : pyval * pyval => negb (text_like (fst fv)) || negb (text_like (snd fv))) fields = true ->
  exists e, write_update_map item rid snap (PDict fields) = WErr e.
Proof.
  intros item rid snap fields H. unfold write_update_map.
  destruct (encode_string_cases item) as [[Ti [ei Ei]]|[Ti Ei]]; rewrite Ei; cbn [wbind];
    [|eexists; reflexivity].
  destruct (encode_string_cases rid) as [[Tr [er Er]]|[Tr Er]]; rewrite Er; cbn [wbind];
    [|eexists; reflexivity].
  rewrite Ti, Tr in H. cbn [negb orb] in H.
  destruct snap; cbn [encode_boolean wbind]; try (eexists; reflexivity).
  cbn [negb orb] in H.
  destruct fields as [|fv fields]; [discriminate H|].
  change (truthy (PDict (fv :: fields))) with true. cbv iota.
  destruct (enc_fields_unsupported _ H) as [e He]. rewrite He. cbn [wbind].
  eexists; reflexivity.
Qed.

Print Assumptions write_list_decodes.
Print Assumptions write_item_data_decodes.
Print Assumptions write_notify_user_decodes.
Print Assumptions write_update_decodes.
Print Assumptions write_item_notify_decodes.
Print Assumptions write_failure_decodes.
Print Assumptions void_reply_decodes.
Print Assumptions write_init_ok_decodes.
Print Assumptions write_credentials_decodes.
Print Assumptions write_list_unsupported.
Print Assumptions write_item_data_unsupported.
Print Assumptions write_notify_user_unsupported.
Print Assumptions write_update_unsupported.
