(* Proofs/ItemMonC.v — the monitors between_ok and stale_ok (C03) hold in every
   reachable state of the item LTS.

   Organisation:
     0. small library;
     1. a "shape" theorem: under Inv every step is a move of one dequeuer job
        (one of 28 pc transitions), a reader step or a move of one adapter
        thread, and the post-state is characterised by s_dqs / s_lis / s_hist /
        active_code only;
     2. auxiliary invariant: subscription pcs hold SUB tasks;
     3. between_ok;
     4. stale_ok;
     5. the reachability theorems. *)
From Coq Require Import String List Ascii NArith ZArith Bool Arith Lia.
From LS Require Import Model.Bytes Model.Tags Gen.Consts Model.Codec Model.Writers Model.AriReply
  Model.Item Model.ItemSpec.
From LS Require Proofs.ItemStruct Proofs.ItemFifo Proofs.ItemCode Proofs.ItemLso.
From LS Require Import Proofs.ItemInv.
Import ListNotations.

Opaque error_reply write_update_map write_eos write_cls void_reply.

(* ================================================================== *)
(* 0. Small library                                                     *)
(* ================================================================== *)

(* ---------- a monitor as a state machine ---------- *)
Section Mon.
  Context {St : Type} (mstep : St -> event -> option St).

  Fixpoint mrun (st : option St) (h : list event) : option St :=
    match h with
    | [] => st
    | e :: r => mrun (match st with Some x => mstep x e | None => None end) r
    end.

  Lemma mrun_app h es st : mrun st (h ++ es) = mrun (mrun st h) es.
  Proof. revert st; induction h as [|e r IH]; intros st; simpl; auto. Qed.

  Lemma mrun_none h : mrun None h = None.
  Proof. induction h; simpl; auto. Qed.
End Mon.

(* ---------- association lists ---------- *)
Lemma assoc_get_del_same {A} k (l : list (nat * A)) : assoc_get k (assoc_del k l) = None.
Proof.
  induction l as [|[k' v] r IH]; simpl; auto.
  destruct (Nat.eqb k k') eqn:E; auto. simpl. rewrite E. exact IH.
Qed.

Lemma assoc_get_del_other {A} k k0 (l : list (nat * A)) :
  k0 <> k -> assoc_get k0 (assoc_del k l) = assoc_get k0 l.
Proof.
  intros Hne. induction l as [|[k' v] r IH]; simpl; auto.
  destruct (Nat.eqb k k') eqn:E.
  - apply Nat.eqb_eq in E. subst k'.
    destruct (Nat.eqb k0 k) eqn:E0; [apply Nat.eqb_eq in E0; congruence|]. exact IH.
  - simpl. destruct (Nat.eqb k0 k'); auto.
Qed.

Lemma okey_inj o o' : okey_origin o = okey_origin o' -> o = o'.
Proof.
  destruct o, o'; unfold okey_origin; intros H; try reflexivity; try (exfalso; lia); f_equal; lia.
Qed.

(* ---------- lists of jobs ---------- *)
Lemma existsb_upd_same {A} (f : A -> bool) l j d d' :
  nth_error l j = Some d -> f d' = f d -> existsb f (upd j d' l) = existsb f l.
Proof. apply ItemLso.existsb_upd_same. Qed.

Lemma bytes_eqb_refl' x : bytes_eqb x x = true.
Proof. apply ItemCode.ic_bytes_eqb_refl. Qed.

Lemma last_task_lastk l t d : last_task l = Some t -> ItemLso.lastk d l = t_sub t.
Proof. intros H. rewrite ItemLso.lastk_last, H. reflexivity. Qed.

(* ================================================================== *)
(* 1. The shape of a step                                               *)
(* ================================================================== *)

(* the moves of dequeuer job j: pc before, pc after, events logged, new published
   id (None = unchanged) *)
Inductive jtr (s : istate) (j : nat) : pc -> pc -> list event -> option (option bytes) -> Prop :=
| JStart : jtr s j PQueued PTop [] None
| JEmpty : jtr s j PTop PDec [] None
| JPopSet t :
    t_sub t = true -> ItemLso.lastk false (replied (s_hist s)) = false ->
    jtr s j PTop (PSetCode t) [] None
| JPopLate t :
    t_sub t = true -> ItemLso.lastk false (replied (s_hist s)) = false ->
    jtr s j PTop (PLate t) [ESkip t] None
| JPopUsb t :
    t_sub t = false -> ItemLso.lastk false (replied (s_hist s)) = true ->
    hist_lso (s_hist s) = true ->
    jtr s j PTop (PUsbB t) [] None
| JPopUsbLate t :
    t_sub t = false -> hist_lso (s_hist s) = false ->
    jtr s j PTop (PUsbLate t) [] None
| JSetCode t : jtr s j (PSetCode t) (PSnapB t) [ESetCode t] (Some (Some (t_rid t)))
| JEosRead t rid :
    live (active_code s) = Some rid ->
    jtr s j (PEosRead t) (PEosPut t (active_code s)) [ELisB OLib LEos] None
| JEosDrop t :
    live (active_code s) = None ->
    jtr s j (PEosRead t) (PSubB t) [ELisB OLib LEos; ELisDropped OLib LEos] None
| JNestRead t b k rid :
    live (active_code s) = Some rid ->
    jtr s j (PNestRead t b k) (PNestPut t b k (active_code s)) [] None
| JNestDrop t b k :
    live (active_code s) = None ->
    jtr s j (PNestRead t b k) (if b then PInSub t else PInUsb t) [ELisDropped (ONested j) k] None
| JClear : jtr s j PClear PTop [EClearCode] (Some None)
| JDec : jtr s j PDec PDone [] None
| JDecDel : live (active_code s) = None -> jtr s j PDec PDone [EDel] (Some None)
| JLatePut t line : jtr s j (PLate t) PTop [EReply t line] None
| JEosPut t c rid line :
    live c = Some rid -> jtr s j (PEosPut t c) (PSubB t) [ENotif OLib LEos rid line] None
| JNestPut t b k c rid line :
    live c = Some rid ->
    jtr s j (PNestPut t b k c) (if b then PInSub t else PInUsb t) [ENotif (ONested j) k rid line] None
| JReply t o line : jtr s j (PReply t o) (if t_sub t then PTop else PClear) [EReply t line] None
| JUsbLatePut t line : jtr s j (PUsbLate t) PClear [EReply t line] None
| JCallBSnap t : jtr s j (PSnapB t) (PSnapE t) [ECallB KSnap t] None
| JCallBSub t : jtr s j (PSubB t) (PInSub t) [ECallB KSub t] None
| JCallBUsb t : jtr s j (PUsbB t) (PInUsb t) [ECallB KUsb t] None
| JCallESnap t o :
    jtr s j (PSnapE t)
        (match o with CRet true => PEosRead t | CRet false => PSubB t | CRaise _ => PReply t o end)
        [ECallE KSnap t o] None
| JCallESub t o : jtr s j (PInSub t) (PReply t o) [ECallE KSub t o] None
| JCallEUsb t o : jtr s j (PInUsb t) (PReply t o) [ECallE KUsb t o] None
| JNestSub t k : jtr s j (PInSub t) (PNestRead t true k) [ELisB (ONested j) k] None
| JNestUsb t k : jtr s j (PInUsb t) (PNestRead t false k) [ELisB (ONested j) k] None.

Definition job_shape (s s' : istate) (j : nat) : Prop :=
  exists d d' es nc,
    nth_error (s_dqs s) j = Some d /\
    s_dqs s' = upd j d' (s_dqs s) /\
    s_lis s' = s_lis s /\
    s_hist s' = s_hist s ++ es /\
    jtr s j (d_pc d) (d_pc d') es nc /\
    active_code s' = match nc with None => active_code s | Some c => c end.

Definition reader_shape (s s' : istate) : Prop :=
  s_lis s' = s_lis s /\ active_code s' = active_code s /\
  (s_dqs s' = s_dqs s \/ exists x, d_pc x = PQueued /\ s_dqs s' = s_dqs s ++ [x]) /\
  exists es, s_hist s' = s_hist s ++ es /\
             (es = [] \/ exists t, es = [EArr t] \/ es = [EArrDropped t]).

(* the moves of adapter thread l: pc before (None: the thread is new), pc after, events *)
Inductive ftr (s : istate) (l : nat) : option lpc -> lpc -> list event -> Prop :=
| FBegin k o : (o = Some LIdle \/ o = None) -> ftr s l o (LRead k) [ELisB (OFree l) k]
| FRead k rid :
    live (active_code s) = Some rid ->
    ftr s l (Some (LRead k)) (LPutS k (active_code s)) []
| FDrop k :
    live (active_code s) = None ->
    ftr s l (Some (LRead k)) LIdle [ELisDropped (OFree l) k]
| FPut k c rid line :
    live c = Some rid -> ftr s l (Some (LPutS k c)) LIdle [ENotif (OFree l) k rid line].

Definition free_shape (s s' : istate) (l : nat) : Prop :=
  exists p' es,
    s_dqs s' = s_dqs s /\ active_code s' = active_code s /\
    s_hist s' = s_hist s ++ es /\
    nth_error (s_lis s') l = Some p' /\
    (forall l', l' <> l -> nth_error (s_lis s') l' = nth_error (s_lis s) l') /\
    ftr s l (nth_error (s_lis s) l) p' es.

Inductive shape (s s' : istate) : Prop :=
| ShJob j : job_shape s s' j -> shape s s'
| ShReader : reader_shape s s' -> shape s s'
| ShFree l : free_shape s s' l -> shape s s'.

(* ---------- job labels ---------- *)
Ltac shape_fin Hd Hpc :=
  do 4 eexists;
  split; [exact Hd|];
  split; [reflexivity|];
  split; [reflexivity|];
  split; [first [reflexivity | symmetry; apply app_nil_r]|];
  split; [rewrite Hpc; cbn [d_pc with_pc]; econstructor; eauto|].

Ltac code_same Hm :=
  first [ reflexivity
        | eapply ItemCode.active_code_upd_same; [reflexivity|reflexivity|exact Hm|reflexivity] ].

Lemma shape_JobStart s j s' : step_JobStart s j = Some s' -> job_shape s s' j.
Proof.
  intros H. unfold step_JobStart in H.
  destruct (nth_error (s_dqs s) j) as [d|] eqn:Hd; [|discriminate].
  destruct (d_pc d) eqn:Hpc; try discriminate. injection H as <-.
  shape_fin Hd Hpc. reflexivity.
Qed.

Lemma shape_LockI s j s' : Inv s -> step_LockI s j = Some s' -> job_shape s s' j.
Proof.
  intros (Hall & Hk & Hr & Hu & Hidle & Hc) H. ItemLso.split_inv Hall.
  unfold step_LockI in H.
  destruct (nth_error (s_dqs s) j) as [d|] eqn:Hd; [|discriminate].
  destruct (d_pc d) eqn:Hpc; try discriminate.
  assert (Hi : inloop d = true) by (unfold inloop; rewrite Hpc; reflexivity).
  destruct (ItemLso.gen_live _ _ _ Hgen Hd (ItemLso.inloop_live _ Hi)) as [Ha [m Hm]].
  rewrite Hm in H.
  assert (Hl : hist_lso (s_hist s) = ItemLso.lso_of d m).
  { unfold inv_lso in Hlso. apply eqb_prop in Hlso. rewrite <- Hlso.
    apply (ItemLso.next_lso_at _ _ _ _ Hgen Hsingle Hd Hi Hm). }
  cbv zeta in H.
  destruct (m_deq m) as [|t rest] eqn:Hdeq.
  - injection H as <-. shape_fin Hd Hpc. code_same Hm.
  - pose proof (ItemLso.pop_kind _ _ _ _ _ _ Hgen Hsingle Hfifo (ItemLso.calls_alt _ Hc)
                  Hd Hpc Hm Hdeq) as Hkind.
    unfold ItemLso.lso_of in Hl.
    destruct (t_sub t) eqn:Hsub; [destruct rest as [|t2 rest2]|];
      cbn [is_nil negb andb] in H.
    + assert (Hlk : ItemLso.lastk false (replied (s_hist s)) = false)
        by (destruct (ItemLso.lastk false (replied (s_hist s))); [discriminate Hkind|reflexivity]).
      injection H as <-. shape_fin Hd Hpc. code_same Hm.
    + assert (Hlk : ItemLso.lastk false (replied (s_hist s)) = false)
        by (destruct (ItemLso.lastk false (replied (s_hist s))); [discriminate Hkind|reflexivity]).
      injection H as <-. shape_fin Hd Hpc. code_same Hm.
    + assert (Hlk : ItemLso.lastk false (replied (s_hist s)) = true)
        by (destruct (ItemLso.lastk false (replied (s_hist s))); [reflexivity|discriminate Hkind]).
      destruct (if Z.eqb (d_dequeued d) 0 then m_last_ok m else d_lso d) eqn:Elso;
        injection H as <-; shape_fin Hd Hpc; code_same Hm.
Qed.

Lemma shape_LockM s j s' : Inv s -> step_LockM s j = Some s' -> job_shape s s' j.
Proof.
  intros (Hall & Hk & Hr & Hu & Hidle & Hc) H. ItemLso.split_inv Hall.
  unfold step_LockM in H.
  destruct (nth_error (s_dqs s) j) as [d|] eqn:Hd; [|discriminate].
  destruct (d_pc d) eqn:Hpc; try discriminate.
  all: assert (Hlv : live_dq d = true) by (unfold live_dq; rewrite Hpc; reflexivity).
  all: destruct (ItemLso.gen_live _ _ _ Hgen Hd Hlv) as [Ha [m Hm]].
  all: rewrite Hm in H; cbv zeta in H.
  - (* PSetCode *)
    injection H as <-. shape_fin Hd Hpc.
    unfold active_code. cbn [s_active s_mgrs log set_dq set_mgr].
    rewrite Ha, (ItemLso.nth_error_upd_eq _ _ _ _ Hm). reflexivity.
  - (* PEosRead *)
    destruct (live (active_code s)) eqn:El; injection H as <-; shape_fin Hd Hpc; reflexivity.
  - (* PNestRead *)
    destruct (live (active_code s)) eqn:El; injection H as <-; shape_fin Hd Hpc; reflexivity.
  - (* PClear *)
    injection H as <-. shape_fin Hd Hpc.
    unfold active_code. cbn [s_active s_mgrs log set_dq set_mgr].
    rewrite Ha, (ItemLso.nth_error_upd_eq _ _ _ _ Hm). reflexivity.
  - (* PDec *)
    rewrite Ha, Nat.eqb_refl, andb_true_r in H.
    assert (Hac : active_code s = m_code m) by (unfold active_code; rewrite Ha, Hm; reflexivity).
    match type of H with (if ?c then _ else _) = _ => destruct c eqn:Edel end;
      injection H as <-.
    + rewrite andb_true_iff in Edel. destruct Edel as [Ef _].
      assert (Hln : live (active_code s) = None)
        by (rewrite Hac; destruct (live (m_code m)); [discriminate Ef|reflexivity]).
      shape_fin Hd Hpc. reflexivity.
    + shape_fin Hd Hpc. code_same Hm.
Qed.

Lemma shape_Put s j s' : step_Put s j = Some s' -> job_shape s s' j.
Proof.
  intros H. unfold step_Put, listener_put in H.
  destruct (nth_error (s_dqs s) j) as [d|] eqn:Hd; [|discriminate].
  destruct (d_pc d) eqn:Hpc; try discriminate; ItemLso.destr_H H; injection H as <-;
    shape_fin Hd Hpc; reflexivity.
Qed.

Lemma shape_CallB s j s' : step_CallB s j = Some s' -> job_shape s s' j.
Proof.
  intros H. unfold step_CallB in H.
  destruct (nth_error (s_dqs s) j) as [d|] eqn:Hd; [|discriminate].
  destruct (d_pc d) eqn:Hpc; try discriminate; injection H as <-;
    shape_fin Hd Hpc; reflexivity.
Qed.

Lemma shape_CallE s j o s' : step_CallE s j o = Some s' -> job_shape s s' j.
Proof.
  intros H. unfold step_CallE in H.
  destruct (nth_error (s_dqs s) j) as [d|] eqn:Hd; [|discriminate].
  destruct (d_pc d) eqn:Hpc; try discriminate; cbv zeta in H; injection H as <-.
  - do 4 eexists.
    split; [exact Hd|]. split; [reflexivity|]. split; [reflexivity|]. split; [reflexivity|].
    assert (X : jtr s j (d_pc d)
                  (d_pc match o with
                        | CRet _ => with_pc d match o with
                                              | CRet true => PEosRead t
                                              | CRet false => PSubB t
                                              | CRaise _ => PReply t o
                                              end
                        | CRaise _ => {| d_gen := d_gen d;
                                         d_pc := match o with
                                                 | CRet true => PEosRead t
                                                 | CRet false => PSubB t
                                                 | CRaise _ => PReply t o
                                                 end;
                                         d_dequeued := d_dequeued d; d_lso := false |}
                        end) [ECallE KSnap t o] None).
    { rewrite Hpc. destruct o as [[|]|e]; cbn [d_pc with_pc].
      + apply (JCallESnap s j t (CRet true)).
      + apply (JCallESnap s j t (CRet false)).
      + apply (JCallESnap s j t (CRaise e)). }
    split; [exact X|reflexivity].
  - shape_fin Hd Hpc. reflexivity.
  - shape_fin Hd Hpc. reflexivity.
Qed.

Lemma shape_Nest s j k s' : step_Nest s j k = Some s' -> job_shape s s' j.
Proof.
  intros H. unfold step_Nest in H.
  destruct (nth_error (s_dqs s) j) as [d|] eqn:Hd; [|discriminate].
  destruct (d_pc d) eqn:Hpc; try discriminate; injection H as <-;
    shape_fin Hd Hpc; reflexivity.
Qed.

(* ---------- the reader ---------- *)
Lemma shape_R1 s t s' : step_R1 s t = Some s' -> reader_shape s s'.
Proof.
  intros H. unfold step_R1 in H.
  destruct (s_pending s); [discriminate|].
  destruct (s_active s) as [g|] eqn:Ha.
  - destruct (nth_error (s_mgrs s) g) as [m|] eqn:Hm; [|discriminate]. injection H as <-.
    split; [reflexivity|]. split.
    { eapply ItemCode.active_code_upd_same; [reflexivity|reflexivity|exact Hm|reflexivity]. }
    split; [left; reflexivity|].
    exists [EArr t]. split; [reflexivity|]. right. exists t. left. reflexivity.
  - destruct (t_sub t); injection H as <-.
    + split; [reflexivity|]. split.
      { unfold active_code. cbn [s_active s_mgrs log]. rewrite Ha.
        rewrite ItemLso.nth_error_snoc_len. reflexivity. }
      split; [left; reflexivity|].
      exists [EArr t]. split; [reflexivity|]. right. exists t. left. reflexivity.
    + split; [reflexivity|]. split; [reflexivity|]. split; [left; reflexivity|].
      exists [EArrDropped t]. split; [reflexivity|]. right. exists t. right. reflexivity.
Qed.

Lemma shape_R2 s s' : step_R2 s = Some s' -> reader_shape s s'.
Proof.
  intros H. unfold step_R2 in H.
  destruct (s_pending s) as [[t g]|]; [|discriminate].
  destruct (nth_error (s_mgrs s) g) as [m|] eqn:Hm; [|discriminate]. injection H as <-.
  split; [reflexivity|]. split.
  { eapply ItemCode.active_code_upd_same; [reflexivity|reflexivity|exact Hm|reflexivity]. }
  split.
  - cbn [s_dqs set_mgr]. destruct (m_running m); [left; reflexivity|].
    right. eexists. split; [|reflexivity]. reflexivity.
  - exists []. split; [symmetry; apply app_nil_r|]. left. reflexivity.
Qed.

(* ---------- adapter threads ---------- *)
Lemma nth_error_upd_other {A} n k (x : A) l : k <> n -> nth_error (upd n x l) k = nth_error l k.
Proof. intros H. apply ItemLso.nth_error_upd_neq. congruence. Qed.

Lemma nth_error_snoc_other {A} (l : list A) x k :
  k <> length l -> nth_error (l ++ [x]) k = nth_error l k.
Proof.
  intros H. destruct (Nat.lt_ge_cases k (length l)) as [L|L].
  - apply nth_error_app1. exact L.
  - assert (E1 : nth_error l k = None) by (apply nth_error_None; lia).
    rewrite E1. apply nth_error_None. rewrite app_length. simpl. lia.
Qed.

Lemma shape_FreeBegin s l k s' : step_FreeBegin s l k = Some s' -> free_shape s s' l.
Proof.
  intros H. unfold step_FreeBegin in H.
  destruct (nth_error (s_lis s) l) as [p|] eqn:Hl.
  - destruct p; try discriminate. injection H as <-.
    exists (LRead k), [ELisB (OFree l) k].
    split; [reflexivity|]. split; [reflexivity|]. split; [reflexivity|].
    split; [cbn [s_lis log set_lis]; eapply ItemLso.nth_error_upd_eq; exact Hl|].
    split; [intros l' Hne; cbn [s_lis log set_lis]; apply nth_error_upd_other; exact Hne|].
    constructor. left. exact Hl.
  - destruct (Nat.eqb l (length (s_lis s))) eqn:E; [|discriminate]. injection H as <-.
    apply Nat.eqb_eq in E.
    exists (LRead k), [ELisB (OFree l) k].
    split; [reflexivity|]. split; [reflexivity|]. split; [reflexivity|].
    split; [cbn [s_lis log]; rewrite E; apply ItemLso.nth_error_snoc_len|].
    split; [intros l' Hne; cbn [s_lis log]; apply nth_error_snoc_other; congruence|].
    constructor. right. exact Hl.
Qed.

Lemma shape_FreeLockM s l s' : step_FreeLockM s l = Some s' -> free_shape s s' l.
Proof.
  intros H. unfold step_FreeLockM in H.
  destruct (nth_error (s_lis s) l) as [p|] eqn:Hl; [|discriminate].
  destruct p; try discriminate. cbv zeta in H.
  destruct (live (active_code s)) as [rid|] eqn:El; injection H as <-.
  - exists (LPutS k (active_code s)), [].
    split; [reflexivity|]. split; [reflexivity|]. split; [symmetry; apply app_nil_r|].
    split; [cbn [s_lis log set_lis]; eapply ItemLso.nth_error_upd_eq; exact Hl|].
    split; [intros l' Hne; cbn [s_lis log set_lis]; apply nth_error_upd_other; exact Hne|].
    rewrite Hl. econstructor. exact El.
  - exists LIdle, [ELisDropped (OFree l) k].
    split; [reflexivity|]. split; [reflexivity|]. split; [reflexivity|].
    split; [cbn [s_lis log set_lis]; eapply ItemLso.nth_error_upd_eq; exact Hl|].
    split; [intros l' Hne; cbn [s_lis log set_lis]; apply nth_error_upd_other; exact Hne|].
    rewrite Hl. constructor. exact El.
Qed.

Lemma shape_FreePut s l s' : step_FreePut s l = Some s' -> free_shape s s' l.
Proof.
  intros H. unfold step_FreePut, listener_put in H.
  destruct (nth_error (s_lis s) l) as [p|] eqn:Hl; [|discriminate].
  destruct p; try discriminate.
  destruct (live c) as [rid|] eqn:El; [|discriminate].
  destruct (notif_line (s_item s) rid k) as [line|]; [|discriminate]. injection H as <-.
  exists LIdle, [ENotif (OFree l) k rid line].
  split; [reflexivity|]. split; [reflexivity|]. split; [reflexivity|].
  split; [cbn [s_lis log set_lis]; eapply ItemLso.nth_error_upd_eq; exact Hl|].
  split; [intros l' Hne; cbn [s_lis log set_lis]; apply nth_error_upd_other; exact Hne|].
  rewrite Hl. econstructor. exact El.
Qed.

Theorem step_shape s lb s' : Inv s -> step s lb = Some s' -> shape s s'.
Proof.
  intros HI H. destruct lb; cbn [step] in H.
  - apply ShReader. eapply shape_R1; eauto.
  - apply ShReader. eapply shape_R2; eauto.
  - eapply ShJob. eapply shape_JobStart; eauto.
  - eapply ShJob. eapply shape_LockI; eauto.
  - eapply ShJob. eapply shape_LockM; eauto.
  - eapply ShJob. eapply shape_Put; eauto.
  - eapply ShJob. eapply shape_CallB; eauto.
  - eapply ShJob. eapply shape_CallE; eauto.
  - eapply ShJob. eapply shape_Nest; eauto.
  - eapply ShFree. eapply shape_FreeBegin; eauto.
  - eapply ShFree. eapply shape_FreeLockM; eauto.
  - eapply ShFree. eapply shape_FreePut; eauto.
Qed.

(* ---------- consequences of a job shape ---------- *)
Lemma focus_pre s j d :
  inv_single s = true -> nth_error (s_dqs s) j = Some d -> inloop d = true ->
  inhand s = inhand_pc (d_pc d) /\
  existsb (fun x => ItemLso.usbb_pc (d_pc x)) (s_dqs s) = ItemLso.usbb_pc (d_pc d).
Proof.
  intros Hs Hd Hi. pose proof (ItemLso.single_le _ Hs) as Hle. split.
  - unfold inhand. rewrite <- (ItemLso.upd_same j d (s_dqs s) Hd).
    apply (ItemLso.flat_map_upd_uniq _ _ _ _ d ItemLso.out_inhand Hle Hd Hi).
  - rewrite <- (ItemLso.upd_same j d (s_dqs s) Hd).
    apply (ItemLso.existsb_upd_uniq _ _ _ _ d ItemLso.out_usbb Hle Hd Hi).
Qed.

Lemma focus_post s s' j d d' :
  inv_single s = true -> nth_error (s_dqs s) j = Some d -> inloop d = true ->
  s_dqs s' = upd j d' (s_dqs s) ->
  inhand s' = inhand_pc (d_pc d') /\
  existsb (fun x => ItemLso.usbb_pc (d_pc x)) (s_dqs s') = ItemLso.usbb_pc (d_pc d').
Proof.
  intros Hs Hd Hi Hdq. pose proof (ItemLso.single_le _ Hs) as Hle. split.
  - unfold inhand. rewrite Hdq.
    apply (ItemLso.flat_map_upd_uniq _ _ _ _ d' ItemLso.out_inhand Hle Hd Hi).
  - rewrite Hdq.
    apply (ItemLso.existsb_upd_uniq _ _ _ _ d' ItemLso.out_usbb Hle Hd Hi).
Qed.

(* ================================================================== *)
(* 2. Subscription pcs hold subscription tasks                          *)
(* ================================================================== *)

Definition subk_pc (p : pc) : bool :=
  match p with
  | PLate t | PSetCode t | PSnapB t | PSnapE t | PEosRead t | PEosPut t _ | PSubB t | PInSub t
  | PNestRead t true _ | PNestPut t true _ _ => t_sub t
  | _ => true
  end.

Definition inv_subk (s : istate) : bool := forallb (fun d => subk_pc (d_pc d)) (s_dqs s).

Lemma inv_subk_init item : inv_subk (init_state item) = true.
Proof. reflexivity. Qed.

Lemma jtr_subk s j p p' es nc : jtr s j p p' es nc -> subk_pc p = true -> subk_pc p' = true.
Proof.
  intros H Hp.
  destruct H; try destruct b; try destruct o as [[|]|?]; cbn [subk_pc] in *;
    try reflexivity; try assumption.
  all: destruct (t_sub t); reflexivity.
Qed.

Lemma subk_at s j d : inv_subk s = true -> nth_error (s_dqs s) j = Some d -> subk_pc (d_pc d) = true.
Proof.
  intros H Hd. unfold inv_subk in H. rewrite ItemCode.forallb_nth in H. exact (H _ _ Hd).
Qed.

Lemma inv_subk_shape s s' : inv_subk s = true -> shape s s' -> inv_subk s' = true.
Proof.
  intros Hk [j (d & d' & es & nc & Hd & Hdq & _ & _ & Hj & _)
            |(_ & _ & [Hdq|(x & Hx & Hdq)] & _)
            |l (p' & es & Hdq & _)]; unfold inv_subk; rewrite Hdq.
  - apply ItemCode.forallb_upd; [exact Hk|].
    eapply jtr_subk; [exact Hj|]. eapply subk_at; eassumption.
  - exact Hk.
  - rewrite forallb_app. unfold inv_subk in Hk. rewrite Hk. cbn. rewrite Hx. reflexivity.
  - exact Hk.
Qed.

(* ================================================================== *)
(* 3. between_ok                                                        *)
(* ================================================================== *)

Definition bst := (option task * list (nat * task))%type.

Definition b_step (st : bst) (e : event) : option bst :=
  let (ls, w) := st in
  match e with
  | ECallE KSub t (CRet _) => Some (Some t, w)
  | ECallB KUsb _ => Some (None, [])
  | ECallB KSub _ => Some (None, [])
  | ELisB (OFree l) _ =>
      Some (ls, match ls with Some t => (l, t) :: assoc_del l w | None => assoc_del l w end)
  | ENotif (OFree l) _ rid _ =>
      if match assoc_get l w with Some t => bytes_eqb rid (t_rid t) | None => true end
      then Some (ls, assoc_del l w) else None
  | ELisDropped (OFree l) _ =>
      if match assoc_get l w with Some _ => false | None => true end
      then Some (ls, assoc_del l w) else None
  | _ => Some st
  end.

Lemma b_state_ok h : forall ls w x,
  mrun b_step (Some (ls, w)) h = Some x -> between_ok_from ls w h = true.
Proof.
  induction h as [|e r IH]; intros ls w x H; [reflexivity|].
  destruct e; try (simpl in *; eauto; fail).
  - destruct c; simpl in *; eauto.
  - destruct c; try (simpl in *; eauto; fail). destruct o; simpl in *; eauto.
  - destruct o; try (simpl in *; eauto; fail). simpl in *.
    destruct (match assoc_get thread w with Some t => bytes_eqb rid (t_rid t) | None => true end).
    + simpl. eauto.
    + rewrite mrun_none in H. discriminate.
  - destruct o; simpl in *; eauto.
  - destruct o; try (simpl in *; eauto; fail). simpl in *.
    destruct (match assoc_get thread w with Some _ => false | None => true end).
    + simpl. eauto.
    + rewrite mrun_none in H. discriminate.
Qed.

Definition btw_pc (p : pc) : bool :=
  match p with PReply _ _ | PUsbB _ | PTop | PQueued | PDec | PDone => true | _ => false end.

(* while a successful subscription t is live: its id is published and stays so *)
Definition Lcond (s : istate) (t : task) : Prop :=
  active_code s = Some (t_rid t) /\ hist_lso (s_hist s) = true /\ t_sub t = true /\
  forallb (fun d => btw_pc (d_pc d)) (s_dqs s) = true /\
  (last_task (replied (s_hist s) ++ inhand s) = Some t \/
   existsb (fun d => ItemLso.usbb_pc (d_pc d)) (s_dqs s) = true).

Definition Wcond (s : istate) (ls : option task) (w : list (nat * task)) : Prop :=
  forall l t, assoc_get l w = Some t ->
    ls = Some t /\
    exists k, nth_error (s_lis s) l = Some (LRead k) \/
              nth_error (s_lis s) l = Some (LPutS k (Some (t_rid t))).

Definition Bcore (s : istate) (ls : option task) (w : list (nat * task)) : Prop :=
  mrun b_step (Some (None, [])) (s_hist s) = Some (ls, w) /\ Wcond s ls w /\
  (forall t, ls = Some t -> Lcond s t).

Definition inv_between (s : istate) : Prop :=
  inv_subk s = true /\ exists ls w, Bcore s ls w.

Lemma inv_between_init item : inv_between (init_state item).
Proof.
  split; [reflexivity|]. exists None, []. split; [reflexivity|]. split.
  - intros l t H. discriminate.
  - intros t H. discriminate.
Qed.

Lemma inv_between_ok s : inv_between s -> between_ok (s_hist s) = true.
Proof.
  intros (_ & ls & w & H & _). unfold between_ok. eapply b_state_ok. exact H.
Qed.

Lemma W_none s w : Wcond s None w -> w = [].
Proof.
  intros H. destruct w as [|[l t] r]; [reflexivity|].
  destruct (H l t) as [E _]; [simpl; rewrite Nat.eqb_refl; reflexivity|discriminate].
Qed.

Lemma Bcore_none s' : mrun b_step (Some (None, [])) (s_hist s') = Some (None, []) -> Bcore s' None [].
Proof.
  intros H. split; [exact H|]. split.
  - intros l t E. discriminate.
  - intros t E. discriminate.
Qed.

Lemma Bcore_none_app s s' es :
  mrun b_step (Some (None, [])) (s_hist s) = Some (None, []) ->
  s_hist s' = s_hist s ++ es ->
  mrun b_step (Some (None, [])) es = Some (None, []) ->
  exists ls' w', Bcore s' ls' w'.
Proof.
  intros Hst Hh E. exists None, []. apply Bcore_none. rewrite Hh, mrun_app, Hst. exact E.
Qed.

(* ---------- no live subscription ---------- *)
Lemma btw_job_none s s' j :
  Inv s -> inv_subk s = true ->
  mrun b_step (Some (None, [])) (s_hist s) = Some (None, []) ->
  job_shape s s' j -> exists ls' w', Bcore s' ls' w'.
Proof.
  intros HI Hsk Hst (d & d' & es & nc & Hd & Hdq & Hlis & Hh & Hj & Hac).
  remember (d_pc d) as p eqn:Hp. remember (d_pc d') as p' eqn:Hp'.
  destruct Hj; try (apply (Bcore_none_app s s' _ Hst Hh); reflexivity).
  destruct o as [b|e]; [|apply (Bcore_none_app s s' _ Hst Hh); reflexivity].
  destruct HI as (Hall & _). ItemLso.split_inv Hall.
  assert (Hi : inloop d = true) by (unfold inloop; rewrite <- Hp; reflexivity).
  pose proof (ItemCode.inv_code_job _ _ _ Hcode Hd) as Hok. rewrite <- Hp in Hok.
  cbn [pc_code_ok] in Hok. apply ItemCode.obytes_eqb_true in Hok.
  pose proof (subk_at _ _ _ Hsk Hd) as Hts. rewrite <- Hp in Hts. cbn [subk_pc] in Hts.
  destruct (focus_post _ _ _ _ _ Hsingle Hd Hi Hdq) as [Hih Hus].
  exists (Some t), []. split; [|split].
  - rewrite Hh, mrun_app, Hst. reflexivity.
  - intros l t0 E. discriminate.
  - intros t0 E. injection E as <-. unfold Lcond.
    split; [rewrite Hac; exact Hok|].
    split; [rewrite Hh, ItemLso.hist_lso_app; reflexivity|].
    split; [exact Hts|]. split.
    + rewrite Hdq. apply ItemCode.forallb_upd_others; [rewrite <- Hp'; reflexivity|].
      intros m y Hne Hy.
      pose proof (ItemCode.others_not_inloop _ _ _ _ _ Hsingle Hd Hi Hne Hy) as Hn.
      unfold inloop in Hn. destruct (d_pc y); try discriminate; reflexivity.
    + left. rewrite Hih, <- Hp'. cbn [inhand_pc]. apply ItemFifo.last_task_snoc.
Qed.

Lemma btw_reader_none s s' :
  mrun b_step (Some (None, [])) (s_hist s) = Some (None, []) ->
  reader_shape s s' -> exists ls' w', Bcore s' ls' w'.
Proof.
  intros Hst (_ & _ & _ & es & Hh & [->|(t & [->| ->])]);
    apply (Bcore_none_app s s' _ Hst Hh); reflexivity.
Qed.

Lemma btw_free_none s s' l :
  mrun b_step (Some (None, [])) (s_hist s) = Some (None, []) ->
  free_shape s s' l -> exists ls' w', Bcore s' ls' w'.
Proof.
  intros Hst (p' & es & _ & _ & Hh & _ & _ & Hf).
  destruct Hf; apply (Bcore_none_app s s' _ Hst Hh); reflexivity.
Qed.

(* ---------- a live subscription ---------- *)
Lemma Lcond_frame s s' t es :
  Lcond s t ->
  active_code s' = active_code s -> s_hist s' = s_hist s ++ es ->
  (forall b, hist_lso_from b es = b) -> replied es = [] ->
  forallb (fun d => btw_pc (d_pc d)) (s_dqs s') = true ->
  inhand s' = inhand s ->
  existsb (fun d => ItemLso.usbb_pc (d_pc d)) (s_dqs s') =
  existsb (fun d => ItemLso.usbb_pc (d_pc d)) (s_dqs s) ->
  Lcond s' t.
Proof.
  intros (Hc & Hl & Hs & Hp & H2) Hac Hh Hn Hr Hp' Hih Hus. unfold Lcond.
  rewrite Hac, Hh, ItemLso.hist_lso_app, Hl, Hn, ItemLso.replied_app, Hr, app_nil_r, Hih, Hus.
  repeat split; auto.
Qed.

Lemma Lcond_job s s' t j d d' es :
  inv_single s = true -> Lcond s t ->
  nth_error (s_dqs s) j = Some d -> inloop d = true -> s_dqs s' = upd j d' (s_dqs s) ->
  active_code s' = active_code s -> s_hist s' = s_hist s ++ es ->
  (forall b, hist_lso_from b es = b) ->
  btw_pc (d_pc d') = true ->
  (last_task (replied (s_hist s) ++ inhand_pc (d_pc d)) = Some t \/
   ItemLso.usbb_pc (d_pc d) = true ->
   last_task (replied (s_hist s ++ es) ++ inhand_pc (d_pc d')) = Some t \/
   ItemLso.usbb_pc (d_pc d') = true) ->
  Lcond s' t.
Proof.
  intros Hsg (Hc & Hl & Hs & Hp & H2) Hd Hi Hdq Hac Hh Hn Hb Htr.
  destruct (focus_pre _ _ _ Hsg Hd Hi) as [Hih Hus].
  destruct (focus_post _ _ _ _ _ Hsg Hd Hi Hdq) as [Hih' Hus'].
  unfold Lcond. rewrite Hac, Hh, ItemLso.hist_lso_app, Hl, Hn, Hih', Hus'.
  split; [exact Hc|]. split; [reflexivity|]. split; [exact Hs|]. split.
  - rewrite Hdq. apply ItemCode.forallb_upd; assumption.
  - apply Htr. rewrite <- Hih, <- Hus. exact H2.
Qed.

Lemma Bcore_keep s s' t w es :
  mrun b_step (Some (None, [])) (s_hist s) = Some (Some t, w) -> Wcond s (Some t) w ->
  s_hist s' = s_hist s ++ es -> mrun b_step (Some (Some t, w)) es = Some (Some t, w) ->
  s_lis s' = s_lis s -> Lcond s' t -> exists ls' w', Bcore s' ls' w'.
Proof.
  intros Hst HW Hh E Hlis HL. exists (Some t), w. split; [|split].
  - rewrite Hh, mrun_app, Hst. exact E.
  - intros l t0 H0. rewrite Hlis. apply HW. exact H0.
  - intros t0 E0. injection E0 as <-. exact HL.
Qed.

Lemma live_code_nonempty s t :
  inv_rids s = true -> active_code s = Some (t_rid t) -> live (active_code s) = Some (t_rid t).
Proof.
  intros Hr Hc. pose proof (ItemCode.rids_code_nonempty _ Hr) as Hne. rewrite Hc in *.
  apply ItemCode.live_of_nonempty. intros E. apply Hne. rewrite E. reflexivity.
Qed.

Lemma btw_job_some s s' j t w :
  Inv s -> Bcore s (Some t) w -> job_shape s s' j -> exists ls' w', Bcore s' ls' w'.
Proof.
  intros HI (Hst & HW & HL) (d & d' & es & nc & Hd & Hdq & Hlis & Hh & Hj & Hac).
  specialize (HL t eq_refl). pose proof HL as (Hc & Hl & Hs & Hpcs & HP2).
  destruct HI as (Hall & _). ItemLso.split_inv Hall.
  assert (Hb : btw_pc (d_pc d) = true)
    by (rewrite ItemCode.forallb_nth in Hpcs; exact (Hpcs _ _ Hd)).
  pose proof (live_code_nonempty _ _ Hrids Hc) as Hlive.
  remember (d_pc d) as p eqn:Hp. remember (d_pc d') as p' eqn:Hp'.
  destruct Hj; cbn [btw_pc] in Hb; try discriminate Hb.
  - (* JStart *)
    assert (Hi : inloop d = true) by (unfold inloop; rewrite <- Hp; reflexivity).
    eapply (Bcore_keep s s' t w []); eauto.
    eapply (Lcond_job s s' t j d d' []); eauto.
    + rewrite <- Hp'. reflexivity.
    + rewrite <- Hp, <- Hp'. cbn [inhand_pc]. rewrite !app_nil_r. auto.
  - (* JEmpty *)
    assert (Hi : inloop d = true) by (unfold inloop; rewrite <- Hp; reflexivity).
    eapply (Bcore_keep s s' t w []); eauto.
    eapply (Lcond_job s s' t j d d' []); eauto.
    + rewrite <- Hp'. reflexivity.
    + rewrite <- Hp, <- Hp'. cbn [inhand_pc]. rewrite !app_nil_r. auto.
  - (* JPopSet: impossible, the last answered request is the subscription *)
    exfalso. assert (Hi : inloop d = true) by (unfold inloop; rewrite <- Hp; reflexivity).
    destruct (focus_pre _ _ _ Hsingle Hd Hi) as [Hih Hus].
    rewrite Hih, Hus, <- Hp in HP2. cbn in HP2. rewrite app_nil_r in HP2.
    destruct HP2 as [HP2|HP2]; [|discriminate].
    rewrite (last_task_lastk _ _ false HP2), Hs in H0. discriminate.
  - (* JPopLate *)
    exfalso. assert (Hi : inloop d = true) by (unfold inloop; rewrite <- Hp; reflexivity).
    destruct (focus_pre _ _ _ Hsingle Hd Hi) as [Hih Hus].
    rewrite Hih, Hus, <- Hp in HP2. cbn in HP2. rewrite app_nil_r in HP2.
    destruct HP2 as [HP2|HP2]; [|discriminate].
    rewrite (last_task_lastk _ _ false HP2), Hs in H0. discriminate.
  - (* JPopUsb *)
    assert (Hi : inloop d = true) by (unfold inloop; rewrite <- Hp; reflexivity).
    eapply (Bcore_keep s s' t w []); eauto.
    eapply (Lcond_job s s' t j d d' []); eauto.
    + rewrite <- Hp'. reflexivity.
    + intros _. right. rewrite <- Hp'. reflexivity.
  - (* JPopUsbLate: impossible, the outcome flag is set *)
    congruence.
  - (* JDec *)
    assert (Hi : inloop d = false) by (unfold inloop; rewrite <- Hp; reflexivity).
    eapply (Bcore_keep s s' t w []); eauto.
    eapply (Lcond_frame s s' t []); eauto.
    + rewrite Hdq. apply ItemCode.forallb_upd; [exact Hpcs|]. rewrite <- Hp'. reflexivity.
    + unfold inhand. rewrite Hdq. apply (ItemLso.flat_map_upd_same _ _ _ _ _ Hd).
      rewrite <- Hp, <- Hp'. reflexivity.
    + rewrite Hdq. apply (existsb_upd_same _ _ _ _ _ Hd). rewrite <- Hp, <- Hp'. reflexivity.
  - (* JDecDel: impossible, the published id is live *)
    congruence.
  - (* JReply *)
    assert (Hi : inloop d = true) by (unfold inloop; rewrite <- Hp; reflexivity).
    destruct (focus_pre _ _ _ Hsingle Hd Hi) as [Hih Hus].
    rewrite Hih, Hus, <- Hp in HP2. cbn [inhand_pc ItemLso.usbb_pc] in HP2.
    destruct HP2 as [HP2|HP2]; [|discriminate].
    rewrite ItemFifo.last_task_snoc in HP2. injection HP2 as ->.
    rewrite Hs in Hp'.
    eapply (Bcore_keep s s' t w [EReply t line]); eauto.
    eapply (Lcond_job s s' t j d d' [EReply t line]); eauto.
    + rewrite <- Hp'. reflexivity.
    + intros _. left. rewrite <- Hp', ItemLso.replied_app. cbn [replied inhand_pc].
      rewrite app_nil_r. apply ItemFifo.last_task_snoc.
  - (* JCallBUsb *)
    exists None, []. apply Bcore_none. rewrite Hh, mrun_app, Hst. reflexivity.
Qed.

Lemma btw_reader_some s s' t w :
  Bcore s (Some t) w -> reader_shape s s' -> exists ls' w', Bcore s' ls' w'.
Proof.
  intros (Hst & HW & HL) (Hlis & Hac & Hdq & es & Hh & Hes).
  specialize (HL t eq_refl). pose proof HL as (Hc & Hl & Hs & Hpcs & HP2).
  assert (Hn : forall b, hist_lso_from b es = b)
    by (destruct Hes as [->|(t0 & [->| ->])]; reflexivity).
  assert (Hr : replied es = [])
    by (destruct Hes as [->|(t0 & [->| ->])]; reflexivity).
  assert (Hm : mrun b_step (Some (Some t, w)) es = Some (Some t, w))
    by (destruct Hes as [->|(t0 & [->| ->])]; reflexivity).
  eapply (Bcore_keep s s' t w es); eauto.
  destruct Hdq as [Hdq|(x & Hx & Hdq)].
  - eapply (Lcond_frame s s' t es); eauto; try rewrite Hdq; auto.
    unfold inhand. rewrite Hdq. reflexivity.
  - eapply (Lcond_frame s s' t es); eauto.
    + rewrite Hdq, forallb_app, Hpcs. cbn. rewrite Hx. reflexivity.
    + unfold inhand. rewrite Hdq, flat_map_app. cbn. rewrite Hx. cbn. apply app_nil_r.
    + rewrite Hdq, existsb_app. cbn. rewrite Hx. cbn. apply orb_false_r.
Qed.

Lemma btw_free_some s s' l t w :
  Inv s -> Bcore s (Some t) w -> free_shape s s' l -> exists ls' w', Bcore s' ls' w'.
Proof.
  intros HI (Hst & HW & HL) (p' & es & Hdq & Hac & Hh & Hl' & Hoth & Hf).
  specialize (HL t eq_refl). pose proof HL as (Hc & Hl & Hs & Hpcs & HP2).
  destruct HI as (Hall & _). ItemLso.split_inv Hall.
  pose proof (live_code_nonempty _ _ Hrids Hc) as Hlive.
  assert (HL' : forall es0, s_hist s' = s_hist s ++ es0 ->
                  (forall b, hist_lso_from b es0 = b) -> replied es0 = [] -> Lcond s' t).
  { intros es0 Hh0 Hn Hr. eapply (Lcond_frame s s' t es0); eauto; try rewrite Hdq; auto.
    unfold inhand. rewrite Hdq. reflexivity. }
  remember (nth_error (s_lis s) l) as pl eqn:Hpl.
  destruct Hf.
  - (* FBegin *)
    exists (Some t), ((l, t) :: assoc_del l w). split; [|split].
    + rewrite Hh, mrun_app, Hst. reflexivity.
    + intros l0 t0 E. cbn [assoc_get] in E. destruct (Nat.eqb l0 l) eqn:El.
      * apply Nat.eqb_eq in El. subst l0. injection E as <-. split; [reflexivity|].
        exists k. left. exact Hl'.
      * apply Nat.eqb_neq in El. rewrite (assoc_get_del_other _ _ _ El) in E.
        rewrite (Hoth _ El). apply HW. exact E.
    + intros t0 E. injection E as <-. apply (HL' _ Hh); reflexivity.
  - (* FRead *)
    exists (Some t), w. split; [|split].
    + rewrite Hh, mrun_app, Hst. reflexivity.
    + intros l0 t0 E. destruct (HW _ _ E) as [E1 HX]. split; [exact E1|].
      injection E1 as <-.
      destruct (Nat.eq_dec l0 l) as [->|Hne].
      * exists k. right. rewrite Hl', Hc. reflexivity.
      * rewrite (Hoth _ Hne). exact HX.
    + intros t0 E. injection E as <-. apply (HL' _ Hh); reflexivity.
  - (* FDrop: impossible *)
    congruence.
  - (* FPut *)
    assert (Hchk : match assoc_get l w with Some t1 => bytes_eqb rid (t_rid t1) | None => true end
                   = true).
    { destruct (assoc_get l w) as [t1|] eqn:E1; [|reflexivity].
      destruct (HW _ _ E1) as [_ (k1 & [HX|HX])]; rewrite HX in Hpl; try discriminate.
      injection Hpl as _ Hcc. subst c. cbn [live] in H.
      destruct (t_rid t1); [discriminate|]. injection H as <-. apply bytes_eqb_refl'. }
    exists (Some t), (assoc_del l w). split; [|split].
    + rewrite Hh, mrun_app, Hst. cbn [mrun b_step]. rewrite Hchk. reflexivity.
    + intros l0 t0 E. destruct (Nat.eq_dec l0 l) as [->|Hne].
      * rewrite assoc_get_del_same in E. discriminate.
      * rewrite (assoc_get_del_other _ _ _ Hne) in E. rewrite (Hoth _ Hne). apply HW. exact E.
    + intros t0 E. injection E as <-. apply (HL' _ Hh); reflexivity.
Qed.

Lemma inv_between_shape s s' : Inv s -> inv_between s -> shape s s' -> inv_between s'.
Proof.
  intros HI (Hsk & ls & w & HB) Hsh. split; [eapply inv_subk_shape; eassumption|].
  destruct ls as [t|].
  - destruct Hsh as [j Hj|Hr|l Hf].
    + eapply btw_job_some; eassumption.
    + eapply btw_reader_some; eassumption.
    + eapply btw_free_some; eassumption.
  - destruct HB as (Hst & HW & _). rewrite (W_none _ _ HW) in Hst.
    destruct Hsh as [j Hj|Hr|l Hf].
    + eapply btw_job_none; eassumption.
    + eapply btw_reader_none; eassumption.
    + eapply btw_free_none; eassumption.
Qed.

Lemma inv_between_step : forall s lb s',
  Inv s -> inv_between s -> env_ok s lb = true -> step s lb = Some s' -> inv_between s'.
Proof.
  intros s lb s' HI Hb _ Hs. eapply inv_between_shape; [exact HI|exact Hb|].
  eapply step_shape; eassumption.
Qed.

(* ================================================================== *)
(* 4. stale_ok                                                          *)
(* ================================================================== *)

Definition sst := (list task * option task * list (nat * task))%type.

Definition s_check (arr : list task) (bg : list (nat * task)) (o : origin) (rid : bytes) : bool :=
  match assoc_get (okey_origin o) bg with
  | Some t =>
      match index_of rid arr 0, index_of (t_rid t) arr 0 with
      | Some i, Some j => Nat.leb j i
      | _, _ => false
      end
  | None => true
  end.

Definition s_step (st : sst) (e : event) : option sst :=
  let '(arr, nw, bg) := st in
  match e with
  | EArr t => Some (arr ++ [t], nw, bg)
  | ECallB KSub t => Some (arr, Some t, bg)
  | ELisB o _ =>
      Some (arr, nw,
            match nw with
            | Some t => (okey_origin o, t) :: assoc_del (okey_origin o) bg
            | None => assoc_del (okey_origin o) bg
            end)
  | ENotif o _ rid _ =>
      if s_check arr bg o rid then Some (arr, nw, assoc_del (okey_origin o) bg) else None
  | ELisDropped o _ => Some (arr, nw, assoc_del (okey_origin o) bg)
  | _ => Some st
  end.

Lemma s_state_ok h : forall arr nw bg x,
  mrun s_step (Some (arr, nw, bg)) h = Some x -> stale_ok_from arr nw bg h = true.
Proof.
  induction h as [|e r IH]; intros arr nw bg x H; [reflexivity|].
  destruct e as [t|t|t|t| |c t|c t o|t line|o k rid line|o k|o k| ];
    try (simpl in *; eauto; fail).
  - destruct c; simpl in *; eauto.
  - change (stale_ok_from arr nw bg (ENotif o k rid line :: r))
      with (s_check arr bg o rid && stale_ok_from arr nw (assoc_del (okey_origin o) bg) r).
    change (mrun s_step (Some (arr, nw, bg)) (ENotif o k rid line :: r))
      with (mrun s_step (if s_check arr bg o rid
                         then Some (arr, nw, assoc_del (okey_origin o) bg) else None) r) in H.
    destruct (s_check arr bg o rid).
    + simpl. eauto.
    + rewrite mrun_none in H. discriminate.
Qed.

Definition s_neutral (e : event) : bool :=
  match e with
  | EArr _ | ECallB KSub _ | ELisB _ _ | ENotif _ _ _ _ | ELisDropped _ _ => false
  | _ => true
  end.

Lemma s_neutral_run es : forallb s_neutral es = true ->
  forall st, mrun s_step (Some st) es = Some st.
Proof.
  induction es as [|e r IH]; intros H st; [reflexivity|].
  cbn [forallb] in H. apply andb_true_iff in H. destruct H as [He Hr].
  destruct st as [[arr nw] bg].
  destruct e; cbn [s_neutral] in He; try discriminate He; cbn [mrun s_step]; try (apply IH; exact Hr).
  destruct c; try discriminate He; apply IH; exact Hr.
Qed.

Lemma s_neutral_arr es : forallb s_neutral es = true -> arrived es = [].
Proof.
  induction es as [|e r IH]; intros H; [reflexivity|].
  cbn [forallb] in H. apply andb_true_iff in H. destruct H as [He Hr].
  destruct e; cbn [s_neutral] in He; try discriminate He; cbn [arrived]; apply IH; exact Hr.
Qed.

(* ---------- positions in the arrival order ---------- *)
Definition pos (h : list event) (rid : bytes) : option nat := index_of rid (arrived h) 0.

Lemma index_of_app rid l l' : forall n i,
  index_of rid l n = Some i -> index_of rid (l ++ l') n = Some i.
Proof.
  induction l as [|x r IH]; intros n i H; [discriminate|].
  cbn [index_of app] in *. destruct (bytes_eqb (t_rid x) rid); auto.
Qed.

Lemma pos_app h es rid i : pos h rid = Some i -> pos (h ++ es) rid = Some i.
Proof. unfold pos. rewrite ItemFifo.arrived_app. apply index_of_app. Qed.

Lemma index_of_mid a t b :
  nodup_rids (a ++ t :: b) = true ->
  forall n, index_of (t_rid t) (a ++ t :: b) n = Some (n + length a).
Proof.
  induction a as [|x a IH]; intros Hn n.
  - cbn [app index_of length]. rewrite bytes_eqb_refl'. f_equal. lia.
  - cbn [app nodup_rids] in Hn. apply andb_true_iff in Hn. destruct Hn as [Hx Ha].
    apply negb_true_iff in Hx. rewrite existsb_app in Hx. apply orb_false_iff in Hx.
    destruct Hx as [_ Hx]. cbn [existsb] in Hx. apply orb_false_iff in Hx. destruct Hx as [Hx _].
    cbn [app index_of length].
    destruct (bytes_eqb (t_rid x) (t_rid t)) eqn:E.
    + apply ItemCode.ic_bytes_eqb_true in E. rewrite E, bytes_eqb_refl' in Hx. discriminate.
    + rewrite (IH Ha (S n)). f_equal. lia.
Qed.

Definition good (h : list event) (c : option bytes) (t : task) : Prop :=
  forall rid, live c = Some rid ->
    exists i j, pos h rid = Some i /\ pos h (t_rid t) = Some j /\ j <= i.

Definition le_pos (h : list event) (t tn : task) : Prop :=
  exists j n, pos h (t_rid t) = Some j /\ pos h (t_rid tn) = Some n /\ j <= n.

Lemma good_app h es c t : good h c t -> good (h ++ es) c t.
Proof.
  intros H rid Hl. destruct (H rid Hl) as (i & j & H1 & H2 & H3).
  exists i, j. repeat split; auto using pos_app.
Qed.

Lemma le_pos_app h es t tn : le_pos h t tn -> le_pos (h ++ es) t tn.
Proof.
  intros (j & n & H1 & H2 & H3). exists j, n. repeat split; auto using pos_app.
Qed.

Lemma good_trans h c t tn : le_pos h t tn -> good h c tn -> good h c t.
Proof.
  intros (j & n & H1 & H2 & H3) H rid Hl. destruct (H rid Hl) as (i & n' & G1 & G2 & G3).
  rewrite H2 in G2. injection G2 as <-. exists i, j. repeat split; auto. lia.
Qed.

Lemma good_none h t : good h None t.
Proof. intros rid Hl. discriminate. Qed.

Lemma good_self h t n : pos h (t_rid t) = Some n -> good h (Some (t_rid t)) t.
Proof.
  intros Hn rid Hl. apply ItemCode.live_some in Hl. destruct Hl as [E _]. injection E as <-.
  exists n, n. repeat split; auto.
Qed.

Lemma pos_inhand s j d t :
  inv_all s = true -> nth_error (s_dqs s) j = Some d -> inloop d = true ->
  inhand_pc (d_pc d) = [t] ->
  pos (s_hist s) (t_rid t) = Some (length (replied (s_hist s))).
Proof.
  intros Hall Hd Hi Hih. ItemLso.split_inv Hall.
  apply ItemFifo.fifo_iff in Hfifo. destruct Hfifo as [Hf Hdr].
  apply ItemFifo.rids_iff in Hrids. destruct Hrids as (_ & Hnd & _).
  rewrite (ItemFifo.seen_no_drop _ Hdr), Hf in Hnd.
  destruct (focus_pre _ _ _ Hsingle Hd Hi) as [Hin _].
  unfold pos. rewrite Hf. unfold ItemFifo.mach in *. rewrite Hin, Hih in *.
  cbn [app] in *. apply (index_of_mid _ _ _ Hnd 0).
Qed.

(* ---------- who holds which id ---------- *)
Definition put_pc (p : pc) : bool :=
  match p with PEosPut _ _ | PNestPut _ _ _ _ => true | _ => false end.

Definition held_pc (j : nat) (p : pc) (o : origin) (c : option bytes) : Prop :=
  match p, o with
  | PEosPut _ c', OLib => c' = c
  | PNestPut _ _ _ c', ONested j' => j' = j /\ c' = c
  | _, _ => False
  end.

Definition heldF (s : istate) (o : origin) (c : option bytes) : Prop :=
  match o with
  | OFree l => exists k, nth_error (s_lis s) l = Some (LPutS k c)
  | _ => False
  end.

Definition held (s : istate) (o : origin) (c : option bytes) : Prop :=
  (exists j d, nth_error (s_dqs s) j = Some d /\ held_pc j (d_pc d) o c) \/ heldF s o c.

Lemma held_pc_put j p o c : held_pc j p o c -> put_pc p = true.
Proof. destruct p; cbn; try contradiction; reflexivity. Qed.

Lemma held_pc_inloop j d o c : held_pc j (d_pc d) o c -> inloop d = true.
Proof. unfold inloop. destruct (d_pc d); cbn; try contradiction; reflexivity. Qed.

Lemma held_job s s' j d' o c :
  s_dqs s' = upd j d' (s_dqs s) -> s_lis s' = s_lis s -> held s' o c ->
  held_pc j (d_pc d') o c \/
  (exists j0 d0, j0 <> j /\ nth_error (s_dqs s) j0 = Some d0 /\ held_pc j0 (d_pc d0) o c) \/
  heldF s o c.
Proof.
  intros Hdq Hlis [(j0 & d0 & H0 & Hh)|Hf].
  - rewrite Hdq in H0. apply ItemCode.nth_error_upd_cases in H0.
    destruct H0 as [[-> ->]|[Hne H0]]; [left; exact Hh|].
    right. left. exists j0, d0. auto.
  - right. right. unfold heldF in *. rewrite Hlis in Hf. exact Hf.
Qed.

Lemma held_job2 s s' j d' o c :
  s_dqs s' = upd j d' (s_dqs s) -> s_lis s' = s_lis s -> held s' o c ->
  held_pc j (d_pc d') o c \/ held s o c.
Proof.
  intros Hdq Hlis H. destruct (held_job _ _ _ _ _ _ Hdq Hlis H) as [H1|[(j0 & d0 & _ & H0 & Hh)|H3]].
  - left. exact H1.
  - right. left. exists j0, d0. auto.
  - right. right. exact H3.
Qed.

Lemma held_out s s' j d' o c :
  s_dqs s' = upd j d' (s_dqs s) -> s_lis s' = s_lis s -> put_pc (d_pc d') = false ->
  held s' o c -> held s o c.
Proof.
  intros Hdq Hlis Hp H. destruct (held_job2 _ _ _ _ _ _ Hdq Hlis H) as [H1|H2]; [|exact H2].
  apply held_pc_put in H1. congruence.
Qed.

Lemma held_free s s' l p' o c :
  s_dqs s' = s_dqs s -> nth_error (s_lis s') l = Some p' ->
  (forall l', l' <> l -> nth_error (s_lis s') l' = nth_error (s_lis s) l') ->
  held s' o c -> held s o c \/ (o = OFree l /\ exists k, p' = LPutS k c).
Proof.
  intros Hdq Hl Hoth [(j0 & d0 & H0 & Hh)|Hf].
  - left. left. rewrite Hdq in H0. exists j0, d0. auto.
  - destruct o as [|j0|l0]; try contradiction. cbn [heldF] in Hf. destruct Hf as [k Hk].
    destruct (Nat.eq_dec l0 l) as [->|Hne].
    + right. split; [reflexivity|]. exists k. congruence.
    + left. right. exists k. rewrite <- (Hoth _ Hne). exact Hk.
Qed.

Lemma origin_dec (o o' : origin) : {o = o'} + {o <> o'}.
Proof. decide equality; apply Nat.eq_dec. Qed.

Lemma okey_neq o o' : o' <> o -> okey_origin o' <> okey_origin o.
Proof. intros H E. apply H. apply okey_inj. exact E. Qed.

(* ---------- the linking invariant ---------- *)
Definition Ncond (s : istate) (tn : task) : Prop :=
  exists n, pos (s_hist s) (t_rid tn) = Some n /\ n <= length (replied (s_hist s)) /\
            good (s_hist s) (active_code s) tn.

Definition Bent (s : istate) (nw : option task) (o : origin) (t : task) : Prop :=
  exists tn, nw = Some tn /\ le_pos (s_hist s) t tn /\
             forall c, held s o c -> good (s_hist s) c t.

Definition Score (s : istate) (nw : option task) (bg : list (nat * task)) : Prop :=
  mrun s_step (Some ([], None, [])) (s_hist s) = Some (arrived (s_hist s), nw, bg) /\
  (forall tn, nw = Some tn -> Ncond s tn) /\
  (forall o t, assoc_get (okey_origin o) bg = Some t -> Bent s nw o t).

Definition inv_stale (s : istate) : Prop := exists nw bg, Score s nw bg.

Lemma inv_stale_init item : inv_stale (init_state item).
Proof.
  exists None, []. split; [reflexivity|]. split.
  - intros tn E. discriminate.
  - intros o t E. discriminate.
Qed.

Lemma inv_stale_ok s : inv_stale s -> stale_ok (s_hist s) = true.
Proof. intros (nw & bg & H & _). unfold stale_ok. eapply s_state_ok. exact H. Qed.

Lemma Ncond_mono s s' tn es :
  Ncond s tn -> s_hist s' = s_hist s ++ es ->
  good (s_hist s ++ es) (active_code s') tn -> Ncond s' tn.
Proof.
  intros (n & H1 & H2 & _) Hh Hg. exists n. rewrite Hh.
  split; [apply pos_app; exact H1|]. split; [|exact Hg].
  rewrite ItemLso.replied_app, app_length. lia.
Qed.

Lemma Bent_keep s s' es nw o t :
  Bent s nw o t -> (forall tn, nw = Some tn -> Ncond s tn) ->
  s_hist s' = s_hist s ++ es ->
  (forall c, held s' o c -> held s o c \/ c = active_code s) ->
  Bent s' nw o t.
Proof.
  intros (tn & E & Hle & Hg) HN Hh Hheld. exists tn. rewrite Hh.
  split; [exact E|]. split; [apply le_pos_app; exact Hle|].
  intros c Hc. apply good_app. destruct (Hheld c Hc) as [H1| ->]; [apply Hg; exact H1|].
  destruct (HN tn E) as (n & _ & _ & G). eapply good_trans; eassumption.
Qed.

Lemma Bent_new s s' es tn o :
  Ncond s tn -> s_hist s' = s_hist s ++ es ->
  (forall c, held s' o c -> c = active_code s) ->
  Bent s' (Some tn) o tn.
Proof.
  intros (n & H1 & _ & G) Hh Hheld. exists tn. rewrite Hh.
  split; [reflexivity|]. split.
  - exists n, n. repeat split; auto using pos_app.
  - intros c Hc. rewrite (Hheld c Hc). apply good_app. exact G.
Qed.

(* a step that the monitor does not see, or an arrival *)
Lemma stale_frame s s' es nw bg :
  Score s nw bg -> s_hist s' = s_hist s ++ es ->
  mrun s_step (Some (arrived (s_hist s), nw, bg)) es =
    Some (arrived (s_hist s) ++ arrived es, nw, bg) ->
  (forall tn, nw = Some tn -> Ncond s tn -> good (s_hist s ++ es) (active_code s') tn) ->
  (forall o c, held s' o c -> held s o c \/ c = active_code s) ->
  Score s' nw bg.
Proof.
  intros (Hst & HN & HB) Hh Hrun Hcode Hheld. split; [|split].
  - rewrite Hh, mrun_app, Hst, ItemFifo.arrived_app. exact Hrun.
  - intros tn E. eapply Ncond_mono; eauto.
  - intros o t E. eapply Bent_keep; eauto.
Qed.

Lemma stale_frame_neutral s s' es nw bg :
  Score s nw bg -> s_hist s' = s_hist s ++ es ->
  forallb s_neutral es = true ->
  (forall tn, nw = Some tn -> Ncond s tn -> good (s_hist s ++ es) (active_code s') tn) ->
  (forall o c, held s' o c -> held s o c \/ c = active_code s) ->
  Score s' nw bg.
Proof.
  intros HS Hh Hn. apply stale_frame; auto.
  rewrite (s_neutral_run _ Hn), (s_neutral_arr _ Hn), app_nil_r. reflexivity.
Qed.

Lemma good_code_same s s' es tn :
  active_code s' = active_code s \/ active_code s' = None ->
  Ncond s tn -> good (s_hist s ++ es) (active_code s') tn.
Proof.
  intros [-> | ->] (n & _ & _ & G); [apply good_app; exact G|apply good_none].
Qed.

(* a listener call begins *)
Lemma stale_begin s s' o k nw bg :
  Score s nw bg -> s_hist s' = s_hist s ++ [ELisB o k] ->
  active_code s' = active_code s ->
  (forall c, held s' o c -> c = active_code s) ->
  (forall o' c, o' <> o -> held s' o' c -> held s o' c \/ c = active_code s) ->
  Score s' nw (match nw with
               | Some t => (okey_origin o, t) :: assoc_del (okey_origin o) bg
               | None => assoc_del (okey_origin o) bg
               end).
Proof.
  intros (Hst & HN & HB) Hh Hac Hnew Hoth. split; [|split].
  - rewrite Hh, mrun_app, Hst, ItemFifo.arrived_app. cbn [mrun s_step arrived].
    rewrite app_nil_r. reflexivity.
  - intros tn E. eapply Ncond_mono; eauto. apply good_code_same; auto.
  - intros o' t E. destruct (origin_dec o' o) as [->|Hne].
    + destruct nw as [tn|].
      * cbn [assoc_get] in E. rewrite Nat.eqb_refl in E. injection E as <-.
        eapply Bent_new; eauto.
      * rewrite assoc_get_del_same in E. discriminate.
    + pose proof (okey_neq _ _ Hne) as Hk.
      assert (E' : assoc_get (okey_origin o') bg = Some t).
      { destruct nw as [tn|].
        - cbn [assoc_get] in E. apply Nat.eqb_neq in Hk. rewrite Hk in E. apply Nat.eqb_neq in Hk.
          rewrite (assoc_get_del_other _ _ _ Hk) in E. exact E.
        - rewrite (assoc_get_del_other _ _ _ Hk) in E. exact E. }
      eapply Bent_keep; eauto.
Qed.

Lemma NB_del s s' es o nw bg :
  (forall tn, nw = Some tn -> Ncond s tn) ->
  (forall o t, assoc_get (okey_origin o) bg = Some t -> Bent s nw o t) ->
  s_hist s' = s_hist s ++ es -> active_code s' = active_code s ->
  (forall o' c, o' <> o -> held s' o' c -> held s o' c \/ c = active_code s) ->
  (forall tn, nw = Some tn -> Ncond s' tn) /\
  (forall o' t, assoc_get (okey_origin o') (assoc_del (okey_origin o) bg) = Some t -> Bent s' nw o' t).
Proof.
  intros HN HB Hh Hac Hoth. split.
  - intros tn E. eapply Ncond_mono; eauto. apply good_code_same; auto.
  - intros o' t E. destruct (origin_dec o' o) as [->|Hne].
    + rewrite assoc_get_del_same in E. discriminate.
    + rewrite (assoc_get_del_other _ _ _ (okey_neq _ _ Hne)) in E. eapply Bent_keep; eauto.
Qed.

(* a listener call ends without a notification *)
Lemma stale_drop s s' o k nw bg :
  Score s nw bg -> s_hist s' = s_hist s ++ [ELisDropped o k] ->
  active_code s' = active_code s ->
  (forall o' c, o' <> o -> held s' o' c -> held s o' c \/ c = active_code s) ->
  Score s' nw (assoc_del (okey_origin o) bg).
Proof.
  intros (Hst & HN & HB) Hh Hac Hoth. split; [|eapply NB_del; eauto].
  rewrite Hh, mrun_app, Hst, ItemFifo.arrived_app. cbn [mrun s_step arrived].
  rewrite app_nil_r. reflexivity.
Qed.

(* a listener call ends with a notification *)
Lemma stale_notif s s' o k rid line c nw bg :
  Score s nw bg -> s_hist s' = s_hist s ++ [ENotif o k rid line] ->
  active_code s' = active_code s ->
  held s o c -> live c = Some rid ->
  (forall o' c, o' <> o -> held s' o' c -> held s o' c \/ c = active_code s) ->
  Score s' nw (assoc_del (okey_origin o) bg).
Proof.
  intros (Hst & HN & HB) Hh Hac Hheld Hlive Hoth. split; [|eapply NB_del; eauto].
  assert (Hchk : s_check (arrived (s_hist s)) bg o rid = true).
  { unfold s_check. destruct (assoc_get (okey_origin o) bg) as [t|] eqn:E; [|reflexivity].
    destruct (HB _ _ E) as (tn & _ & _ & Hg).
    destruct (Hg c Hheld rid Hlive) as (i & j & H1 & H2 & H3).
    unfold pos in H1, H2. rewrite H1, H2. apply Nat.leb_le. exact H3. }
  rewrite Hh, mrun_app, Hst, ItemFifo.arrived_app. cbn [mrun s_step arrived].
  rewrite Hchk, app_nil_r. reflexivity.
Qed.

(* a newer subscribe() call begins *)
Lemma stale_newest s s' t nw bg :
  Score s nw bg -> s_hist s' = s_hist s ++ [ECallB KSub t] ->
  active_code s' = active_code s -> active_code s = Some (t_rid t) ->
  pos (s_hist s) (t_rid t) = Some (length (replied (s_hist s))) ->
  (forall o c, held s' o c -> held s o c \/ c = active_code s) ->
  Score s' (Some t) bg.
Proof.
  intros (Hst & HN & HB) Hh Hac Hc Hpos Hheld. split; [|split].
  - rewrite Hh, mrun_app, Hst, ItemFifo.arrived_app. cbn [mrun s_step arrived].
    rewrite app_nil_r. reflexivity.
  - intros tn E. injection E as <-. exists (length (replied (s_hist s))). rewrite Hh.
    split; [apply pos_app; exact Hpos|]. split.
    + rewrite ItemLso.replied_app, app_length. lia.
    + rewrite Hac, Hc. eapply good_self. apply pos_app. exact Hpos.
  - intros o t0 E.
    destruct (Bent_keep s s' _ nw o t0 (HB _ _ E) HN Hh (Hheld o)) as (tn & En & Hle & Hg).
    exists t. split; [reflexivity|]. split; [|exact Hg].
    destruct Hle as (j & n & H1 & H2 & H3).
    destruct (HN tn En) as (n' & G1 & G2 & _).
    rewrite Hh in H2. rewrite (pos_app _ [ECallB KSub t] _ _ G1) in H2. injection H2 as <-.
    exists j, (length (replied (s_hist s))). rewrite Hh at 2.
    split; [exact H1|]. split; [apply pos_app; exact Hpos|lia].
Qed.

(* ---------- the steps ---------- *)
Lemma stale_job s s' j nw bg :
  Inv s -> Score s nw bg -> job_shape s s' j -> exists nw' bg', Score s' nw' bg'.
Proof.
  intros HI HS (d & d' & es & nc & Hd & Hdq & Hlis & Hh & Hj & Hac).
  destruct HI as (Hall & _). pose proof Hall as Hall'. ItemLso.split_inv Hall.
  remember (d_pc d) as p eqn:Hp. remember (d_pc d') as p' eqn:Hp'.
  assert (Hout : put_pc p' = false ->
                 forall o c, held s' o c -> held s o c \/ c = active_code s).
  { intros Hpp o c Hc. left. rewrite Hp' in Hpp. eapply held_out; eassumption. }
  assert (Hothers : forall j0 d0 o c, j0 <> j -> nth_error (s_dqs s) j0 = Some d0 ->
                      inloop d = true -> held_pc j0 (d_pc d0) o c -> False).
  { intros j0 d0 o c Hne H0 Hi Hh0. apply held_pc_inloop in Hh0.
    pose proof (ItemCode.others_not_inloop _ _ _ _ _ Hsingle Hd Hi Hne H0). congruence. }
  destruct Hj;
    try (exists nw, bg; eapply (stale_frame_neutral s s' _ nw bg HS Hh);
         [ reflexivity
         | intros tn _ HN; apply good_code_same; [first [left; exact Hac | right; exact Hac]|exact HN]
         | apply Hout; try destruct b; try destruct (t_sub t); try destruct o as [[|]|?];
           reflexivity ]; fail).
  - (* JSetCode *)
    assert (Hi : inloop d = true) by (unfold inloop; rewrite <- Hp; reflexivity).
    assert (Hpos : pos (s_hist s) (t_rid t) = Some (length (replied (s_hist s))))
      by (apply (pos_inhand _ _ _ _ Hall' Hd Hi); rewrite <- Hp; reflexivity).
    exists nw, bg. eapply (stale_frame_neutral s s' _ nw bg HS Hh); [reflexivity| |apply Hout; reflexivity].
    intros tn _ (n & H1 & H2 & _). rewrite Hac. intros rid Hl.
    apply ItemCode.live_some in Hl. destruct Hl as [E _]. injection E as <-.
    exists (length (replied (s_hist s))), n. repeat split; auto using pos_app.
  - (* JEosRead *)
    assert (Hi : inloop d = true) by (unfold inloop; rewrite <- Hp; reflexivity).
    do 2 eexists. eapply (stale_begin s s' OLib LEos nw bg HS Hh Hac).
    + intros c Hc. destruct (held_job _ _ _ _ _ _ Hdq Hlis Hc) as [H1|[(j0 & d0 & Hne & H0 & Hh0)|H3]].
      * rewrite <- Hp' in H1. cbn [held_pc] in H1. symmetry. exact H1.
      * exfalso. eapply Hothers; eassumption.
      * contradiction.
    + intros o' c Hne Hc. destruct (held_job2 _ _ _ _ _ _ Hdq Hlis Hc) as [H1|H2]; [|left; exact H2].
      rewrite <- Hp' in H1. destruct o'; cbn [held_pc] in H1; contradiction.
  - (* JEosDrop: impossible, the id of the subscription is published *)
    exfalso. pose proof (ItemCode.inv_code_job _ _ _ Hcode Hd) as Hok. rewrite <- Hp in Hok.
    cbn [pc_code_ok] in Hok. apply ItemCode.obytes_eqb_true in Hok.
    rewrite (live_code_nonempty _ _ Hrids Hok) in H. discriminate.
  - (* JNestRead *)
    exists nw, bg. eapply (stale_frame_neutral s s' [] nw bg HS Hh); [reflexivity| |].
    + intros tn _ HN. apply good_code_same; [left; exact Hac|exact HN].
    + intros o c Hc. destruct (held_job2 _ _ _ _ _ _ Hdq Hlis Hc) as [H1|H2]; [|left; exact H2].
      rewrite <- Hp' in H1. destruct o; cbn [held_pc] in H1; try contradiction.
      right. symmetry. apply H1.
  - (* JNestDrop *)
    do 2 eexists. eapply (stale_drop s s' (ONested j) k nw bg HS Hh Hac).
    intros o' c _. apply Hout. destruct b; reflexivity.
  - (* JEosPut *)
    do 2 eexists. eapply (stale_notif s s' OLib LEos rid line c nw bg HS Hh Hac).
    + left. exists j, d. split; [exact Hd|]. rewrite <- Hp. reflexivity.
    + exact H.
    + intros o' c0 _. apply Hout. reflexivity.
  - (* JNestPut *)
    do 2 eexists. eapply (stale_notif s s' (ONested j) k rid line c nw bg HS Hh Hac).
    + left. exists j, d. split; [exact Hd|]. rewrite <- Hp. cbn [held_pc]. auto.
    + exact H.
    + intros o' c0 _. apply Hout. destruct b; reflexivity.
  - (* JCallBSub *)
    assert (Hi : inloop d = true) by (unfold inloop; rewrite <- Hp; reflexivity).
    assert (Hpos : pos (s_hist s) (t_rid t) = Some (length (replied (s_hist s))))
      by (apply (pos_inhand _ _ _ _ Hall' Hd Hi); rewrite <- Hp; reflexivity).
    pose proof (ItemCode.inv_code_job _ _ _ Hcode Hd) as Hok. rewrite <- Hp in Hok.
    cbn [pc_code_ok] in Hok. apply ItemCode.obytes_eqb_true in Hok.
    do 2 eexists. eapply (stale_newest s s' t nw bg HS Hh Hac Hok Hpos).
    apply Hout. reflexivity.
  - (* JNestSub *)
    do 2 eexists. eapply (stale_begin s s' (ONested j) k nw bg HS Hh Hac).
    + intros c Hc. exfalso.
      destruct (held_job _ _ _ _ _ _ Hdq Hlis Hc) as [H1|[(j0 & d0 & Hne & H0 & Hh0)|H3]].
      * rewrite <- Hp' in H1. exact H1.
      * destruct (d_pc d0); cbn [held_pc] in Hh0; try contradiction. destruct Hh0 as [E _]. congruence.
      * exact H3.
    + intros o' c _. apply Hout. reflexivity.
  - (* JNestUsb *)
    do 2 eexists. eapply (stale_begin s s' (ONested j) k nw bg HS Hh Hac).
    + intros c Hc. exfalso.
      destruct (held_job _ _ _ _ _ _ Hdq Hlis Hc) as [H1|[(j0 & d0 & Hne & H0 & Hh0)|H3]].
      * rewrite <- Hp' in H1. exact H1.
      * destruct (d_pc d0); cbn [held_pc] in Hh0; try contradiction. destruct Hh0 as [E _]. congruence.
      * exact H3.
    + intros o' c _. apply Hout. reflexivity.
Qed.

Lemma stale_reader s s' nw bg :
  Score s nw bg -> reader_shape s s' -> exists nw' bg', Score s' nw' bg'.
Proof.
  intros HS (Hlis & Hac & Hdq & es & Hh & Hes). exists nw, bg.
  eapply (stale_frame s s' es nw bg HS Hh).
  - destruct Hes as [->|(t & [->| ->])]; cbn [mrun s_step arrived]; rewrite ?app_nil_r; reflexivity.
  - intros tn _ HN. apply good_code_same; [left; exact Hac|exact HN].
  - intros o c [(j0 & d0 & H0 & Hh0)|Hf]; left.
    + left. destruct Hdq as [Hdq|(x & Hx & Hdq)]; rewrite Hdq in H0.
      * exists j0, d0. auto.
      * apply ItemFifo.nth_error_snoc_inv in H0. destruct H0 as [H0|[_ ->]].
        -- exists j0, d0. auto.
        -- rewrite Hx in Hh0. contradiction.
    + right. unfold heldF in *. rewrite Hlis in Hf. exact Hf.
Qed.

Lemma stale_free s s' l nw bg :
  Inv s -> Score s nw bg -> free_shape s s' l -> exists nw' bg', Score s' nw' bg'.
Proof.
  intros HI HS (p' & es & Hdq & Hac & Hh & Hl' & Hoth & Hf).
  pose proof (fun o c => held_free s s' l p' o c Hdq Hl' Hoth) as Hheld.
  remember (nth_error (s_lis s) l) as pl eqn:Hpl.
  destruct Hf.
  - (* FBegin *)
    do 2 eexists. eapply (stale_begin s s' (OFree l) k nw bg HS Hh Hac).
    + intros c Hc. exfalso. destruct (Hheld _ _ Hc) as [[(j0 & d0 & H0 & Hh0)|Hf]|(_ & k0 & E)].
      * destruct (d_pc d0); cbn [held_pc] in Hh0; contradiction.
      * cbn [heldF] in Hf. destruct Hf as [k0 Hk0]. rewrite <- Hpl in Hk0.
        destruct H as [-> | ->]; discriminate.
      * discriminate.
    + intros o' c Hne Hc. destruct (Hheld _ _ Hc) as [H1|(E & _)]; [left; exact H1|congruence].
  - (* FRead *)
    exists nw, bg. eapply (stale_frame_neutral s s' [] nw bg HS Hh); [reflexivity| |].
    + intros tn _ HN. apply good_code_same; [left; exact Hac|exact HN].
    + intros o c Hc. destruct (Hheld _ _ Hc) as [H1|(_ & k0 & E)]; [left; exact H1|].
      right. congruence.
  - (* FDrop *)
    do 2 eexists. eapply (stale_drop s s' (OFree l) k nw bg HS Hh Hac).
    intros o' c Hne Hc. destruct (Hheld _ _ Hc) as [H1|(E & _)]; [left; exact H1|congruence].
  - (* FPut *)
    do 2 eexists. eapply (stale_notif s s' (OFree l) k rid line c nw bg HS Hh Hac).
    + right. cbn [heldF]. exists k. symmetry. exact Hpl.
    + exact H.
    + intros o' c0 Hne Hc. destruct (Hheld _ _ Hc) as [H1|(E & _)]; [left; exact H1|congruence].
Qed.

Lemma inv_stale_shape s s' : Inv s -> inv_stale s -> shape s s' -> inv_stale s'.
Proof.
  intros HI (nw & bg & HS) [j Hj|Hr|l Hf].
  - eapply stale_job; eassumption.
  - eapply stale_reader; eassumption.
  - eapply stale_free; eassumption.
Qed.

Lemma inv_stale_step : forall s lb s',
  Inv s -> inv_stale s -> env_ok s lb = true -> step s lb = Some s' -> inv_stale s'.
Proof.
  intros s lb s' HI Hb _ Hs. eapply inv_stale_shape; [exact HI|exact Hb|].
  eapply step_shape; eassumption.
Qed.

(* ================================================================== *)
(* 5. Reachable states                                                  *)
(* ================================================================== *)

Lemma run_env_inv (P : istate -> Prop) :
  (forall s lb s', Inv s -> P s -> env_ok s lb = true -> step s lb = Some s' -> P s') ->
  forall ls s s', Inv s -> P s -> run_env s ls = Some s' -> P s'.
Proof.
  intros Hstep. induction ls as [|l ls IH]; intros s s' HI HP Hr; cbn [run_env] in Hr.
  - injection Hr as <-. exact HP.
  - unfold step_env in Hr. destruct (env_ok s l) eqn:He; [|discriminate].
    destruct (step s l) as [s1|] eqn:Hs; [|discriminate].
    eapply (IH s1); [eapply Inv_step; eassumption|eapply Hstep; eassumption|exact Hr].
Qed.

Lemma reachable_inv (P : istate -> Prop) :
  (forall item, P (init_state item)) ->
  (forall s lb s', Inv s -> P s -> env_ok s lb = true -> step s lb = Some s' -> P s') ->
  forall item s, reachable item s -> P s.
Proof.
  intros Hinit Hstep item s [ls Hr].
  eapply (run_env_inv P Hstep ls (init_state item)); [apply Inv_init|apply Hinit|exact Hr].
Qed.

Theorem between_ok_reachable : forall item s, reachable item s -> between_ok (s_hist s) = true.
Proof.
  intros item s Hr. apply inv_between_ok.
  eapply (reachable_inv inv_between inv_between_init inv_between_step); exact Hr.
Qed.

Theorem stale_ok_reachable : forall item s, reachable item s -> stale_ok (s_hist s) = true.
Proof.
  intros item s Hr. apply inv_stale_ok.
  eapply (reachable_inv inv_stale inv_stale_init inv_stale_step); exact Hr.
Qed.

Print Assumptions between_ok_reachable.
Print Assumptions stale_ok_reachable.
