(* Proofs/SenderFaultProofs.v — write faults of the writer loop (Model/SenderFault.v):
   fault-free runs are runs of Model/Sender.v; a failing sendall is reported once, whatever
   line it carried (a timer KEEPALIVE included), the exit primitive is reached iff there is no
   handler or it returns True, and nothing is written (or attempted) afterwards. *)
From Coq Require Import String List Ascii NArith ZArith QArith Bool Lia.
From LS Require Import Model.Bytes Model.Tags Gen.Consts Model.Sender Model.SenderFault.
Import ListNotations.

Definition present (h : handler) : nat := match h with HAbsent => 0 | HReturns _ => 1 end.
Definition exits_of (h : handler) : nat := if wants_exit h then 1 else 0.

(* ------------------------------------------------------------------ written_by mirrors sstep *)
Lemma written_by_some : forall s l s' kind p line,
  sstep s l = Some s' -> written_by s l = Some (kind, p, line) -> s' = write s kind p line.
Proof.
  intros s l s' kind p line Hs Hw. unfold sstep in Hs. unfold written_by in Hw.
  destruct (ss_alive s); cbn [negb] in *; [|discriminate].
  destruct l as [d| |q m|k0]; try discriminate.
  - destruct (ss_tmo s) as [T|]; [|discriminate].
    destruct (Qeq_bool (ss_elapsed s) T); [|discriminate].
    inversion Hw; subst. inversion Hs; reflexivity.
  - destruct m as [m|].
    + destruct (bytes_eqb m stop_pill); [discriminate|].
      destruct (bytes_eqb m keepalive_pill); inversion Hw; subst; inversion Hs; reflexivity.
    + inversion Hw; subst. inversion Hs; reflexivity.
Qed.

Lemma written_by_none : forall s l s',
  sstep s l = Some s' -> written_by s l = None -> ss_out s' = ss_out s.
Proof.
  intros s l s' Hs Hw. unfold sstep in Hs. unfold written_by in Hw.
  destruct (ss_alive s); cbn [negb] in *.
  - destruct l as [d| |q m|k0].
    + destruct (_ && _) in Hs; inversion Hs; reflexivity.
    + destruct (ss_tmo s) as [T|]; [|discriminate].
      destruct (Qeq_bool (ss_elapsed s) T); discriminate.
    + destruct m as [m|]; [|discriminate].
      destruct (bytes_eqb m stop_pill); [inversion Hs; reflexivity|].
      destruct (bytes_eqb m keepalive_pill); discriminate.
    + inversion Hs; reflexivity.
  - destruct l as [d| |q m|k0].
    + destruct (Qle_bool 0 d); inversion Hs; reflexivity.
    + discriminate.
    + inversion Hs; reflexivity.
    + inversion Hs; reflexivity.
Qed.

Lemma dead_writes_nothing : forall s l, ss_alive s = false -> written_by s l = None.
Proof. intros s l H. unfold written_by. rewrite H. reflexivity. Qed.

Lemma dead_stays_dead : forall s l s', ss_alive s = false -> sstep s l = Some s' -> ss_alive s' = false.
Proof.
  intros s l s' H Hs. unfold sstep in Hs. rewrite H in Hs. cbn [negb] in Hs.
  destruct l as [d| |q m|k0].
  - destruct (Qle_bool 0 d); inversion Hs; reflexivity.
  - discriminate.
  - inversion Hs; subst; assumption.
  - inversion Hs; reflexivity.
Qed.

Lemma write_out : forall s kind p line,
  ss_out (write s kind p line) =
  ss_out s ++ [{| w_time := ss_now s; w_kind := kind; w_from := p; w_line := line; w_next := wait_of (ss_k s) |}].
Proof. reflexivity. Qed.

(* ------------------------------------------------------------------ fault-free runs are runs of Sender.v *)
Theorem fault_free_refines : forall h ls f f',
  all_ok ls = true -> frun h f ls = Some f' ->
  srun (f_s f) (labels_of ls) = Some (f_s f') /\
  f_failed f' = f_failed f /\ f_reports f' = f_reports f /\ f_exits f' = f_exits f.
Proof.
  intros h ls. induction ls as [|[l ok] r IH]; intros f f' Hok Hr.
  - cbn in Hr. inversion Hr; subst. cbn. repeat split; reflexivity.
  - cbn [all_ok forallb snd] in Hok. apply andb_true_iff in Hok. destruct Hok as [Ho Hok]. subst ok.
    cbn [frun] in Hr. destruct (fstep h f l true) as [f1|] eqn:Hf; [|discriminate].
    unfold fstep in Hf. destruct (sstep (f_s f) l) as [s1|] eqn:Hs; [|discriminate].
    cbn [labels_of map fst srun]. rewrite Hs.
    destruct (written_by (f_s f) l) as [[[kind p] line]|]; inversion Hf; subst f1; clear Hf;
      (destruct (IH _ _ Hok Hr) as (A & B & C & D); cbn in *; repeat split; assumption).
Qed.

(* conversely: every run of Sender.v is a fault-free run *)
Theorem sender_run_is_fault_free : forall h ls f s',
  srun (f_s f) ls = Some s' ->
  exists f', frun h f (map (fun l => (l, true)) ls) = Some f' /\ f_s f' = s'.
Proof.
  intros h ls. induction ls as [|l r IH]; intros f s' Hr.
  - cbn in Hr. inversion Hr; subst. exists f. split; reflexivity.
  - cbn [srun] in Hr. destruct (sstep (f_s f) l) as [s1|] eqn:Hs; [|discriminate].
    cbn [map frun]. unfold fstep. rewrite Hs.
    destruct (written_by (f_s f) l) as [[[kind p] line]|]; cbn [frun];
      match goal with |- exists f', frun h ?F _ = _ /\ _ => apply (IH F) end; exact Hr.
Qed.

(* ------------------------------------------------------------------ the invariant of faulted runs *)
Definition FInv (h : handler) (n0 : nat) (f : fstate) : Prop :=
  match f_failed f with
  | None => f_reports f = 0%nat /\ f_exits f = 0%nat /\ f_attempts f = (length (ss_out (f_s f)) - n0)%nat /\ (n0 <= length (ss_out (f_s f)))%nat
  | Some _ => ss_alive (f_s f) = false /\ f_reports f = present h /\ f_exits f = exits_of h /\
              f_attempts f = S (length (ss_out (f_s f)) - n0) /\ (n0 <= length (ss_out (f_s f)))%nat
  end.

Lemma FInv_init : forall h k, FInv h 0 (fault_init k).
Proof. intros. unfold FInv. cbn. repeat split; lia. Qed.

Lemma FInv_step : forall h n0 f l ok f', FInv h n0 f -> fstep h f l ok = Some f' -> FInv h n0 f'.
Proof.
  intros h n0 f l ok f' HI Hf. unfold fstep in Hf.
  destruct (sstep (f_s f) l) as [s1|] eqn:Hs; [|discriminate].
  unfold FInv in HI. destruct (f_failed f) as [ff|] eqn:Hff.
  - (* already failed: the thread is dead, nothing is written *)
    destruct HI as (Hd & Hr & He & Ha & Hn).
    rewrite (dead_writes_nothing _ l Hd) in Hf. destruct ok; [|discriminate]. inversion Hf; subst f'; clear Hf.
    unfold FInv. cbn. try rewrite Hff.
    rewrite (written_by_none _ _ _ Hs (dead_writes_nothing _ l Hd)).
    repeat split; try assumption. exact (dead_stays_dead _ _ _ Hd Hs).
  - destruct HI as (Hr & He & Ha & Hn).
    destruct (written_by (f_s f) l) as [[[kind p] line]|] eqn:Hw.
    + pose proof (written_by_some _ _ _ _ _ _ Hs Hw) as E. subst s1.
      destruct ok; inversion Hf; subst f'; clear Hf; unfold FInv; cbn [f_failed f_s f_reports f_exits f_attempts].
      * try rewrite Hff. rewrite write_out, app_length. cbn [length]. repeat split; try assumption; lia.
      * cbn [killed ss_alive ss_out]. unfold exits_of. repeat split.
        -- rewrite Hr. destruct h; reflexivity.
        -- rewrite He. destruct (wants_exit h); reflexivity.
        -- rewrite Ha. reflexivity.
        -- assumption.
    + destruct ok; [|discriminate]. inversion Hf; subst f'; clear Hf. unfold FInv. cbn. try rewrite Hff.
      rewrite (written_by_none _ _ _ Hs Hw). repeat split; assumption.
Qed.

Lemma FInv_run : forall h n0 ls f f', FInv h n0 f -> frun h f ls = Some f' -> FInv h n0 f'.
Proof.
  intros h n0 ls. induction ls as [|[l ok] r IH]; intros f f' HI Hr.
  - cbn in Hr. inversion Hr; subst; assumption.
  - cbn [frun] in Hr. destruct (fstep h f l ok) as [f1|] eqn:Hf; [|discriminate].
    exact (IH _ _ (FInv_step _ _ _ _ _ _ HI Hf) Hr).
Qed.

(* ------------------------------------------------------------------ the fault clause *)
(* on every run: no fault, nothing reported and no exit; a fault, reported exactly once when a handler
   is installed, the exit primitive reached exactly once iff there is no handler or it returns True, the
   writer thread ended; attempts = completed writes (+ the failing one) *)
Theorem fault_reported_once : forall h k ls f,
  frun h (fault_init k) ls = Some f ->
  match f_failed f with
  | None => f_reports f = 0%nat /\ f_exits f = 0%nat /\ f_attempts f = length (ss_out (f_s f))
  | Some _ => ss_alive (f_s f) = false /\ f_reports f = present h /\ f_exits f = exits_of h /\
              f_attempts f = S (length (ss_out (f_s f)))
  end.
Proof.
  intros h k ls f Hr. pose proof (FInv_run _ _ _ _ _ (FInv_init h k) Hr) as HI. unfold FInv in HI.
  destruct (f_failed f).
  - destruct HI as (A & B & C & D & _). rewrite Nat.sub_0_r in D. repeat split; assumption.
  - destruct HI as (A & B & C & _). rewrite Nat.sub_0_r in C. repeat split; assumption.
Qed.

Theorem exit_iff_no_handler_or_true : forall h,
  exits_of h = 1%nat <-> (h = HAbsent \/ h = HReturns (Some true)).
Proof.
  intros h. unfold exits_of, wants_exit. destruct h as [|[[|]|]]; split; intros H; try reflexivity; try discriminate;
    try (left; reflexivity); try (right; reflexivity); destruct H as [H|H]; discriminate.
Qed.

(* a fault can hit exactly the steps that call sendall, and hits them alike: in particular the KEEPALIVE the timer produced *)
Theorem fault_hits_any_write : forall h f l s' kind p line,
  f_failed f = None -> sstep (f_s f) l = Some s' -> written_by (f_s f) l = Some (kind, p, line) ->
  exists f', fstep h f l false = Some f' /\
             f_failed f' = Some (ss_now (f_s f), kind, line) /\
             f_reports f' = (f_reports f + present h)%nat /\
             f_exits f' = (f_exits f + exits_of h)%nat /\
             ss_out (f_s f') = ss_out (f_s f) /\ ss_alive (f_s f') = false.
Proof.
  intros h f l s' kind p line Hff Hs Hw. unfold fstep. rewrite Hs, Hw. eexists. split; [reflexivity|].
  cbn. unfold exits_of. repeat split.
  - destruct h; cbn; lia.
  - destruct (wants_exit h); lia.
Qed.

Theorem timer_keepalive_fault_reported : forall h f s',
  f_failed f = None -> sstep (f_s f) SFire = Some s' ->
  exists f', fstep h f SFire false = Some f' /\
             f_failed f' = Some (ss_now (f_s f), WTimeout, keepalive_line) /\
             f_reports f' = (f_reports f + present h)%nat /\ f_exits f' = (f_exits f + exits_of h)%nat.
Proof.
  intros h f s' Hff Hs.
  assert (Hw : written_by (f_s f) SFire = Some (WTimeout, 0%nat, keepalive_line)).
  { unfold sstep in Hs. unfold written_by. destruct (ss_alive (f_s f)); cbn [negb] in *; [|discriminate].
    destruct (ss_tmo (f_s f)) as [T|]; [|discriminate]. destruct (Qeq_bool (ss_elapsed (f_s f)) T); [reflexivity|discriminate]. }
  destruct (fault_hits_any_write h f SFire s' _ _ _ Hff Hs Hw) as (f' & A & B & C & D & _).
  exists f'. repeat split; assumption.
Qed.

Theorem no_fault_without_write : forall h f l, written_by (f_s f) l = None -> fstep h f l false = None.
Proof.
  intros h f l Hw. unfold fstep. destruct (sstep (f_s f) l); [|reflexivity]. rewrite Hw. reflexivity.
Qed.

(* nothing is written or attempted after the fault, and no second report *)
Theorem nothing_after_fault : forall h ls f f',
  f_failed f <> None -> ss_alive (f_s f) = false -> frun h f ls = Some f' ->
  ss_out (f_s f') = ss_out (f_s f) /\ f_attempts f' = f_attempts f /\
  f_reports f' = f_reports f /\ f_exits f' = f_exits f /\ f_failed f' = f_failed f /\ ss_alive (f_s f') = false.
Proof.
  intros h ls. induction ls as [|[l ok] r IH]; intros f f' Hff Hd Hr.
  - cbn in Hr. inversion Hr; subst. repeat split; try reflexivity. assumption.
  - cbn [frun] in Hr. destruct (fstep h f l ok) as [f1|] eqn:Hf; [|discriminate].
    unfold fstep in Hf. destruct (sstep (f_s f) l) as [s1|] eqn:Hs; [|discriminate].
    rewrite (dead_writes_nothing _ l Hd) in Hf. destruct ok; [|discriminate]. inversion Hf; subst f1; clear Hf.
    pose proof (written_by_none _ _ _ Hs (dead_writes_nothing _ l Hd)) as Ho.
    pose proof (dead_stays_dead _ _ _ Hd Hs) as Hd1.
    match type of Hr with frun h ?F r = Some f' =>
      destruct (IH F f' Hff Hd1 Hr) as (A & B & C & D & E & F') end. cbn in *.
    repeat split; try assumption. rewrite A. exact Ho.
Qed.

(* what reached the socket before the fault is what the fault-free run of the same prefix wrote *)
Theorem wire_before_fault : forall h k pre l post f,
  all_ok pre = true -> frun h (fault_init k) (pre ++ (l, false) :: post) = Some f ->
  exists s, srun (sender_init k) (labels_of pre) = Some s /\ ss_out (f_s f) = ss_out s /\
            exists kind p line, written_by s l = Some (kind, p, line) /\ f_failed f = Some (ss_now s, kind, line).
Proof.
  intros h k pre l post f Hok Hr.
  assert (Hsplit : forall ls1 ls2 f0 f2, frun h f0 (ls1 ++ ls2) = Some f2 ->
                    exists f1, frun h f0 ls1 = Some f1 /\ frun h f1 ls2 = Some f2).
  { induction ls1 as [|[l0 ok0] r0 IH0]; intros ls2 f0 f2 H0.
    - exists f0. split; [reflexivity|exact H0].
    - cbn [app frun] in *. destruct (fstep h f0 l0 ok0) as [fa|]; [|discriminate]. apply IH0. exact H0. }
  destruct (Hsplit _ _ _ _ Hr) as (f1 & H1 & H2).
  destruct (fault_free_refines _ _ _ _ Hok H1) as (A & B & C & D). cbn in A, B.
  exists (f_s f1). split; [exact A|].
  cbn [frun] in H2. destruct (fstep h f1 l false) as [f2|] eqn:Hf; [|discriminate].
  unfold fstep in Hf. destruct (sstep (f_s f1) l) as [s1|] eqn:Hs; [|discriminate].
  destruct (written_by (f_s f1) l) as [[[kind p] line]|] eqn:Hw; [|discriminate].
  inversion Hf; subst f2; clear Hf.
  match type of H2 with frun h ?F post = Some f =>
    assert (Hn : f_failed F <> None) by (cbn; discriminate);
    assert (Hd : ss_alive (f_s F) = false) by reflexivity;
    destruct (nothing_after_fault h post F f Hn Hd H2) as (O & _ & _ & _ & E & _) end.
  cbn in O, E. split; [exact O|]. exists kind, p, line. split; [reflexivity|exact E].
Qed.

(* non-vacuity: a run in which the second write — a timer KEEPALIVE — fails, no handler installed *)
Example fault_example :
  let ls := [(SPut 1 (Some (bs "1|MPI|V")), true); (SDelay 1, true); (SFire, false); (SDelay 5, true); (SPut 2 (Some (bs "x")), true)] in
  match frun HAbsent (fault_init 1) ls with
  | Some f => f_attempts f = 2%nat /\ f_reports f = 0%nat /\ f_exits f = 1%nat /\ length (ss_out (f_s f)) = 1%nat /\
              f_failed f = Some (1, WTimeout, keepalive_line)
  | None => False
  end.
Proof. vm_compute. repeat split; reflexivity. Qed.
