(* Proofs/ItemCode.v — preservation of I-code (the published request id is a
   function of the history; a dequeuer inside a subscription sees its own id)
   over the item LTS of Model/Item.v, and its consequences (C03, C17, C19).

   NOTE: the target `inv_code_step` is FALSE as stated (see
   `inv_code_step_counterexample` at the end): `inv_all` does not say that a job
   at an unsubscription pc holds an unsubscription task.  It is proved here as
   `inv_code_step_partial` under the extra, self-inductive invariant `inv_kind`
   (`inv_kind_init`, `inv_kind_step`). *)
From Coq Require Import String List Ascii NArith ZArith Bool Lia.
From LS Require Import Model.Bytes Model.Tags Gen.Consts Model.Codec Model.Writers Model.AriReply Model.Item Model.ItemSpec.
Import ListNotations.

Local Opaque error_reply write_update_map write_eos write_cls void_reply.

(* ====================================================================== *)
(* 1. small library                                                        *)
(* ====================================================================== *)

Lemma ic_bytes_eqb_refl : forall x, bytes_eqb x x = true.
Proof.
  induction x as [|a x IH]; cbn [bytes_eqb]; [reflexivity|].
  rewrite Ascii.eqb_refl, IH. reflexivity.
Qed.

Lemma ic_bytes_eqb_true : forall x y, bytes_eqb x y = true -> x = y.
Proof.
  induction x as [|a x IH]; intros [|b y] H; cbn [bytes_eqb] in H; try discriminate; [reflexivity|].
  apply andb_true_iff in H. destruct H as [H1 H2].
  apply Ascii.eqb_eq in H1. apply IH in H2. subst. reflexivity.
Qed.

Lemma obytes_eqb_refl : forall c, obytes_eqb c c = true.
Proof. intros [x|]; cbn [obytes_eqb]; [apply ic_bytes_eqb_refl|reflexivity]. Qed.

Lemma obytes_eqb_true : forall a b, obytes_eqb a b = true -> a = b.
Proof.
  intros [x|] [y|] H; cbn [obytes_eqb] in H; try discriminate; [|reflexivity].
  f_equal. apply ic_bytes_eqb_true. exact H.
Qed.

Lemma live_some : forall c r, live c = Some r -> c = Some r /\ r <> [].
Proof.
  intros [[|x r0]|] r H; cbn [live] in H; try discriminate.
  injection H as <-. split; [reflexivity|discriminate].
Qed.

Lemma live_none : forall c, live c = None -> c <> Some [] -> c = None.
Proof.
  intros [[|x r0]|] H Hn; cbn [live] in H; try discriminate; [|reflexivity].
  exfalso. apply Hn. reflexivity.
Qed.

Lemma live_of_nonempty : forall r : bytes, r <> [] -> live (Some r) = Some r.
Proof. intros [|x r] H; [exfalso; apply H; reflexivity|reflexivity]. Qed.

(* ---------- upd / nth_error / forallb ---------- *)
Lemma nth_error_upd_eq : forall A (l : list A) n x y,
  nth_error l n = Some y -> nth_error (upd n x l) n = Some x.
Proof.
  intros A l. induction l as [|a l IH]; intros [|n] x y H; cbn in *; try discriminate; [reflexivity|].
  eapply IH. exact H.
Qed.

Lemma nth_error_upd_neq : forall A (l : list A) n m x,
  n <> m -> nth_error (upd n x l) m = nth_error l m.
Proof.
  intros A l. induction l as [|a l IH]; intros [|n] [|m] x H; cbn; try reflexivity.
  - exfalso. apply H. reflexivity.
  - apply IH. intro E. apply H. subst. reflexivity.
Qed.

Lemma nth_error_upd_cases : forall A (l : list A) n x m y,
  nth_error (upd n x l) m = Some y ->
  (m = n /\ y = x) \/ (m <> n /\ nth_error l m = Some y).
Proof.
  intros A l. induction l as [|a l IH]; intros [|n] x [|m] y H; cbn in H; try discriminate.
  - injection H as <-. left. split; reflexivity.
  - right. split; [discriminate|exact H].
  - right. split; [discriminate|exact H].
  - apply IH in H. destruct H as [[E1 E2]|[N1 N2]].
    + left. subst. split; reflexivity.
    + right. split; [intro E; apply N1; injection E as E; exact E|exact N2].
Qed.

Lemma forallb_nth : forall A (f : A -> bool) l,
  forallb f l = true <-> (forall n x, nth_error l n = Some x -> f x = true).
Proof.
  intros A f l. rewrite forallb_forall. split.
  - intros H n x Hn. apply H. eapply nth_error_In. exact Hn.
  - intros H x Hin. apply In_nth_error in Hin. destruct Hin as [n Hn]. eapply H. exact Hn.
Qed.

Lemma forallb_upd_others : forall A (f : A -> bool) l n x,
  f x = true ->
  (forall m y, m <> n -> nth_error l m = Some y -> f y = true) ->
  forallb f (upd n x l) = true.
Proof.
  intros A f l n x Hx Ho. apply forallb_nth. intros m y Hm.
  apply nth_error_upd_cases in Hm. destruct Hm as [[_ E]|[N Hm]].
  - subst. exact Hx.
  - eapply Ho; eassumption.
Qed.

Lemma forallb_upd : forall A (f : A -> bool) l n x,
  forallb f l = true -> f x = true -> forallb f (upd n x l) = true.
Proof.
  intros A f l n x Hl Hx. apply forallb_upd_others; [exact Hx|].
  intros m y _ Hm. rewrite forallb_nth in Hl. eapply Hl. exact Hm.
Qed.

(* ---------- count_inloop ---------- *)
Lemma count_inloop_ge : forall l j d,
  nth_error l j = Some d -> inloop d = true -> 1 <= count_inloop l.
Proof.
  induction l as [|a l IH]; intros [|j] d H Hi; cbn in H; try discriminate; cbn [count_inloop].
  - injection H as ->. rewrite Hi. lia.
  - specialize (IH _ _ H Hi). lia.
Qed.

Lemma count_inloop_unique : forall l i j di dj,
  count_inloop l <= 1 ->
  nth_error l i = Some di -> nth_error l j = Some dj ->
  inloop di = true -> inloop dj = true -> i = j.
Proof.
  induction l as [|a l IH]; intros [|i] [|j] di dj Hle Hi Hj Ii Ij; cbn in Hi, Hj; try discriminate;
    cbn [count_inloop] in Hle.
  - reflexivity.
  - injection Hi as ->. rewrite Ii in Hle. pose proof (count_inloop_ge _ _ _ Hj Ij). lia.
  - injection Hj as ->. rewrite Ij in Hle. pose proof (count_inloop_ge _ _ _ Hi Ii). lia.
  - f_equal. eapply IH; try eassumption. lia.
Qed.

Lemma not_inloop_code_ok : forall c d, inloop d = false -> pc_code_ok c (d_pc d) = true.
Proof. intros c d. unfold inloop. destruct (d_pc d); intro H; try discriminate; reflexivity. Qed.

Lemma others_not_inloop : forall s j d m y,
  inv_single s = true -> nth_error (s_dqs s) j = Some d -> inloop d = true ->
  m <> j -> nth_error (s_dqs s) m = Some y -> inloop y = false.
Proof.
  intros s j d m y Hs Hd Hi Hne Hy. unfold inv_single in Hs.
  apply andb_true_iff in Hs. destruct Hs as [Hle _]. apply Nat.leb_le in Hle.
  destruct (inloop y) eqn:Iy; [|reflexivity].
  exfalso. apply Hne. eapply count_inloop_unique; eassumption.
Qed.

(* ---------- inv_gen: a live job works on the active manager ---------- *)
Lemma gen_active : forall s j d,
  inv_gen s = true -> nth_error (s_dqs s) j = Some d -> live_dq d = true ->
  s_active s = Some (d_gen d).
Proof.
  intros s j d Hg Hd Hl. unfold inv_gen, cur_gen in Hg.
  destruct (length (s_mgrs s)) as [|c].
  - apply andb_true_iff in Hg. destruct Hg as [_ Hn].
    destruct (s_dqs s); [destruct j; discriminate Hd|discriminate Hn].
  - cbv zeta in Hg. destruct (s_active s) as [g|].
    + apply andb_true_iff in Hg. destruct Hg as [Hg _].
      apply andb_true_iff in Hg. destruct Hg as [Hgc Hf].
      rewrite forallb_nth in Hf. specialize (Hf _ _ Hd). cbv beta in Hf.
      rewrite Hl in Hf. cbn [negb orb] in Hf.
      apply andb_true_iff in Hf. destruct Hf as [Hdc _].
      apply Nat.eqb_eq in Hgc. apply Nat.eqb_eq in Hdc. subst. reflexivity.
    + apply andb_true_iff in Hg. destruct Hg as [Hg _].
      apply andb_true_iff in Hg. destruct Hg as [_ Hf].
      rewrite forallb_nth in Hf. specialize (Hf _ _ Hd). cbv beta in Hf.
      rewrite Hl in Hf. cbn [negb orb] in Hf. rewrite andb_false_r in Hf. discriminate Hf.
Qed.

(* ---------- active_code under updates of the manager list ---------- *)
Lemma active_code_upd_same : forall s s' g m m',
  s_active s' = s_active s -> s_mgrs s' = upd g m' (s_mgrs s) ->
  nth_error (s_mgrs s) g = Some m -> m_code m' = m_code m ->
  active_code s' = active_code s.
Proof.
  intros s s' g m m' Ha Hm Hg Hc. unfold active_code. rewrite Ha, Hm.
  destruct (s_active s) as [a|]; [|reflexivity].
  destruct (Nat.eq_dec g a) as [E|N].
  - subst a. rewrite (nth_error_upd_eq _ _ _ _ _ Hg), Hg. exact Hc.
  - rewrite (nth_error_upd_neq _ _ _ _ _ N). reflexivity.
Qed.

Lemma active_code_upd_set : forall s s' g m m',
  s_active s' = Some g -> s_mgrs s' = upd g m' (s_mgrs s) ->
  nth_error (s_mgrs s) g = Some m ->
  active_code s' = m_code m'.
Proof.
  intros s s' g m m' Ha Hm Hg. unfold active_code. rewrite Ha, Hm.
  rewrite (nth_error_upd_eq _ _ _ _ _ Hg). reflexivity.
Qed.

(* ---------- hist_code ---------- *)
Lemma hist_code_from_app : forall h c es,
  hist_code_from c (h ++ es) = hist_code_from (hist_code_from c h) es.
Proof.
  induction h as [|e h IH]; intros c es; [reflexivity|].
  destruct e; cbn [app hist_code_from]; apply IH.
Qed.

Definition neutral (e : event) : bool :=
  match e with ESetCode _ | EClearCode => false | _ => true end.

Lemma hist_code_from_neutral : forall es c, forallb neutral es = true -> hist_code_from c es = c.
Proof.
  induction es as [|e es IH]; intros c H; [reflexivity|].
  cbn [forallb] in H. apply andb_true_iff in H. destruct H as [He Hes].
  destruct e; cbn [neutral] in He; try discriminate; cbn [hist_code_from]; apply IH; exact Hes.
Qed.

Lemma hist_code_app_neutral : forall h es,
  forallb neutral es = true -> hist_code (h ++ es) = hist_code h.
Proof.
  intros h es H. unfold hist_code. rewrite hist_code_from_app. apply hist_code_from_neutral. exact H.
Qed.

Lemma hist_code_app_set : forall h t, hist_code (h ++ [ESetCode t]) = Some (t_rid t).
Proof. intros h t. unfold hist_code. rewrite hist_code_from_app. reflexivity. Qed.

Lemma hist_code_app_clear : forall h, hist_code (h ++ [EClearCode]) = None.
Proof. intros h. unfold hist_code. rewrite hist_code_from_app. reflexivity. Qed.

(* ---------- inv_code: elimination / introduction / frame lemmas ---------- *)
Lemma inv_code_elim : forall s,
  inv_code s = true ->
  active_code s = hist_code (s_hist s) /\
  forallb (fun d => pc_code_ok (active_code s) (d_pc d)) (s_dqs s) = true.
Proof.
  intros s H. unfold inv_code in H. apply andb_true_iff in H. destruct H as [H1 H2].
  split; [apply obytes_eqb_true; exact H1|exact H2].
Qed.

Lemma inv_code_job : forall s j d,
  inv_code s = true -> nth_error (s_dqs s) j = Some d ->
  pc_code_ok (active_code s) (d_pc d) = true.
Proof.
  intros s j d H Hd. apply inv_code_elim in H. destruct H as [_ H].
  rewrite forallb_nth in H. exact (H _ _ Hd).
Qed.

Lemma inv_code_intro : forall s' c,
  active_code s' = c -> hist_code (s_hist s') = c ->
  forallb (fun d => pc_code_ok c (d_pc d)) (s_dqs s') = true ->
  inv_code s' = true.
Proof.
  intros s' c Ha Hh Hf. unfold inv_code. rewrite Ha, Hh, obytes_eqb_refl, Hf. reflexivity.
Qed.

Lemma inv_code_keep : forall s s',
  inv_code s = true -> active_code s' = active_code s ->
  hist_code (s_hist s') = hist_code (s_hist s) ->
  forallb (fun d => pc_code_ok (active_code s) (d_pc d)) (s_dqs s') = true ->
  inv_code s' = true.
Proof.
  intros s s' H Ha Hh Hf. apply inv_code_elim in H. destruct H as [H1 _].
  apply inv_code_intro with (c := active_code s); [exact Ha|rewrite Hh; symmetry; exact H1|exact Hf].
Qed.

Lemma keep_same_dqs : forall s s',
  inv_code s = true -> active_code s' = active_code s ->
  hist_code (s_hist s') = hist_code (s_hist s) -> s_dqs s' = s_dqs s ->
  inv_code s' = true.
Proof.
  intros s s' H Ha Hh Hd. apply inv_code_keep with s; try assumption.
  rewrite Hd. apply inv_code_elim in H. exact (proj2 H).
Qed.

Lemma keep_log : forall s es,
  inv_code s = true -> forallb neutral es = true -> inv_code (log s es) = true.
Proof.
  intros s es H Hn. apply keep_same_dqs with s; [exact H|reflexivity| |reflexivity].
  cbn [s_hist log]. apply hist_code_app_neutral. exact Hn.
Qed.

(* job j moves from d to d'; the published id and its history image do not change *)
Lemma keep_dq : forall s s1 j d d',
  inv_code s = true -> nth_error (s_dqs s) j = Some d ->
  active_code s1 = active_code s ->
  hist_code (s_hist s1) = hist_code (s_hist s) ->
  s_dqs s1 = s_dqs s ->
  (pc_code_ok (active_code s) (d_pc d) = true -> pc_code_ok (active_code s) (d_pc d') = true) ->
  inv_code (set_dq s1 j d') = true.
Proof.
  intros s s1 j d d' H Hd Ha Hh Hq Hpc.
  apply inv_code_keep with s; [exact H|exact Ha|exact Hh|].
  cbn [s_dqs set_dq]. rewrite Hq. apply forallb_upd.
  - apply inv_code_elim in H. exact (proj2 H).
  - apply Hpc. eapply inv_code_job; eassumption.
Qed.

Lemma listener_put_inv : forall s o k c s1,
  listener_put s o k c = Some s1 ->
  exists rid line, c = Some rid /\ rid <> [] /\ s1 = log s [ENotif o k rid line].
Proof.
  intros s o k c s1 H. unfold listener_put in H.
  destruct (live c) as [rid|] eqn:Hl; [|discriminate].
  destruct (notif_line (s_item s) rid k) as [line|e]; [|discriminate].
  injection H as <-. apply live_some in Hl. destruct Hl as [Hc Hn].
  exists rid, line. repeat split; assumption.
Qed.

Lemma inv_all_split : forall s,
  inv_all s = true ->
  inv_gen s = true /\ inv_single s = true /\ inv_rids s = true /\ inv_code s = true.
Proof.
  intros s. unfold inv_all, inv_struct. rewrite !andb_true_iff. tauto.
Qed.

Lemma rids_code_nonempty : forall s, inv_rids s = true -> active_code s <> Some [].
Proof.
  intros s H. unfold inv_rids in H. apply andb_true_iff in H. destruct H as [_ H].
  intro E. rewrite E in H. discriminate H.
Qed.

(* the closing tactic for a step of job j that leaves the published id alone:
   leaves the pc obligation  pc_code_ok c (d_pc d) = true -> pc_code_ok c (d_pc d') = true *)
Ltac keep_dq_tac Hc Hd :=
  repeat (apply keep_log; [|reflexivity]);
  eapply keep_dq;
  [ exact Hc | exact Hd
  | first [reflexivity | idtac]
  | first [reflexivity | cbn [s_hist log set_dq set_mgr set_lis]; apply hist_code_app_neutral; reflexivity]
  | reflexivity
  | ].

(* ====================================================================== *)
(* 2. one lemma per label kind                                             *)
(* ====================================================================== *)

Lemma code_R1 : forall s t s',
  inv_code s = true -> step_R1 s t = Some s' -> inv_code s' = true.
Proof.
  intros s t s' Hc H. unfold step_R1 in H.
  destruct (s_pending s); [discriminate|].
  destruct (s_active s) as [g|] eqn:Ha.
  - destruct (nth_error (s_mgrs s) g) as [m|] eqn:Hm; [|discriminate].
    cbv zeta in H. injection H as <-.
    apply keep_same_dqs with s; [exact Hc| | |reflexivity].
    + eapply active_code_upd_same; [reflexivity|reflexivity|exact Hm|reflexivity].
    + cbn [s_hist log set_mgr]. apply hist_code_app_neutral. reflexivity.
  - destruct (t_sub t).
    + cbv zeta in H. injection H as <-.
      apply keep_same_dqs with s; [exact Hc| | |reflexivity].
      * unfold active_code. cbn [s_active s_mgrs log]. rewrite Ha.
        rewrite nth_error_app2 by apply le_n. rewrite Nat.sub_diag. reflexivity.
      * cbn [s_hist log]. apply hist_code_app_neutral. reflexivity.
    + injection H as <-. apply keep_log; [exact Hc|reflexivity].
Qed.

Lemma code_R2 : forall s s',
  inv_code s = true -> step_R2 s = Some s' -> inv_code s' = true.
Proof.
  intros s s' Hc H. unfold step_R2 in H.
  destruct (s_pending s) as [[t g]|]; [|discriminate].
  destruct (nth_error (s_mgrs s) g) as [m|] eqn:Hm; [|discriminate].
  cbv zeta in H. injection H as <-.
  apply inv_code_keep with s; [exact Hc| |reflexivity|].
  - eapply active_code_upd_same; [reflexivity|reflexivity|exact Hm|reflexivity].
  - cbn [s_dqs set_mgr]. apply inv_code_elim in Hc. destruct Hc as [_ Hf].
    destruct (m_running m); [exact Hf|].
    rewrite forallb_app, Hf. reflexivity.
Qed.

Lemma code_JobStart : forall s j s',
  inv_code s = true -> step_JobStart s j = Some s' -> inv_code s' = true.
Proof.
  intros s j s' Hc H. unfold step_JobStart in H.
  destruct (nth_error (s_dqs s) j) as [d|] eqn:Hd; [|discriminate].
  destruct (d_pc d) eqn:Hpc; try discriminate. injection H as <-.
  keep_dq_tac Hc Hd. intros _. reflexivity.
Qed.

Lemma code_LockI : forall s j s',
  inv_code s = true -> step_LockI s j = Some s' -> inv_code s' = true.
Proof.
  intros s j s' Hc H. unfold step_LockI in H.
  destruct (nth_error (s_dqs s) j) as [d|] eqn:Hd; [|discriminate].
  destruct (d_pc d) eqn:Hpc; try discriminate;
    destruct (nth_error (s_mgrs s) (d_gen d)) as [m|] eqn:Hm; try discriminate.
  cbv zeta in H.
  destruct (m_deq m) as [|t rest].
  - injection H as <-. keep_dq_tac Hc Hd.
    + eapply active_code_upd_same; [reflexivity|reflexivity|exact Hm|reflexivity].
    + intros _. reflexivity.
  - destruct (t_sub t && negb (is_nil rest)); injection H as <-; keep_dq_tac Hc Hd;
      try (eapply active_code_upd_same; [reflexivity|reflexivity|exact Hm|reflexivity]);
      intros _; cbn [d_pc];
      destruct (t_sub t); destruct (is_nil rest);
      destruct (if (d_dequeued d =? 0)%Z then m_last_ok m else d_lso d); reflexivity.
Qed.

Lemma code_LockM : forall s j s',
  inv_code s = true -> inv_gen s = true -> inv_single s = true -> inv_rids s = true ->
  step_LockM s j = Some s' -> inv_code s' = true.
Proof.
  intros s j s' Hc Hg Hs Hr H. unfold step_LockM in H.
  destruct (nth_error (s_dqs s) j) as [d|] eqn:Hd; [|discriminate].
  destruct (d_pc d) eqn:Hpc; try discriminate;
    destruct (nth_error (s_mgrs s) (d_gen d)) as [m|] eqn:Hm; try discriminate;
    cbv zeta in H.
  - (* PSetCode: publish the id *)
    injection H as <-.
    assert (Ha : s_active s = Some (d_gen d)).
    { eapply gen_active; [exact Hg|exact Hd|]. unfold live_dq. rewrite Hpc. reflexivity. }
    assert (Hi : inloop d = true) by (unfold inloop; rewrite Hpc; reflexivity).
    apply inv_code_intro with (c := Some (t_rid t)).
    + erewrite active_code_upd_set; [| |reflexivity|exact Hm]; [reflexivity|exact Ha].
    + cbn [s_hist log set_dq set_mgr]. apply hist_code_app_set.
    + cbn [s_dqs log set_dq set_mgr]. apply forallb_upd_others.
      * cbn [d_pc with_pc pc_code_ok]. apply obytes_eqb_refl.
      * intros i y Hne Hy. apply not_inloop_code_ok.
        eapply (others_not_inloop s j d); eassumption.
  - (* PEosRead *)
    destruct (live (active_code s)); injection H as <-; keep_dq_tac Hc Hd;
      rewrite Hpc; cbn [d_pc with_pc pc_code_ok]; intro Hok; rewrite ?Hok; reflexivity.
  - (* PNestRead *)
    destruct (live (active_code s)); injection H as <-; keep_dq_tac Hc Hd;
      rewrite Hpc; destruct insub; cbn [d_pc with_pc pc_code_ok]; intro Hok; rewrite ?Hok; reflexivity.
  - (* PClear: withdraw the id *)
    injection H as <-.
    assert (Ha : s_active s = Some (d_gen d)).
    { eapply gen_active; [exact Hg|exact Hd|]. unfold live_dq. rewrite Hpc. reflexivity. }
    assert (Hi : inloop d = true) by (unfold inloop; rewrite Hpc; reflexivity).
    apply inv_code_intro with (c := None).
    + erewrite active_code_upd_set; [| |reflexivity|exact Hm]; [reflexivity|exact Ha].
    + cbn [s_hist log set_dq set_mgr]. apply hist_code_app_clear.
    + cbn [s_dqs log set_dq set_mgr]. apply forallb_upd_others.
      * reflexivity.
      * intros i y Hne Hy. apply not_inloop_code_ok.
        eapply (others_not_inloop s j d); eassumption.
  - (* PDec: subtract, possibly delete the manager from the active map *)
    destruct (match live (m_code m) with Some _ => false | None => true end
              && (m_queued m - d_dequeued d =? 0)%Z
              && match s_active s with Some g => Nat.eqb g (d_gen d) | None => false end) eqn:Hdel.
    + injection H as <-.
      apply andb_true_iff in Hdel. destruct Hdel as [Hdel Hact].
      apply andb_true_iff in Hdel. destruct Hdel as [Hfalsy _].
      destruct (s_active s) as [g|] eqn:Ha; [|discriminate].
      apply Nat.eqb_eq in Hact. subst g.
      assert (Hcode : active_code s = None).
      { pose proof (rids_code_nonempty _ Hr) as Hne.
        unfold active_code in *. rewrite Ha, Hm in *.
        destruct (live (m_code m)) eqn:Hl; [discriminate|].
        apply live_none; assumption. }
      apply inv_code_keep with s; [exact Hc| | |].
      * rewrite Hcode. reflexivity.
      * cbn [s_hist log set_dq set_mgr]. apply hist_code_app_neutral. reflexivity.
      * cbn [s_dqs log set_dq set_mgr]. apply forallb_upd; [|reflexivity].
        apply inv_code_elim in Hc. exact (proj2 Hc).
    + injection H as <-. keep_dq_tac Hc Hd.
      * eapply active_code_upd_same; [reflexivity|reflexivity|exact Hm|reflexivity].
      * intros _. reflexivity.
Qed.

Lemma code_Put : forall s j s',
  inv_code s = true -> step_Put s j = Some s' -> inv_code s' = true.
Proof.
  intros s j s' Hc H. unfold step_Put in H.
  destruct (nth_error (s_dqs s) j) as [d|] eqn:Hd; [|discriminate].
  destruct (d_pc d) eqn:Hpc; try discriminate.
  - (* PLate *)
    destruct (reply_line t (error_reply MSUB late_exn)); [|discriminate]. injection H as <-.
    keep_dq_tac Hc Hd. intros _. reflexivity.
  - (* PEosPut *)
    destruct (listener_put s OLib LEos c) as [s1|] eqn:Hl; [|discriminate]. injection H as <-.
    apply listener_put_inv in Hl. destruct Hl as (rid & line & _ & _ & ->).
    keep_dq_tac Hc Hd. rewrite Hpc. cbn [d_pc with_pc pc_code_ok]. intro Hok.
    apply andb_true_iff in Hok. exact (proj1 Hok).
  - (* PNestPut *)
    destruct (listener_put s (ONested j) k c) as [s1|] eqn:Hl; [|discriminate]. injection H as <-.
    apply listener_put_inv in Hl. destruct Hl as (rid & line & _ & _ & ->).
    keep_dq_tac Hc Hd. rewrite Hpc. destruct insub; cbn [d_pc with_pc pc_code_ok]; intro Hok.
    + apply andb_true_iff in Hok. exact (proj1 Hok).
    + reflexivity.
  - (* PReply *)
    destruct (reply_line t (outcome_payload t o)); [|discriminate]. injection H as <-.
    keep_dq_tac Hc Hd. intros _. cbn [d_pc with_pc]. destruct (t_sub t); reflexivity.
  - (* PUsbLate *)
    destruct (reply_line t (WOk (void_reply MUSB))); [|discriminate]. injection H as <-.
    keep_dq_tac Hc Hd. intros _. reflexivity.
Qed.

Lemma code_CallB : forall s j s',
  inv_code s = true -> step_CallB s j = Some s' -> inv_code s' = true.
Proof.
  intros s j s' Hc H. unfold step_CallB in H.
  destruct (nth_error (s_dqs s) j) as [d|] eqn:Hd; [|discriminate].
  destruct (d_pc d) eqn:Hpc; try discriminate; injection H as <-;
    keep_dq_tac Hc Hd; rewrite Hpc; cbn [d_pc with_pc pc_code_ok]; intro Hok;
    first [exact Hok|reflexivity].
Qed.

(* the only case that needs more than inv_all: leaving unsubscribe() *)
Lemma code_CallE : forall s j o s',
  inv_code s = true ->
  (forall d t, nth_error (s_dqs s) j = Some d -> d_pc d = PInUsb t -> t_sub t = false) ->
  step_CallE s j o = Some s' -> inv_code s' = true.
Proof.
  intros s j o s' Hc Hkind H. unfold step_CallE in H.
  destruct (nth_error (s_dqs s) j) as [d|] eqn:Hd; [|discriminate].
  destruct (d_pc d) eqn:Hpc; try discriminate; cbv zeta in H; injection H as <-.
  - (* PSnapE *)
    destruct o as [[|]|e]; keep_dq_tac Hc Hd; rewrite Hpc; cbn [d_pc with_pc pc_code_ok];
      intro Hok; rewrite ?Hok, ?orb_true_r; reflexivity.
  - (* PInSub *)
    keep_dq_tac Hc Hd. rewrite Hpc. cbn [d_pc with_pc pc_code_ok].
    intro Hok. rewrite Hok, orb_true_r. reflexivity.
  - (* PInUsb *)
    keep_dq_tac Hc Hd. intros _. cbn [d_pc with_pc pc_code_ok].
    rewrite (Hkind d t eq_refl Hpc). reflexivity.
Qed.

Lemma code_Nest : forall s j k s',
  inv_code s = true -> step_Nest s j k = Some s' -> inv_code s' = true.
Proof.
  intros s j k s' Hc H. unfold step_Nest in H.
  destruct (nth_error (s_dqs s) j) as [d|] eqn:Hd; [|discriminate].
  destruct (d_pc d) eqn:Hpc; try discriminate; injection H as <-;
    keep_dq_tac Hc Hd; rewrite Hpc; cbn [d_pc with_pc pc_code_ok]; intro Hok;
    first [exact Hok|reflexivity].
Qed.

Lemma code_FreeBegin : forall s l k s',
  inv_code s = true -> step_FreeBegin s l k = Some s' -> inv_code s' = true.
Proof.
  intros s l k s' Hc H. unfold step_FreeBegin in H.
  destruct (nth_error (s_lis s) l) as [[| |]|].
  - injection H as <-. apply keep_log; [|reflexivity].
    apply keep_same_dqs with s; [exact Hc|reflexivity|reflexivity|reflexivity].
  - discriminate.
  - discriminate.
  - destruct (Nat.eqb l (length (s_lis s))); [|discriminate]. injection H as <-.
    apply keep_same_dqs with s; [exact Hc|reflexivity| |reflexivity].
    cbn [s_hist log]. apply hist_code_app_neutral. reflexivity.
Qed.

Lemma code_FreeLockM : forall s l s',
  inv_code s = true -> step_FreeLockM s l = Some s' -> inv_code s' = true.
Proof.
  intros s l s' Hc H. unfold step_FreeLockM in H.
  destruct (nth_error (s_lis s) l) as [[|k|]|]; try discriminate.
  cbv zeta in H. destruct (live (active_code s)); injection H as <-.
  - apply keep_same_dqs with s; [exact Hc|reflexivity|reflexivity|reflexivity].
  - apply keep_log; [|reflexivity].
    apply keep_same_dqs with s; [exact Hc|reflexivity|reflexivity|reflexivity].
Qed.

Lemma code_FreePut : forall s l s',
  inv_code s = true -> step_FreePut s l = Some s' -> inv_code s' = true.
Proof.
  intros s l s' Hc H. unfold step_FreePut in H.
  destruct (nth_error (s_lis s) l) as [[| |k c]|]; try discriminate.
  destruct (listener_put s (OFree l) k c) as [s1|] eqn:Hl; [|discriminate]. injection H as <-.
  apply listener_put_inv in Hl. destruct Hl as (rid & line & _ & _ & ->).
  apply keep_same_dqs with s; [exact Hc|reflexivity| |reflexivity].
  cbn [s_hist log set_lis]. apply hist_code_app_neutral. reflexivity.
Qed.

(* ====================================================================== *)
(* 3. the missing invariant: jobs at an unsubscription pc hold a USB task  *)
(* ====================================================================== *)

Definition pc_kind_ok (p : pc) : bool :=
  match p with
  | PUsbB t | PInUsb t | PNestRead t false _ | PNestPut t false _ _ => negb (t_sub t)
  | _ => true
  end.

Definition inv_kind (s : istate) : bool := forallb (fun d => pc_kind_ok (d_pc d)) (s_dqs s).

Lemma inv_kind_init : forall item, inv_kind (init_state item) = true.
Proof. intros item. reflexivity. Qed.

Lemma inv_kind_job : forall s j d,
  inv_kind s = true -> nth_error (s_dqs s) j = Some d -> pc_kind_ok (d_pc d) = true.
Proof.
  intros s j d H Hd. unfold inv_kind in H. rewrite forallb_nth in H. exact (H _ _ Hd).
Qed.

Lemma kind_same : forall s s', inv_kind s = true -> s_dqs s' = s_dqs s -> inv_kind s' = true.
Proof. intros s s' H E. unfold inv_kind. rewrite E. exact H. Qed.

Lemma kind_dq : forall s s1 j d d',
  inv_kind s = true -> nth_error (s_dqs s) j = Some d -> s_dqs s1 = s_dqs s ->
  (pc_kind_ok (d_pc d) = true -> pc_kind_ok (d_pc d') = true) ->
  inv_kind (set_dq s1 j d') = true.
Proof.
  intros s s1 j d d' H Hd E Hpc. unfold inv_kind. cbn [s_dqs set_dq]. rewrite E.
  apply forallb_upd; [exact H|]. apply Hpc. eapply inv_kind_job; eassumption.
Qed.

Lemma kind_log : forall s es, inv_kind s = true -> inv_kind (log s es) = true.
Proof. intros s es H. exact H. Qed.

Ltac kind_dq_tac Hk Hd :=
  repeat apply kind_log;
  eapply kind_dq; [exact Hk|exact Hd|reflexivity|].

Lemma inv_kind_step : forall s lb s',
  inv_kind s = true -> step s lb = Some s' -> inv_kind s' = true.
Proof.
  intros s lb s' Hk H. destruct lb as [t| |j|j|j|j|j|j o|j k|l k|l|l]; cbn [step] in H.
  - (* R1 *)
    unfold step_R1 in H. destruct (s_pending s); [discriminate|].
    destruct (s_active s) as [g|].
    + destruct (nth_error (s_mgrs s) g); [|discriminate]. injection H as <-.
      apply kind_same with s; [exact Hk|reflexivity].
    + destruct (t_sub t); injection H as <-; apply kind_same with s; (exact Hk || reflexivity).
  - (* R2 *)
    unfold step_R2 in H. destruct (s_pending s) as [[t g]|]; [|discriminate].
    destruct (nth_error (s_mgrs s) g) as [m|]; [|discriminate]. injection H as <-.
    unfold inv_kind. cbn [s_dqs set_mgr]. destruct (m_running m); [exact Hk|].
    rewrite forallb_app. unfold inv_kind in Hk. rewrite Hk. reflexivity.
  - (* JobStart *)
    unfold step_JobStart in H.
    destruct (nth_error (s_dqs s) j) as [d|] eqn:Hd; [|discriminate].
    destruct (d_pc d) eqn:Hpc; try discriminate. injection H as <-.
    kind_dq_tac Hk Hd. intros _. reflexivity.
  - (* LockI *)
    unfold step_LockI in H.
    destruct (nth_error (s_dqs s) j) as [d|] eqn:Hd; [|discriminate].
    destruct (d_pc d) eqn:Hpc; try discriminate;
      destruct (nth_error (s_mgrs s) (d_gen d)) as [m|] eqn:Hm; try discriminate.
    cbv zeta in H. destruct (m_deq m) as [|t rest].
    + injection H as <-. kind_dq_tac Hk Hd. intros _. reflexivity.
    + destruct (t_sub t && negb (is_nil rest)); injection H as <-; kind_dq_tac Hk Hd;
        intros _; cbn [d_pc];
        destruct (t_sub t) eqn:Hsub; destruct (is_nil rest);
        destruct (if (d_dequeued d =? 0)%Z then m_last_ok m else d_lso d);
        cbn [pc_kind_ok]; rewrite ?Hsub; reflexivity.
  - (* LockM *)
    unfold step_LockM in H.
    destruct (nth_error (s_dqs s) j) as [d|] eqn:Hd; [|discriminate].
    destruct (d_pc d) eqn:Hpc; try discriminate;
      destruct (nth_error (s_mgrs s) (d_gen d)) as [m|] eqn:Hm; try discriminate;
      cbv zeta in H.
    + injection H as <-. kind_dq_tac Hk Hd. intros _. reflexivity.
    + destruct (live (active_code s)); injection H as <-; kind_dq_tac Hk Hd; intros _; reflexivity.
    + destruct (live (active_code s)); injection H as <-; kind_dq_tac Hk Hd;
        rewrite Hpc; destruct insub; cbn [d_pc with_pc pc_kind_ok]; intro Hok;
        first [exact Hok|reflexivity].
    + injection H as <-. kind_dq_tac Hk Hd. intros _. reflexivity.
    + match type of H with (if ?b then _ else _) = _ => destruct b end;
        injection H as <-; kind_dq_tac Hk Hd; intros _; reflexivity.
  - (* Put *)
    unfold step_Put in H.
    destruct (nth_error (s_dqs s) j) as [d|] eqn:Hd; [|discriminate].
    destruct (d_pc d) eqn:Hpc; try discriminate.
    + destruct (reply_line t (error_reply MSUB late_exn)); [|discriminate]. injection H as <-.
      kind_dq_tac Hk Hd. intros _. reflexivity.
    + destruct (listener_put s OLib LEos c) as [s1|] eqn:Hl; [|discriminate]. injection H as <-.
      apply listener_put_inv in Hl. destruct Hl as (rid & line & _ & _ & ->).
      kind_dq_tac Hk Hd. intros _. reflexivity.
    + destruct (listener_put s (ONested j) k c) as [s1|] eqn:Hl; [|discriminate]. injection H as <-.
      apply listener_put_inv in Hl. destruct Hl as (rid & line & _ & _ & ->).
      kind_dq_tac Hk Hd. rewrite Hpc. destruct insub; cbn [d_pc with_pc pc_kind_ok]; intro Hok;
        first [exact Hok|reflexivity].
    + destruct (reply_line t (outcome_payload t o)); [|discriminate]. injection H as <-.
      kind_dq_tac Hk Hd. intros _. cbn [d_pc with_pc]. destruct (t_sub t); reflexivity.
    + destruct (reply_line t (WOk (void_reply MUSB))); [|discriminate]. injection H as <-.
      kind_dq_tac Hk Hd. intros _. reflexivity.
  - (* CallB *)
    unfold step_CallB in H.
    destruct (nth_error (s_dqs s) j) as [d|] eqn:Hd; [|discriminate].
    destruct (d_pc d) eqn:Hpc; try discriminate; injection H as <-;
      kind_dq_tac Hk Hd; rewrite Hpc; cbn [d_pc with_pc pc_kind_ok]; intro Hok;
      first [exact Hok|reflexivity].
  - (* CallE *)
    unfold step_CallE in H.
    destruct (nth_error (s_dqs s) j) as [d|] eqn:Hd; [|discriminate].
    destruct (d_pc d) eqn:Hpc; try discriminate; cbv zeta in H; injection H as <-.
    + destruct o as [[|]|e]; kind_dq_tac Hk Hd; intros _; reflexivity.
    + kind_dq_tac Hk Hd. intros _. reflexivity.
    + kind_dq_tac Hk Hd. intros _. reflexivity.
  - (* Nest *)
    unfold step_Nest in H.
    destruct (nth_error (s_dqs s) j) as [d|] eqn:Hd; [|discriminate].
    destruct (d_pc d) eqn:Hpc; try discriminate; injection H as <-;
      kind_dq_tac Hk Hd; rewrite Hpc; cbn [d_pc with_pc pc_kind_ok]; intro Hok;
      first [exact Hok|reflexivity].
  - (* FreeBegin *)
    unfold step_FreeBegin in H.
    destruct (nth_error (s_lis s) l) as [[| |]|]; try discriminate.
    + injection H as <-. apply kind_same with s; [exact Hk|reflexivity].
    + destruct (Nat.eqb l (length (s_lis s))); [|discriminate]. injection H as <-.
      apply kind_same with s; [exact Hk|reflexivity].
  - (* FreeLockM *)
    unfold step_FreeLockM in H.
    destruct (nth_error (s_lis s) l) as [[|k|]|]; try discriminate.
    cbv zeta in H. destruct (live (active_code s)); injection H as <-;
      apply kind_same with s; (exact Hk || reflexivity).
  - (* FreePut *)
    unfold step_FreePut in H.
    destruct (nth_error (s_lis s) l) as [[| |k c]|]; try discriminate.
    destruct (listener_put s (OFree l) k c) as [s1|] eqn:Hl; [|discriminate]. injection H as <-.
    apply listener_put_inv in Hl. destruct Hl as (rid & line & _ & _ & ->).
    apply kind_same with s; [exact Hk|reflexivity].
Qed.

(* ====================================================================== *)
(* 4. the target lemmas                                                    *)
(* ====================================================================== *)

(* preservation for every label except "return from unsubscribe()" needs inv_all only *)
Lemma inv_code_step_gen : forall s lb s',
  inv_all s = true ->
  (forall j o d t, lb = LbCallE j o -> nth_error (s_dqs s) j = Some d -> d_pc d = PInUsb t ->
                   t_sub t = false) ->
  env_ok s lb = true -> step s lb = Some s' -> inv_code s' = true.
Proof.
  intros s lb s' Hall Hkind _ H.
  apply inv_all_split in Hall. destruct Hall as (Hg & Hs & Hr & Hc).
  destruct lb as [t| |j|j|j|j|j|j o|j k|l k|l|l]; cbn [step] in H.
  - eapply code_R1; eassumption.
  - eapply code_R2; eassumption.
  - eapply code_JobStart; eassumption.
  - eapply code_LockI; eassumption.
  - eapply code_LockM; eassumption.
  - eapply code_Put; eassumption.
  - eapply code_CallB; eassumption.
  - eapply code_CallE; [exact Hc| |exact H].
    intros d t Hd Hpc. eapply Hkind; [reflexivity|exact Hd|exact Hpc].
  - eapply code_Nest; eassumption.
  - eapply code_FreeBegin; eassumption.
  - eapply code_FreeLockM; eassumption.
  - eapply code_FreePut; eassumption.
Qed.

Lemma inv_code_step_partial : forall s lb s',
  inv_all s = true -> inv_kind s = true -> env_ok s lb = true -> step s lb = Some s' ->
  inv_code s' = true.
Proof.
  intros s lb s' Hall Hk He H. eapply inv_code_step_gen; try eassumption.
  intros j o d t _ Hd Hpc. pose proof (inv_kind_job _ _ _ Hk Hd) as Hok.
  rewrite Hpc in Hok. cbn [pc_kind_ok] in Hok. apply negb_true_iff in Hok. exact Hok.
Qed.

Lemma inv_code_init : forall item, inv_code (init_state item) = true.
Proof. intros item. reflexivity. Qed.

(* the exact statement `inv_code_step` does not hold: a state satisfying inv_all in which a job
   sits inside unsubscribe() holding a SUBSCRIPTION task (unreachable, but not excluded by inv_all) *)
Definition cex_t : task := {| t_rid := bs "a"; t_sub := true |}.
Definition cex_s : istate :=
  {| s_item := bs "i";
     s_mgrs := [{| m_deq := []; m_code := None; m_running := true; m_queued := 1; m_last_ok := false |}];
     s_active := Some 0; s_pending := None;
     s_dqs := [{| d_gen := 0; d_pc := PInUsb cex_t; d_dequeued := 1; d_lso := false |}];
     s_lis := []; s_hist := [EArr cex_t] |}.
Definition cex_lb : label := LbCallE 0 (CRet false).
Definition cex_s' : istate := match step cex_s cex_lb with Some x => x | None => cex_s end.

Lemma inv_code_step_counterexample :
  inv_all cex_s = true /\ env_ok cex_s cex_lb = true /\ step cex_s cex_lb = Some cex_s' /\
  inv_code cex_s' = false.
Proof. repeat split; vm_compute; reflexivity. Qed.

Lemma inv_code_step_false :
  ~ (forall s lb s', inv_all s = true -> env_ok s lb = true -> step s lb = Some s' -> inv_code s' = true).
Proof.
  intro H. destruct inv_code_step_counterexample as (H1 & H2 & H3 & H4).
  rewrite (H _ _ _ H1 H2 H3) in H4. discriminate H4.
Qed.

(* ====================================================================== *)
(* 5. consequences                                                         *)
(* ====================================================================== *)

Lemma free_read_dropped : forall s l k s',
  inv_code s = true -> hist_code (s_hist s) = None ->
  nth_error (s_lis s) l = Some (LRead k) -> step s (LbFreeLockM l) = Some s' ->
  s_hist s' = s_hist s ++ [ELisDropped (OFree l) k] /\ nth_error (s_lis s') l = Some LIdle.
Proof.
  intros s l k s' Hc Hh Hl H. cbn [step] in H. unfold step_FreeLockM in H. rewrite Hl in H.
  apply inv_code_elim in Hc. destruct Hc as [Ha _]. rewrite Hh in Ha.
  cbv beta iota zeta in H. rewrite Ha in H. cbn [live] in H. injection H as <-.
  split; [reflexivity|].
  cbn [s_lis log set_lis]. eapply nth_error_upd_eq. exact Hl.
Qed.

Lemma free_read_forwarded : forall s l k rid s',
  inv_code s = true -> hist_code (s_hist s) = Some rid -> rid <> [] ->
  nth_error (s_lis s) l = Some (LRead k) -> step s (LbFreeLockM l) = Some s' ->
  nth_error (s_lis s') l = Some (LPutS k (Some rid)).
Proof.
  intros s l k rid s' Hc Hh Hne Hl H. cbn [step] in H. unfold step_FreeLockM in H. rewrite Hl in H.
  apply inv_code_elim in Hc. destruct Hc as [Ha _]. rewrite Hh in Ha.
  cbv beta iota zeta in H. rewrite Ha in H. rewrite (live_of_nonempty _ Hne) in H. injection H as <-.
  cbn [s_lis set_lis]. eapply nth_error_upd_eq. exact Hl.
Qed.

Lemma no_setcode_no_code : forall h, (forall t, ~ In (ESetCode t) h) -> hist_code h = None.
Proof.
  intros h. unfold hist_code. induction h as [|e h IH]; intros Hn; [reflexivity|].
  assert (Hn' : forall t, ~ In (ESetCode t) h).
  { intros t Hin. apply (Hn t). right. exact Hin. }
  destruct e; cbn [hist_code_from]; try (apply IH; exact Hn').
  exfalso. apply (Hn t). left. reflexivity.
Qed.

Lemma eos_put_tag : forall s j d t c s',
  inv_code s = true -> nth_error (s_dqs s) j = Some d -> d_pc d = PEosPut t c ->
  step s (LbPut j) = Some s' ->
  exists line, s_hist s' = s_hist s ++ [ENotif OLib LEos (t_rid t) line].
Proof.
  intros s j d t c s' Hc Hd Hpc H. cbn [step] in H. unfold step_Put in H. rewrite Hd, Hpc in H.
  pose proof (inv_code_job _ _ _ Hc Hd) as Hok. rewrite Hpc in Hok. cbn [pc_code_ok] in Hok.
  apply andb_true_iff in Hok. destruct Hok as [_ Hok]. apply obytes_eqb_true in Hok.
  destruct (listener_put s OLib LEos c) as [s1|] eqn:Hl; [|discriminate]. injection H as <-.
  apply listener_put_inv in Hl. destruct Hl as (rid & line & Hcr & _ & ->).
  rewrite Hcr in Hok. injection Hok as ->. exists line. reflexivity.
Qed.

Lemma nested_put_tag : forall s j d t k c s',
  inv_code s = true -> nth_error (s_dqs s) j = Some d -> d_pc d = PNestPut t true k c ->
  step s (LbPut j) = Some s' ->
  exists line, s_hist s' = s_hist s ++ [ENotif (ONested j) k (t_rid t) line].
Proof.
  intros s j d t k c s' Hc Hd Hpc H. cbn [step] in H. unfold step_Put in H. rewrite Hd, Hpc in H.
  pose proof (inv_code_job _ _ _ Hc Hd) as Hok. rewrite Hpc in Hok. cbn [pc_code_ok] in Hok.
  apply andb_true_iff in Hok. destruct Hok as [_ Hok]. apply obytes_eqb_true in Hok.
  destruct (listener_put s (ONested j) k c) as [s1|] eqn:Hl; [|discriminate]. injection H as <-.
  apply listener_put_inv in Hl. destruct Hl as (rid & line & Hcr & _ & ->).
  rewrite Hcr in Hok. injection Hok as ->. exists line. reflexivity.
Qed.

Lemma nested_read_not_dropped : forall s j d t k s',
  inv_code s = true -> inv_rids s = true -> nth_error (s_dqs s) j = Some d -> d_pc d = PNestRead t true k ->
  step s (LbLockM j) = Some s' ->
  exists d', nth_error (s_dqs s') j = Some d' /\ d_pc d' = PNestPut t true k (Some (t_rid t)).
Proof.
  intros s j d t k s' Hc Hr Hd Hpc H. cbn [step] in H. unfold step_LockM in H. rewrite Hd, Hpc in H.
  pose proof (inv_code_job _ _ _ Hc Hd) as Hok. rewrite Hpc in Hok. cbn [pc_code_ok] in Hok.
  apply obytes_eqb_true in Hok.
  pose proof (rids_code_nonempty _ Hr) as Hne.
  destruct (nth_error (s_mgrs s) (d_gen d)) as [m|]; [|discriminate].
  cbv zeta in H. rewrite Hok in H, Hne.
  rewrite live_of_nonempty in H by (intro E; apply Hne; rewrite E; reflexivity).
  injection H as <-.
  exists (with_pc d (PNestPut t true k (Some (t_rid t)))). split; [|reflexivity].
  cbn [s_dqs set_dq]. eapply nth_error_upd_eq. exact Hd.
Qed.

Print Assumptions inv_code_step_partial.
Print Assumptions inv_code_step_gen.
Print Assumptions inv_kind_step.
Print Assumptions inv_kind_init.
Print Assumptions inv_code_step_false.
Print Assumptions inv_code_init.
Print Assumptions free_read_dropped.
Print Assumptions free_read_forwarded.
Print Assumptions no_setcode_no_code.
Print Assumptions eos_put_tag.
Print Assumptions nested_put_tag.
Print Assumptions nested_read_not_dropped.
