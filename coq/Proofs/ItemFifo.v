(* Proofs/ItemFifo.v — task conservation for the item LTS (Model/Item.v):
   preservation of inv_rids, inv_fifo, inv_last (ItemSpec.v) and consequences
   (C01 "answered exactly once", C02 "order").

   DEVIATION FROM THE TASK STATEMENT.  Two target statements are FALSE as given
   in TASKS/item_fifo.md: states that satisfy inv_all but are not reachable break
   them (closed counterexamples, checked by computation, in section 6):
     - inv_last_step          is stated here WITH THE EXTRA HYPOTHESIS inv_usb s = true
     - quiescent_all_replied  is stated here WITH THE EXTRA HYPOTHESIS inv_idle s = true
   (original names kept, on the coordinator's instruction).  The two extra
   invariants inv_usb / inv_idle are defined below as boolean functions and
   proved inductive in the standard shape with themselves as extra hypothesis
   (inv_usb_step/_init, inv_idle_step/_init), so inv_all /\ inv_usb /\ inv_idle
   is inductive as far as the conjuncts of this file are concerned.
   All other targets (inv_rids_step/_init, inv_fifo_step/_init, inv_last_init,
   tasks_eqb_eq, replied_prefix, replied_nodup) are proved exactly as stated. *)
From Coq Require Import String List Ascii NArith ZArith Bool Lia.
From LS Require Import Model.Bytes Model.Tags Gen.Consts Model.Codec Model.Writers Model.AriReply
  Model.Item Model.ItemSpec.
Import ListNotations.

Opaque error_reply write_update_map write_eos write_cls void_reply.

(* ====================================================================== *)
(* Extra invariants (not in ItemSpec.v)                                    *)
(* ====================================================================== *)

Definition last_is_usb (l : list task) : bool :=
  match last_task l with Some u => negb (t_sub u) | None => false end.

(* a job is at PUsbLate only with an unsubscription in hand, and at PClear only
   just after having answered an unsubscription *)
Definition pc_usb_ok (h : list event) (p : pc) : bool :=
  match p with
  | PUsbLate t => negb (t_sub t)
  | PClear => last_is_usb (replied h)
  | _ => true
  end.

Definition inv_usb (s : istate) : bool :=
  forallb (fun d => pc_usb_ok (s_hist s) (d_pc d)) (s_dqs s).

(* the manager in the active map is idle only with an empty deque *)
Definition inv_idle (s : istate) : bool :=
  match active_mgr s with
  | Some m => m_running m || is_nil (m_deq m)
  | None => true
  end.

(* ====================================================================== *)
(* 1. Small library                                                        *)
(* ====================================================================== *)

(* ---------- equalities ---------- *)
Lemma bytes_eqb_eq : forall x y, bytes_eqb x y = true -> x = y.
Proof.
  induction x as [|a x IH]; intros [|b y] H; cbn [bytes_eqb] in H; try discriminate; [reflexivity|].
  apply andb_true_iff in H. destruct H as [H1 H2].
  apply Ascii.eqb_eq in H1. apply IH in H2. subst. reflexivity.
Qed.

Lemma bytes_eqb_rfl : forall x, bytes_eqb x x = true.
Proof.
  induction x as [|a x IH]; [reflexivity|]. cbn [bytes_eqb]. rewrite Ascii.eqb_refl, IH. reflexivity.
Qed.

Lemma task_eqb_eq : forall a b, task_eqb a b = true -> a = b.
Proof.
  intros [ra sa] [rb sb] H. unfold task_eqb in H. cbn [t_rid t_sub] in H.
  apply andb_true_iff in H. destruct H as [H1 H2].
  apply bytes_eqb_eq in H1. apply Bool.eqb_prop in H2. subst. reflexivity.
Qed.

Lemma task_eqb_rfl : forall a, task_eqb a a = true.
Proof. intros a. unfold task_eqb. rewrite bytes_eqb_rfl, Bool.eqb_reflx. reflexivity. Qed.

Lemma tasks_eqb_eq : forall a b, tasks_eqb a b = true -> a = b.
Proof.
  induction a as [|x a IH]; intros [|y b] H; cbn [tasks_eqb] in H; try discriminate; [reflexivity|].
  apply andb_true_iff in H. destruct H as [H1 H2].
  apply task_eqb_eq in H1. apply IH in H2. subst. reflexivity.
Qed.

Lemma tasks_eqb_rfl : forall a, tasks_eqb a a = true.
Proof.
  induction a as [|x a IH]; [reflexivity|]. cbn [tasks_eqb]. rewrite task_eqb_rfl, IH. reflexivity.
Qed.

Lemma existsb_task_eqb_In : forall t l, existsb (task_eqb t) l = true <-> In t l.
Proof.
  intros t l. rewrite existsb_exists. split.
  - intros [x [Hx He]]. apply task_eqb_eq in He. subst. exact Hx.
  - intros H. exists t. split; [exact H|apply task_eqb_rfl].
Qed.

Lemma obytes_eqb_eq : forall a b, obytes_eqb a b = true -> a = b.
Proof.
  intros [a|] [b|] H; cbn [obytes_eqb] in H; try discriminate; [|reflexivity].
  apply bytes_eqb_eq in H. subst. reflexivity.
Qed.

Lemma obytes_eqb_rfl : forall a, obytes_eqb a a = true.
Proof. intros [a|]; [apply bytes_eqb_rfl|reflexivity]. Qed.

Lemma is_nil_true : forall A (l : list A), is_nil l = true <-> l = [].
Proof. intros A [|x l]; cbn; split; intros H; try reflexivity; discriminate. Qed.

Lemma is_nil_false : forall A (l : list A), negb (is_nil l) = true <-> l <> [].
Proof. intros A [|x l]; cbn; split; intros H; try discriminate; try congruence. Qed.

(* ---------- upd / nth_error ---------- *)
Lemma length_upd : forall A (l : list A) n x, length (upd n x l) = length l.
Proof.
  induction l as [|y l IH]; intros [|n] x; cbn [upd length]; try reflexivity.
  rewrite IH. reflexivity.
Qed.

Lemma nth_error_upd_eq : forall A (l : list A) n x y,
  nth_error l n = Some y -> nth_error (upd n x l) n = Some x.
Proof.
  induction l as [|z l IH]; intros [|n] x y H; cbn in H |- *; try discriminate; [reflexivity|].
  eapply IH. exact H.
Qed.

Lemma nth_error_upd_neq : forall A (l : list A) n i x,
  i <> n -> nth_error (upd n x l) i = nth_error l i.
Proof.
  induction l as [|z l IH]; intros [|n] [|i] x H; cbn; try reflexivity; try congruence.
  apply IH. congruence.
Qed.

Lemma nth_error_upd_inv : forall A (l : list A) n i x y,
  nth_error (upd n x l) i = Some y ->
  (i = n /\ y = x) \/ (i <> n /\ nth_error l i = Some y).
Proof.
  intros A l n i x y H. destruct (Nat.eq_dec i n) as [E|E].
  - subst i. left. split; [reflexivity|].
    destruct (nth_error l n) as [z|] eqn:Hn.
    + rewrite (nth_error_upd_eq _ _ _ _ _ Hn) in H. congruence.
    + exfalso. apply nth_error_None in Hn.
      assert (Hs : nth_error (upd n x l) n <> None) by congruence.
      apply nth_error_Some in Hs. rewrite length_upd in Hs. lia.
  - right. split; [exact E|]. rewrite nth_error_upd_neq in H by exact E. exact H.
Qed.

Lemma upd_same : forall A (l : list A) n x, nth_error l n = Some x -> upd n x l = l.
Proof.
  induction l as [|z l IH]; intros [|n] x H; cbn in H |- *; try discriminate.
  - congruence.
  - f_equal. apply IH. exact H.
Qed.

Lemma nth_error_snoc_inv : forall A (l : list A) x i y,
  nth_error (l ++ [x]) i = Some y -> nth_error l i = Some y \/ (i = length l /\ y = x).
Proof.
  intros A l x i y H. destruct (Nat.lt_ge_cases i (length l)) as [L|L].
  - left. rewrite nth_error_app1 in H by exact L. exact H.
  - right. rewrite nth_error_app2 in H by exact L.
    destruct (i - length l) as [|k] eqn:E; cbn in H.
    + split; [lia|congruence].
    + destruct k; discriminate.
Qed.

Lemma nth_error_snoc_len : forall A (l : list A) x, nth_error (l ++ [x]) (length l) = Some x.
Proof. intros. rewrite nth_error_app2 by lia. rewrite Nat.sub_diag. reflexivity. Qed.

(* ---------- last_task ---------- *)
Lemma last_task_snoc : forall l t, last_task (l ++ [t]) = Some t.
Proof.
  induction l as [|x l IH]; intros t; [reflexivity|].
  cbn [app last_task]. destruct (l ++ [t]) eqn:E.
  - destruct l; discriminate.
  - rewrite <- E. apply IH.
Qed.

Lemma last_task_app : forall a b, b <> [] -> last_task (a ++ b) = last_task b.
Proof.
  induction a as [|x a IH]; intros b Hb; [reflexivity|].
  cbn [app last_task]. destruct (a ++ b) eqn:E.
  - destruct a; [cbn in E; congruence|discriminate].
  - rewrite <- E. apply IH. exact Hb.
Qed.

Lemma last_task_In : forall l t, last_task l = Some t -> In t l.
Proof.
  induction l as [|x l IH]; intros t H; [discriminate|].
  cbn [last_task] in H. destruct l as [|y l].
  - left. congruence.
  - right. apply IH. exact H.
Qed.

Lemma last_task_None : forall l, last_task l = None -> l = [].
Proof.
  induction l as [|x l IH]; intros H; [reflexivity|].
  cbn [last_task] in H. destruct l as [|y l]; [discriminate|].
  apply IH in H. discriminate.
Qed.

(* ---------- history projections ---------- *)
Lemma arrived_app : forall a b, arrived (a ++ b) = arrived a ++ arrived b.
Proof.
  induction a as [|e a IH]; intros b; [reflexivity|].
  destruct e; cbn [app arrived]; rewrite IH; reflexivity.
Qed.

Lemma dropped_app : forall a b, dropped (a ++ b) = dropped a ++ dropped b.
Proof.
  induction a as [|e a IH]; intros b; [reflexivity|].
  destruct e; cbn [app dropped]; rewrite IH; reflexivity.
Qed.

Lemma replied_app : forall a b, replied (a ++ b) = replied a ++ replied b.
Proof.
  induction a as [|e a IH]; intros b; [reflexivity|].
  destruct e; cbn [app replied]; rewrite IH; reflexivity.
Qed.

Lemma seen_app : forall a b, seen (a ++ b) = seen a ++ seen b.
Proof.
  induction a as [|e a IH]; intros b; [reflexivity|].
  destruct e; cbn [app seen]; rewrite IH; reflexivity.
Qed.

Lemma seen_no_drop : forall h, dropped h = [] -> seen h = arrived h.
Proof.
  induction h as [|e h IH]; intros H; [reflexivity|].
  destruct e; cbn [dropped seen arrived] in *; try (apply IH; exact H).
  - f_equal. apply IH. exact H.
  - discriminate.
Qed.

(* ---------- nodup_rids ---------- *)
Lemma nodup_rids_snoc : forall l t,
  nodup_rids l = true ->
  existsb (fun u => bytes_eqb (t_rid u) (t_rid t)) l = false ->
  nodup_rids (l ++ [t]) = true.
Proof.
  induction l as [|x l IH]; intros t Hn He; [reflexivity|].
  cbn [nodup_rids app existsb] in *.
  apply andb_true_iff in Hn. destruct Hn as [Hx Hl].
  apply orb_false_iff in He. destruct He as [Hxt Hlt].
  rewrite IH by assumption. rewrite andb_true_r.
  rewrite existsb_app. cbn [existsb]. rewrite orb_false_r.
  apply negb_true_iff in Hx. rewrite Hx. cbn [orb].
  destruct (bytes_eqb (t_rid t) (t_rid x)) eqn:E; [|reflexivity].
  apply bytes_eqb_eq in E. rewrite E, bytes_eqb_rfl in Hxt. discriminate.
Qed.

Lemma nodup_rids_NoDup : forall l, nodup_rids l = true -> NoDup (map t_rid l).
Proof.
  induction l as [|x l IH]; intros H; [constructor|].
  cbn [nodup_rids map] in *. apply andb_true_iff in H. destruct H as [Hx Hl].
  constructor; [|apply IH; exact Hl].
  intros Hin. apply in_map_iff in Hin. destruct Hin as [u [Hu Hi]].
  apply negb_true_iff in Hx.
  assert (Ht : existsb (fun u => bytes_eqb (t_rid u) (t_rid x)) l = true).
  { apply existsb_exists. exists u. split; [exact Hi|]. rewrite Hu. apply bytes_eqb_rfl. }
  congruence.
Qed.

(* ---------- forallb by index ---------- *)
Lemma forallb_nth : forall A (P : A -> bool) l,
  forallb P l = true <-> (forall j d, nth_error l j = Some d -> P d = true).
Proof.
  intros A P l. rewrite forallb_forall. split.
  - intros H j d Hj. apply H. eapply nth_error_In. exact Hj.
  - intros H d Hd. apply In_nth_error in Hd. destruct Hd as [j Hj]. eapply H. exact Hj.
Qed.

(* ---------- in-loop jobs and the hand ---------- *)
Definition hand (d : dq) : list task := inhand_pc (d_pc d).

Lemma inhand_unfold : forall s, inhand s = flat_map hand (s_dqs s).
Proof. reflexivity. Qed.

Lemma hand_not_inloop : forall d, inloop d = false -> hand d = [].
Proof. intros d H. unfold inloop in H. unfold hand. destruct (d_pc d); try discriminate; reflexivity. Qed.

Lemma hand_inloop : forall d t, In t (hand d) -> inloop d = true.
Proof.
  intros d t H. destruct (inloop d) eqn:E; [reflexivity|].
  rewrite (hand_not_inloop _ E) in H. destruct H.
Qed.

Lemma count0_hand : forall l, count_inloop l = 0 -> flat_map hand l = [].
Proof.
  induction l as [|x l IH]; intros H; [reflexivity|].
  cbn [count_inloop flat_map] in *. destruct (inloop x) eqn:E; [discriminate|].
  rewrite (hand_not_inloop _ E). cbn [app]. apply IH. exact H.
Qed.

Lemma count0_not_inloop : forall l j d, count_inloop l = 0 -> nth_error l j = Some d -> inloop d = false.
Proof.
  induction l as [|x l IH]; intros [|j] d H Hj; cbn in Hj; try discriminate;
    cbn [count_inloop] in H; destruct (inloop x) eqn:E; try discriminate.
  - congruence.
  - eapply IH; [exact H|exact Hj].
Qed.

Lemma count_ge1 : forall l j d, nth_error l j = Some d -> inloop d = true -> 1 <= count_inloop l.
Proof.
  intros l j d Hj Hd. destruct (count_inloop l) eqn:E; [|lia].
  rewrite (count0_not_inloop _ _ _ E Hj) in Hd. discriminate.
Qed.

Lemma single_other : forall l j d i d0,
  count_inloop l <= 1 -> nth_error l j = Some d -> inloop d = true ->
  nth_error l i = Some d0 -> inloop d0 = true -> i = j.
Proof.
  induction l as [|x l IH]; intros [|j] d [|i] d0 Hc Hj Hd Hi H0; cbn in Hj, Hi; try discriminate;
    cbn [count_inloop] in Hc.
  - reflexivity.
  - exfalso. inversion Hj; subst x. rewrite Hd in Hc.
    pose proof (count_ge1 _ _ _ Hi H0). lia.
  - exfalso. inversion Hi; subst x. rewrite H0 in Hc.
    pose proof (count_ge1 _ _ _ Hj Hd). lia.
  - f_equal. eapply IH; eauto. destruct (inloop x); lia.
Qed.

Lemma hand_single : forall l j d d',
  count_inloop l <= 1 -> nth_error l j = Some d -> inloop d = true ->
  flat_map hand (upd j d' l) = hand d'.
Proof.
  induction l as [|x l IH]; intros [|j] d d' Hc Hj Hd; cbn in Hj; try discriminate;
    cbn [count_inloop] in Hc; cbn [upd flat_map].
  - inversion Hj; subst x. rewrite Hd in Hc.
    rewrite count0_hand by lia. apply app_nil_r.
  - pose proof (count_ge1 _ _ _ Hj Hd) as G.
    destruct (inloop x) eqn:E; [lia|].
    rewrite (hand_not_inloop _ E). cbn [app]. eapply IH; eauto.
Qed.

Lemma hand_upd_same : forall l j d d',
  nth_error l j = Some d -> hand d' = hand d -> flat_map hand (upd j d' l) = flat_map hand l.
Proof.
  induction l as [|x l IH]; intros [|j] d d' Hj He; cbn in Hj; try discriminate; cbn [upd flat_map].
  - inversion Hj; subst x. rewrite He. reflexivity.
  - f_equal. eapply IH; eauto.
Qed.

Lemma hand_in : forall l j d t, nth_error l j = Some d -> In t (hand d) -> In t (flat_map hand l).
Proof. intros l j d t Hj Ht. apply in_flat_map. exists d. split; [eapply nth_error_In; exact Hj|exact Ht]. Qed.

(* ---------- sum_dequeued ---------- *)
Lemma sum_dequeued_nonneg : forall l,
  (forall d, In d l -> live_dq d = true -> (0 <= d_dequeued d)%Z) -> (0 <= sum_dequeued l)%Z.
Proof.
  induction l as [|x l IH]; intros H; cbn [sum_dequeued fold_right]; [lia|].
  fold (sum_dequeued l).
  assert (G : (0 <= sum_dequeued l)%Z) by (apply IH; intros d Hd; apply H; right; exact Hd).
  destruct (live_dq x) eqn:E; [|exact G].
  pose proof (H x (or_introl eq_refl) E). lia.
Qed.

Lemma sum_dequeued_ge : forall l j d,
  (forall d, In d l -> live_dq d = true -> (0 <= d_dequeued d)%Z) ->
  nth_error l j = Some d -> live_dq d = true -> (d_dequeued d <= sum_dequeued l)%Z.
Proof.
  induction l as [|x l IH]; intros [|j] d H Hj Hd; cbn in Hj; try discriminate;
    cbn [sum_dequeued fold_right]; fold (sum_dequeued l).
  - inversion Hj; subst x. rewrite Hd.
    assert (G : (0 <= sum_dequeued l)%Z) by (apply sum_dequeued_nonneg; intros d0 Hd0; apply H; right; exact Hd0).
    lia.
  - assert (G : (d_dequeued d <= sum_dequeued l)%Z).
    { eapply IH; eauto. intros d0 Hd0. apply H. right. exact Hd0. }
    destruct (live_dq x) eqn:E; [|exact G].
    pose proof (H x (or_introl eq_refl) E). lia.
Qed.

(* ====================================================================== *)
(* 2. The invariants as Prop facts                                         *)
(* ====================================================================== *)

Lemma gen_dq : forall s j d,
  inv_gen s = true -> nth_error (s_dqs s) j = Some d -> live_dq d = true -> s_active s = Some (d_gen d).
Proof.
  intros s j d H Hj Hl. unfold inv_gen in H. destruct (cur_gen s) as [c|].
  - apply andb_true_iff in H. destruct H as [H _]. apply andb_true_iff in H. destruct H as [_ H].
    rewrite forallb_nth in H. specialize (H _ _ Hj). cbv beta in H. rewrite Hl in H. cbn [negb orb] in H.
    apply andb_true_iff in H. destruct H as [H1 H2].
    destruct (s_active s) as [g|]; [|discriminate].
    apply Nat.eqb_eq in H1, H2. congruence.
  - apply andb_true_iff in H. destruct H as [_ H]. apply is_nil_true in H. rewrite H in Hj.
    destruct j; discriminate.
Qed.

Lemma gen_pend : forall s t g,
  inv_gen s = true -> s_pending s = Some (t, g) -> s_active s = Some g.
Proof.
  intros s t g H Hp. unfold inv_gen in H. rewrite Hp in H. destruct (cur_gen s) as [c|].
  - apply andb_true_iff in H. destruct H as [_ H].
    apply andb_true_iff in H. destruct H as [H1 H2].
    destruct (s_active s) as [g0|]; [|discriminate].
    apply Nat.eqb_eq in H1, H2. congruence.
  - cbn in H. rewrite andb_false_r in H. discriminate.
Qed.

Lemma single_le : forall s, inv_single s = true -> count_inloop (s_dqs s) <= 1.
Proof. intros s H. unfold inv_single in H. apply andb_true_iff in H. destruct H as [H _]. apply Nat.leb_le. exact H. Qed.

Lemma single_none : forall s, inv_single s = true -> active_mgr s = None -> count_inloop (s_dqs s) = 0.
Proof.
  intros s H Ha. unfold inv_single in H. rewrite Ha in H.
  apply andb_true_iff in H. destruct H as [_ H]. apply Nat.eqb_eq. exact H.
Qed.

Lemma count_eq : forall s m, inv_count s = true -> active_mgr s = Some m ->
  m_queued m = (Z.of_nat (length (m_deq m)) + (if is_some (s_pending s) then 1 else 0) + sum_dequeued (s_dqs s))%Z.
Proof. intros s m H Ha. unfold inv_count in H. rewrite Ha in H. apply Z.eqb_eq. exact H. Qed.

Lemma start_nonneg : forall s d, inv_start s = true -> In d (s_dqs s) -> live_dq d = true -> (0 <= d_dequeued d)%Z.
Proof.
  intros s d H Hd Hl. unfold inv_start in H. rewrite forallb_forall in H. specialize (H _ Hd).
  unfold live_dq in Hl. destruct (d_pc d); cbn in Hl; try discriminate;
    try (apply Z.leb_le in H; lia);
    (apply andb_true_iff in H; destruct H as [H _]; apply Z.leb_le in H; exact H).
Qed.

Definition ridsP (s : istate) : Prop :=
  forallb (fun t => negb (is_nil (t_rid t))) (seen (s_hist s)) = true /\
  nodup_rids (seen (s_hist s)) = true /\
  active_code s <> Some [].

Lemma rids_iff : forall s, inv_rids s = true <-> ridsP s.
Proof.
  intros s. unfold inv_rids, ridsP. rewrite !andb_true_iff. split.
  - intros [[H1 H2] H3]. repeat split; try assumption. intros E. rewrite E in H3. discriminate.
  - intros [H1 [H2 H3]]. repeat split; try assumption.
    destruct (active_code s) as [[|x r]|]; try reflexivity. exfalso. apply H3. reflexivity.
Qed.

Definition mach (s : istate) : list task := inhand s ++ deque_tasks s ++ pending_tasks s.

Definition fifoP (s : istate) : Prop :=
  arrived (s_hist s) = replied (s_hist s) ++ mach s /\ dropped (s_hist s) = [].

Lemma fifo_iff : forall s, inv_fifo s = true <-> fifoP s.
Proof.
  intros s. unfold inv_fifo, fifoP, mach. rewrite andb_true_iff, is_nil_true. split.
  - intros [H1 H2]. split; [apply tasks_eqb_eq; exact H1|exact H2].
  - intros [H1 H2]. split; [rewrite <- H1; apply tasks_eqb_rfl|exact H2].
Qed.

Definition lastA (s : istate) : Prop :=
  forall t, last_task (seen (s_hist s)) = Some t -> t_sub t = true ->
            In t (mach s) \/ active_code s = Some (t_rid t).

Definition lateP (s : istate) : Prop :=
  forall j d t, nth_error (s_dqs s) j = Some d -> d_pc d = PLate t -> deque_tasks s <> [].

Lemma last_iff : forall s, inv_last s = true <-> lastA s /\ lateP s.
Proof.
  intros s. unfold inv_last, lastA, lateP. fold (mach s). rewrite andb_true_iff, forallb_nth. split.
  - intros [H1 H2]. split.
    + intros t Ht Hs. rewrite Ht, Hs in H1. cbn [negb orb] in H1.
      apply orb_true_iff in H1. destruct H1 as [H1|H1].
      * left. apply existsb_task_eqb_In. exact H1.
      * right. apply obytes_eqb_eq. exact H1.
    + intros j d t Hj Hp. specialize (H2 _ _ Hj). cbv beta in H2. rewrite Hp in H2.
      apply is_nil_false. exact H2.
  - intros [H1 H2]. split.
    + destruct (last_task (seen (s_hist s))) as [t|]; [|reflexivity].
      destruct (t_sub t) eqn:Hs; [|reflexivity]. cbn [negb orb].
      destruct (H1 t eq_refl Hs) as [G|G].
      * apply existsb_task_eqb_In in G. rewrite G. reflexivity.
      * rewrite G, obytes_eqb_rfl. apply orb_true_r.
    + intros j d Hj. destruct (d_pc d) eqn:Hp; try reflexivity.
      apply is_nil_false. eapply H2; eauto.
Qed.

(* under I-fifo the first conjunct of I-last only says something when the machinery is empty *)
Definition lastA' (s : istate) : Prop :=
  mach s = [] -> forall t, last_task (replied (s_hist s)) = Some t -> t_sub t = true ->
                 active_code s = Some (t_rid t).

Lemma lastA_of_fifo : forall s, fifoP s -> lastA' s -> lastA s.
Proof.
  intros s [Hf Hd] H t Ht Hs. rewrite (seen_no_drop _ Hd), Hf in Ht.
  destruct (mach s) as [|x r] eqn:E.
  - right. rewrite app_nil_r in Ht. apply H; auto.
  - left. rewrite last_task_app in Ht by discriminate. apply last_task_In. exact Ht.
Qed.

Lemma lastA'_of_fifo : forall s, fifoP s -> lastA s -> lastA' s.
Proof.
  intros s [Hf Hd] H E t Ht Hs. rewrite E, app_nil_r in Hf.
  destruct (H t) as [G|G]; auto.
  - rewrite (seen_no_drop _ Hd), Hf. exact Ht.
  - rewrite E in G. destruct G.
Qed.

Definition usbP (s : istate) : Prop :=
  forall j d, nth_error (s_dqs s) j = Some d -> pc_usb_ok (s_hist s) (d_pc d) = true.

Lemma usb_iff : forall s, inv_usb s = true <-> usbP s.
Proof. intros s. unfold inv_usb, usbP. apply forallb_nth. Qed.

Lemma code_dq : forall s j d, inv_code s = true -> nth_error (s_dqs s) j = Some d ->
  pc_code_ok (active_code s) (d_pc d) = true.
Proof.
  intros s j d H Hj. unfold inv_code in H. apply andb_true_iff in H. destruct H as [_ H].
  rewrite forallb_nth in H. apply (H _ _ Hj).
Qed.

(* everything in the machinery has been seen, hence has a non-empty id *)
Lemma mach_rid_nonempty : forall s t, fifoP s -> ridsP s -> In t (mach s) -> t_rid t <> [].
Proof.
  intros s t [Hf Hd] [Hr _] Ht. rewrite (seen_no_drop _ Hd), Hf in Hr.
  rewrite forallb_forall in Hr. apply is_nil_false. apply Hr. apply in_or_app. right. exact Ht.
Qed.

Lemma replied_rid_nonempty : forall s t, fifoP s -> ridsP s -> In t (replied (s_hist s)) -> t_rid t <> [].
Proof.
  intros s t [Hf Hd] [Hr _] Ht. rewrite (seen_no_drop _ Hd), Hf in Hr.
  rewrite forallb_forall in Hr. apply is_nil_false. apply Hr. apply in_or_app. left. exact Ht.
Qed.

(* ---------- views of the active manager ---------- *)
Lemma active_code_alt : forall s,
  active_code s = match active_mgr s with Some m => m_code m | None => None end.
Proof. intros s. unfold active_code, active_mgr. destruct (s_active s); reflexivity. Qed.

Lemma active_mgr_set_mgr : forall s g m m',
  s_active s = Some g -> nth_error (s_mgrs s) g = Some m -> active_mgr (set_mgr s g m') = Some m'.
Proof.
  intros s g m m' Ha Hm. unfold active_mgr, set_mgr. cbn [s_active s_mgrs]. rewrite Ha.
  eapply nth_error_upd_eq. exact Hm.
Qed.

Lemma active_mgr_is : forall s g m,
  s_active s = Some g -> nth_error (s_mgrs s) g = Some m -> active_mgr s = Some m.
Proof. intros s g m Ha Hm. unfold active_mgr. rewrite Ha. exact Hm. Qed.

(* a manager update that keeps the deque / the code keeps the views, whichever manager it is *)
Lemma active_mgr_set_mgr_gen : forall s g m m',
  nth_error (s_mgrs s) g = Some m ->
  (active_mgr s = Some m /\ active_mgr (set_mgr s g m') = Some m') \/
  active_mgr (set_mgr s g m') = active_mgr s.
Proof.
  intros s g m m' Hm. unfold active_mgr, set_mgr. cbn [s_active s_mgrs].
  destruct (s_active s) as [g0|]; [|right; reflexivity].
  destruct (Nat.eq_dec g0 g) as [E|E].
  - subst g0. left. split; [exact Hm|]. eapply nth_error_upd_eq. exact Hm.
  - right. apply nth_error_upd_neq. exact E.
Qed.

Lemma deque_set_mgr_same : forall s g m m',
  nth_error (s_mgrs s) g = Some m -> m_deq m' = m_deq m ->
  deque_tasks (set_mgr s g m') = deque_tasks s.
Proof.
  intros s g m m' Hm He. unfold deque_tasks.
  destruct (active_mgr_set_mgr_gen s g m m' Hm) as [[H1 H2]|H]; [rewrite H1, H2; exact He|rewrite H; reflexivity].
Qed.

Lemma code_set_mgr_same : forall s g m m',
  nth_error (s_mgrs s) g = Some m -> m_code m' = m_code m ->
  active_code (set_mgr s g m') = active_code s.
Proof.
  intros s g m m' Hm He. rewrite !active_code_alt.
  destruct (active_mgr_set_mgr_gen s g m m' Hm) as [[H1 H2]|H]; [rewrite H1, H2; exact He|rewrite H; reflexivity].
Qed.

Lemma idle_set_mgr_same : forall s g m m',
  nth_error (s_mgrs s) g = Some m -> m_deq m' = m_deq m -> m_running m' = m_running m ->
  inv_idle (set_mgr s g m') = inv_idle s.
Proof.
  intros s g m m' Hm He Hr. unfold inv_idle.
  destruct (active_mgr_set_mgr_gen s g m m' Hm) as [[H1 H2]|H]; [rewrite H1, H2, He, Hr; reflexivity|rewrite H; reflexivity].
Qed.

(* ====================================================================== *)
(* 3. Pre- and post-conditions of one step; the "quiet" steps              *)
(* ====================================================================== *)

Record pre (s : istate) : Prop := {
  p_gen : inv_gen s = true;
  p_single : inv_single s = true;
  p_count : inv_count s = true;
  p_start : inv_start s = true;
  p_rids : ridsP s;
  p_fifo : fifoP s;
  p_lastA : lastA s;
  p_late : lateP s;
  p_code : inv_code s = true
}.

(* what this file establishes about the post-state; the parts that need the extra
   invariants are guarded by them *)
Definition post (s s' : istate) : Prop :=
  ridsP s' /\ fifoP s' /\
  (usbP s -> lastA' s' /\ lateP s' /\ usbP s') /\
  (inv_idle s = true -> inv_idle s' = true).

Definition quiet_ev (e : event) : bool :=
  match e with EArr _ | EArrDropped _ | EReply _ _ => false | _ => true end.

(* the history grew by events that are neither arrivals nor replies *)
Definition hist_quiet (h h' : list event) : Prop :=
  exists es, h' = h ++ es /\ forallb quiet_ev es = true.

Lemma quiet_proj : forall es, forallb quiet_ev es = true ->
  arrived es = [] /\ seen es = [] /\ replied es = [] /\ dropped es = [].
Proof.
  induction es as [|e es IH]; intros H; [repeat split; reflexivity|].
  cbn [forallb] in H. apply andb_true_iff in H. destruct H as [He H].
  destruct (IH H) as [A [B [C D]]].
  destruct e; cbn in He; try discriminate; cbn [arrived seen replied dropped]; repeat split; assumption.
Qed.

Lemma hist_quiet_proj : forall h h', hist_quiet h h' ->
  arrived h' = arrived h /\ seen h' = seen h /\ replied h' = replied h /\ dropped h' = dropped h.
Proof.
  intros h h' [es [E Q]]. subst h'. destruct (quiet_proj _ Q) as [A [B [C D]]].
  rewrite arrived_app, seen_app, replied_app, dropped_app, A, B, C, D, !app_nil_r.
  repeat split; reflexivity.
Qed.

Lemma hist_quiet_refl : forall h, hist_quiet h h.
Proof. intros h. exists []. split; [symmetry; apply app_nil_r|reflexivity]. Qed.

Lemma hist_quiet_log : forall h es, forallb quiet_ev es = true -> hist_quiet h (h ++ es).
Proof. intros h es H. exists es. split; [reflexivity|exact H]. Qed.

(* the program counters the extra facts talk about *)
Definition special (p : pc) : bool :=
  match p with PLate _ | PClear | PUsbLate _ => true | _ => false end.

Definition dqs_quiet (l l' : list dq) : Prop :=
  forall j d', nth_error l' j = Some d' -> special (d_pc d') = true ->
               exists j0 d0, nth_error l j0 = Some d0 /\ d_pc d0 = d_pc d'.

Lemma dqs_quiet_refl : forall l, dqs_quiet l l.
Proof. intros l j d' Hj _. exists j, d'. split; [exact Hj|reflexivity]. Qed.

Lemma dqs_quiet_upd : forall l j d', special (d_pc d') = false -> dqs_quiet l (upd j d' l).
Proof.
  intros l j d' Hs i x Hi Hx. apply nth_error_upd_inv in Hi. destruct Hi as [[_ E]|[_ Hi]].
  - subst x. congruence.
  - exists i, x. split; [exact Hi|reflexivity].
Qed.

Lemma dqs_quiet_snoc : forall l d', special (d_pc d') = false -> dqs_quiet l (l ++ [d']).
Proof.
  intros l d' Hs i x Hi Hx. apply nth_error_snoc_inv in Hi. destruct Hi as [Hi|[_ E]].
  - exists i, x. split; [exact Hi|reflexivity].
  - subst x. congruence.
Qed.

Lemma pc_usb_ok_not_special : forall h p, special p = false -> pc_usb_ok h p = true.
Proof. intros h p H. destruct p; cbn in H; try discriminate; reflexivity. Qed.

Lemma pc_usb_ok_replied : forall h h' p, replied h' = replied h -> pc_usb_ok h' p = pc_usb_ok h p.
Proof. intros h h' p H. destruct p; cbn [pc_usb_ok]; try reflexivity. rewrite H. reflexivity. Qed.

Lemma late_usb_quiet : forall s s',
  lateP s -> dqs_quiet (s_dqs s) (s_dqs s') -> replied (s_hist s') = replied (s_hist s) ->
  (deque_tasks s <> [] -> deque_tasks s' <> []) ->
  lateP s' /\ (usbP s -> usbP s').
Proof.
  intros s s' HL HQ HR HD. split.
  - intros j d t Hj Hp. destruct (HQ j d Hj) as [j0 [d0 [H0 E]]]; [rewrite Hp; reflexivity|].
    apply HD. apply (HL j0 d0 t H0). congruence.
  - intros HU j d Hj. destruct (special (d_pc d)) eqn:Hs.
    + destruct (HQ j d Hj Hs) as [j0 [d0 [H0 E]]].
      rewrite (pc_usb_ok_replied _ _ _ HR), <- E. apply (HU j0 d0 H0).
    + apply pc_usb_ok_not_special. exact Hs.
Qed.

Lemma lastA'_nonempty : forall s, mach s <> [] -> lastA' s.
Proof. intros s H E. congruence. Qed.

(* steps that neither accept nor answer a request and keep hand, deque and reader *)
Lemma post_semi : forall s s',
  pre s ->
  hist_quiet (s_hist s) (s_hist s') ->
  inhand s' = inhand s -> deque_tasks s' = deque_tasks s -> pending_tasks s' = pending_tasks s ->
  dqs_quiet (s_dqs s) (s_dqs s') ->
  active_code s' <> Some [] ->
  (usbP s -> lastA' s') ->
  (inv_idle s = true -> inv_idle s' = true) ->
  post s s'.
Proof.
  intros s s' P HQ HI HD HP HDQ HC HA HID.
  destruct (hist_quiet_proj _ _ HQ) as [Ea [Es [Er Ed]]].
  destruct (p_rids _ P) as [R1 [R2 R3]]. destruct (p_fifo _ P) as [F1 F2].
  assert (EM : mach s' = mach s) by (unfold mach; rewrite HI, HD, HP; reflexivity).
  destruct (late_usb_quiet s s' (p_late _ P) HDQ Er) as [L U]; [rewrite HD; auto|].
  split; [|split; [|split]].
  - unfold ridsP. rewrite Es. auto.
  - unfold fifoP. rewrite Ea, Er, Ed, EM. auto.
  - intros HU. auto.
  - exact HID.
Qed.

Lemma post_quiet : forall s s',
  pre s ->
  hist_quiet (s_hist s) (s_hist s') ->
  inhand s' = inhand s -> deque_tasks s' = deque_tasks s -> pending_tasks s' = pending_tasks s ->
  active_code s' = active_code s ->
  dqs_quiet (s_dqs s) (s_dqs s') ->
  (inv_idle s = true -> inv_idle s' = true) ->
  post s s'.
Proof.
  intros s s' P HQ HI HD HP HC HDQ HID.
  destruct (hist_quiet_proj _ _ HQ) as [Ea [Es [Er Ed]]].
  apply post_semi; auto.
  - rewrite HC. apply (p_rids _ P).
  - intros _. pose proof (lastA'_of_fifo _ (p_fifo _ P) (p_lastA _ P)) as H.
    unfold lastA' in *. unfold mach in *. rewrite HI, HD, HP, Er, HC. exact H.
Qed.

(* the common shapes *)
Lemma post_quiet_dq : forall s j d p' lso es,
  pre s -> nth_error (s_dqs s) j = Some d ->
  inhand_pc p' = inhand_pc (d_pc d) -> special p' = false -> forallb quiet_ev es = true ->
  post s (log (set_dq s j {| d_gen := d_gen d; d_pc := p'; d_dequeued := d_dequeued d; d_lso := lso |}) es).
Proof.
  intros s j d p' lso es P Hj Hh Hs Hq. apply post_quiet; try reflexivity; try assumption.
  - apply hist_quiet_log. exact Hq.
  - rewrite !inhand_unfold. cbn [log set_dq s_dqs]. eapply hand_upd_same; [exact Hj|exact Hh].
  - cbn [log set_dq s_dqs]. apply dqs_quiet_upd. exact Hs.
  - intros H; exact H.
Qed.

Lemma post_quiet_dq0 : forall s j d p' lso,
  pre s -> nth_error (s_dqs s) j = Some d ->
  inhand_pc p' = inhand_pc (d_pc d) -> special p' = false ->
  post s (set_dq s j {| d_gen := d_gen d; d_pc := p'; d_dequeued := d_dequeued d; d_lso := lso |}).
Proof.
  intros s j d p' lso P Hj Hh Hs. apply post_quiet; try reflexivity; try assumption.
  - apply hist_quiet_refl.
  - rewrite !inhand_unfold. cbn [set_dq s_dqs]. eapply hand_upd_same; [exact Hj|exact Hh].
  - cbn [set_dq s_dqs]. apply dqs_quiet_upd. exact Hs.
  - intros H; exact H.
Qed.

Lemma post_quiet_nodq : forall s s',
  pre s -> hist_quiet (s_hist s) (s_hist s') ->
  s_dqs s' = s_dqs s -> s_mgrs s' = s_mgrs s -> s_active s' = s_active s -> s_pending s' = s_pending s ->
  post s s'.
Proof.
  intros s s' P HQ E1 E2 E3 E4. apply post_quiet; try assumption.
  - rewrite !inhand_unfold, E1. reflexivity.
  - unfold deque_tasks, active_mgr. rewrite E2, E3. reflexivity.
  - unfold pending_tasks. rewrite E4. reflexivity.
  - unfold active_code. rewrite E2, E3. reflexivity.
  - rewrite E1. apply dqs_quiet_refl.
  - unfold inv_idle, active_mgr. rewrite E2, E3. intros H; exact H.
Qed.

Lemma listener_put_inv : forall s o k c s1,
  listener_put s o k c = Some s1 -> exists rid line, s1 = log s [ENotif o k rid line].
Proof.
  intros s o k c s1 H. unfold listener_put in H.
  destruct (live c) as [rid|]; [|discriminate].
  destruct (notif_line (s_item s) rid k) as [line|]; [|discriminate].
  inversion H. exists rid, line. reflexivity.
Qed.

(* ====================================================================== *)
(* 4. One lemma per label kind                                             *)
(* ====================================================================== *)

(* with_pc d p is the record post_quiet_dq expects *)
Ltac quiet_dq Hd Hpc :=
  first
    [ eapply (post_quiet_dq0 _ _ _ _ _); [assumption|exact Hd|rewrite Hpc; reflexivity|reflexivity]
    | eapply (post_quiet_dq _ _ _ _ _ _); [assumption|exact Hd|rewrite Hpc; reflexivity|reflexivity|reflexivity] ].

Lemma post_JobStart : forall s j s', pre s -> step_JobStart s j = Some s' -> post s s'.
Proof.
  intros s j s' P H. unfold step_JobStart in H.
  destruct (nth_error (s_dqs s) j) as [d|] eqn:Hd; [|discriminate].
  destruct (d_pc d) eqn:Hpc; try discriminate.
  inversion H; subst s'; clear H. unfold with_pc. quiet_dq Hd Hpc.
Qed.

Lemma post_CallB : forall s j s', pre s -> step_CallB s j = Some s' -> post s s'.
Proof.
  intros s j s' P H. unfold step_CallB in H.
  destruct (nth_error (s_dqs s) j) as [d|] eqn:Hd; [|discriminate].
  destruct (d_pc d) eqn:Hpc; try discriminate;
    inversion H; subst s'; clear H; unfold with_pc; quiet_dq Hd Hpc.
Qed.

Lemma post_CallE : forall s j o s', pre s -> step_CallE s j o = Some s' -> post s s'.
Proof.
  intros s j o s' P H. unfold step_CallE in H.
  destruct (nth_error (s_dqs s) j) as [d|] eqn:Hd; [|discriminate].
  destruct (d_pc d) eqn:Hpc; try discriminate;
    inversion H; subst s'; clear H; unfold with_pc.
  - destruct o as [[|]|e]; quiet_dq Hd Hpc.
  - quiet_dq Hd Hpc.
  - quiet_dq Hd Hpc.
Qed.

Lemma post_Nest : forall s j k s', pre s -> step_Nest s j k = Some s' -> post s s'.
Proof.
  intros s j k s' P H. unfold step_Nest in H.
  destruct (nth_error (s_dqs s) j) as [d|] eqn:Hd; [|discriminate].
  destruct (d_pc d) eqn:Hpc; try discriminate;
    inversion H; subst s'; clear H; unfold with_pc; quiet_dq Hd Hpc.
Qed.

Lemma post_FreeBegin : forall s l k s', pre s -> step_FreeBegin s l k = Some s' -> post s s'.
Proof.
  intros s l k s' P H. unfold step_FreeBegin in H.
  destruct (nth_error (s_lis s) l) as [[| |]|] eqn:Hl; try discriminate.
  - inversion H; subst s'; clear H. apply post_quiet_nodq; try reflexivity; try assumption.
    apply hist_quiet_log. reflexivity.
  - destruct (Nat.eqb l (length (s_lis s))); [|discriminate].
    inversion H; subst s'; clear H. apply post_quiet_nodq; try reflexivity; try assumption.
    apply hist_quiet_log. reflexivity.
Qed.

Lemma post_FreeLockM : forall s l s', pre s -> step_FreeLockM s l = Some s' -> post s s'.
Proof.
  intros s l s' P H. unfold step_FreeLockM in H.
  destruct (nth_error (s_lis s) l) as [[|k|]|] eqn:Hl; try discriminate.
  destruct (live (active_code s)); inversion H; subst s'; clear H;
    apply post_quiet_nodq; try reflexivity; try assumption.
  - apply hist_quiet_refl.
  - apply hist_quiet_log. reflexivity.
Qed.

Lemma post_FreePut : forall s l s', pre s -> step_FreePut s l = Some s' -> post s s'.
Proof.
  intros s l s' P H. unfold step_FreePut in H.
  destruct (nth_error (s_lis s) l) as [[| |k c]|] eqn:Hl; try discriminate.
  destruct (listener_put s (OFree l) k c) as [s1|] eqn:Hp; [|discriminate].
  apply listener_put_inv in Hp. destruct Hp as [rid [line E]]. subst s1.
  inversion H; subst s'; clear H.
  apply post_quiet_nodq; try reflexivity; try assumption.
  apply hist_quiet_log. reflexivity.
Qed.

(* ---------- Put: the reply steps ---------- *)
Lemma inhand_at : forall s j d,
  inv_single s = true -> nth_error (s_dqs s) j = Some d -> inloop d = true -> inhand s = hand d.
Proof.
  intros s j d HS Hd Hi. rewrite inhand_unfold. rewrite <- (upd_same _ _ _ _ Hd) at 1.
  eapply hand_single; [apply single_le; exact HS|exact Hd|exact Hi].
Qed.

Lemma post_reply : forall s j d t p' line,
  pre s -> nth_error (s_dqs s) j = Some d ->
  inhand_pc (d_pc d) = [t] ->
  (p' = PTop \/ (p' = PClear /\ (usbP s -> t_sub t = false))) ->
  (usbP s -> t_sub t = true -> deque_tasks s ++ pending_tasks s = [] -> active_code s = Some (t_rid t)) ->
  post s (log (set_dq s j (with_pc d p')) [EReply t line]).
Proof.
  intros s j d t p' line P Hd Hh Hp' HC.
  assert (Hin : inloop d = true).
  { apply (hand_inloop d t). unfold hand. rewrite Hh. left. reflexivity. }
  pose proof (single_le _ (p_single _ P)) as HS.
  assert (I0 : inhand s = [t]) by (rewrite (inhand_at _ _ _ (p_single _ P) Hd Hin); exact Hh).
  set (s' := log (set_dq s j (with_pc d p')) [EReply t line]).
  assert (I1 : inhand s' = []).
  { unfold s'. rewrite inhand_unfold. cbn [log set_dq s_dqs].
    rewrite (hand_single _ _ _ _ HS Hd Hin). unfold hand. cbn [with_pc d_pc].
    destruct Hp' as [E|[E _]]; subst p'; reflexivity. }
  assert (D1 : deque_tasks s' = deque_tasks s) by reflexivity.
  assert (P1 : pending_tasks s' = pending_tasks s) by reflexivity.
  assert (C1 : active_code s' = active_code s) by reflexivity.
  assert (Hh' : s_hist s' = s_hist s ++ [EReply t line]) by reflexivity.
  assert (Ea : arrived (s_hist s') = arrived (s_hist s)) by (rewrite Hh', arrived_app; apply app_nil_r).
  assert (Es : seen (s_hist s') = seen (s_hist s)) by (rewrite Hh', seen_app; apply app_nil_r).
  assert (Ed : dropped (s_hist s') = dropped (s_hist s)) by (rewrite Hh', dropped_app; apply app_nil_r).
  assert (Er : replied (s_hist s') = replied (s_hist s) ++ [t]) by (rewrite Hh', replied_app; reflexivity).
  destruct (p_rids _ P) as [R1 [R2 R3]]. destruct (p_fifo _ P) as [F1 F2].
  split; [|split; [|split]].
  - unfold ridsP. rewrite Es, C1. auto.
  - unfold fifoP, mach. rewrite Ea, Er, Ed, I1, D1, P1. split; [|exact F2].
    rewrite F1. unfold mach. rewrite I0, <- app_assoc. reflexivity.
  - intros HU. split; [|split].
    + unfold lastA', mach. rewrite I1, D1, P1, Er, C1. cbn [app]. intros E u Hu Hs.
      rewrite last_task_snoc in Hu. inversion Hu; subst u. apply HC; assumption.
    + intros i x t0 Hi Hx. rewrite D1. unfold s' in Hi. cbn [log set_dq s_dqs] in Hi.
      apply nth_error_upd_inv in Hi. destruct Hi as [[_ E]|[_ Hi]].
      * subst x. cbn [with_pc d_pc] in Hx. destruct Hp' as [E|[E _]]; subst p'; discriminate.
      * eapply (p_late _ P); eauto.
    + intros i x Hi. unfold s' in Hi. cbn [log set_dq s_dqs] in Hi.
      apply nth_error_upd_inv in Hi. destruct Hi as [[_ E]|[Hne Hi]].
      * subst x. cbn [with_pc d_pc]. destruct Hp' as [E|[E Ht]]; subst p'; [reflexivity|].
        cbn [pc_usb_ok]. rewrite Er. unfold last_is_usb. rewrite last_task_snoc, (Ht HU). reflexivity.
      * destruct (inloop x) eqn:Ex.
        -- exfalso. apply Hne. eapply single_other; eauto.
        -- apply pc_usb_ok_not_special. unfold inloop in Ex. destruct (d_pc x); try discriminate; reflexivity.
  - intros H; exact H.
Qed.

Lemma post_Put : forall s j s', pre s -> step_Put s j = Some s' -> post s s'.
Proof.
  intros s j s' P H. unfold step_Put in H.
  destruct (nth_error (s_dqs s) j) as [d|] eqn:Hd; [|discriminate].
  destruct (d_pc d) eqn:Hpc; try discriminate.
  - (* PLate *)
    destruct (reply_line t (error_reply MSUB late_exn)) as [line|]; [|discriminate].
    inversion H; subst s'; clear H.
    apply post_reply with (t := t); auto.
    + rewrite Hpc. reflexivity.
    + intros _ _ E. exfalso. apply (p_late _ P _ _ _ Hd Hpc).
      apply app_eq_nil in E. apply E.
  - (* PEosPut *)
    destruct (listener_put s OLib LEos c) as [s1|] eqn:Hp; [|discriminate].
    apply listener_put_inv in Hp. destruct Hp as [rid [line E]]. subst s1.
    inversion H; subst s'; clear H.
    change (post s (log (set_dq s j {| d_gen := d_gen d; d_pc := PSubB t; d_dequeued := d_dequeued d;
                                       d_lso := d_lso d |}) [ENotif OLib LEos rid line])).
    apply post_quiet_dq; [assumption|exact Hd|rewrite Hpc; reflexivity|reflexivity|reflexivity].
  - (* PNestPut *)
    destruct (listener_put s (ONested j) k c) as [s1|] eqn:Hp; [|discriminate].
    apply listener_put_inv in Hp. destruct Hp as [rid [line E]]. subst s1.
    inversion H; subst s'; clear H.
    change (post s (log (set_dq s j {| d_gen := d_gen d; d_pc := if insub then PInSub t else PInUsb t;
                                       d_dequeued := d_dequeued d; d_lso := d_lso d |})
                      [ENotif (ONested j) k rid line])).
    apply post_quiet_dq; [assumption|exact Hd|rewrite Hpc; destruct insub; reflexivity
                         |destruct insub; reflexivity|reflexivity].
  - (* PReply *)
    destruct (reply_line t (outcome_payload t o)) as [line|]; [|discriminate].
    inversion H; subst s'; clear H.
    apply post_reply with (t := t); auto.
    + rewrite Hpc. reflexivity.
    + destruct (t_sub t); [left; reflexivity|right; split; [reflexivity|reflexivity]].
    + intros _ Hs _. pose proof (code_dq _ _ _ (p_code _ P) Hd) as G. rewrite Hpc in G.
      cbn [pc_code_ok] in G. rewrite Hs in G. cbn [negb orb] in G. apply obytes_eqb_eq. exact G.
  - (* PUsbLate *)
    destruct (reply_line t (WOk (void_reply MUSB))) as [line|]; [|discriminate].
    inversion H; subst s'; clear H.
    assert (HU : usbP s -> t_sub t = false).
    { intros U. pose proof (U _ _ Hd) as G. rewrite Hpc in G. cbn [pc_usb_ok] in G.
      apply negb_true_iff. exact G. }
    apply post_reply with (t := t); auto.
    + rewrite Hpc. reflexivity.
    + intros U Hs. rewrite (HU U) in Hs. discriminate.
Qed.

(* ---------- steps that update a manager and the job, keeping the deque ---------- *)
Lemma active_mgr_ext : forall s s' g m',
  s_mgrs s' = upd g m' (s_mgrs s) -> s_active s' = s_active s ->
  active_mgr s' = active_mgr (set_mgr s g m').
Proof. intros s s' g m' E1 E2. unfold active_mgr, set_mgr. cbn [s_active s_mgrs]. rewrite E1, E2. reflexivity. Qed.

Lemma post_mgr_dq : forall s s' j d d' g m m',
  pre s -> nth_error (s_dqs s) j = Some d -> nth_error (s_mgrs s) g = Some m ->
  m_deq m' = m_deq m ->
  s_dqs s' = upd j d' (s_dqs s) -> s_mgrs s' = upd g m' (s_mgrs s) ->
  s_active s' = s_active s -> s_pending s' = s_pending s ->
  hist_quiet (s_hist s) (s_hist s') ->
  inhand_pc (d_pc d') = inhand_pc (d_pc d) -> special (d_pc d') = false ->
  (m_code m' = m_code m \/ m_code m' <> Some []) ->
  (m_code m' = m_code m \/ (usbP s -> lastA' s')) ->
  (m_running m' = m_running m \/ m_deq m' = []) ->
  post s s'.
Proof.
  intros s s' j d d' g m m' P Hd Hm Edq E1 E2 E3 E4 HQ Hh Hs HC HA HR.
  pose proof (active_mgr_ext s s' g m' E2 E3) as EA.
  assert (D : deque_tasks s' = deque_tasks s).
  { unfold deque_tasks at 1. rewrite EA. apply (deque_set_mgr_same s g m m' Hm Edq). }
  assert (I : inhand s' = inhand s).
  { rewrite !inhand_unfold, E1. eapply hand_upd_same; [exact Hd|exact Hh]. }
  assert (Pe : pending_tasks s' = pending_tasks s) by (unfold pending_tasks; rewrite E4; reflexivity).
  assert (C : m_code m' = m_code m -> active_code s' = active_code s).
  { intros E. rewrite (active_code_alt s'), EA, <- active_code_alt. apply (code_set_mgr_same s g m m' Hm E). }
  apply post_semi; try assumption.
  - rewrite E1. apply dqs_quiet_upd. exact Hs.
  - destruct HC as [E|N].
    + rewrite (C E). apply (p_rids _ P).
    + rewrite (active_code_alt s'), EA.
      destruct (active_mgr_set_mgr_gen s g m m' Hm) as [[_ H2]|H2]; rewrite H2.
      * exact N.
      * rewrite <- active_code_alt. apply (p_rids _ P).
  - destruct HA as [E|HA]; [|exact HA].
    intros _. pose proof (lastA'_of_fifo _ (p_fifo _ P) (p_lastA _ P)) as H.
    destruct (hist_quiet_proj _ _ HQ) as [_ [_ [Er _]]].
    unfold lastA', mach in *. rewrite I, D, Pe, Er, (C E). exact H.
  - unfold inv_idle at 2. rewrite EA.
    destruct (active_mgr_set_mgr_gen s g m m' Hm) as [[H1 H2]|H2].
    + unfold inv_idle. rewrite H1, H2, Edq. destruct HR as [E|E].
      * rewrite E. intros H; exact H.
      * rewrite <- Edq, E. intros _. apply orb_true_r.
    + rewrite H2. intros H; exact H.
Qed.

Lemma post_LockM : forall s j s', pre s -> step_LockM s j = Some s' -> post s s'.
Proof.
  intros s j s' P H. unfold step_LockM in H.
  destruct (nth_error (s_dqs s) j) as [d|] eqn:Hd; [|discriminate].
  destruct (d_pc d) eqn:Hpc; try discriminate;
    destruct (nth_error (s_mgrs s) (d_gen d)) as [m|] eqn:Hm; try discriminate.
  - (* PSetCode *)
    inversion H; subst s'; clear H.
    assert (Ht : In t (inhand s)).
    { rewrite inhand_unfold. eapply hand_in; [exact Hd|]. unfold hand. rewrite Hpc. left. reflexivity. }
    match goal with |- post _ (log (set_dq (set_mgr _ _ ?m') _ ?d') _) =>
      eapply (post_mgr_dq s _ j d d' (d_gen d) m m' P Hd Hm); try reflexivity end.
    + apply hist_quiet_log. reflexivity.
    + cbn [with_pc d_pc]. rewrite Hpc. reflexivity.
    + right. cbn [m_code]. intros E. inversion E as [E'].
      apply (mach_rid_nonempty s t (p_fifo _ P) (p_rids _ P)); [|exact E'].
      unfold mach. apply in_or_app. left. exact Ht.
    + right. intros _. apply lastA'_nonempty. unfold mach.
      rewrite !inhand_unfold. cbn [log set_dq set_mgr s_dqs].
      rewrite (hand_upd_same _ _ d) by (try exact Hd; unfold hand; cbn [with_pc d_pc]; rewrite Hpc; reflexivity).
      rewrite <- inhand_unfold. intros E. apply app_eq_nil in E. destruct E as [E _]. rewrite E in Ht. destruct Ht.
    + left. reflexivity.
  - (* PEosRead *)
    destruct (live (active_code s)); inversion H; subst s'; clear H; unfold with_pc; quiet_dq Hd Hpc.
  - (* PNestRead *)
    destruct (live (active_code s)); inversion H; subst s'; clear H; unfold with_pc.
    + quiet_dq Hd Hpc.
    + eapply (post_quiet_dq _ _ _ _ _ _); [assumption|exact Hd|rewrite Hpc; destruct insub; reflexivity
                                           |destruct insub; reflexivity|reflexivity].
  - (* PClear *)
    inversion H; subst s'; clear H.
    match goal with |- post _ (log (set_dq (set_mgr _ _ ?m') _ ?d') _) =>
      eapply (post_mgr_dq s _ j d d' (d_gen d) m m' P Hd Hm); try reflexivity end.
    + apply hist_quiet_log. reflexivity.
    + cbn [with_pc d_pc]. rewrite Hpc. reflexivity.
    + right. cbn [m_code]. discriminate.
    + right. intros U _ u Hu Hs. exfalso.
      pose proof (U _ _ Hd) as G. rewrite Hpc in G. cbn [pc_usb_ok] in G. unfold last_is_usb in G.
      cbn [log set_dq set_mgr s_hist] in Hu. rewrite replied_app in Hu. cbn [replied] in Hu.
      rewrite app_nil_r in Hu. rewrite Hu, Hs in G. discriminate.
    + left. reflexivity.
  - (* PDec *)
    set (q' := (m_queued m - d_dequeued d)%Z) in *.
    set (m' := {| m_deq := m_deq m; m_code := m_code m; m_running := m_running m; m_queued := q';
                  m_last_ok := m_last_ok m |}) in *.
    destruct (match live (m_code m) with Some _ => false | None => true end && (q' =? 0)%Z &&
              match s_active s with Some g => Nat.eqb g (d_gen d) | None => false end) eqn:Hdel;
      inversion H; subst s'; clear H.
    + (* the manager is deleted *)
      apply andb_true_iff in Hdel. destruct Hdel as [Hdel Hact].
      apply andb_true_iff in Hdel. destruct Hdel as [Hfalsy Hq].
      destruct (s_active s) as [g|] eqn:Ha; [|discriminate]. apply Nat.eqb_eq in Hact. subst g.
      apply Z.eqb_eq in Hq.
      assert (Am : active_mgr s = Some m) by (apply (active_mgr_is s (d_gen d)); assumption).
      assert (Hlive : live_dq d = true) by (unfold live_dq; rewrite Hpc; reflexivity).
      assert (Dq : m_deq m = []).
      { pose proof (count_eq _ _ (p_count _ P) Am) as Hc.
        pose proof (sum_dequeued_ge (s_dqs s) j d (fun d0 => start_nonneg s d0 (p_start _ P)) Hd Hlive) as Hs.
        destruct (m_deq m) as [|x r]; [reflexivity|]. exfalso.
        cbn [length] in Hc. unfold q' in Hq. destruct (is_some (s_pending s)); lia. }
      assert (D0 : deque_tasks s = []) by (unfold deque_tasks; rewrite Am; exact Dq).
      apply post_semi; try assumption; try reflexivity.
      * apply (hist_quiet_log (s_hist s) [EDel]). reflexivity.
      * rewrite !inhand_unfold. cbn [log set_dq set_mgr s_dqs].
        eapply hand_upd_same; [exact Hd|]. unfold hand. cbn [with_pc d_pc]. rewrite Hpc. reflexivity.
      * rewrite D0. reflexivity.
      * cbn [log set_dq set_mgr s_dqs]. apply dqs_quiet_upd. reflexivity.
      * discriminate.
      * intros _ E u Hu Hs. exfalso.
        pose proof (lastA'_of_fifo _ (p_fifo _ P) (p_lastA _ P)) as HA.
        assert (EM : mach s = []).
        { unfold mach in *. rewrite D0 in *. cbn [app] in *.
          rewrite <- E. rewrite !inhand_unfold. cbn [log set_dq set_mgr s_dqs]. symmetry.
          f_equal. eapply hand_upd_same; [exact Hd|]. unfold hand. cbn [with_pc d_pc]. rewrite Hpc. reflexivity. }
        cbn [log set_dq set_mgr s_hist] in Hu. rewrite replied_app in Hu. cbn [replied] in Hu.
        rewrite app_nil_r in Hu.
        pose proof (HA EM u Hu Hs) as Hc. rewrite active_code_alt, Am in Hc. rewrite Hc in Hfalsy.
        apply (replied_rid_nonempty s u (p_fifo _ P) (p_rids _ P)); [apply last_task_In; exact Hu|].
        destruct (t_rid u); [reflexivity|discriminate].
    + (* it stays *)
      eapply (post_mgr_dq s _ j d _ (d_gen d) m m' P Hd Hm); try reflexivity.
      * apply hist_quiet_refl.
      * cbn [with_pc d_pc]. rewrite Hpc. reflexivity.
      * left. reflexivity.
      * left. reflexivity.
      * left. reflexivity.
Qed.

(* ---------- LockI: the top of the loop ---------- *)
Lemma post_LockI : forall s j s', pre s -> step_LockI s j = Some s' -> post s s'.
Proof.
  intros s j s' P H. unfold step_LockI in H.
  destruct (nth_error (s_dqs s) j) as [d|] eqn:Hd; [|discriminate].
  destruct (d_pc d) eqn:Hpc; try discriminate.
  destruct (nth_error (s_mgrs s) (d_gen d)) as [m|] eqn:Hm; try discriminate.
  destruct (m_deq m) as [|t rest] eqn:Hdeq.
  - (* empty deque: leave the loop *)
    inversion H; subst s'; clear H.
    match goal with |- post _ (set_dq (set_mgr _ _ ?m') _ ?d') =>
      eapply (post_mgr_dq s _ j d d' (d_gen d) m m' P Hd Hm); try reflexivity end.
    + cbn [m_deq]. symmetry. exact Hdeq.
    + apply hist_quiet_refl.
    + cbn [d_pc]. rewrite Hpc. reflexivity.
    + left. reflexivity.
    + left. reflexivity.
    + right. reflexivity.
  - (* pop *)
    assert (Hlive : live_dq d = true) by (unfold live_dq; rewrite Hpc; reflexivity).
    assert (Hin : inloop d = true) by (unfold inloop; rewrite Hpc; reflexivity).
    pose proof (gen_dq _ _ _ (p_gen _ P) Hd Hlive) as Ha.
    pose proof (active_mgr_is _ _ _ Ha Hm) as Am.
    pose proof (single_le _ (p_single _ P)) as HS.
    set (lso := if (d_dequeued d =? 0)%Z then m_last_ok m else d_lso d) in *.
    set (m' := {| m_deq := rest; m_code := m_code m; m_running := m_running m; m_queued := m_queued m;
                  m_last_ok := m_last_ok m |}) in *.
    set (late := t_sub t && negb (is_nil rest)) in *.
    set (p := if t_sub t then if is_nil rest then PSetCode t else PLate t
              else if lso then PUsbB t else PUsbLate t) in *.
    set (d' := {| d_gen := d_gen d; d_pc := p; d_dequeued := (d_dequeued d + 1)%Z;
                  d_lso := if late then false else lso |}) in *.
    set (s1 := set_dq (set_mgr s (d_gen d) m') j d') in *.
    assert (Hp : inhand_pc p = [t]).
    { unfold p. destruct (t_sub t), (is_nil rest), lso; reflexivity. }
    (* views of the post-state *)
    assert (HQ : hist_quiet (s_hist s) (s_hist s')).
    { destruct late; inversion H; subst s'.
      - apply (hist_quiet_log (s_hist s) [ESkip t]). reflexivity.
      - apply hist_quiet_refl. }
    assert (E1 : s_dqs s' = upd j d' (s_dqs s)) by (destruct late; inversion H; reflexivity).
    assert (Am' : active_mgr s' = Some m').
    { assert (E : active_mgr s' = active_mgr (set_mgr s (d_gen d) m')) by (destruct late; inversion H; reflexivity).
      rewrite E. eapply active_mgr_set_mgr; eauto. }
    assert (E4 : s_pending s' = s_pending s) by (destruct late; inversion H; reflexivity).
    clear H.
    destruct (hist_quiet_proj _ _ HQ) as [Ea [Es [Er Ed]]].
    assert (I0 : inhand s = []).
    { rewrite (inhand_at _ _ _ (p_single _ P) Hd Hin). unfold hand. rewrite Hpc. reflexivity. }
    assert (I1 : inhand s' = [t]).
    { rewrite inhand_unfold, E1, (hand_single _ _ _ _ HS Hd Hin). exact Hp. }
    assert (D0 : deque_tasks s = t :: rest) by (unfold deque_tasks; rewrite Am; exact Hdeq).
    assert (D1 : deque_tasks s' = rest) by (unfold deque_tasks; rewrite Am'; reflexivity).
    assert (P1 : pending_tasks s' = pending_tasks s) by (unfold pending_tasks; rewrite E4; reflexivity).
    assert (C1 : active_code s' = active_code s) by (rewrite !active_code_alt, Am, Am'; reflexivity).
    destruct (p_rids _ P) as [R1 [R2 R3]]. destruct (p_fifo _ P) as [F1 F2].
    split; [|split; [|split]].
    + unfold ridsP. rewrite Es, C1. auto.
    + unfold fifoP, mach. rewrite Ea, Er, Ed, I1, D1, P1. split; [|exact F2].
      rewrite F1. unfold mach. rewrite I0, D0. reflexivity.
    + intros HU. split; [|split].
      * apply lastA'_nonempty. unfold mach. rewrite I1. discriminate.
      * intros i x t0 Hi Hx. rewrite D1. rewrite E1 in Hi.
        apply nth_error_upd_inv in Hi. destruct Hi as [[_ E]|[Hne Hi]].
        -- subst x. cbn [d' d_pc] in Hx. unfold p in Hx.
           destruct (t_sub t); [|destruct lso; discriminate].
           destruct rest; [discriminate|discriminate].
        -- exfalso. apply Hne. eapply single_other; eauto. unfold inloop. rewrite Hx. reflexivity.
      * intros i x Hi. rewrite E1 in Hi.
        apply nth_error_upd_inv in Hi. destruct Hi as [[_ E]|[Hne Hi]].
        -- subst x. cbn [d' d_pc]. unfold p.
           destruct (t_sub t) eqn:Hs; [destruct (is_nil rest); reflexivity|].
           destruct lso; [reflexivity|]. cbn [pc_usb_ok]. rewrite Hs. reflexivity.
        -- rewrite (pc_usb_ok_replied _ _ _ Er). apply (HU _ _ Hi).
    + unfold inv_idle. rewrite Am, Am', Hdeq. cbn [m' m_running m_deq is_nil].
      rewrite orb_false_r. intros E. rewrite E. reflexivity.
Qed.

(* ---------- the reader ---------- *)
Lemma post_accept : forall s s' t g m',
  pre s -> arrival_ok (s_hist s) t = true -> s_pending s = None ->
  s_hist s' = s_hist s ++ [EArr t] -> s_dqs s' = s_dqs s -> s_pending s' = Some (t, g) ->
  active_mgr s' = Some m' -> m_deq m' = deque_tasks s -> m_code m' = active_code s ->
  (inv_idle s = true -> inv_idle s' = true) ->
  post s s'.
Proof.
  intros s s' t g m' P Harr Hp0 Hh E1 E4 Am' Dq Cd HID.
  assert (Ea : arrived (s_hist s') = arrived (s_hist s) ++ [t]) by (rewrite Hh, arrived_app; reflexivity).
  assert (Es : seen (s_hist s') = seen (s_hist s) ++ [t]) by (rewrite Hh, seen_app; reflexivity).
  assert (Er : replied (s_hist s') = replied (s_hist s)) by (rewrite Hh, replied_app; apply app_nil_r).
  assert (Ed : dropped (s_hist s') = dropped (s_hist s)) by (rewrite Hh, dropped_app; apply app_nil_r).
  assert (I1 : inhand s' = inhand s) by (rewrite !inhand_unfold, E1; reflexivity).
  assert (D1 : deque_tasks s' = deque_tasks s) by (unfold deque_tasks at 1; rewrite Am'; exact Dq).
  assert (P0 : pending_tasks s = []) by (unfold pending_tasks; rewrite Hp0; reflexivity).
  assert (P1 : pending_tasks s' = [t]) by (unfold pending_tasks; rewrite E4; reflexivity).
  assert (C1 : active_code s' = active_code s) by (rewrite (active_code_alt s'), Am'; exact Cd).
  destruct (p_rids _ P) as [R1 [R2 R3]]. destruct (p_fifo _ P) as [F1 F2].
  unfold arrival_ok in Harr. apply andb_true_iff in Harr. destruct Harr as [Harr _].
  apply andb_true_iff in Harr. destruct Harr as [Hne Hfresh]. apply negb_true_iff in Hfresh.
  destruct (late_usb_quiet s s' (p_late _ P)) as [L U]; [rewrite E1; apply dqs_quiet_refl|exact Er|rewrite D1; auto|].
  split; [|split; [|split]].
  - unfold ridsP. rewrite Es, C1. split; [|split; [|exact R3]].
    + rewrite forallb_app, R1. cbn [forallb]. rewrite Hne. reflexivity.
    + apply nodup_rids_snoc; assumption.
  - unfold fifoP, mach. rewrite Ea, Er, Ed, I1, D1, P1. split; [|exact F2].
    rewrite F1. unfold mach. rewrite P0, app_nil_r, <- !app_assoc. reflexivity.
  - intros HU. split; [|split; [exact L|exact (U HU)]].
    apply lastA'_nonempty. unfold mach. rewrite P1. intros E.
    apply app_eq_nil in E. destruct E as [_ E]. apply app_eq_nil in E. destruct E as [_ E]. discriminate.
  - exact HID.
Qed.

Lemma post_R1 : forall s t s', pre s -> arrival_ok (s_hist s) t = true -> step_R1 s t = Some s' -> post s s'.
Proof.
  intros s t s' P Harr H. unfold step_R1 in H.
  destruct (s_pending s) as [x|] eqn:Hp0; [discriminate|].
  destruct (s_active s) as [g|] eqn:Ha.
  - destruct (nth_error (s_mgrs s) g) as [m|] eqn:Hm; [|discriminate].
    inversion H; subst s'; clear H.
    pose proof (active_mgr_is _ _ _ Ha Hm) as Am.
    match goal with |- post _ ?x => set (s' := x) end.
    match eval unfold s' in s' with log {| s_item := _; s_mgrs := upd _ ?x _; s_active := _; s_pending := _;
                                          s_dqs := _; s_lis := _; s_hist := _ |} _ => set (m' := x) in * end.
    assert (Am' : active_mgr s' = Some m').
    { unfold active_mgr, s'. cbn [log s_active s_mgrs]. rewrite Ha. eapply nth_error_upd_eq. exact Hm. }
    apply (post_accept s s' t g m' P Harr Hp0); try reflexivity.
    + exact Am'.
    + cbn [m' m_deq]. unfold deque_tasks. rewrite Am. reflexivity.
    + cbn [m' m_code]. rewrite active_code_alt, Am. reflexivity.
    + unfold inv_idle. rewrite Am, Am'. intros E; exact E.
  - assert (An : active_mgr s = None) by (unfold active_mgr; rewrite Ha; reflexivity).
    destruct (t_sub t) eqn:Hs.
    + inversion H; subst s'; clear H.
      match goal with |- post _ ?x => set (s' := x) end.
      match eval unfold s' in s' with log {| s_item := _; s_mgrs := _ ++ [?x]; s_active := _; s_pending := _;
                                            s_dqs := _; s_lis := _; s_hist := _ |} _ => set (m' := x) in * end.
      assert (Am' : active_mgr s' = Some m').
      { unfold active_mgr, s'. cbn [log s_active s_mgrs]. apply nth_error_snoc_len. }
      apply (post_accept s s' t (length (s_mgrs s)) m' P Harr Hp0); try reflexivity.
      * exact Am'.
      * cbn [m' m_deq]. unfold deque_tasks. rewrite An. reflexivity.
      * cbn [m' m_code]. rewrite active_code_alt, An. reflexivity.
      * intros _. unfold inv_idle. rewrite Am'. reflexivity.
    + (* a USB for an item without manager cannot follow a SUB that is still alive *)
      exfalso. unfold arrival_ok in Harr. apply andb_true_iff in Harr. destruct Harr as [_ Hk].
      destruct (last_task (seen (s_hist s))) as [u|] eqn:Hu; [|congruence].
      rewrite Hs in Hk. destruct (t_sub u) eqn:Hsu; [|discriminate].
      destruct (p_lastA _ P u Hu Hsu) as [G|G].
      * unfold mach, deque_tasks, pending_tasks in G. rewrite An, Hp0 in G. cbn [app] in G. rewrite app_nil_r in G.
        rewrite inhand_unfold, (count0_hand _ (single_none _ (p_single _ P) An)) in G. destruct G.
      * rewrite active_code_alt, An in G. discriminate.
Qed.

Lemma post_R2 : forall s s', pre s -> step_R2 s = Some s' -> post s s'.
Proof.
  intros s s' P H. unfold step_R2 in H.
  destruct (s_pending s) as [[t g]|] eqn:Hp0; [|discriminate].
  destruct (nth_error (s_mgrs s) g) as [m|] eqn:Hm; [|discriminate].
  pose proof (gen_pend _ _ _ (p_gen _ P) Hp0) as Ha.
  pose proof (active_mgr_is _ _ _ Ha Hm) as Am.
  set (m' := {| m_deq := m_deq m ++ [t]; m_code := m_code m; m_running := true; m_queued := m_queued m;
                m_last_ok := m_last_ok m |}) in *.
  set (nd := {| d_gen := g; d_pc := PQueued; d_dequeued := 0%Z; d_lso := true |}) in *.
  inversion H; subst s'; clear H.
  set (s' := {| s_item := _; s_mgrs := _; s_active := _; s_pending := _; s_dqs := _; s_lis := _; s_hist := _ |}).
  assert (Am' : active_mgr s' = Some m').
  { unfold active_mgr, s'. cbn [s_active s_mgrs set_mgr]. rewrite Ha. eapply nth_error_upd_eq. exact Hm. }
  assert (E1 : s_dqs s' = if m_running m then s_dqs s else s_dqs s ++ [nd]) by reflexivity.
  assert (I1 : inhand s' = inhand s).
  { rewrite !inhand_unfold, E1. destruct (m_running m); [reflexivity|].
    rewrite flat_map_app. cbn. apply app_nil_r. }
  assert (D0 : deque_tasks s = m_deq m) by (unfold deque_tasks; rewrite Am; reflexivity).
  assert (D1 : deque_tasks s' = m_deq m ++ [t]) by (unfold deque_tasks; rewrite Am'; reflexivity).
  assert (P0 : pending_tasks s = [t]) by (unfold pending_tasks; rewrite Hp0; reflexivity).
  assert (P1 : pending_tasks s' = []) by reflexivity.
  assert (C1 : active_code s' = active_code s) by (rewrite !active_code_alt, Am, Am'; reflexivity).
  assert (Hh : s_hist s' = s_hist s) by reflexivity.
  destruct (p_rids _ P) as [R1 [R2 R3]]. destruct (p_fifo _ P) as [F1 F2].
  destruct (late_usb_quiet s s' (p_late _ P)) as [L U].
  { rewrite E1. destruct (m_running m); [apply dqs_quiet_refl|apply dqs_quiet_snoc; reflexivity]. }
  { rewrite Hh. reflexivity. }
  { intros _. rewrite D1. destruct (m_deq m); discriminate. }
  split; [|split; [|split]].
  - unfold ridsP. rewrite Hh, C1. auto.
  - unfold fifoP, mach. rewrite Hh, I1, D1, P1. split; [|exact F2].
    rewrite F1. unfold mach. rewrite D0, P0, app_nil_r. reflexivity.
  - intros HU. split; [|split; [exact L|exact (U HU)]].
    apply lastA'_nonempty. unfold mach. rewrite D1. intros E.
    apply app_eq_nil in E. destruct E as [_ E]. apply app_eq_nil in E. destruct E as [E _].
    destruct (m_deq m); discriminate.
  - intros _. unfold inv_idle. rewrite Am'. reflexivity.
Qed.

(* ====================================================================== *)
(* 5. Assembly                                                             *)
(* ====================================================================== *)

Lemma post_step : forall s lb s',
  pre s -> env_ok s lb = true -> step s lb = Some s' -> post s s'.
Proof.
  intros s lb s' P E H. destruct lb; cbn [step env_ok] in *.
  - eapply post_R1; eauto.
  - eapply post_R2; eauto.
  - eapply post_JobStart; eauto.
  - eapply post_LockI; eauto.
  - eapply post_LockM; eauto.
  - eapply post_Put; eauto.
  - eapply post_CallB; eauto.
  - eapply post_CallE; eauto.
  - eapply post_Nest; eauto.
  - eapply post_FreeBegin; eauto.
  - eapply post_FreeLockM; eauto.
  - eapply post_FreePut; eauto.
Qed.

(* the only place that depends on the shape of inv_all / inv_struct *)
Lemma inv_all_pre : forall s, inv_all s = true -> pre s.
Proof.
  intros s H. unfold inv_all, inv_struct in H.
  repeat (apply andb_true_iff in H; let G := fresh "G" in destruct H as [H G]).
  apply last_iff in G1. destruct G1 as [LA LB].
  constructor; try assumption.
  - apply rids_iff. assumption.
  - apply fifo_iff. assumption.
Qed.

Lemma inv_rids_step : forall s lb s',
  inv_all s = true -> env_ok s lb = true -> step s lb = Some s' -> inv_rids s' = true.
Proof.
  intros s lb s' HA HE HS. destruct (post_step s lb s' (inv_all_pre _ HA) HE HS) as [R _].
  apply rids_iff. exact R.
Qed.

Lemma inv_rids_init : forall item, inv_rids (init_state item) = true.
Proof. reflexivity. Qed.

Lemma inv_fifo_step : forall s lb s',
  inv_all s = true -> env_ok s lb = true -> step s lb = Some s' -> inv_fifo s' = true.
Proof.
  intros s lb s' HA HE HS. destruct (post_step s lb s' (inv_all_pre _ HA) HE HS) as [_ [F _]].
  apply fifo_iff. exact F.
Qed.

Lemma inv_fifo_init : forall item, inv_fifo (init_state item) = true.
Proof. reflexivity. Qed.

(* NOT the statement of the task: without the hypothesis inv_usb s = true it is
   false (inv_last_step_false_1/2 below).  inv_usb is itself inductive
   (inv_usb_step, inv_usb_init). *)
Lemma inv_last_step : forall s lb s',
  inv_all s = true -> inv_usb s = true -> env_ok s lb = true -> step s lb = Some s' -> inv_last s' = true.
Proof.
  intros s lb s' HA HU HE HS.
  destruct (post_step s lb s' (inv_all_pre _ HA) HE HS) as [_ [F [L _]]].
  destruct (L (proj1 (usb_iff s) HU)) as [LA [LB _]].
  apply last_iff. split; [apply lastA_of_fifo; assumption|exact LB].
Qed.

Lemma inv_last_init : forall item, inv_last (init_state item) = true.
Proof. reflexivity. Qed.

Lemma inv_usb_step : forall s lb s',
  inv_all s = true -> inv_usb s = true -> env_ok s lb = true -> step s lb = Some s' -> inv_usb s' = true.
Proof.
  intros s lb s' HA HU HE HS.
  destruct (post_step s lb s' (inv_all_pre _ HA) HE HS) as [_ [_ [L _]]].
  destruct (L (proj1 (usb_iff s) HU)) as [_ [_ U]]. apply usb_iff. exact U.
Qed.

Lemma inv_usb_init : forall item, inv_usb (init_state item) = true.
Proof. reflexivity. Qed.

Lemma inv_idle_step : forall s lb s',
  inv_all s = true -> inv_idle s = true -> env_ok s lb = true -> step s lb = Some s' -> inv_idle s' = true.
Proof.
  intros s lb s' HA HI HE HS.
  destruct (post_step s lb s' (inv_all_pre _ HA) HE HS) as [_ [_ [_ I]]]. exact (I HI).
Qed.

Lemma inv_idle_init : forall item, inv_idle (init_state item) = true.
Proof. reflexivity. Qed.

(* ---------- consequences ---------- *)
(* no request is answered twice: the answered ones are a prefix of the distinct accepted ones *)
Lemma replied_prefix : forall s, inv_fifo s = true ->
  exists rest, arrived (s_hist s) = replied (s_hist s) ++ rest.
Proof. intros s H. apply fifo_iff in H. destruct H as [H _]. exists (mach s). exact H. Qed.

Lemma NoDup_app_l : forall A (a b : list A), NoDup (a ++ b) -> NoDup a.
Proof.
  induction a as [|x a IH]; intros b H; [constructor|].
  cbn [app] in H. inversion H as [|y l Hn Hd]; subst. constructor.
  - intros Hin. apply Hn. apply in_or_app. left. exact Hin.
  - eapply IH. exact Hd.
Qed.

Lemma replied_nodup : forall s, inv_fifo s = true -> inv_rids s = true ->
  NoDup (map t_rid (replied (s_hist s))).
Proof.
  intros s HF HR. apply fifo_iff in HF. destruct HF as [F1 F2].
  apply rids_iff in HR. destruct HR as [_ [R2 _]].
  rewrite (seen_no_drop _ F2), F1 in R2. apply nodup_rids_NoDup in R2.
  rewrite map_app in R2. eapply NoDup_app_l. exact R2.
Qed.

Lemma all_done_hand : forall l, forallb (fun d => pc_done (d_pc d)) l = true ->
  flat_map hand l = [] /\ count_inloop l = 0.
Proof.
  induction l as [|x l IH]; intros H; [split; reflexivity|].
  cbn [forallb] in H. apply andb_true_iff in H. destruct H as [Hx H]. destruct (IH H) as [A B].
  cbn [flat_map count_inloop]. unfold hand at 1, inloop. destruct (d_pc x); try discriminate.
  rewrite A, B. split; reflexivity.
Qed.

(* NOT the statement of the task: without the hypothesis inv_idle s = true it is
   false (quiescent_all_replied_false below): inv_all does not exclude an idle
   manager with a non-empty deque.  inv_idle is inductive (inv_idle_step,
   inv_idle_init).  In a quiescent state every request seen has been accepted and
   answered exactly once *)
Lemma quiescent_all_replied : forall s,
  inv_all s = true -> inv_idle s = true -> quiescent s = true ->
  replied (s_hist s) = seen (s_hist s) /\ dropped (s_hist s) = [].
Proof.
  intros s HA HI HQ. pose proof (inv_all_pre _ HA) as P.
  destruct (p_fifo _ P) as [F1 F2]. split; [|exact F2].
  unfold quiescent in HQ. apply andb_true_iff in HQ. destruct HQ as [Hp Hd].
  destruct (all_done_hand _ Hd) as [Hh Hc].
  assert (P0 : pending_tasks s = []).
  { unfold pending_tasks. destruct (s_pending s); [discriminate|reflexivity]. }
  assert (D0 : deque_tasks s = []).
  { unfold deque_tasks. destruct (active_mgr s) as [m|] eqn:Am; [|reflexivity].
    pose proof (p_single _ P) as HS. unfold inv_single in HS. rewrite Am, Hc in HS.
    apply andb_true_iff in HS. destruct HS as [_ HS]. apply Bool.eqb_prop in HS. cbn in HS.
    unfold inv_idle in HI. rewrite Am, HS in HI. cbn [orb] in HI. apply is_nil_true. exact HI. }
  rewrite (seen_no_drop _ F2), F1. unfold mach. rewrite inhand_unfold, Hh, D0, P0. rewrite app_nil_r. reflexivity.
Qed.

(* ====================================================================== *)
(* 6. Why two target statements could not be proved as given               *)
(* ====================================================================== *)
Definition cex_task : task := {| t_rid := ["r"%char; "1"%char]; t_sub := true |}.
Definition cex_dq (p : pc) : dq := {| d_gen := 0; d_pc := p; d_dequeued := 1; d_lso := false |}.
Definition cex_state (deq : list task) (code : option bytes) (running : bool) (dqs : list dq) (h : list event) : istate :=
  {| s_item := ["i"%char];
     s_mgrs := [{| m_deq := deq; m_code := code; m_running := running; m_queued := 1; m_last_ok := false |}];
     s_active := Some 0; s_pending := None; s_dqs := dqs; s_lis := []; s_hist := h |}.

Definition breaks_inv_last (s : istate) (lb : label) : bool :=
  inv_all s && env_ok s lb && match step s lb with Some s' => negb (inv_last s') | None => false end.

(* a job at PClear although the last answered request was a subscription *)
Lemma inv_last_step_false_1 :
  breaks_inv_last (cex_state [] (Some (t_rid cex_task)) true [cex_dq PClear]
                     [EArr cex_task; ESetCode cex_task; EReply cex_task []]) (LbLockM 0) = true.
Proof. vm_compute. reflexivity. Qed.

(* a job at PUsbLate holding a subscription *)
Lemma inv_last_step_false_2 :
  breaks_inv_last (cex_state [] None true [cex_dq (PUsbLate cex_task)] [EArr cex_task]) (LbPut 0) = true.
Proof. vm_compute. reflexivity. Qed.

(* an idle manager with a non-empty deque *)
Lemma quiescent_all_replied_false :
  let s := cex_state [cex_task] None false [] [EArr cex_task] in
  inv_all s = true /\ quiescent s = true /\ replied (s_hist s) = [] /\ seen (s_hist s) = [cex_task].
Proof. vm_compute. repeat split; reflexivity. Qed.

Print Assumptions inv_rids_step.
Print Assumptions inv_rids_init.
Print Assumptions inv_fifo_step.
Print Assumptions inv_fifo_init.
Print Assumptions inv_last_step.
Print Assumptions inv_last_init.
Print Assumptions inv_usb_step.
Print Assumptions inv_usb_init.
Print Assumptions inv_idle_step.
Print Assumptions inv_idle_init.
Print Assumptions tasks_eqb_eq.
Print Assumptions replied_prefix.
Print Assumptions replied_nodup.
Print Assumptions quiescent_all_replied.
Print Assumptions inv_last_step_false_1.
Print Assumptions inv_last_step_false_2.
Print Assumptions quiescent_all_replied_false.
