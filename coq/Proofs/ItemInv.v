(* Proofs/ItemInv.v — the assembled inductive invariant of the per-item LTS
   (Model/Item.v): the nine conjuncts of ItemSpec.inv_all plus the auxiliary
   facts found necessary while proving them (job kind, idle manager, pending
   unsubscription, adapter-call monitor).  Inv holds in every state reachable
   under the environment assumption (ItemSpec.env_ok). *)
From Coq Require Import String List Ascii NArith ZArith Bool.
From LS Require Import Model.Bytes Model.Tags Gen.Consts Model.Codec Model.Writers Model.AriReply
  Model.Item Model.ItemSpec.
From LS Require Proofs.ItemStruct Proofs.ItemFifo Proofs.ItemCode Proofs.ItemLso.
Import ListNotations.

Definition Inv (s : istate) : Prop :=
  inv_all s = true /\ ItemCode.inv_kind s = true /\ ItemStruct.inv_run s = true /\
  ItemFifo.inv_usb s = true /\ ItemFifo.inv_idle s = true /\ ItemLso.inv_calls s.

Lemma Inv_init : forall item, Inv (init_state item).
Proof.
  intros item. unfold Inv. split; [|split; [|split; [|split; [|split]]]].
  - unfold inv_all.
    rewrite (ItemStruct.inv_struct_init item), (ItemFifo.inv_rids_init item), (ItemFifo.inv_fifo_init item),
      (ItemFifo.inv_last_init item), (ItemCode.inv_code_init item), (ItemLso.inv_lso_init item). reflexivity.
  - apply ItemCode.inv_kind_init.
  - apply ItemStruct.inv_run_init.
  - apply ItemFifo.inv_usb_init.
  - apply ItemFifo.inv_idle_init.
  - apply ItemLso.inv_calls_init.
Qed.

Lemma Inv_step : forall s lb s',
  Inv s -> env_ok s lb = true -> step s lb = Some s' -> Inv s'.
Proof.
  intros s lb s' (Hall & Hk & Hr & Hu & Hi & Hc) He Hs. unfold Inv.
  split; [|split; [|split; [|split; [|split]]]].
  - unfold inv_all.
    rewrite (ItemStruct.inv_struct_step s lb s' Hall He Hs),
            (ItemFifo.inv_rids_step s lb s' Hall He Hs),
            (ItemFifo.inv_fifo_step s lb s' Hall He Hs),
            (ItemFifo.inv_last_step s lb s' Hall Hu He Hs),
            (ItemCode.inv_code_step_partial s lb s' Hall Hk He Hs),
            (ItemLso.inv_lso_step s lb s' Hall He Hs). reflexivity.
  - eapply ItemCode.inv_kind_step; eassumption.
  - eapply ItemStruct.inv_run_step; eassumption.
  - eapply ItemFifo.inv_usb_step; eassumption.
  - eapply ItemFifo.inv_idle_step; eassumption.
  - eapply ItemLso.inv_calls_step; eassumption.
Qed.

Lemma Inv_run_env : forall ls s s',
  Inv s -> run_env s ls = Some s' -> Inv s'.
Proof.
  induction ls as [|l ls IH]; intros s s' Hi Hr; cbn [run_env] in Hr.
  - inversion Hr; subst; exact Hi.
  - unfold step_env in Hr. destruct (env_ok s l) eqn:He; [|discriminate].
    destruct (step s l) as [s1|] eqn:Hs; [|discriminate].
    eapply IH; [|exact Hr]. eapply Inv_step; eassumption.
Qed.

(* states reachable from the initial state of an item under the environment assumption *)
Definition reachable (item : bytes) (s : istate) : Prop :=
  exists ls, run_env (init_state item) ls = Some s.

Theorem reachable_Inv : forall item s, reachable item s -> Inv s.
Proof. intros item s [ls H]. eapply Inv_run_env; [apply Inv_init | exact H]. Qed.

Lemma Inv_all : forall s, Inv s -> inv_all s = true.
Proof. intros s H. destruct H as [H _]. exact H. Qed.

Lemma inv_all_parts : forall s, inv_all s = true ->
  inv_struct s = true /\ inv_rids s = true /\ inv_fifo s = true /\ inv_last s = true /\
  inv_code s = true /\ inv_lso s = true.
Proof.
  intros s H. unfold inv_all in H.
  apply andb_true_iff in H; destruct H as [H H6].
  apply andb_true_iff in H; destruct H as [H H5].
  apply andb_true_iff in H; destruct H as [H H4].
  apply andb_true_iff in H; destruct H as [H H3].
  apply andb_true_iff in H; destruct H as [H1 H2].
  repeat split; assumption.
Qed.

Print Assumptions reachable_Inv.
