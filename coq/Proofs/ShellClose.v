(* Proofs/ShellClose.v — C20 "teardown: close requests stop the server; I/O
   failures reach the handler", over the connection-level LTS Model/Shell.v. *)
From Coq Require Import String List Ascii NArith ZArith Bool Arith Lia.
From LS Require Import Model.Bytes Model.Tags Model.AriReply Model.Shell Model.ShellSpec.
Import ListNotations.

Definition sreach (k : server_kind) (h : handler) (n : nat) (s : shell) : Prop :=
  exists ls, run (shell_init k h n) ls = Some s.

(* ================================================================== *)
(* 0. Small list / history library                                      *)
(* ================================================================== *)

Lemma count_app {A} (f : A -> bool) (a b : list A) : count f (a ++ b) = count f a + count f b.
Proof. unfold count. rewrite filter_app, app_length. reflexivity. Qed.

Lemma submitted_app h es : submitted_jobs (h ++ es) = submitted_jobs h + submitted_jobs es.
Proof. apply count_app. Qed.
Lemma ended_app h es : ended_jobs (h ++ es) = ended_jobs h + ended_jobs es.
Proof. apply count_app. Qed.

Lemma puts_of_app h es : puts_of (h ++ es) = puts_of h ++ puts_of es.
Proof.
  induction h as [|e r IH]; [reflexivity|].
  rewrite <- app_comm_cons. destruct e; cbn [puts_of]; rewrite IH; reflexivity.
Qed.
Lemma written_of_app h es : written_of (h ++ es) = written_of h ++ written_of es.
Proof.
  induction h as [|e r IH]; [reflexivity|].
  rewrite <- app_comm_cons. destruct e; cbn [written_of]; rewrite IH; reflexivity.
Qed.

Lemma has_event_app f h es : has_event f (h ++ es) = has_event f h || has_event f es.
Proof. apply existsb_app. Qed.

(* events appended by [settle] *)
Definition sev (e : sevent) : bool :=
  match e with
  | EHand ThReader | ESubmit _ _ | EStopFlag ThReader | EReaderEnd => true
  | _ => false
  end.

Lemma sev_puts es : forallb sev es = true -> puts_of es = [].
Proof.
  induction es as [|e r IH]; [reflexivity|]. cbn [forallb]. intros H.
  apply andb_true_iff in H. destruct H as [He Hr].
  destruct e; try discriminate He; cbn [puts_of]; auto.
Qed.
Lemma sev_written es : forallb sev es = true -> written_of es = [].
Proof.
  induction es as [|e r IH]; [reflexivity|]. cbn [forallb]. intros H.
  apply andb_true_iff in H. destruct H as [He Hr].
  destruct e; try discriminate He; cbn [written_of]; auto.
Qed.
Lemma sev_ended es : forallb sev es = true -> ended_jobs es = 0.
Proof.
  induction es as [|e r IH]; [reflexivity|]. cbn [forallb]. intros H.
  apply andb_true_iff in H. destruct H as [He Hr].
  destruct e; try discriminate He; unfold ended_jobs, count in *; cbn [filter]; auto.
Qed.
Lemma sev_handio es : forallb sev es = true -> has_event is_handio es = false.
Proof.
  induction es as [|e r IH]; [reflexivity|]. cbn [forallb]. intros H.
  apply andb_true_iff in H. destruct H as [He Hr].
  destruct e; try discriminate He; cbn [has_event existsb is_handio orb]; auto.
Qed.
Lemma sev_exit es : forallb sev es = true -> has_event is_exit es = false.
Proof.
  induction es as [|e r IH]; [reflexivity|]. cbn [forallb]. intros H.
  apply andb_true_iff in H. destruct H as [He Hr].
  destruct e; try discriminate He; cbn [has_event existsb is_exit orb]; auto.
Qed.

(* ================================================================== *)
(* 1. What [settle] does                                                *)
(* ================================================================== *)

(* pcs at which settle leaves the reader *)
Definition rpc_settled (p : rpc) : bool :=
  match p with
  | RRecv | RInitB _ _ | RInitPut _ _ | RHandY | RFalPut | RHandDie | RLock1 | RCl1 | RDead => true
  | _ => false
  end.

Record sett (s s' : shell) : Prop := {
  st_kind : sh_kind s' = sh_kind s;
  st_handler : sh_handler s' = sh_handler s;
  st_start : sh_start s' = sh_start s;
  st_workers : sh_workers s' = sh_workers s;
  st_shutdown : sh_shutdown s' = sh_shutdown s;
  st_outq : sh_outq s' = sh_outq s;
  st_wpc : sh_wpc s' = sh_wpc s;
  st_apc : sh_apc s' = sh_apc s;
  st_closed : sh_sock_closed s' = sh_sock_closed s;
  st_exited : sh_exited s' = sh_exited s;
  st_stop : sh_stop s = true -> sh_stop s' = true;
  st_hist : exists js es, sh_jobs s' = sh_jobs s ++ js /\ sh_hist s' = sh_hist s ++ es /\
                          forallb sev es = true /\ submitted_jobs es = length js /\
                          (sh_shutdown s = true -> js = [])
}.

Lemma sett_refl s : sett s s.
Proof.
  constructor; try reflexivity; auto.
  exists [], []. rewrite !app_nil_r. repeat split; auto.
Qed.

Lemma sett_trans s s1 s2 : sett s s1 -> sett s1 s2 -> sett s s2.
Proof.
  intros [] []. constructor; try congruence; auto.
  destruct st_hist0 as (js & es & Hj & Hh & He & Hc & Hs).
  destruct st_hist1 as (js' & es' & Hj' & Hh' & He' & Hc' & Hs').
  exists (js ++ js'), (es ++ es'). rewrite Hj', Hj, Hh', Hh, !app_assoc.
  repeat split; auto.
  - rewrite forallb_app, He, He'. reflexivity.
  - rewrite submitted_app, app_length. lia.
  - intros H. rewrite Hs by exact H. rewrite Hs'; [reflexivity|congruence].
Qed.

Lemma sett_slog s es : forallb sev es = true -> submitted_jobs es = 0 -> sett s (slog s es).
Proof.
  intros He Hc. constructor; try reflexivity; auto.
  exists [], es. cbn. rewrite app_nil_r. repeat split; auto.
Qed.

Lemma sett_reader s ie ce td p : sett s (set_reader s ie ce td p).
Proof.
  constructor; try reflexivity; auto.
  exists [], []. cbn. rewrite !app_nil_r. repeat split; auto.
Qed.

Lemma sett_stopflag s :
  sett s (set_misc s (sh_start s) true (sh_apc s) (sh_sock_closed s) (sh_exited s)).
Proof.
  constructor; try reflexivity; auto.
  exists [], []. cbn. rewrite !app_nil_r. repeat split; auto.
Qed.

Lemma sett_submit s k : sh_shutdown s = false -> sett s (submit s k).
Proof.
  intros Hsd. constructor; try reflexivity; auto.
  exists [(sh_njobs s, k)], [ESubmit (sh_njobs s) k]. cbn. repeat split; auto.
  rewrite Hsd. discriminate.
Qed.

Definition sspec (s s' : shell) : Prop :=
  sett s s' /\ rpc_settled (sh_rpc s') = true /\ (sh_rpc s' = RCl1 -> sh_stop s' = true).

Lemma sspec_trans s s1 s2 : sett s s1 -> sspec s1 s2 -> sspec s s2.
Proof. intros H [H1 H2]. split; [eapply sett_trans; eassumption|exact H2]. Qed.

Ltac sett_solve :=
  lazymatch goal with
  | |- sett ?s ?s => apply sett_refl
  | |- sett ?s (slog ?x ?es) => apply (sett_trans s x); [sett_solve | apply sett_slog; reflexivity]
  | |- sett ?s (set_reader ?x _ _ _ _) => apply (sett_trans s x); [sett_solve | apply sett_reader]
  | |- sett ?s (set_misc ?x _ true _ _ _) => apply (sett_trans s x); [sett_solve | apply sett_stopflag]
  | |- sett ?s (submit ?x _) => apply (sett_trans s x); [sett_solve | apply sett_submit; assumption]
  end.

Ltac sspec_leaf :=
  split; [sett_solve | split; [reflexivity | cbn; try discriminate; auto]].

Ltac innermost x :=
  lazymatch x with
  | match ?y with _ => _ end => innermost y
  | _ => constr:(x)
  end.

Ltac settle_case IH :=
  cbn [negb];
  first [ apply IH
        | solve [sspec_leaf]
        | solve [eapply sspec_trans; [|apply IH]; sett_solve]
        | lazymatch goal with
          | |- sspec _ (match ?x with _ => _ end) =>
              let y := innermost x in destruct y eqn:?; settle_case IH
          end ].

Lemma settle_spec : forall todo s, sspec s (settle s todo).
Proof.
  induction todo as [|ln rest IH]; intros s; cbn [settle].
  - destruct (sh_stop s) eqn:Hstop; sspec_leaf.
  - unfold reader_hand. destruct ln as [|id0 rok|rid wf refused oldv|rid wf known]; settle_case IH.
Qed.

Lemma settle_sett s todo : sett s (settle s todo).
Proof. apply settle_spec. Qed.
Lemma settle_rpc s todo : rpc_settled (sh_rpc (settle s todo)) = true.
Proof. apply settle_spec. Qed.
Lemma settle_cl1 s todo : sh_rpc (settle s todo) = RCl1 -> sh_stop (settle s todo) = true.
Proof. apply settle_spec. Qed.

(* ================================================================== *)
(* 2. Step inversion                                                    *)
(* ================================================================== *)

Definition is_exited (w : wstate) : bool := match w with KExited => true | _ => false end.
Notation all_exited ws := (forallb is_exited ws).

Ltac scrut x :=
  lazymatch x with
  | match ?y with _ => _ end => scrut y
  | negb ?y => scrut y
  | andb ?y _ => scrut y
  | is_nil ?y => scrut y
  | _ => constr:(x)
  end.

(* H : step s th a = Some s'.  Leaves one goal per enabled transition, with s' replaced by its
   expression and every guard recorded as an equation (also rewritten in the goal). *)
Ltac step_inv H th a :=
  unfold step, io_fail, writer_dead, pool_drained in H; fold is_exited in H;
  lazymatch type of H with
  | (if sh_exited ?s then _ else _) = _ =>
      let Hex := fresh "Hex" in destruct (sh_exited s) eqn:Hex; [discriminate H|]
  end;
  destruct th; destruct a; cbn [negb andb is_nil] in H; try discriminate H;
  repeat (lazymatch type of H with
          | match ?x with _ => _ end = Some _ =>
              let y := scrut x in destruct y eqn:?; cbn [negb andb is_nil] in H; try discriminate H
          end);
  injection H as <-.


Lemma all_exited_nth ws : forall w x, all_exited ws = true -> nth_error ws w = Some x -> x = KExited.
Proof.
  induction ws as [|y r IH]; intros [|w] x Ha Hn; cbn in Hn; try discriminate.
  - inversion Hn; subst. cbn in Ha. destruct x; try discriminate Ha. reflexivity.
  - cbn in Ha. apply andb_true_iff in Ha. eapply IH; [apply Ha|exact Hn].
Qed.

Definition is_busy (w : wstate) : bool :=
  match w with KBusy _ _ _ _ | KHandFal _ _ _ => true | _ => false end.
Definition busy1 (w : wstate) : nat := if is_busy w then 1 else 0.
Fixpoint nbusy (ws : list wstate) : nat :=
  match ws with [] => 0 | w :: r => busy1 w + nbusy r end.

Lemma nbusy_updw ws : forall w x y, nth_error ws w = Some y ->
  nbusy (updw w x ws) + busy1 y = nbusy ws + busy1 x.
Proof.
  induction ws as [|z r IH]; intros [|w] x y Hn; cbn in Hn; try discriminate.
  - inversion Hn; subst. cbn [updw nbusy]. lia.
  - cbn [updw nbusy]. specialize (IH w x y Hn). lia.
Qed.

Lemma all_exited_nbusy ws : all_exited ws = true -> nbusy ws = 0.
Proof.
  induction ws as [|y r IH]; [reflexivity|]. cbn [forallb nbusy]. intros H.
  apply andb_true_iff in H. destruct H as [Hy Hr]. rewrite (IH Hr).
  destruct y; try discriminate Hy. reflexivity.
Qed.

Lemma pool_drained_iff s :
  pool_drained s = true <-> sh_jobs s = [] /\ all_exited (sh_workers s) = true.
Proof.
  unfold pool_drained. rewrite andb_true_iff. destruct (sh_jobs s); cbn; intuition discriminate.
Qed.

(* ================================================================== *)
(* 3. The inductive invariant behind inv_closed                         *)
(* ================================================================== *)

Definition rstage (p : rpc) : nat :=
  match p with RCl1 => 1 | RCl2 => 2 | RCl3 => 3 | RCl4 => 4 | _ => 0 end.
Definition astage (a : apc) : nat :=
  match a with ACl1 => 1 | ACl2 => 2 | ACl3 => 3 | ACl4 => 4 | _ => 0 end.

Record Inv (s : shell) : Prop := {
  i_start : sh_start s = 0 -> sh_wpc s = WNotStarted;
  i_rstop : 1 <= rstage (sh_rpc s) -> sh_stop s = true;
  i_astop : 1 <= astage (sh_apc s) -> sh_stop s = true;
  i_rdead : 3 <= rstage (sh_rpc s) -> sh_wpc s = WDead /\ sh_shutdown s = true;
  i_adead : 3 <= astage (sh_apc s) -> sh_wpc s = WDead /\ sh_shutdown s = true;
  i_rdrain : 4 <= rstage (sh_rpc s) -> sh_jobs s = [] /\ all_exited (sh_workers s) = true;
  i_adrain : 4 <= astage (sh_apc s) -> sh_jobs s = [] /\ all_exited (sh_workers s) = true;
  i_closed : sh_sock_closed s = true ->
             sh_stop s = true /\ sh_wpc s = WDead /\ sh_shutdown s = true /\
             sh_jobs s = [] /\ all_exited (sh_workers s) = true;
  i_acct : submitted_jobs (sh_hist s) = length (sh_jobs s) + nbusy (sh_workers s) + ended_jobs (sh_hist s)
}.

Lemma Inv_init k h n : Inv (shell_init k h n).
Proof.
  constructor; cbn; try discriminate; try lia; auto.
  induction n as [|n IH]; [reflexivity|exact IH].
Qed.

Lemma rpc_settled_stage p : rpc_settled p = true -> rstage p <= 1 /\ (rstage p = 1 -> p = RCl1).
Proof. destruct p; cbn; intros H; try discriminate H; split; try lia; auto; discriminate. Qed.

Lemma Inv_settle s todo : Inv s -> Inv (settle s todo).
Proof.
  intros [i1 i2 i3 i4 i5 i6 i7 i8 i9].
  destruct (settle_spec todo s) as ([] & Hrpc & Hcl1).
  destruct st_hist0 as (js & es & Hj & Hh & He & Hc & Hs).
  apply rpc_settled_stage in Hrpc. destruct Hrpc as [Hle H1].
  set (s' := settle s todo) in *.
  assert (Hjs : sh_shutdown s = true -> sh_jobs s' = sh_jobs s).
  { intros H. rewrite Hj, (Hs H), app_nil_r. reflexivity. }
  constructor.
  - rewrite st_start0, st_wpc0. exact i1.
  - intros H. apply Hcl1, H1. lia.
  - rewrite st_apc0. auto.
  - intros H. lia.
  - rewrite st_apc0, st_wpc0, st_shutdown0. exact i5.
  - intros H. lia.
  - rewrite st_apc0, st_workers0. intros H. destruct (i5 ltac:(lia)) as [_ Hsd].
    rewrite (Hjs Hsd). auto.
  - rewrite st_closed0, st_wpc0, st_shutdown0, st_workers0. intros H.
    destruct (i8 H) as (Ha & Hb & Hsd & Hd & Hx). rewrite (Hjs Hsd). auto.
  - rewrite Hh, Hj, st_workers0, submitted_app, ended_app, app_length, (sev_ended _ He). lia.
Qed.

Ltac inv_contra :=
  match goal with
  | H1 : all_exited ?ws = true, H2 : nth_error ?ws _ = Some ?x |- _ =>
      let E := fresh in pose proof (all_exited_nth _ _ _ H1 H2) as E; discriminate E
  end.

Ltac use_hyps :=
  repeat match goal with
         | H : _ /\ _ |- _ => destruct H
         | H : ?A -> _ |- _ =>
             let HA := fresh in
             assert (HA : A) by (first [assumption | reflexivity | lia]);
             specialize (H HA)
         end.

Ltac proj_cbn :=
  cbn [sh_kind sh_handler sh_start sh_init_expected sh_close_expected sh_stop sh_todo sh_rpc sh_jobs
       sh_njobs sh_workers sh_shutdown sh_outq sh_wpc sh_apc sh_sock_closed sh_exited sh_hist
       set_hist slog set_reader set_rpc set_pool set_out set_misc put submit set_worker].

Ltac acct :=
  proj_cbn; rewrite ?submitted_app, ?ended_app, ?app_length;
  try match goal with H : sh_jobs ?s = _ |- _ => rewrite H end;
  try match goal with |- context [if ?b then _ else _] => destruct b end;
  repeat match goal with
         | H : nth_error ?ws ?w = Some ?y |- context [nbusy (updw ?w ?x ?ws)] =>
             let E := fresh in pose proof (nbusy_updw ws w x y H) as E; revert E
         end;
  cbn; intros; lia.

Ltac inv_fin :=
  cbn [rstage astage] in *; cbn; intros; use_hyps; subst;
  try discriminate; try lia; try inv_contra;
  repeat split; try assumption; try reflexivity; try congruence.

Lemma Inv_step s th a s' : step s th a = Some s' -> Inv s -> Inv s'.
Proof.
  intros H [i1 i2 i3 i4 i5 i6 i7 i8 i9]. revert i1 i2 i3 i4 i5 i6 i7 i8 i9.
  step_inv H th a; intros i1 i2 i3 i4 i5 i6 i7 i8 i9;
    try apply Inv_settle;
    (constructor; [inv_fin|inv_fin|inv_fin|inv_fin|inv_fin|inv_fin|inv_fin|inv_fin|try (revert i9; acct)]).
  all: idtac "LEFT".
  Show.
Qed.
