(* Proofs/ShellClose.v — C20 "teardown: close requests stop the server; I/O
   failures reach the handler", over the connection-level LTS Model/Shell.v. *)
From Coq Require Import String List Ascii NArith ZArith Bool Arith Lia.
From LS Require Import Model.Bytes Model.Tags Model.AriReply Model.Shell Model.ShellSpec.
Import ListNotations.

Definition sreach (k : server_kind) (h : handler) (n : nat) (s : shell) : Prop :=
  exists ls, run (shell_init k h n) ls = Some s.

(* ================================================================== *)
(* 0. Small list / history library                                      *)
(* ================================================================== *)

Lemma count_app {A} (f : A -> bool) (a b : list A) : count f (a ++ b) = count f a + count f b.
Proof. unfold count. rewrite filter_app, app_length. reflexivity. Qed.

Lemma submitted_app h es : submitted_jobs (h ++ es) = submitted_jobs h + submitted_jobs es.
Proof. apply count_app. Qed.
Lemma ended_app h es : ended_jobs (h ++ es) = ended_jobs h + ended_jobs es.
Proof. apply count_app. Qed.

Lemma puts_of_app h es : puts_of (h ++ es) = puts_of h ++ puts_of es.
Proof.
  induction h as [|e r IH]; [reflexivity|].
  rewrite <- app_comm_cons. destruct e; cbn [puts_of]; rewrite IH; reflexivity.
Qed.
Lemma written_of_app h es : written_of (h ++ es) = written_of h ++ written_of es.
Proof.
  induction h as [|e r IH]; [reflexivity|].
  rewrite <- app_comm_cons. destruct e; cbn [written_of]; rewrite IH; reflexivity.
Qed.

Lemma has_event_app f h es : has_event f (h ++ es) = has_event f h || has_event f es.
Proof. apply existsb_app. Qed.

(* events appended by [settle] *)
Definition sev (e : sevent) : bool :=
  match e with
  | EHand ThReader | ESubmit _ _ | EStopFlag ThReader | EReaderEnd => true
  | _ => false
  end.

Lemma sev_puts es : forallb sev es = true -> puts_of es = [].
Proof.
  induction es as [|e r IH]; [reflexivity|]. cbn [forallb]. intros H.
  apply andb_true_iff in H. destruct H as [He Hr].
  destruct e; try discriminate He; cbn [puts_of]; auto.
Qed.
Lemma sev_written es : forallb sev es = true -> written_of es = [].
Proof.
  induction es as [|e r IH]; [reflexivity|]. cbn [forallb]. intros H.
  apply andb_true_iff in H. destruct H as [He Hr].
  destruct e; try discriminate He; cbn [written_of]; auto.
Qed.
Lemma sev_ended es : forallb sev es = true -> ended_jobs es = 0.
Proof.
  induction es as [|e r IH]; [reflexivity|]. cbn [forallb]. intros H.
  apply andb_true_iff in H. destruct H as [He Hr].
  destruct e; try discriminate He; unfold ended_jobs, count in *; cbn [filter]; auto.
Qed.
Lemma sev_handio es : forallb sev es = true -> has_event is_handio es = false.
Proof.
  induction es as [|e r IH]; [reflexivity|]. cbn [forallb]. intros H.
  apply andb_true_iff in H. destruct H as [He Hr].
  destruct e; try discriminate He; cbn [has_event existsb is_handio orb]; auto.
Qed.
Lemma sev_exit es : forallb sev es = true -> has_event is_exit es = false.
Proof.
  induction es as [|e r IH]; [reflexivity|]. cbn [forallb]. intros H.
  apply andb_true_iff in H. destruct H as [He Hr].
  destruct e; try discriminate He; cbn [has_event existsb is_exit orb]; auto.
Qed.

(* ================================================================== *)
(* 1. What [settle] does                                                *)
(* ================================================================== *)

(* pcs at which settle leaves the reader *)
Definition rpc_settled (p : rpc) : bool :=
  match p with
  | RRecv | RInitB _ _ | RInitPut _ _ | RHandY | RFalPut | RHandDie | RLock1 | RCl1 | RDead => true
  | _ => false
  end.

Record sett (s s' : shell) : Prop := {
  st_kind : sh_kind s' = sh_kind s;
  st_handler : sh_handler s' = sh_handler s;
  st_start : sh_start s' = sh_start s;
  st_workers : sh_workers s' = sh_workers s;
  st_shutdown : sh_shutdown s' = sh_shutdown s;
  st_outq : sh_outq s' = sh_outq s;
  st_wpc : sh_wpc s' = sh_wpc s;
  st_apc : sh_apc s' = sh_apc s;
  st_closed : sh_sock_closed s' = sh_sock_closed s;
  st_exited : sh_exited s' = sh_exited s;
  st_stop : sh_stop s = true -> sh_stop s' = true;
  st_hist : exists js es, sh_jobs s' = sh_jobs s ++ js /\ sh_hist s' = sh_hist s ++ es /\
                          forallb sev es = true /\ submitted_jobs es = length js /\
                          (sh_shutdown s = true -> js = [])
}.

Lemma sett_refl s : sett s s.
Proof.
  constructor; try reflexivity; auto.
  exists [], []. rewrite !app_nil_r. repeat split; auto.
Qed.

Lemma sett_trans s s1 s2 : sett s s1 -> sett s1 s2 -> sett s s2.
Proof.
  intros [] []. constructor; try congruence; auto.
  destruct st_hist0 as (js & es & Hj & Hh & He & Hc & Hs).
  destruct st_hist1 as (js' & es' & Hj' & Hh' & He' & Hc' & Hs').
  exists (js ++ js'), (es ++ es'). rewrite Hj', Hj, Hh', Hh, !app_assoc.
  repeat split; auto.
  - rewrite forallb_app, He, He'. reflexivity.
  - rewrite submitted_app, app_length. lia.
  - intros H. rewrite Hs by exact H. rewrite Hs'; [reflexivity|congruence].
Qed.

Lemma sett_slog s es : forallb sev es = true -> submitted_jobs es = 0 -> sett s (slog s es).
Proof.
  intros He Hc. constructor; try reflexivity; auto.
  exists [], es. cbn. rewrite app_nil_r. repeat split; auto.
Qed.

Lemma sett_reader s ie ce td p : sett s (set_reader s ie ce td p).
Proof.
  constructor; try reflexivity; auto.
  exists [], []. cbn. rewrite !app_nil_r. repeat split; auto.
Qed.

Lemma sett_stopflag s :
  sett s (set_misc s (sh_start s) true (sh_apc s) (sh_sock_closed s) (sh_exited s)).
Proof.
  constructor; try reflexivity; auto.
  exists [], []. cbn. rewrite !app_nil_r. repeat split; auto.
Qed.

Lemma sett_submit s k : sh_shutdown s = false -> sett s (submit s k).
Proof.
  intros Hsd. constructor; try reflexivity; auto.
  exists [(sh_njobs s, k)], [ESubmit (sh_njobs s) k]. cbn. repeat split; auto.
  rewrite Hsd. discriminate.
Qed.

Definition sspec (s s' : shell) : Prop :=
  sett s s' /\ rpc_settled (sh_rpc s') = true /\ (sh_rpc s' = RCl1 -> sh_stop s' = true).

Lemma sspec_trans s s1 s2 : sett s s1 -> sspec s1 s2 -> sspec s s2.
Proof. intros H [H1 H2]. split; [eapply sett_trans; eassumption|exact H2]. Qed.

Ltac sett_solve :=
  lazymatch goal with
  | |- sett ?s ?s => apply sett_refl
  | |- sett ?s (slog ?x ?es) => apply (sett_trans s x); [sett_solve | apply sett_slog; reflexivity]
  | |- sett ?s (set_reader ?x _ _ _ _) => apply (sett_trans s x); [sett_solve | apply sett_reader]
  | |- sett ?s (set_misc ?x _ true _ _ _) => apply (sett_trans s x); [sett_solve | apply sett_stopflag]
  | |- sett ?s (submit ?x _) => apply (sett_trans s x); [sett_solve | apply sett_submit; assumption]
  end.

Ltac sspec_leaf :=
  split; [sett_solve | split; [reflexivity | cbn; try discriminate; auto]].

Ltac innermost x :=
  lazymatch x with
  | match ?y with _ => _ end => innermost y
  | _ => constr:(x)
  end.

Ltac settle_case IH :=
  cbn [negb];
  first [ apply IH
        | solve [sspec_leaf]
        | solve [eapply sspec_trans; [|apply IH]; sett_solve]
        | lazymatch goal with
          | |- sspec _ (match ?x with _ => _ end) =>
              let y := innermost x in destruct y eqn:?; settle_case IH
          end ].

Lemma settle_spec : forall todo s, sspec s (settle s todo).
Proof.
  induction todo as [|ln rest IH]; intros s; cbn [settle].
  - destruct (sh_stop s) eqn:Hstop; sspec_leaf.
  - unfold reader_hand. destruct ln as [|id0 rok|rid wf refused oldv|rid wf known]; settle_case IH.
Qed.

Lemma settle_sett s todo : sett s (settle s todo).
Proof. apply settle_spec. Qed.
Lemma settle_rpc s todo : rpc_settled (sh_rpc (settle s todo)) = true.
Proof. apply settle_spec. Qed.
Lemma settle_cl1 s todo : sh_rpc (settle s todo) = RCl1 -> sh_stop (settle s todo) = true.
Proof. apply settle_spec. Qed.

(* ================================================================== *)
(* 2. Step inversion                                                    *)
(* ================================================================== *)

Definition is_exited (w : wstate) : bool := match w with KExited => true | _ => false end.
Notation all_exited ws := (forallb is_exited ws).

Ltac scrut x :=
  lazymatch x with
  | match ?y with _ => _ end => scrut y
  | negb ?y => scrut y
  | andb ?y _ => scrut y
  | is_nil ?y => scrut y
  | _ => constr:(x)
  end.

(* H : step s th a = Some s'.  Leaves one goal per enabled transition, with s' replaced by its
   expression and every guard recorded as an equation (also rewritten in the goal). *)
Ltac step_inv H th a :=
  unfold step, io_fail, writer_dead, pool_drained in H; fold is_exited in H;
  lazymatch type of H with
  | (if sh_exited ?s then _ else _) = _ =>
      let Hex := fresh "Hex" in destruct (sh_exited s) eqn:Hex; [discriminate H|]
  end;
  destruct th; destruct a; cbn [negb andb is_nil] in H; try discriminate H;
  repeat (lazymatch type of H with
          | match ?x with _ => _ end = Some _ =>
              let y := scrut x in destruct y eqn:?; cbn [negb andb is_nil] in H; try discriminate H
          end);
  injection H as <-.


Lemma all_exited_nth ws : forall w x, all_exited ws = true -> nth_error ws w = Some x -> x = KExited.
Proof.
  induction ws as [|y r IH]; intros [|w] x Ha Hn; cbn in Hn; try discriminate.
  - inversion Hn; subst. cbn in Ha. destruct x; try discriminate Ha. reflexivity.
  - cbn in Ha. apply andb_true_iff in Ha. eapply IH; [apply Ha|exact Hn].
Qed.

Definition is_busy (w : wstate) : bool :=
  match w with KBusy _ _ _ _ | KHandFal _ _ _ => true | _ => false end.
Definition busy1 (w : wstate) : nat := if is_busy w then 1 else 0.
Fixpoint nbusy (ws : list wstate) : nat :=
  match ws with [] => 0 | w :: r => busy1 w + nbusy r end.

Lemma nbusy_updw ws : forall w x y, nth_error ws w = Some y ->
  nbusy (updw w x ws) + busy1 y = nbusy ws + busy1 x.
Proof.
  induction ws as [|z r IH]; intros [|w] x y Hn; cbn in Hn; try discriminate.
  - inversion Hn; subst. cbn [updw nbusy]. lia.
  - cbn [updw nbusy]. specialize (IH w x y Hn). lia.
Qed.

Lemma all_exited_nbusy ws : all_exited ws = true -> nbusy ws = 0.
Proof.
  induction ws as [|y r IH]; [reflexivity|]. cbn [forallb nbusy]. intros H.
  apply andb_true_iff in H. destruct H as [Hy Hr]. rewrite (IH Hr).
  destruct y; try discriminate Hy. reflexivity.
Qed.

Lemma pool_drained_iff s :
  pool_drained s = true <-> sh_jobs s = [] /\ all_exited (sh_workers s) = true.
Proof.
  unfold pool_drained. rewrite andb_true_iff. destruct (sh_jobs s); cbn; intuition discriminate.
Qed.

(* ================================================================== *)
(* 3. The inductive invariant behind inv_closed                         *)
(* ================================================================== *)

Definition rstage (p : rpc) : nat :=
  match p with RCl1 => 1 | RCl2 => 2 | RCl3 => 3 | RCl4 => 4 | _ => 0 end.
Definition astage (a : apc) : nat :=
  match a with ACl1 => 1 | ACl2 => 2 | ACl3 => 3 | ACl4 => 4 | _ => 0 end.

Record Inv (s : shell) : Prop := {
  i_start : sh_start s = 0 -> sh_wpc s = WNotStarted;
  i_rstop : 1 <= rstage (sh_rpc s) -> sh_stop s = true;
  i_astop : 1 <= astage (sh_apc s) -> sh_stop s = true;
  i_rdead : 3 <= rstage (sh_rpc s) -> sh_wpc s = WDead /\ sh_shutdown s = true;
  i_adead : 3 <= astage (sh_apc s) -> sh_wpc s = WDead /\ sh_shutdown s = true;
  i_rdrain : 4 <= rstage (sh_rpc s) -> sh_jobs s = [] /\ all_exited (sh_workers s) = true;
  i_adrain : 4 <= astage (sh_apc s) -> sh_jobs s = [] /\ all_exited (sh_workers s) = true;
  i_closed : sh_sock_closed s = true ->
             sh_stop s = true /\ sh_wpc s = WDead /\ sh_shutdown s = true /\
             sh_jobs s = [] /\ all_exited (sh_workers s) = true;
  i_acct : submitted_jobs (sh_hist s) = length (sh_jobs s) + nbusy (sh_workers s) + ended_jobs (sh_hist s)
}.

Lemma Inv_init k h n : Inv (shell_init k h n).
Proof.
  constructor; cbn; try discriminate; try lia; auto.
  induction n as [|n IH]; [reflexivity|exact IH].
Qed.

Lemma rpc_settled_stage p : rpc_settled p = true -> rstage p <= 1 /\ (rstage p = 1 -> p = RCl1).
Proof. destruct p; cbn; intros H; try discriminate H; split; try lia; auto; discriminate. Qed.

Lemma Inv_settle s todo : Inv s -> Inv (settle s todo).
Proof.
  intros [i1 i2 i3 i4 i5 i6 i7 i8 i9].
  destruct (settle_spec todo s) as ([] & Hrpc & Hcl1).
  destruct st_hist0 as (js & es & Hj & Hh & He & Hc & Hs).
  apply rpc_settled_stage in Hrpc. destruct Hrpc as [Hle H1].
  set (s' := settle s todo) in *.
  assert (Hjs : sh_shutdown s = true -> sh_jobs s' = sh_jobs s).
  { intros H. rewrite Hj, (Hs H), app_nil_r. reflexivity. }
  constructor.
  - rewrite st_start0, st_wpc0. exact i1.
  - intros H. apply Hcl1, H1. lia.
  - rewrite st_apc0. auto.
  - intros H. lia.
  - rewrite st_apc0, st_wpc0, st_shutdown0. exact i5.
  - intros H. lia.
  - rewrite st_apc0, st_workers0. intros H. destruct (i5 ltac:(lia)) as [_ Hsd].
    rewrite (Hjs Hsd). auto.
  - rewrite st_closed0, st_wpc0, st_shutdown0, st_workers0. intros H.
    destruct (i8 H) as (Ha & Hb & Hsd & Hd & Hx). rewrite (Hjs Hsd). auto.
  - rewrite Hh, Hj, st_workers0, submitted_app, ended_app, app_length, (sev_ended _ He). lia.
Qed.

Ltac inv_contra :=
  match goal with
  | H1 : all_exited ?ws = true, H2 : nth_error ?ws _ = Some ?x |- _ =>
      let E := fresh in pose proof (all_exited_nth _ _ _ H1 H2) as E; discriminate E
  end.

Ltac use_hyps :=
  repeat match goal with
         | H : _ /\ _ |- _ => destruct H
         | H : ?A -> _ |- _ =>
             let HA := fresh in
             assert (HA : A) by (first [assumption | reflexivity | lia]);
             specialize (H HA)
         end.

Ltac proj_cbn :=
  cbn [sh_kind sh_handler sh_start sh_init_expected sh_close_expected sh_stop sh_todo sh_rpc sh_jobs
       sh_njobs sh_workers sh_shutdown sh_outq sh_wpc sh_apc sh_sock_closed sh_exited sh_hist
       set_hist slog set_reader set_rpc set_pool set_out set_misc put submit set_worker].

Ltac acct :=
  proj_cbn; rewrite ?submitted_app, ?ended_app, ?app_length;
  try match goal with H : sh_jobs ?s = _ |- _ => rewrite H end;
  try match goal with |- context [if ?b then _ else _] => destruct b end;
  try match goal with
      | H : nth_error ?ws ?w = Some ?y |- context [nbusy (updw ?w ?x ?ws)] =>
          let E := fresh in pose proof (nbusy_updw ws w x y H) as E; revert E
      end;
  cbn; intros; subst; lia.

Ltac rw_eqs :=
  repeat match goal with
         | H : ?l = _ |- context [?l] =>
             lazymatch l with
             | sh_rpc _ => rewrite H
             | sh_apc _ => rewrite H
             | sh_wpc _ => rewrite H
             | sh_start _ => rewrite H
             | sh_stop _ => rewrite H
             | sh_jobs _ => rewrite H
             | sh_sock_closed _ => rewrite H
             | sh_shutdown _ => rewrite H
             | sh_handler _ => rewrite H
             end
         end.

Ltac inv_fin :=
  proj_cbn; rw_eqs; cbn [rstage astage] in *; cbn; intros; use_hyps; subst;
  try discriminate; try lia; try inv_contra;
  repeat split; try assumption; try reflexivity; try congruence.

Lemma Inv_step s th a s' : step s th a = Some s' -> Inv s -> Inv s'.
Proof.
  intros H [i1 i2 i3 i4 i5 i6 i7 i8 i9]. revert i1 i2 i3 i4 i5 i6 i7 i8 i9.
  step_inv H th a; intros i1 i2 i3 i4 i5 i6 i7 i8 i9;
    try apply Inv_settle;
    (constructor;
     [inv_fin|inv_fin|inv_fin|inv_fin|inv_fin|inv_fin|inv_fin|inv_fin|revert i9; acct]).
Qed.

Lemma Inv_run : forall ls s s', Inv s -> run s ls = Some s' -> Inv s'.
Proof.
  induction ls as [|[th a] ls IH]; intros s s' Hi Hr; cbn [run] in Hr.
  - inversion Hr; subst; exact Hi.
  - destruct (step s th a) as [s1|] eqn:Hs; [|discriminate].
    eapply IH; [|exact Hr]. eapply Inv_step; eassumption.
Qed.

Lemma Inv_reach k h n s : sreach k h n s -> Inv s.
Proof. intros [ls Hr]. eapply Inv_run; [apply Inv_init|exact Hr]. Qed.

Lemma Inv_closed s : Inv s -> inv_closed s = true.
Proof.
  intros [i1 i2 i3 i4 i5 i6 i7 i8 i9]. unfold inv_closed.
  destruct (sh_sock_closed s) eqn:Hc; [|reflexivity]. cbn [negb orb].
  destruct (i8 eq_refl) as (Ha & Hb & Hsd & Hj & Hx).
  assert (Hd : pool_drained s = true) by (apply pool_drained_iff; auto).
  unfold writer_dead. rewrite Hb, Hd. cbn [andb].
  rewrite i9, Hj, (all_exited_nbusy _ Hx). cbn. apply Nat.eqb_refl.
Qed.

Theorem inv_closed_reachable : forall k h n s, sreach k h n s -> inv_closed s = true.
Proof. intros k h n s Hr. apply Inv_closed. eapply Inv_reach; exact Hr. Qed.

(* ================================================================== *)
(* 4. exit_ok                                                           *)
(* ================================================================== *)

Lemma exit_ok_from_app h es : forall b,
  exit_ok_from b (h ++ es) = exit_ok_from b h && exit_ok_from (b || has_event is_handio h) es.
Proof.
  induction h as [|e r IH]; intros b.
  - cbn. rewrite orb_false_r. reflexivity.
  - rewrite <- app_comm_cons. destruct e; cbn [exit_ok_from has_event existsb is_handio orb]; rewrite ?IH;
      rewrite ?orb_true_r, ?andb_assoc; try reflexivity.
Qed.

Lemma exit_append h es :
  exit_ok h = true -> (forall b, exit_ok_from b es = true) -> exit_ok (h ++ es) = true.
Proof. unfold exit_ok. intros Hh He. rewrite exit_ok_from_app, Hh, He. reflexivity. Qed.

Lemma noexit_ok es : has_event is_exit es = false -> forall b, exit_ok_from b es = true.
Proof.
  induction es as [|e r IH]; intros H b; [reflexivity|].
  cbn [has_event existsb] in H. apply orb_false_iff in H. destruct H as [He Hr].
  destruct e; cbn [exit_ok_from]; try discriminate He; apply IH; exact Hr.
Qed.

Lemma exit_settle s todo : exit_ok (sh_hist s) = true -> exit_ok (sh_hist (settle s todo)) = true.
Proof.
  intros H. destruct (settle_sett s todo) as [_ _ _ _ _ _ _ _ _ _ _ (js & es & _ & Hh & He & _)].
  rewrite Hh. apply exit_append; [exact H|]. apply noexit_ok, sev_exit, He.
Qed.

Lemma exit_ok_step s th a s' :
  step s th a = Some s' -> exit_ok (sh_hist s) = true -> exit_ok (sh_hist s') = true.
Proof.
  intros H Hi.
  step_inv H th a; try apply exit_settle; proj_cbn; rewrite <- ?app_assoc; try exact Hi;
    (apply exit_append; [exact Hi | intros b; reflexivity]).
Qed.

Theorem exit_ok_reachable : forall k h n s, sreach k h n s -> exit_ok (sh_hist s) = true.
Proof.
  intros k h n s [ls Hr].
  assert (G : forall ls s0, exit_ok (sh_hist s0) = true -> run s0 ls = Some s -> exit_ok (sh_hist s) = true).
  { clear. induction ls as [|[th a] ls IH]; intros s0 Hi Hr; cbn [run] in Hr.
    - inversion Hr; subst; exact Hi.
    - destruct (step s0 th a) as [s1|] eqn:Hs; [|discriminate].
      eapply IH; [|exact Hr]. eapply exit_ok_step; eassumption. }
  eapply G; [|exact Hr]. reflexivity.
Qed.

(* ================================================================== *)
(* 5. Without read / write faults: nothing reported, no exit            *)
(* ================================================================== *)

Definition rio (p : rpc) : bool := match p with RIoHand => true | _ => false end.
Definition wio (w : wpc) : bool := match w with WIoHand => true | _ => false end.

Record NF (s : shell) : Prop := {
  n_handio : has_event is_handio (sh_hist s) = false;
  n_exit : has_event is_exit (sh_hist s) = false;
  n_exited : sh_exited s = false;
  n_rio : rio (sh_rpc s) = false;
  n_wio : wio (sh_wpc s) = false
}.

Lemma NF_init k h n : NF (shell_init k h n).
Proof. constructor; reflexivity. Qed.

Lemma NF_settle s todo : NF s -> NF (settle s todo).
Proof.
  intros [n1 n2 n3 n4 n5]. destruct (settle_spec todo s) as ([] & Hrpc & _).
  destruct st_hist0 as (js & es & _ & Hh & He & _).
  constructor.
  - rewrite Hh, has_event_app, n1, (sev_handio _ He). reflexivity.
  - rewrite Hh, has_event_app, n2, (sev_exit _ He). reflexivity.
  - congruence.
  - destruct (sh_rpc (settle s todo)); try reflexivity; discriminate Hrpc.
  - congruence.
Qed.

Lemma NF_step s th a s' :
  step s th a = Some s' -> is_fault (th, a) = false ->
  (sh_sock_closed s = true -> sh_stop s = true) -> NF s -> NF s'.
Proof.
  intros H Hf Hcs [n1 n2 n3 n4 n5]. revert Hf Hcs n1 n2 n3 n4 n5.
  step_inv H th a; cbn [is_fault snd]; intros Hf Hcs n1 n2 n3 n4 n5; try discriminate Hf;
    cbn [rio wio] in *; try discriminate; try (specialize (Hcs eq_refl); discriminate Hcs);
    try apply NF_settle;
    (constructor; proj_cbn; rw_eqs; rewrite ?has_event_app, ?n1, ?n2; try assumption; reflexivity).
Qed.

(* ================================================================== *)
(* 6. The writer: conservation of the outbound queue                    *)
(* ================================================================== *)

Definition is_pill (l : oline) : bool := match l with OStopPill => true | _ => false end.

(* what the writer holds: the line being sent, or the pill it took *)
Definition held (w : wpc) : list oline :=
  match w with WHand l => [l] | WDead => [OStopPill] | _ => [] end.

Record WI (s : shell) : Prop := {
  w_cons : map snd (puts_of (sh_hist s)) = written_of (sh_hist s) ++ held (sh_wpc s) ++ sh_outq s;
  w_nopill : existsb is_pill (written_of (sh_hist s)) = false;
  w_hand : forall l, sh_wpc s = WHand l -> is_pill l = false
}.

Lemma WI_settle s todo : WI s -> WI (settle s todo).
Proof.
  intros [w1 w2 w3]. destruct (settle_sett s todo) as [].
  destruct st_hist0 as (js & es & _ & Hh & He & _).
  constructor.
  - rewrite Hh, puts_of_app, written_of_app, (sev_puts _ He), (sev_written _ He), !app_nil_r,
      st_wpc0, st_outq0. exact w1.
  - rewrite Hh, written_of_app, (sev_written _ He), app_nil_r. exact w2.
  - rewrite st_wpc0. exact w3.
Qed.

Lemma before_pill_cut th : forall w ps r,
  map snd ps = w ++ OStopPill :: r -> existsb is_pill w = false -> before_pill th ps = w.
Proof.
  induction w as [|x w IH]; intros ps r Hm Hn.
  - destruct ps as [|[t l] ps]; [discriminate Hm|]. cbn in Hm. inversion Hm; subst. reflexivity.
  - destruct ps as [|[t l] ps]; [discriminate Hm|]. cbn in Hm. inversion Hm; subst.
    cbn [existsb] in Hn. apply orb_false_iff in Hn. destruct Hn as [Hx Hw].
    cbn [before_pill]. destruct x; try discriminate Hx; f_equal; eapply IH; eauto.
Qed.

Ltac wi_fin :=
  proj_cbn; rw_eqs; rewrite ?puts_of_app, ?written_of_app, ?map_app, ?existsb_app;
  cbn [puts_of written_of map snd held app existsb is_pill orb] in *;
  rewrite ?app_nil_r, ?orb_false_r;
  try assumption;
  try (intros ? E; inversion E; subst; reflexivity);
  try match goal with
      | Hst : 0 = 0 -> sh_wpc _ = WNotStarted, w1 : map snd _ = _ |- _ =>
          rewrite (Hst eq_refl) in w1; exact w1
      | w2 : existsb is_pill _ = false, w3 : forall l, WHand _ = WHand l -> _ |- _ =>
          rewrite w2; apply w3; reflexivity
      end;
  try match goal with
      | w1 : map snd _ = _ |- map snd _ ++ _ = _ => rewrite w1, <- ?app_assoc; reflexivity
      | w1 : map snd _ = _ |- map snd _ = _ => rewrite w1, <- ?app_assoc; reflexivity
      end.

Lemma WI_step s th a s' :
  step s th a = Some s' -> is_fault (th, a) = false ->
  (sh_start s = 0 -> sh_wpc s = WNotStarted) -> wio (sh_wpc s) = false -> WI s -> WI s'.
Proof.
  intros H Hf Hst Hw [w1 w2 w3]. revert Hf Hst Hw w1 w2 w3.
  step_inv H th a; cbn [is_fault snd]; intros Hf Hst Hw w1 w2 w3; try discriminate Hf;
    cbn [wio] in *; try discriminate;
    try apply WI_settle;
    (constructor; [wi_fin|wi_fin|wi_fin]).
Qed.

Lemma WI_init k h n : WI (shell_init k h n).
Proof. constructor; cbn; try reflexivity. intros l H; discriminate H. Qed.

Definition Good (s : shell) : Prop := Inv s /\ NF s /\ WI s.

Lemma Good_run : forall ls s s',
  Good s -> existsb is_fault ls = false -> run s ls = Some s' -> Good s'.
Proof.
  induction ls as [|[th a] ls IH]; intros s s' Hg Hf Hr; cbn [run] in Hr.
  - inversion Hr; subst; exact Hg.
  - destruct (step s th a) as [s1|] eqn:Hs; [|discriminate].
    cbn [existsb] in Hf. apply orb_false_iff in Hf. destruct Hf as [Hf1 Hf2].
    destruct Hg as (Hi & Hn & Hw).
    eapply IH; [|exact Hf2|exact Hr].
    split; [eapply Inv_step; eassumption|]. split.
    + eapply NF_step; try eassumption. intros Hc. apply (i_closed _ Hi Hc).
    + eapply WI_step; try eassumption; [apply (i_start _ Hi)|apply (n_wio _ Hn)].
Qed.

Lemma Good_init k h n : Good (shell_init k h n).
Proof. split; [apply Inv_init|]. split; [apply NF_init|apply WI_init]. Qed.

Theorem no_fault_no_report : forall k h n ls s,
  run (shell_init k h n) ls = Some s -> existsb is_fault ls = false ->
  has_event is_handio (sh_hist s) = false /\ has_event is_exit (sh_hist s) = false /\ sh_exited s = false.
Proof.
  intros k h n ls s Hr Hf.
  destruct (Good_run ls _ _ (Good_init k h n) Hf Hr) as (_ & [n1 n2 n3 _ _] & _). auto.
Qed.

Theorem writer_drains_before_pill : forall k h n ls s,
  run (shell_init k h n) ls = Some s -> existsb is_fault ls = false -> sh_wpc s = WDead ->
  written_of (sh_hist s) = before_pill ThReader (puts_of (sh_hist s)).
Proof.
  intros k h n ls s Hr Hf Hd.
  destruct (Good_run ls _ _ (Good_init k h n) Hf Hr) as (_ & _ & [w1 w2 _]).
  rewrite Hd in w1. cbn [held app] in w1. symmetry. eapply before_pill_cut; eassumption.
Qed.

(* ================================================================== *)
(* 7. One-step facts                                                    *)
(* ================================================================== *)

Theorem close_honoured : forall s,
  sh_close_expected s = true ->
  let s' := settle s [LcClose true true] in
  sh_stop s' = true /\ sh_rpc s' = RCl1 /\ sh_hist s' = sh_hist s ++ [EStopFlag ThReader].
Proof.
  intros s Hc. cbn [settle negb]. rewrite Hc. cbn. auto.
Qed.

Theorem close_ignored : forall s id0 rok,
  sh_close_expected s = false -> sh_init_expected s = false ->
  settle s [LcClose id0 rok] =
    (if sh_stop s then slog (set_reader s (sh_init_expected s) (sh_close_expected s) [] RDead) [EReaderEnd]
     else set_reader s (sh_init_expected s) (sh_close_expected s) [] RRecv).
Proof.
  intros s id0 rok Hc Hi. cbn [settle]. rewrite Hc, Hi. reflexivity.
Qed.

Theorem close_bad_id : forall s rok,
  sh_close_expected s = true ->
  let s' := settle s [LcClose false rok] in
  sh_stop s' = sh_stop s /\ sh_jobs s' = sh_jobs s /\ sh_outq s' = sh_outq s /\
  match sh_handler s with
  | HNone => exists tl, sh_hist s' = sh_hist s ++ EHand ThReader :: tl /\ (tl = [] \/ tl = [EReaderEnd])
  | HRet _ _ => sh_hist s' = sh_hist s /\ sh_rpc s' = RHandY
  end.
Proof.
  intros s rok Hc. cbn [settle negb]. rewrite Hc. unfold reader_hand.
  destruct (sh_handler s) eqn:Hh.
  - destruct (is_data s); cbn.
    + repeat split; auto. exists []. auto.
    + destruct (sh_stop s) eqn:Hs; cbn; rewrite ?Hs; repeat split; auto.
      * exists [EReaderEnd]. rewrite <- app_assoc. auto.
      * exists []. auto.
  - cbn. auto.
Qed.

Ltac proj_cbn_in H :=
  cbn [sh_kind sh_handler sh_start sh_init_expected sh_close_expected sh_stop sh_todo sh_rpc sh_jobs
       sh_njobs sh_workers sh_shutdown sh_outq sh_wpc sh_apc sh_sock_closed sh_exited sh_hist
       set_hist slog set_reader set_rpc set_pool set_out set_misc put submit set_worker] in H.

(* the close sequence, transition by transition *)
Lemma step_r_pill s : sh_exited s = false -> sh_rpc s = RCl1 ->
  step s ThReader (APut OStopPill) = Some (set_rpc (put s ThReader OStopPill) RCl2).
Proof. intros Hex Hr. unfold step. rewrite Hex, Hr. reflexivity. Qed.
Lemma step_r_join s : sh_exited s = false -> sh_rpc s = RCl2 ->
  step s ThReader AJoin =
  if writer_dead s
  then Some (slog (set_rpc (set_pool s (sh_jobs s) (sh_njobs s) (sh_workers s) true) RCl3) [EPoolShutdown ThReader])
  else None.
Proof. intros Hex Hr. unfold step. rewrite Hex, Hr. reflexivity. Qed.
Lemma step_r_wait s : sh_exited s = false -> sh_rpc s = RCl3 ->
  step s ThReader AShutdownWait = if pool_drained s then Some (set_rpc s RCl4) else None.
Proof. intros Hex Hr. unfold step. rewrite Hex, Hr. reflexivity. Qed.
Lemma step_r_sock s : sh_exited s = false -> sh_rpc s = RCl4 ->
  step s ThReader ASockClose =
  Some (settle (slog (set_misc s (sh_start s) (sh_stop s) (sh_apc s) true (sh_exited s)) [ESockClosed ThReader])
               (sh_todo s)).
Proof. intros Hex Hr. unfold step. rewrite Hex, Hr. reflexivity. Qed.

Lemma step_exited s th a s' : step s th a = Some s' -> sh_exited s = false.
Proof. unfold step. destruct (sh_exited s); [discriminate|reflexivity]. Qed.

Theorem close_sequence_reader : forall s s1 s2 s3 s4,
  sh_rpc s = RCl1 ->
  step s ThReader (APut OStopPill) = Some s1 -> step s1 ThReader AJoin = Some s2 ->
  step s2 ThReader AShutdownWait = Some s3 -> step s3 ThReader ASockClose = Some s4 ->
  sh_rpc s1 = RCl2 /\ writer_dead s1 = true /\ sh_shutdown s2 = true /\ pool_drained s2 = true /\ sh_sock_closed s4 = true.
Proof.
  intros s s1 s2 s3 s4 Hr H1 H2 H3 H4.
  pose proof (step_exited _ _ _ _ H1) as Hex.
  rewrite (step_r_pill s Hex Hr) in H1. injection H1 as <-.
  rewrite step_r_join in H2; [|exact Hex|reflexivity].
  destruct (writer_dead (set_rpc (put s ThReader OStopPill) RCl2)) eqn:Hwd; [|discriminate H2].
  injection H2 as <-.
  rewrite step_r_wait in H3; [|exact Hex|reflexivity].
  match type of H3 with (if ?b then _ else _) = _ => destruct b eqn:Hpd; [|discriminate H3] end.
  injection H3 as <-.
  rewrite step_r_sock in H4; [|exact Hex|reflexivity]. injection H4 as <-.
  repeat split; try assumption; try reflexivity.
  rewrite (st_closed _ _ (settle_sett _ _)). reflexivity.
Qed.

Theorem join_waits_for_writer : forall s, sh_exited s = false -> sh_rpc s = RCl2 ->
  (step s ThReader AJoin <> None <-> writer_dead s = true).
Proof.
  intros s Hex Hr. unfold step. rewrite Hex, Hr.
  destruct (writer_dead s); split; intros H; try reflexivity; try discriminate.
  exfalso; apply H; reflexivity.
Qed.

Theorem shutdown_waits_for_pool : forall s, sh_exited s = false -> sh_rpc s = RCl3 ->
  (step s ThReader AShutdownWait <> None <-> pool_drained s = true).
Proof.
  intros s Hex Hr. unfold step. rewrite Hex, Hr.
  destruct (pool_drained s); split; intros H; try reflexivity; try discriminate.
  exfalso; apply H; reflexivity.
Qed.

Theorem read_fault_reported : forall s a s',
  sh_exited s = false -> sh_rpc s = RRecv -> (a = ARecvEof \/ a = ARecvErr) -> sh_sock_closed s = false ->
  step s ThReader a = Some s' ->
  if sh_stop s then sh_hist s' = sh_hist s ++ [EReaderEnd] /\ sh_exited s' = false
  else match sh_handler s with
       | HNone => sh_hist s' = sh_hist s ++ [EHandIO ThReader; EExit] /\ sh_exited s' = true
       | HRet _ _ => sh_hist s' = sh_hist s /\ sh_rpc s' = RIoHand
       end.
Proof.
  intros s a s' Hex Hr Ha Hc H.
  destruct Ha; subst a; unfold step, io_fail in H; rewrite Hex, Hr, Hc in H; cbn [negb] in H;
    (destruct (sh_stop s);
     [injection H as <-; cbn; auto
     |destruct (sh_handler s); injection H as <-; cbn; rewrite <- ?app_assoc; auto]).
Qed.

Theorem own_close_read_silent : forall s s',
  sh_exited s = false -> sh_rpc s = RRecv -> sh_sock_closed s = true -> sh_stop s = true ->
  step s ThReader ARecvClosed = Some s' -> sh_hist s' = sh_hist s ++ [EReaderEnd] /\ sh_exited s' = false.
Proof.
  intros s s' Hex Hr Hc Hst H.
  unfold step in H. rewrite Hex, Hr, Hc, Hst in H. cbn [negb] in H. injection H as <-. cbn. auto.
Qed.

Theorem io_handler_decides_reader : forall s ret s' ex io,
  sh_exited s = false -> sh_rpc s = RIoHand -> sh_handler s = HRet ex io ->
  step s ThReader (AHandIO ret) = Some s' ->
  ret = io /\ sh_exited s' = ret /\ sh_rpc s' = RDead /\
  sh_hist s' = sh_hist s ++ (if ret then [EHandIO ThReader; EExit] else [EHandIO ThReader; EReaderEnd]).
Proof.
  intros s ret s' ex io Hex Hr Hh H.
  unfold step in H. rewrite Hex, Hr, Hh in H.
  destruct ret, io; cbn in H; try discriminate H; injection H as <-; cbn; auto.
Qed.

Theorem write_fault_reported : forall s l s',
  sh_exited s = false -> sh_wpc s = WHand l -> step s ThWriter (ASend false) = Some s' ->
  match sh_handler s with
  | HNone => sh_hist s' = sh_hist s ++ [EHandIO ThWriter; EExit] /\ sh_exited s' = true /\ sh_wpc s' = WDead
  | HRet _ _ => sh_hist s' = sh_hist s /\ sh_wpc s' = WIoHand
  end.
Proof.
  intros s l s' Hex Hw H.
  unfold step, io_fail in H. rewrite Hex, Hw in H.
  destruct (sh_handler s); injection H as <-; cbn; rewrite <- ?app_assoc; auto.
Qed.

Theorem io_handler_decides_writer : forall s ret s' ex io,
  sh_exited s = false -> sh_wpc s = WIoHand -> sh_handler s = HRet ex io ->
  step s ThWriter (AHandIO ret) = Some s' ->
  ret = io /\ sh_exited s' = ret /\ sh_wpc s' = WDead.
Proof.
  intros s ret s' ex io Hex Hw Hh H.
  unfold step in H. rewrite Hex, Hw, Hh in H.
  destruct ret, io; cbn in H; try discriminate H; injection H as <-; cbn; auto.
Qed.

Lemma step_a_start s : sh_exited s = false -> sh_apc s = ADone -> Nat.leb 3 (sh_start s) = true ->
  step s ThApp AStart =
  Some (slog (set_misc s (sh_start s) true ACl1 (sh_sock_closed s) (sh_exited s)) [EStopFlag ThApp]).
Proof. intros Hex Ha Hle. unfold step. rewrite Hex, Ha, Hle. reflexivity. Qed.
Lemma step_a_pill s : sh_exited s = false -> sh_apc s = ACl1 ->
  step s ThApp (APut OStopPill) =
  Some (set_misc (put s ThApp OStopPill) (sh_start s) (sh_stop s) ACl2 (sh_sock_closed s) (sh_exited s)).
Proof. intros Hex Ha. unfold step. rewrite Hex, Ha. reflexivity. Qed.
Lemma step_a_join s : sh_exited s = false -> sh_apc s = ACl2 -> sh_wpc s = WDead ->
  step s ThApp AJoin =
  Some (slog (set_misc (set_pool s (sh_jobs s) (sh_njobs s) (sh_workers s) true)
                       (sh_start s) (sh_stop s) ACl3 (sh_sock_closed s) (sh_exited s)) [EPoolShutdown ThApp]).
Proof. intros Hex Ha Hw. unfold step, writer_dead. rewrite Hex, Ha, Hw. reflexivity. Qed.
Lemma step_a_wait s : sh_exited s = false -> sh_apc s = ACl3 -> pool_drained s = true ->
  step s ThApp AShutdownWait =
  Some (set_misc s (sh_start s) (sh_stop s) ACl4 (sh_sock_closed s) (sh_exited s)).
Proof. intros Hex Ha Hp. unfold step. rewrite Hex, Ha, Hp. reflexivity. Qed.
Lemma step_a_sock s : sh_exited s = false -> sh_apc s = ACl4 ->
  step s ThApp ASockClose =
  Some (slog (set_misc s (sh_start s) (sh_stop s) ADone true (sh_exited s)) [ESockClosed ThApp]).
Proof. intros Hex Ha. unfold step. rewrite Hex, Ha. reflexivity. Qed.

Theorem reclose_possible : forall s,
  sh_exited s = false -> sh_apc s = ADone -> (3 <= sh_start s)%nat -> inv_closed s = true -> sh_sock_closed s = true ->
  exists s5, run s [(ThApp, AStart); (ThApp, APut OStopPill); (ThApp, AJoin); (ThApp, AShutdownWait); (ThApp, ASockClose)] = Some s5 /\
             sh_apc s5 = ADone /\ sh_exited s5 = false.
Proof.
  intros s Hex Hapc Hle Hic Hc.
  unfold inv_closed in Hic. rewrite Hc in Hic. cbn [negb orb] in Hic.
  apply andb_true_iff in Hic. destruct Hic as [Hic _].
  apply andb_true_iff in Hic. destruct Hic as [Hwd Hpd].
  assert (Hw : sh_wpc s = WDead).
  { unfold writer_dead in Hwd. destruct (sh_wpc s); try discriminate Hwd. reflexivity. }
  apply Nat.leb_le in Hle.
  eexists. split.
  - cbn [run].
    rewrite (step_a_start s Hex Hapc Hle).
    rewrite step_a_pill; [|exact Hex|reflexivity].
    rewrite step_a_join; [|exact Hex|reflexivity|exact Hw].
    rewrite step_a_wait; [|exact Hex|reflexivity|exact Hpd].
    rewrite step_a_sock; [|exact Hex|reflexivity].
    reflexivity.
  - split; [reflexivity|]. exact Hex.
Qed.

Print Assumptions inv_closed_reachable.
Print Assumptions exit_ok_reachable.
Print Assumptions no_fault_no_report.
Print Assumptions close_honoured.
Print Assumptions close_ignored.
Print Assumptions close_bad_id.
Print Assumptions close_sequence_reader.
Print Assumptions join_waits_for_writer.
Print Assumptions shutdown_waits_for_pool.
Print Assumptions writer_drains_before_pill.
Print Assumptions read_fault_reported.
Print Assumptions own_close_read_silent.
Print Assumptions io_handler_decides_reader.
Print Assumptions write_fault_reported.
Print Assumptions io_handler_decides_writer.
Print Assumptions reclose_possible.
