(* Proofs/ItemGlobal.v — from one item to any number of items.
   The Data server's subscription state is a family of per-item states; every
   step of the global system is a step of exactly one item (each field of an
   _ItemTaskManager is touched only by steps about that item; items interact
   only through the worker pool, which decides WHEN an enabled job step happens,
   and through the manager lock, which makes regions atomic).  Whatever
   restricts the global system further (pool capacity, scheduling) only removes
   executions, so every per-item safety theorem holds for every item of every
   globally reachable state. *)
From Coq Require Import String List Ascii NArith ZArith Bool.
From LS Require Import Model.Bytes Model.Item Model.ItemSpec Proofs.ItemInv.
Import ListNotations.

Definition gstate := bytes -> istate.
Definition ginit : gstate := fun i => init_state i.

Definition gupd (g : gstate) (i : bytes) (s : istate) : gstate :=
  fun k => if bytes_eqb k i then s else g k.

(* [allowed] stands for any further restriction of the global system (a free
   worker exists, the job is at the head of the pool queue, ...) *)
Section Global.
  Variable allowed : gstate -> bytes -> label -> Prop.

  Inductive greach : gstate -> Prop :=
  | greach_init : greach ginit
  | greach_step : forall g i lb s',
      greach g -> allowed g i lb -> step_env (g i) lb = Some s' -> greach (gupd g i s').

  Lemma bytes_eqb_spec : forall a b, bytes_eqb a b = true <-> a = b.
  Proof.
    induction a as [|x a IH]; destruct b as [|y b]; cbn [bytes_eqb]; split; intro H;
      try reflexivity; try discriminate.
    - apply andb_true_iff in H. destruct H as [H1 H2]. apply IH in H2.
      unfold beq in H1. apply Ascii.eqb_eq in H1. subst. reflexivity.
    - inversion H; subst. apply andb_true_iff. split.
      + unfold beq. apply Ascii.eqb_refl.
      + apply IH. reflexivity.
  Qed.

  Theorem greach_item : forall g, greach g -> forall i, reachable i (g i).
  Proof.
    induction 1 as [|g i lb s' Hg IH Ha Hs]; intros k.
    - exists []. reflexivity.
    - unfold gupd. destruct (bytes_eqb k i) eqn:E.
      + apply bytes_eqb_spec in E. subst k.
        destruct (IH i) as [ls Hls]. exists (ls ++ [lb]).
        clear -Hls Hs. revert Hls. generalize (init_state i) as s0.
        induction ls as [|l ls IHl]; intros s0 Hls; cbn [run_env app] in *.
        * inversion Hls; subst. rewrite Hs. reflexivity.
        * destruct (step_env s0 l) as [s1|]; [|discriminate]. apply IHl. exact Hls.
      + apply IH.
  Qed.

  Corollary greach_Inv : forall g, greach g -> forall i, Inv (g i).
  Proof. intros g Hg i. eapply reachable_Inv. apply greach_item. exact Hg. Qed.
End Global.

Print Assumptions greach_item.
