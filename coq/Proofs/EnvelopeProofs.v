(* Proofs/EnvelopeProofs.v — the id / timestamp prefix is recoverable and leaves the text intact *)
From Coq Require Import String List Ascii NArith ZArith Bool Lia.
From LS Require Import Model.Bytes Model.Tags Gen.Consts Model.Envelope Proofs.BytesProofs.
Import ListNotations.

Lemma reply_message_eq : forall rid resp, reply_message rid resp = rid ++ c_pipe :: resp.
Proof. intros. unfold reply_message, join_pipe. rewrite join_with_cons2, join_with_singleton. reflexivity. Qed.

Theorem reply_envelope : forall rid resp,
  ~ In c_pipe rid ->
  open_envelope (reply_message rid resp) = Some (rid, split_on c_pipe resp).
Proof.
  intros rid resp H. unfold open_envelope. rewrite reply_message_eq, split_on_app_sep by exact H. reflexivity.
Qed.

Lemma Z_to_dec_no_pipe : forall z, ~ In c_pipe (Z_to_dec z).
Proof.
  intros z Hin. destruct (Z_to_dec_chars z) as [Hc _].
  rewrite forallb_forall in Hc. specialize (Hc _ Hin).
  vm_compute in Hc. discriminate.
Qed.

Theorem notify_envelope : forall ts ntfy,
  open_envelope (notify_message ts ntfy) = Some (Z_to_dec ts, split_on c_pipe ntfy)
  /\ dec_value (Z_to_dec ts) = ts.
Proof.
  intros ts ntfy. split; [|apply dec_value_Z_to_dec].
  change (notify_message ts ntfy) with (reply_message (Z_to_dec ts) ntfy).
  apply reply_envelope, Z_to_dec_no_pipe.
Qed.

(* distinct request ids give distinct messages whatever the texts *)
Theorem reply_envelope_injective : forall r1 r2 a b,
  ~ In c_pipe r1 -> ~ In c_pipe r2 ->
  reply_message r1 a = reply_message r2 b -> r1 = r2 /\ a = b.
Proof.
  intros r1 r2 a b H1 H2 E.
  pose proof (reply_envelope r1 a H1) as E1. pose proof (reply_envelope r2 b H2) as E2.
  rewrite E in E1. rewrite E1 in E2. injection E2 as Er Es. subst r2. split; [reflexivity|].
  rewrite !reply_message_eq in E. apply app_inv_head in E. injection E as E. exact E.
Qed.

Print Assumptions reply_envelope.
Print Assumptions notify_envelope.
Print Assumptions reply_envelope_injective.
