(* Proofs/CodecProofs.v — facts about the text codec of Model/Codec.v
   (protocol.py encode_string / decode_string), property C05.

   Bytes level (a str is carried as its UTF-8 bytes, a bytes argument as is):
     decode_encode_text    : decode_string (encode_text t) = t
     encode_text_alphabet  : non-empty token over tok_char
     encode_text_special   : "#" only for None, "$" only for Some []
     encode_text_injective
     encode_text_sep_free  : no '|', CR, LF, whitespace
     decode_alt_text       : every alternative URL-encoding is decoded
     encode_string_text / _bytes / _unsupported : the writer encode_string
   Unicode scalar level (a str is a list of scalar values, via utf8_enc/dec):
     decode_encode_utext, encode_utext_alphabet, encode_utext_special,
     encode_utext_injective, encode_utext_sep_free, decode_alt_utext
   Constants: null_value_eq, empty_value_eq, always_safe_reflected,
     tok_char_spec.
   Legacy code: encode_string_legacy_refuted.

   Every 256-byte sweep is a closed boolean check over [all_bytes]
   (Proofs/QuoteProofs.v); recursive model functions are never unfolded on open
   terms here: quote_plus / unquote_plus / utf8_enc / utf8_dec are used only
   through the theorems of QuoteProofs / Utf8Proofs. *)
From Coq Require Import List Ascii String NArith ZArith Bool.
From LS Require Import Model.Bytes Model.Tags Gen.Consts Model.Quote Model.Utf8
  Model.Codec Proofs.QuoteProofs Proofs.Utf8Proofs.
Import ListNotations.
Open Scope bool_scope.
Local Open Scope N_scope.

(* ------------------------------------------------------------------ *)
(* bytes_eqb decides equality                                          *)
(* ------------------------------------------------------------------ *)

Lemma bytes_eqb_refl : forall x, bytes_eqb x x = true.
Proof.
  intros x. induction x as [|a x IH]; [reflexivity|].
  cbn [bytes_eqb]. rewrite Ascii.eqb_refl, IH. reflexivity.
Qed.

Lemma bytes_eqb_true : forall x y, bytes_eqb x y = true -> x = y.
Proof.
  intros x. induction x as [|a x IH]; intros [|b y] H;
    cbn [bytes_eqb] in H; try discriminate H; [reflexivity|].
  apply andb_true_iff in H. destruct H as [H1 H2].
  apply Ascii.eqb_eq in H1. rewrite H1, (IH y H2). reflexivity.
Qed.

Lemma bytes_eqb_neq : forall x y, x <> y -> bytes_eqb x y = false.
Proof.
  intros x y H. destruct (bytes_eqb x y) eqn:E; [|reflexivity].
  exfalso. apply H. apply bytes_eqb_true. exact E.
Qed.

(* ------------------------------------------------------------------ *)
(* the reflected constants                                             *)
(* ------------------------------------------------------------------ *)

Lemma null_value_eq : null_value = [c_hash].
Proof. reflexivity. Qed.

Lemma empty_value_eq : empty_value = [c_dollar].
Proof. reflexivity. Qed.

(* the hand-written safe set is the one reflected from the live urllib *)
Definition chk_safe_refl (c : ascii) : bool :=
  Bool.eqb (always_safe c) (existsb (Ascii.eqb c) always_safe_chars).

Lemma sweep_safe_refl : forallb chk_safe_refl all_bytes = true.
Proof. vm_compute. reflexivity. Qed.

Lemma always_safe_reflected : forall c,
  always_safe c = existsb (Ascii.eqb c) always_safe_chars.
Proof.
  intros c. apply eqb_prop. exact (sweep_all chk_safe_refl sweep_safe_refl c).
Qed.

(* the token alphabet, spelled out: A-Z a-z 0-9 _ . - ~ + % *)
Definition tok_alphabet : bytes :=
  bs "ABCDEFGHIJKLMNOPQRSTUVWXYZabcdefghijklmnopqrstuvwxyz0123456789_.-~+%".

Definition chk_tok_spec (c : ascii) : bool :=
  Bool.eqb (tok_char c) (existsb (Ascii.eqb c) tok_alphabet).

Lemma sweep_tok_spec : forallb chk_tok_spec all_bytes = true.
Proof. vm_compute. reflexivity. Qed.

Lemma tok_char_spec : forall c,
  tok_char c = existsb (Ascii.eqb c)
    (bs "ABCDEFGHIJKLMNOPQRSTUVWXYZabcdefghijklmnopqrstuvwxyz0123456789_.-~+%").
Proof.
  intros c. apply eqb_prop. exact (sweep_all chk_tok_spec sweep_tok_spec c).
Qed.

(* ------------------------------------------------------------------ *)
(* closed facts about '#' and '$'                                      *)
(* ------------------------------------------------------------------ *)

Lemma hash_neq_dollar : [c_hash] <> [c_dollar].
Proof. intros H. vm_compute in H. discriminate H. Qed.

Lemma hash_not_sep :
  c_hash <> c_pipe /\ c_hash <> c_cr /\ c_hash <> c_lf /\ is_space c_hash = false.
Proof.
  split; [|split; [|split]].
  - intros H. vm_compute in H. discriminate H.
  - intros H. vm_compute in H. discriminate H.
  - intros H. vm_compute in H. discriminate H.
  - vm_compute. reflexivity.
Qed.

Lemma dollar_not_sep :
  c_dollar <> c_pipe /\ c_dollar <> c_cr /\ c_dollar <> c_lf
  /\ is_space c_dollar = false.
Proof.
  split; [|split; [|split]].
  - intros H. vm_compute in H. discriminate H.
  - intros H. vm_compute in H. discriminate H.
  - intros H. vm_compute in H. discriminate H.
  - vm_compute. reflexivity.
Qed.

(* ------------------------------------------------------------------ *)
(* unfolding lemmas for encode_text / decode_string                    *)
(* ------------------------------------------------------------------ *)

Lemma encode_text_none : encode_text (@None bytes) = [c_hash].
Proof. reflexivity. Qed.

Lemma encode_text_nil : encode_text (@Some bytes []) = [c_dollar].
Proof. reflexivity. Qed.

Lemma encode_text_cons : forall c s,
  encode_text (@Some bytes (c :: s)) = quote_plus (c :: s).
Proof. intros c s. reflexivity. Qed.

Lemma encode_text_nonnil : forall s : bytes,
  s <> [] -> encode_text (@Some bytes s) = quote_plus s.
Proof.
  intros s Hs. destruct s as [|c s]; [contradiction|]. apply encode_text_cons.
Qed.

Lemma decode_string_hash : decode_string [c_hash] = None.
Proof. vm_compute. reflexivity. Qed.

Lemma decode_string_dollar : decode_string [c_dollar] = Some [].
Proof. vm_compute. reflexivity. Qed.

Lemma decode_string_other : forall t,
  t <> [c_hash] -> t <> [c_dollar] ->
  decode_string t = Some (unquote_plus t).
Proof.
  intros t H1 H2. unfold decode_string.
  rewrite null_value_eq, empty_value_eq.
  rewrite (bytes_eqb_neq t [c_hash] H1), (bytes_eqb_neq t [c_dollar] H2).
  reflexivity.
Qed.

(* ------------------------------------------------------------------ *)
(* bytes level                                                         *)
(* ------------------------------------------------------------------ *)

Theorem decode_encode_text : forall t : option bytes,
  decode_string (encode_text t) = t.
Proof.
  intros t. destruct t as [[|c s]|].
  - rewrite encode_text_nil. apply decode_string_dollar.
  - rewrite encode_text_cons.
    destruct (quote_not_special (c :: s)) as [H1 H2].
    rewrite (decode_string_other _ H1 H2).
    rewrite unquote_quote. reflexivity.
  - rewrite encode_text_none. apply decode_string_hash.
Qed.

Theorem encode_text_alphabet : forall s : bytes,
  s <> [] ->
  encode_text (Some s) <> [] /\ forallb tok_char (encode_text (Some s)) = true.
Proof.
  intros s Hs. rewrite (encode_text_nonnil s Hs). split.
  - intros H. apply Hs. apply quote_nil_iff. exact H.
  - apply quote_alphabet.
Qed.

Theorem encode_text_special : forall t : option bytes,
  (encode_text t = [c_hash] <-> t = None) /\
  (encode_text t = [c_dollar] <-> t = Some []).
Proof.
  intros t. destruct t as [[|c s]|].
  - rewrite encode_text_nil. split; split; intros H.
    + exfalso. apply hash_neq_dollar. symmetry. exact H.
    + discriminate H.
    + reflexivity.
    + reflexivity.
  - rewrite encode_text_cons.
    destruct (quote_not_special (c :: s)) as [H1 H2].
    split; split; intros H.
    + contradiction.
    + discriminate H.
    + contradiction.
    + discriminate H.
  - rewrite encode_text_none. split; split; intros H.
    + reflexivity.
    + reflexivity.
    + exfalso. apply hash_neq_dollar. exact H.
    + discriminate H.
Qed.

Theorem encode_text_injective : forall a b : option bytes,
  encode_text a = encode_text b -> a = b.
Proof.
  intros a b H.
  pose proof (decode_encode_text a) as Ha.
  rewrite H in Ha. rewrite decode_encode_text in Ha.
  symmetry. exact Ha.
Qed.

Theorem encode_text_not_nil : forall t, encode_text t <> [].
Proof.
  intros t. destruct t as [[|c s]|].
  - rewrite encode_text_nil. discriminate.
  - assert (Hs : c :: s <> []) by discriminate.
    exact (proj1 (encode_text_alphabet (c :: s) Hs)).
  - rewrite encode_text_none. discriminate.
Qed.

Theorem encode_text_sep_free : forall t c,
  In c (encode_text t) ->
  c <> c_pipe /\ c <> c_cr /\ c <> c_lf /\ is_space c = false.
Proof.
  intros t c Hin. destruct t as [[|c0 s]|].
  - rewrite encode_text_nil in Hin. destruct Hin as [Hc | []].
    subst c. exact dollar_not_sep.
  - assert (Hs : c0 :: s <> []) by discriminate.
    pose proof (proj2 (encode_text_alphabet (c0 :: s) Hs)) as Ha.
    pose proof (proj1 (forallb_forall _ _) Ha c Hin) as Ht.
    destruct (tok_char_not_sep c Ht) as [H1 [H2 [H3 [_ H5]]]].
    split; [exact H1|]. split; [exact H2|]. split; [exact H3|exact H5].
  - rewrite encode_text_none in Hin. destruct Hin as [Hc | []].
    subst c. exact hash_not_sep.
Qed.

Theorem decode_alt_text : forall b t,
  alt_enc b t -> t <> [c_hash] -> t <> [c_dollar] ->
  decode_string t = Some b.
Proof.
  intros b t Ha H1 H2.
  rewrite (decode_string_other t H1 H2).
  rewrite (unquote_alt b t Ha). reflexivity.
Qed.

(* ------------------------------------------------------------------ *)
(* the writer encode_string on Python values                           *)
(* ------------------------------------------------------------------ *)

Lemma encode_string_text : forall t,
  encode_string (py_of_text t) = WOk (encode_text t).
Proof.
  intros t. destruct t as [[|c s]|];
    cbn [py_of_text encode_string encode_text is_nil]; reflexivity.
Qed.

Lemma encode_string_bytes : forall b,
  encode_string (PBytes b) = WOk (encode_text (Some b)).
Proof.
  intros b. destruct b as [|c s];
    cbn [encode_string encode_text is_nil]; reflexivity.
Qed.

Lemma encode_string_unsupported : forall v,
  (match v with PNone | PStr _ | PBytes _ => False | _ => True end) ->
  encode_string v = WErr WRemoting.
Proof.
  intros v H. destruct v; try contradiction; reflexivity.
Qed.

(* ------------------------------------------------------------------ *)
(* Unicode scalar level                                                *)
(* ------------------------------------------------------------------ *)

Lemma encode_utext_none : encode_utext (@None (list scalar)) = [c_hash].
Proof. reflexivity. Qed.

Lemma encode_utext_nil : encode_utext (@Some (list scalar) []) = [c_dollar].
Proof. reflexivity. Qed.

Lemma encode_utext_some : forall s : list scalar,
  encode_utext (Some s) = encode_text (Some (utf8_enc s)).
Proof. intros s. reflexivity. Qed.

Theorem decode_encode_utext : forall t : option (list scalar),
  (match t with Some s => forallb valid_scalar s = true | None => True end) ->
  decode_utext (encode_utext t) = Some t.
Proof.
  intros t Hv. destruct t as [s|].
  - rewrite encode_utext_some. unfold decode_utext.
    rewrite decode_encode_text. rewrite (utf8_dec_enc s Hv). reflexivity.
  - rewrite encode_utext_none. unfold decode_utext.
    rewrite decode_string_hash. reflexivity.
Qed.

Theorem encode_utext_alphabet : forall s : list scalar,
  s <> [] ->
  encode_utext (Some s) <> [] /\ forallb tok_char (encode_utext (Some s)) = true.
Proof.
  intros s Hs. rewrite encode_utext_some. apply encode_text_alphabet.
  intros H. apply Hs. apply utf8_enc_nil_iff. exact H.
Qed.

(* the three cases of the alphabet sentence in one statement *)
Theorem encode_utext_shape :
  encode_utext None = [c_hash] /\
  encode_utext (Some []) = [c_dollar] /\
  forall s : list scalar, s <> [] ->
    encode_utext (Some s) <> [] /\
    forallb tok_char (encode_utext (Some s)) = true.
Proof.
  split; [exact encode_utext_none|]. split; [exact encode_utext_nil|].
  exact encode_utext_alphabet.
Qed.

Theorem encode_utext_special : forall t : option (list scalar),
  (encode_utext t = [c_hash] <-> t = None) /\
  (encode_utext t = [c_dollar] <-> t = Some []).
Proof.
  intros t. destruct t as [s|].
  - rewrite encode_utext_some.
    destruct (encode_text_special (Some (utf8_enc s))) as [Hh Hd].
    split; split; intros H.
    + apply Hh in H. discriminate H.
    + discriminate H.
    + apply Hd in H. injection H as H. apply utf8_enc_nil_iff in H.
      rewrite H. reflexivity.
    + injection H as H. rewrite H. reflexivity.
  - rewrite encode_utext_none. split; split; intros H.
    + reflexivity.
    + reflexivity.
    + exfalso. apply hash_neq_dollar. exact H.
    + discriminate H.
Qed.

Theorem encode_utext_injective : forall a b : option (list scalar),
  (match a with Some s => forallb valid_scalar s = true | None => True end) ->
  (match b with Some s => forallb valid_scalar s = true | None => True end) ->
  encode_utext a = encode_utext b -> a = b.
Proof.
  intros a b Ha Hb H.
  pose proof (decode_encode_utext a Ha) as Da.
  rewrite H in Da. rewrite (decode_encode_utext b Hb) in Da.
  injection Da as Da. symmetry. exact Da.
Qed.

(* the same, derived from injectivity of the two layers rather than from the
   decoder (cross-check) *)
Lemma encode_utext_injective' : forall a b : option (list scalar),
  (match a with Some s => forallb valid_scalar s = true | None => True end) ->
  (match b with Some s => forallb valid_scalar s = true | None => True end) ->
  encode_utext a = encode_utext b -> a = b.
Proof.
  intros a b Ha Hb H. unfold encode_utext in H.
  apply encode_text_injective in H.
  destruct a as [sa|]; destruct b as [sb|]; try discriminate H.
  - injection H as H. rewrite (utf8_enc_inj sa sb Ha Hb H). reflexivity.
  - reflexivity.
Qed.

Theorem encode_utext_not_nil : forall t, encode_utext t <> [].
Proof. intros t. unfold encode_utext. apply encode_text_not_nil. Qed.

Theorem encode_utext_sep_free : forall t,
  encode_utext t <> [] /\
  forall c, In c (encode_utext t) ->
    c <> c_pipe /\ c <> c_cr /\ c <> c_lf /\ is_space c = false.
Proof.
  intros t. split; [apply encode_utext_not_nil|].
  intros c Hin. unfold encode_utext in Hin.
  exact (encode_text_sep_free _ c Hin).
Qed.

Theorem decode_alt_utext : forall (s : list scalar) (t : bytes),
  forallb valid_scalar s = true ->
  alt_enc (utf8_enc s) t -> t <> [c_hash] -> t <> [c_dollar] ->
  decode_utext t = Some (Some s).
Proof.
  intros s t Hv Ha H1 H2. unfold decode_utext.
  rewrite (decode_alt_text (utf8_enc s) t Ha H1 H2).
  rewrite (utf8_dec_enc s Hv). reflexivity.
Qed.

(* ------------------------------------------------------------------ *)
(* non-vacuity                                                         *)
(* ------------------------------------------------------------------ *)

(* "a b|é€😀#$%+": the literal is what CPython's quote_plus prints *)
Example utext_example :
  forallb valid_scalar [97; 32; 98; 124; 233; 8364; 128512; 35; 36; 37; 43] = true /\
  encode_utext (Some [97; 32; 98; 124; 233; 8364; 128512; 35; 36; 37; 43])
  = bs "a+b%7C%C3%A9%E2%82%AC%F0%9F%98%80%23%24%25%2B" /\
  decode_utext (bs "a+b%7C%C3%A9%E2%82%AC%F0%9F%98%80%23%24%25%2B")
  = Some (Some [97; 32; 98; 124; 233; 8364; 128512; 35; 36; 37; 43]).
Proof. vm_compute. split; [|split]; reflexivity. Qed.

(* an alternative encoding of "é*~ x+": lower-case hex, literal '*', escaped
   '~', '+' for the space, literal 'x', escaped '+' *)
Example utext_alt_example :
  alt_enc (utf8_enc [233; 42; 126; 32; 120; 43]) (bs "%c3%A9*%7e+x%2b") /\
  decode_utext (bs "%c3%A9*%7e+x%2b") = Some (Some [233; 42; 126; 32; 120; 43]).
Proof.
  split; [|vm_compute; reflexivity].
  change (utf8_enc [233; 42; 126; 32; 120; 43])
    with [ascii_of_N 195; ascii_of_N 169; ascii_of_N 42; ascii_of_N 126;
          ascii_of_N 32; ascii_of_N 120; ascii_of_N 43].
  change (bs "%c3%A9*%7e+x%2b")
    with ([c_pct; ascii_of_N 99; ascii_of_N 51] ++
          [c_pct; ascii_of_N 65; ascii_of_N 57] ++
          [ascii_of_N 42] ++
          [c_pct; ascii_of_N 55; ascii_of_N 101] ++
          [c_plus] ++
          [ascii_of_N 120] ++
          [c_pct; ascii_of_N 50; ascii_of_N 98] ++ []).
  apply alt_cons; [apply (alt_hex _ _ _ 12 3); vm_compute; reflexivity|].
  apply alt_cons; [apply (alt_hex _ _ _ 10 9); vm_compute; reflexivity|].
  apply alt_cons; [apply alt_lit;
    [intros H; vm_compute in H; discriminate H
    |intros H; vm_compute in H; discriminate H
    |vm_compute; reflexivity]|].
  apply alt_cons; [apply (alt_hex _ _ _ 7 14); vm_compute; reflexivity|].
  apply alt_cons; [exact alt_plus|].
  apply alt_cons; [apply alt_lit;
    [intros H; vm_compute in H; discriminate H
    |intros H; vm_compute in H; discriminate H
    |vm_compute; reflexivity]|].
  apply alt_cons; [apply (alt_hex _ _ _ 2 11); vm_compute; reflexivity|].
  exact alt_nil.
Qed.

(* ------------------------------------------------------------------ *)
(* the code before the repair of finding F3                            *)
(* ------------------------------------------------------------------ *)

(* a value that is not a text value (the int 0) was sent as "$", the token of
   the empty string *)
Theorem encode_string_legacy_refuted :
  exists v,
    (match v with PNone | PStr _ | PBytes _ => False | _ => True end) /\
    encode_string_legacy v = WOk [c_dollar].
Proof.
  exists (PInt 0). split; [exact I|]. vm_compute. reflexivity.
Qed.

(* ------------------------------------------------------------------ *)
Print Assumptions null_value_eq.
Print Assumptions empty_value_eq.
Print Assumptions always_safe_reflected.
Print Assumptions tok_char_spec.
Print Assumptions decode_encode_text.
Print Assumptions encode_text_alphabet.
Print Assumptions encode_text_special.
Print Assumptions encode_text_injective.
Print Assumptions encode_text_not_nil.
Print Assumptions encode_text_sep_free.
Print Assumptions decode_alt_text.
Print Assumptions encode_string_text.
Print Assumptions encode_string_bytes.
Print Assumptions encode_string_unsupported.
Print Assumptions decode_encode_utext.
Print Assumptions encode_utext_alphabet.
Print Assumptions encode_utext_shape.
Print Assumptions encode_utext_special.
Print Assumptions encode_utext_injective.
Print Assumptions encode_utext_injective'.
Print Assumptions encode_utext_not_nil.
Print Assumptions encode_utext_sep_free.
Print Assumptions decode_alt_utext.
Print Assumptions utext_example.
Print Assumptions utext_alt_example.
Print Assumptions encode_string_legacy_refuted.
