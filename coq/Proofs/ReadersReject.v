(* Proofs/ReadersReject.v — malformed requests fail cleanly (property C09).

   Every decorated reader returns, on every token list, either a request or
   the library's protocol error naming the method; truncated requests, wrong
   type markers and values outside the I / M / P grammars are rejected, in
   the fixed fields of every method and in every descriptor of a table list.

   Most rejection lemmas hold for ARBITRARY token lists (a read only looks at
   the two cells [i], [i+1]); the reference encoder is needed only to know
   which marker sits at which position. *)
From Coq Require Import String List Ascii NArith ZArith Bool Lia.
From LS Require Import Model.Bytes Model.Tags Gen.Consts Model.Quote Model.Codec Model.Readers Model.AriSpec
  Proofs.BytesProofs Proofs.CodecProofs Proofs.ReadersRoundtrip.
Import ListNotations.

Definition mentions (m : meth) (msg : bytes) : Prop := exists a b, msg = a ++ meth_name m ++ b.
(* number of argument tokens before the variable-length tail (map / list / table list) *)
Definition fixed_len (m : meth) : nat :=
  match m with
  | MDPI | MMPI | MGIT => 0
  | MSUB | MUSB | MNSC | MGUI | MNTC => 2
  | MNUS | MNNS | MNNT => 4
  | MNUA | MGIS | MNUM => 6
  | MGSC => 8
  | MMDA => 10
  | MMDC => 12
  | MMSA => 26
  | _ => 0
  end.
Fixpoint replace_nth {A} (n : nat) (x : A) (l : list A) : list A :=
  match n, l with
  | _, [] => []
  | O, _ :: r => x :: r
  | S k, y :: r => y :: replace_nth k x r
  end.

(* ------------------------------------------------------------------ *)
(* 0. failure of a raw reader                                           *)
(* ------------------------------------------------------------------ *)

Definition failed {A} (r : rres A) : Prop :=
  match r with RErr _ => True | ROk _ => False end.

Lemma failed_bind : forall (A B : Type) (r : rres A) (f : A -> rres B),
  failed r -> failed (rbind r f).
Proof. intros A B [a|e] f H; [destruct H | exact I]. Qed.

Lemma rbind_assoc : forall (A B C : Type) (r : rres A) (f : A -> rres B) (g : B -> rres C),
  rbind (rbind r f) g = rbind r (fun a => rbind (f a) g).
Proof. intros A B C [a|e] f g; reflexivity. Qed.

(* bring the next positional read to the head of the bind chain *)
Ltac flat := rewrite ?rbind_assoc; cbn [rbind].

Lemma failed_decorate : forall (A : Type) m (r : rres A),
  failed r -> exists msg, decorate m r = PErr msg.
Proof.
  intros A m [a|[msg|]] H; [destruct H| |]; cbn [decorate]; eexists; reflexivity.
Qed.

(* ------------------------------------------------------------------ *)
(* 1. read_request is total and names the method                        *)
(* ------------------------------------------------------------------ *)

Theorem read_request_total : forall m ts,
  (exists q, read_request m ts = POk q) \/
  (exists msg, read_request m ts = PErr msg /\ mentions m msg).
Proof.
  intros m ts. unfold read_request. destruct (read_body m ts) as [q|[msg|]].
  - left. exists q. reflexivity.
  - right. cbn [decorate]. eexists. split; [reflexivity|].
    exists (msg ++ bs " while parsing "), (bs " request").
    rewrite <- app_assoc. reflexivity.
  - right. cbn [decorate]. eexists. split; [reflexivity|].
    exists (bs "An unexpected exception caught while parsing "), (bs " request").
    reflexivity.
Qed.

(* ------------------------------------------------------------------ *)
(* 2. list facts: firstn, replace_nth                                   *)
(* ------------------------------------------------------------------ *)

Lemma nth_error_firstn_lt : forall (A : Type) (l : list A) k i,
  i < k -> nth_error (firstn k l) i = nth_error l i.
Proof.
  intros A l. induction l as [|a l IH]; intros k i H.
  - rewrite firstn_nil. reflexivity.
  - destruct k as [|k]; [lia|]. destruct i as [|i]; [reflexivity|].
    cbn [firstn nth_error]. apply IH. lia.
Qed.

Lemma replace_nth_length : forall (A : Type) (l : list A) n x,
  length (replace_nth n x l) = length l.
Proof.
  intros A l. induction l as [|a l IH]; intros n x.
  - destruct n; reflexivity.
  - destruct n as [|n]; [reflexivity|]. cbn [replace_nth length]. rewrite IH. reflexivity.
Qed.

Lemma nth_error_replace_eq : forall (A : Type) (l : list A) n x,
  n < length l -> nth_error (replace_nth n x l) n = Some x.
Proof.
  intros A l. induction l as [|a l IH]; intros n x H; cbn [length] in H.
  - lia.
  - destruct n as [|n]; [reflexivity|]. cbn [replace_nth nth_error]. apply IH. lia.
Qed.

Lemma nth_error_replace_ne : forall (A : Type) (l : list A) n x i,
  i <> n -> nth_error (replace_nth n x l) i = nth_error l i.
Proof.
  intros A l. induction l as [|a l IH]; intros n x i H.
  - destruct n; reflexivity.
  - destruct n as [|n]; destruct i as [|i]; try reflexivity; [lia|].
    cbn [replace_nth nth_error]. apply IH. lia.
Qed.

Lemma replace_nth_cons : forall (A : Type) (a : A) (l : list A) n x,
  replace_nth (S n) x (a :: l) = a :: replace_nth n x l.
Proof. reflexivity. Qed.

Lemma replace_nth_app_l : forall (A : Type) (a b : list A) n x,
  n < length a -> replace_nth n x (a ++ b) = replace_nth n x a ++ b.
Proof.
  intros A a. induction a as [|y a IH]; intros b n x H; cbn [length] in H.
  - lia.
  - destruct n as [|n]; [reflexivity|]. cbn [app replace_nth]. rewrite IH by lia.
    reflexivity.
Qed.

Lemma replace_nth_app_r : forall (A : Type) (a b : list A) n x,
  replace_nth (length a + n) x (a ++ b) = a ++ replace_nth n x b.
Proof.
  intros A a. induction a as [|y a IH]; intros b n x.
  - reflexivity.
  - cbn [length Nat.add app replace_nth]. rewrite IH. reflexivity.
Qed.

(* ------------------------------------------------------------------ *)
(* 3. read_typed only looks at cells i and i+1                          *)
(* ------------------------------------------------------------------ *)

Lemma read_typed_ext : forall (A : Type) ty (dec : bytes -> rres A) (l l' : list bytes) i,
  nth_error l i = nth_error l' i -> nth_error l (S i) = nth_error l' (S i) ->
  read_typed ty dec l i = read_typed ty dec l' i.
Proof.
  intros A ty dec l l' i H0 H1. unfold read_typed, read_token.
  rewrite H0, H1. reflexivity.
Qed.

Lemma read_typed_short : forall (A : Type) ty (dec : bytes -> rres A) (l : list bytes) i,
  length l <= S i -> failed (read_typed ty dec l i).
Proof.
  intros A ty dec l i H. unfold read_typed, read_token.
  destruct (nth_error l i) as [t|]; [|exact I]. cbn [rbind].
  destruct (bytes_eqb t [ty]); [|exact I].
  assert (E : nth_error l (S i) = None) by (apply nth_error_None; exact H).
  rewrite E. exact I.
Qed.

Lemma read_typed_firstn_lt : forall (A : Type) ty (dec : bytes -> rres A) (l : list bytes) k i,
  S i < k -> read_typed ty dec (firstn k l) i = read_typed ty dec l i.
Proof.
  intros A ty dec l k i H. apply read_typed_ext; apply nth_error_firstn_lt; lia.
Qed.

Lemma read_typed_firstn_ge : forall (A : Type) ty (dec : bytes -> rres A) (l : list bytes) k i,
  k <= S i -> failed (read_typed ty dec (firstn k l) i).
Proof.
  intros A ty dec l k i H. apply read_typed_short.
  pose proof (firstn_le_length k l) as Hl. lia.
Qed.

Lemma read_typed_replace_other : forall (A : Type) ty (dec : bytes -> rres A) (l : list bytes) n (x : bytes) i,
  i <> n -> S i <> n ->
  read_typed ty dec (replace_nth n x l) i = read_typed ty dec l i.
Proof.
  intros A ty dec l n x i H0 H1. apply read_typed_ext; apply nth_error_replace_ne; assumption.
Qed.

Lemma read_typed_replace_marker : forall (A : Type) ty (dec : bytes -> rres A) (l : list bytes) (x : bytes) i,
  x <> [ty] -> failed (read_typed ty dec (replace_nth i x l) i).
Proof.
  intros A ty dec l x i Hx. unfold read_typed, read_token.
  destruct (Nat.lt_ge_cases i (length l)) as [Hlt|Hge].
  - rewrite nth_error_replace_eq by exact Hlt. cbn [rbind].
    destruct (bytes_eqb x [ty]) eqn:E; [|exact I].
    apply bytes_eqb_true in E. contradiction.
  - assert (E : nth_error (replace_nth i x l) i = None).
    { apply nth_error_None. rewrite replace_nth_length. exact Hge. }
    rewrite E. exact I.
Qed.

Lemma read_typed_replace_value : forall (A : Type) ty (dec : bytes -> rres A) (l : list bytes) (x : bytes) i,
  failed (dec x) -> failed (read_typed ty dec (replace_nth (S i) x l) i).
Proof.
  intros A ty dec l x i Hx. unfold read_typed, read_token.
  destruct (nth_error (replace_nth (S i) x l) i) as [t|]; [|exact I]. cbn [rbind].
  destruct (bytes_eqb t [ty]); [|exact I].
  destruct (Nat.lt_ge_cases (S i) (length l)) as [Hlt|Hge].
  - rewrite nth_error_replace_eq by exact Hlt. cbn [rbind]. exact Hx.
  - assert (E : nth_error (replace_nth (S i) x l) (S i) = None).
    { apply nth_error_None. rewrite replace_nth_length. exact Hge. }
    rewrite E. exact I.
Qed.

(* decoders of the three typed grammars *)
Definition dec_I (t : bytes) : rres Z :=
  match parse_int t with Some z => ROk z | None => RErr RawOther end.
Definition dec_M (t : bytes) : rres (option mode) := of_dres (decode_modes t).
Definition dec_P (t : bytes) : rres platres := of_dres (decode_platform t).
Definition dec_S (t : bytes) : rres text := ROk (decode_string t).

Lemma read_S_typed : read_S = read_typed c_S dec_S. Proof. reflexivity. Qed.
Lemma read_I_typed : read_I = read_typed c_I dec_I. Proof. reflexivity. Qed.
Lemma read_M_typed : read_M = read_typed c_M dec_M. Proof. reflexivity. Qed.
Lemma read_P_typed : read_P = read_typed c_P dec_P. Proof. reflexivity. Qed.

Lemma dec_I_failed : forall t, parse_int t = None -> failed (dec_I t).
Proof. intros t H. unfold dec_I. rewrite H. exact I. Qed.
Lemma dec_M_failed : forall t, (exists e, decode_modes t = DErr e) -> failed (dec_M t).
Proof. intros t [e H]. unfold dec_M. rewrite H. exact I. Qed.
Lemma dec_P_failed : forall t, (exists e, decode_platform t = DErr e) -> failed (dec_P t).
Proof. intros t [e H]. unfold dec_P. rewrite H. exact I. Qed.

(* expose every positional read of a body as a [read_typed] at a numeral *)
Ltac expose :=
  unfold read_body, read_table, read_subinfo, read_device;
  rewrite ?read_S_typed, ?read_I_typed, ?read_M_typed, ?read_P_typed;
  cbn [Nat.add].

(* ------------------------------------------------------------------ *)
(* 4. truncation                                                        *)
(* ------------------------------------------------------------------ *)

(* one read of a truncated list: either it lies below the cut (same result as
   on the full list, whatever that is) or it fails *)
Ltac trunc_step k :=
  flat;
  match goal with
  | |- failed (rbind (read_typed ?ty ?dec (firstn k ?l) ?j) _) =>
      let H := fresh "Hc" in
      destruct (Nat.lt_ge_cases (S j) k) as [H|H];
      [ first
          [ exfalso; lia
          | rewrite (read_typed_firstn_lt _ ty dec l k j H);
            destruct (read_typed ty dec l j); [cbn [rbind] | exact I] ]
      | apply failed_bind; apply read_typed_firstn_ge; exact H ]
  end.

(* holds for an arbitrary token list *)
Lemma truncation_any : forall m l k,
  k < fixed_len m -> failed (read_body m (firstn k l)).
Proof.
  intros m l k H.
  destruct m; cbn [fixed_len] in H; try (exfalso; lia); expose;
    repeat trunc_step k.
Qed.

Theorem truncation_rejected : forall m q k,
  shape_ok m q = true -> k < fixed_len m ->
  exists msg, read_request m (firstn k (encode_args q)) = PErr msg.
Proof.
  intros m q k _ H. unfold read_request. apply failed_decorate.
  apply truncation_any. exact H.
Qed.

(* ------------------------------------------------------------------ *)
(* 5. one token of the fixed fields replaced                            *)
(* ------------------------------------------------------------------ *)

(* one read of a list with one replaced cell: the read hits the replaced
   marker, or the replaced value, or neither cell (then it behaves as on the
   original list, whatever the result) *)
Ltac repl_step :=
  flat;
  match goal with
  | |- failed (rbind (read_typed ?ty ?dec (replace_nth ?p ?x ?l) ?j) _) =>
      first
        [ apply failed_bind; apply read_typed_replace_marker; assumption
        | apply failed_bind; apply read_typed_replace_value; assumption
        | rewrite (read_typed_replace_other _ ty dec l p x j) by lia;
          destruct (read_typed ty dec l j); [cbn [rbind] | exact I] ]
  end.

(* bounded case analysis on a position *)
Ltac enum i tac :=
  destruct i as [|i]; [ tac | first [ exfalso; lia | enum i tac ] ].

Ltac gen_tokens :=
  match goal with
  | |- context [replace_nth _ _ ?l] => let l' := fresh "l" in generalize l; intro l'
  end.

Ltac enc_cbn H :=
  cbn [nth_error encode_args enc_S enc_I enc_M enc_P enc_table enc_device enc_subinfo app] in H.

Ltac marker_case Hev Hne :=
  cbn [Nat.even] in Hev;
  first
    [ discriminate Hev
    | enc_cbn Hne;
      match type of Hne with
      | Some ?a <> Some ?x =>
          let Hm := fresh "Hm" in let E := fresh "E" in
          assert (Hm : x <> a) by (intro E; apply Hne; rewrite E; reflexivity)
      end;
      gen_tokens; expose; repeat repl_step ].

Ltac value_case Hev Hn :=
  cbn [Nat.even] in Hev;
  first
    [ discriminate Hev
    | enc_cbn Hn; cbv delta [c_S c_I c_M c_P] in Hn; discriminate Hn
    | gen_tokens; expose; repeat repl_step ].

Theorem marker_replaced_rejected : forall m q i t',
  shape_ok m q = true -> ints_ok q -> i < fixed_len m -> Nat.even i = true ->
  nth_error (encode_args q) i <> Some t' ->
  exists msg, read_request m (replace_nth i t' (encode_args q)) = PErr msg.
Proof.
  intros m q i t' Hs _ Hlt Hev Hne. unfold read_request. apply failed_decorate.
  destruct m; destruct q; try discriminate Hs; cbn [fixed_len] in Hlt;
    try (exfalso; lia); enum i ltac:(marker_case Hev Hne).
Qed.

(* [Nat.even i = true] (i is a marker position) is necessary in the three
   theorems below and in [tables_int_corrupted_rejected]: a VALUE token may
   equal a marker letter, and then the token after it is a marker which the
   "corrupted" value may coincide with, leaving the request unchanged. *)
Example corrupted_needs_even :
  let q := WNUS (Some (bs "I")) None [] in
  nth_error (encode_args q) 1 = Some [c_I] /\ parse_int [c_S] = None /\
  read_request MNUS (replace_nth 2 [c_S] (encode_args q)) = POk (QNUS (Some (bs "I")) None []).
Proof. vm_compute. repeat split. Qed.

Theorem int_corrupted_rejected : forall m q i t',
  shape_ok m q = true -> ints_ok q -> S i < fixed_len m -> Nat.even i = true ->
  nth_error (encode_args q) i = Some [c_I] -> parse_int t' = None ->
  exists msg, read_request m (replace_nth (S i) t' (encode_args q)) = PErr msg.
Proof.
  intros m q i t' Hs _ Hlt Hev Hn Hp. unfold read_request. apply failed_decorate.
  pose proof (dec_I_failed t' Hp) as Hf.
  destruct m; destruct q; try discriminate Hs; cbn [fixed_len] in Hlt;
    try (exfalso; lia); enum i ltac:(value_case Hev Hn).
Qed.

Theorem mode_corrupted_rejected : forall m q i t',
  shape_ok m q = true -> ints_ok q -> S i < fixed_len m -> Nat.even i = true ->
  nth_error (encode_args q) i = Some [c_M] -> (exists e, decode_modes t' = DErr e) ->
  exists msg, read_request m (replace_nth (S i) t' (encode_args q)) = PErr msg.
Proof.
  intros m q i t' Hs _ Hlt Hev Hn Hp. unfold read_request. apply failed_decorate.
  pose proof (dec_M_failed t' Hp) as Hf.
  destruct m; destruct q; try discriminate Hs; cbn [fixed_len] in Hlt;
    try (exfalso; lia); enum i ltac:(value_case Hev Hn).
Qed.

Theorem platform_corrupted_rejected : forall m q i t',
  shape_ok m q = true -> ints_ok q -> S i < fixed_len m -> Nat.even i = true ->
  nth_error (encode_args q) i = Some [c_P] -> (exists e, decode_platform t' = DErr e) ->
  exists msg, read_request m (replace_nth (S i) t' (encode_args q)) = PErr msg.
Proof.
  intros m q i t' Hs _ Hlt Hev Hn Hp. unfold read_request. apply failed_decorate.
  pose proof (dec_P_failed t' Hp) as Hf.
  destruct m; destruct q; try discriminate Hs; cbn [fixed_len] in Hlt;
    try (exfalso; lia); enum i ltac:(value_case Hev Hn).
Qed.

(* ------------------------------------------------------------------ *)
(* 6. table lists                                                       *)
(* ------------------------------------------------------------------ *)

Lemma read_tables_aux_eq : forall f a r,
  read_tables_aux (S f) (a :: r) =
  rbind (read_table (firstn 14 (a :: r)) 0 true) (fun t =>
  rbind (read_tables_aux f (skipn 14 (a :: r))) (fun rest => ROk (t :: rest))).
Proof. reflexivity. Qed.

(* a full 14-token chunk followed by anything *)
Lemma read_tables_aux_chunk : forall f (c r : list bytes),
  length c = 14 ->
  read_tables_aux (S f) (c ++ r) =
  rbind (read_table c 0 true) (fun t =>
  rbind (read_tables_aux f r) (fun rest => ROk (t :: rest))).
Proof.
  intros f c r Hc. destruct c as [|a c']; [discriminate Hc|].
  change ((a :: c') ++ r) with (a :: (c' ++ r)). rewrite read_tables_aux_eq.
  change (a :: (c' ++ r)) with ((a :: c') ++ r).
  rewrite firstn_app, skipn_app. rewrite <- Hc.
  rewrite firstn_all, skipn_all, Nat.sub_diag.
  change (firstn 0 r) with (@nil bytes). change (skipn 0 r) with r.
  rewrite app_nil_r. reflexivity.
Qed.

(* a descriptor of fewer than 14 tokens is rejected *)
Ltac short_step tb :=
  flat;
  match goal with
  | |- failed (rbind (read_typed ?ty ?dec tb ?j) _) =>
      let H := fresh "Hc" in
      destruct (Nat.lt_ge_cases (S j) (length tb)) as [H|H];
      [ first
          [ exfalso; lia
          | destruct (read_typed ty dec tb j); [cbn [rbind] | exact I] ]
      | apply failed_bind; apply read_typed_short; exact H ]
  end.

Lemma read_table_short : forall tb : list bytes,
  length tb < 14 -> failed (read_table tb 0 true).
Proof.
  intros tb H. expose. repeat short_step tb.
Qed.

Lemma tables_trunc : forall ts k fuel,
  k <= fuel -> k < 14 * length ts -> Nat.modulo k 14 <> 0 ->
  failed (read_tables_aux fuel (firstn k (flat_map (enc_table true) ts))).
Proof.
  induction ts as [|t ts IH]; intros k fuel Hf Hk Hm; cbn [length] in Hk.
  - lia.
  - cbn [flat_map]. destruct (Nat.lt_ge_cases k 14) as [Hlt|Hge].
    + assert (Hk0 : k <> 0).
      { intro E. subst k. apply Hm. reflexivity. }
      rewrite firstn_app. rewrite enc_table_true_length.
      replace (k - 14) with 0 by lia.
      change (firstn 0 (flat_map (enc_table true) ts)) with (@nil bytes).
      rewrite app_nil_r.
      destruct fuel as [|f]; [lia|].
      assert (Hlen : length (firstn k (enc_table true t)) = k).
      { apply firstn_length_le. rewrite enc_table_true_length. lia. }
      destruct (firstn k (enc_table true t)) as [|a r] eqn:E.
      { cbn [length] in Hlen. lia. }
      rewrite read_tables_aux_eq. apply failed_bind. apply read_table_short.
      rewrite firstn_length. unfold bytes in *. lia.
    + replace k with (length (enc_table true t) + (k - 14))
        by (rewrite enc_table_true_length; lia).
      rewrite firstn_app_2.
      destruct fuel as [|f]; [lia|].
      rewrite read_tables_aux_chunk by reflexivity.
      destruct (read_table (enc_table true t) 0 true) as [t0|e]; [cbn [rbind]|exact I].
      apply failed_bind. apply IH.
      * lia.
      * lia.
      * intro E. apply Hm.
        replace k with ((k - 14) + 1 * 14) by lia.
        rewrite Nat.mod_add by discriminate. exact E.
Qed.

Theorem table_truncation_rejected_nnt : forall u s ts k,
  ints_ok (WNNT u s ts) -> k < 14 * length ts -> Nat.modulo k 14 <> 0 ->
  exists msg, read_request MNNT (firstn (4 + k) (encode_args (WNNT u s ts))) = PErr msg.
Proof.
  intros u s ts k _ Hk Hm. unfold read_request. apply failed_decorate.
  cbn [encode_args enc_S app Nat.add firstn read_body].
  rewrite read_S_here. cbn [rbind]. rewrite read_S_skip, read_S_here. cbn [rbind].
  unfold read_tables. cbn [skipn]. apply failed_bind.
  apply tables_trunc; [|exact Hk|exact Hm].
  rewrite firstn_length_le; [apply Nat.le_refl|].
  rewrite enc_tables_length. lia.
Qed.

Theorem table_truncation_rejected_ntc : forall s ts k,
  ints_ok (WNTC s ts) -> k < 14 * length ts -> Nat.modulo k 14 <> 0 ->
  exists msg, read_request MNTC (firstn (2 + k) (encode_args (WNTC s ts))) = PErr msg.
Proof.
  intros s ts k _ Hk Hm. unfold read_request. apply failed_decorate.
  cbn [encode_args enc_S app Nat.add firstn read_body].
  rewrite read_S_here. cbn [rbind].
  unfold read_tables. cbn [skipn]. apply failed_bind.
  apply tables_trunc; [|exact Hk|exact Hm].
  rewrite firstn_length_le; [apply Nat.le_refl|].
  rewrite enc_tables_length. lia.
Qed.

(* a replacement at offset d (0 = marker, 1 = value) from an even position i,
   under a condition C on the original token at position i: if every single
   descriptor rejects it, so does the list reader *)
Lemma tables_replace_lift : forall (d : nat) (x : bytes) (C : option bytes -> Prop),
  d <= 1 ->
  (forall t j, j < 14 -> Nat.even j = true -> C (nth_error (enc_table true t) j) ->
     failed (read_table (replace_nth (d + j) x (enc_table true t)) 0 true)) ->
  forall ts i fuel, length ts <= fuel -> i < 14 * length ts -> Nat.even i = true ->
    C (nth_error (flat_map (enc_table true) ts) i) ->
    failed (read_tables_aux fuel (replace_nth (d + i) x (flat_map (enc_table true) ts))).
Proof.
  intros d x C Hd Hloc.
  induction ts as [|t ts IH]; intros i fuel Hf Hi Hev HC; cbn [length] in Hf, Hi.
  - lia.
  - destruct fuel as [|f]; [lia|]. cbn [flat_map] in HC |- *.
    destruct (Nat.lt_ge_cases i 14) as [Hlt|Hge].
    + assert (Hi13 : i <> 13) by (intro E; subst i; discriminate Hev).
      rewrite replace_nth_app_l by (rewrite enc_table_true_length; lia).
      rewrite read_tables_aux_chunk by (rewrite replace_nth_length; reflexivity).
      apply failed_bind. apply Hloc; [exact Hlt|exact Hev|].
      rewrite nth_error_app1 in HC by (rewrite enc_table_true_length; exact Hlt).
      exact HC.
    + replace (d + i) with (length (enc_table true t) + (d + (i - 14)))
        by (rewrite enc_table_true_length; lia).
      rewrite replace_nth_app_r.
      rewrite read_tables_aux_chunk by reflexivity.
      destruct (read_table (enc_table true t) 0 true) as [t0|e]; [cbn [rbind]|exact I].
      apply failed_bind. apply IH.
      * lia.
      * lia.
      * rewrite Nat.even_sub by exact Hge. rewrite Hev. reflexivity.
      * rewrite nth_error_app2 in HC by (rewrite enc_table_true_length; exact Hge).
        rewrite enc_table_true_length in HC. exact HC.
Qed.

Lemma table_marker_replaced : forall (x : bytes) t j,
  j < 14 -> Nat.even j = true -> nth_error (enc_table true t) j <> Some x ->
  failed (read_table (replace_nth (0 + j) x (enc_table true t)) 0 true).
Proof.
  intros x t j Hlt Hev Hne. cbn [Nat.add].
  enum j ltac:(marker_case Hev Hne).
Qed.

Lemma table_int_corrupted : forall (x : bytes) t j,
  parse_int x = None ->
  j < 14 -> Nat.even j = true -> nth_error (enc_table true t) j = Some [c_I] ->
  failed (read_table (replace_nth (1 + j) x (enc_table true t)) 0 true).
Proof.
  intros x t j Hp Hlt Hev Hn. cbn [Nat.add].
  pose proof (dec_I_failed x Hp) as Hf.
  enum j ltac:(value_case Hev Hn).
Qed.

Theorem tables_marker_replaced_rejected : forall m q i t',
  (m = MNNT \/ m = MNTC) -> shape_ok m q = true -> ints_ok q ->
  i < length (encode_args q) -> Nat.even i = true -> nth_error (encode_args q) i <> Some t' ->
  exists msg, read_request m (replace_nth i t' (encode_args q)) = PErr msg.
Proof.
  intros m q i t' Hm Hs Hi Hlen Hev Hne.
  destruct (Nat.lt_ge_cases i (fixed_len m)) as [Hlt|Hge];
    [apply marker_replaced_rejected; assumption|].
  unfold read_request. apply failed_decorate.
  destruct Hm; subst m; destruct q; try discriminate Hs; cbn [fixed_len] in Hge.
  - (* NNT *)
    remember (i - 4) as i' eqn:Ei. assert (E : i = 4 + i') by lia. subst i. clear Ei Hge.
    cbn [encode_args enc_S app length Nat.add] in Hlen. rewrite enc_tables_length in Hlen.
    cbn [Nat.add Nat.even] in Hev.
    cbn [encode_args enc_S app Nat.add nth_error] in Hne.
    cbn [encode_args enc_S app Nat.add replace_nth read_body].
    rewrite read_S_here. cbn [rbind]. rewrite read_S_skip, read_S_here. cbn [rbind].
    unfold read_tables. cbn [skipn]. apply failed_bind.
    apply (tables_replace_lift 0 t' (fun o => o <> Some t')).
    + lia.
    + intros t j. apply table_marker_replaced.
    + rewrite replace_nth_length, enc_tables_length. lia.
    + lia.
    + exact Hev.
    + exact Hne.
  - (* NTC *)
    remember (i - 2) as i' eqn:Ei. assert (E : i = 2 + i') by lia. subst i. clear Ei Hge.
    cbn [encode_args enc_S app length Nat.add] in Hlen. rewrite enc_tables_length in Hlen.
    cbn [Nat.add Nat.even] in Hev.
    cbn [encode_args enc_S app Nat.add nth_error] in Hne.
    cbn [encode_args enc_S app Nat.add replace_nth read_body].
    rewrite read_S_here. cbn [rbind].
    unfold read_tables. cbn [skipn]. apply failed_bind.
    apply (tables_replace_lift 0 t' (fun o => o <> Some t')).
    + lia.
    + intros t j. apply table_marker_replaced.
    + rewrite replace_nth_length, enc_tables_length. lia.
    + lia.
    + exact Hev.
    + exact Hne.
Qed.

Theorem tables_int_corrupted_rejected : forall m q i t',
  (m = MNNT \/ m = MNTC) -> shape_ok m q = true -> ints_ok q -> Nat.even i = true ->
  nth_error (encode_args q) i = Some [c_I] -> parse_int t' = None ->
  exists msg, read_request m (replace_nth (S i) t' (encode_args q)) = PErr msg.
Proof.
  intros m q i t' Hm Hs Hi Hev Hn Hp.
  unfold read_request. apply failed_decorate.
  assert (Hlen : i < length (encode_args q)).
  { apply nth_error_Some. rewrite Hn. discriminate. }
  destruct Hm; subst m; destruct q; try discriminate Hs.
  - (* NNT *)
    cbn [encode_args enc_S app length] in Hlen. rewrite enc_tables_length in Hlen.
    destruct i as [|[|[|[|i']]]];
      try (cbn [Nat.even] in Hev; discriminate Hev);
      try (enc_cbn Hn; cbv delta [c_S c_I] in Hn; discriminate Hn).
    cbn [Nat.even] in Hev.
    cbn [encode_args enc_S app nth_error] in Hn.
    cbn [encode_args enc_S app read_body]. rewrite !replace_nth_cons.
    rewrite read_S_here. cbn [rbind]. rewrite read_S_skip, read_S_here. cbn [rbind].
    unfold read_tables. cbn [skipn]. apply failed_bind.
    apply (tables_replace_lift 1 t' (fun o => o = Some [c_I])).
    + lia.
    + intros t j. apply table_int_corrupted. exact Hp.
    + rewrite replace_nth_length, enc_tables_length. lia.
    + lia.
    + exact Hev.
    + exact Hn.
  - (* NTC *)
    cbn [encode_args enc_S app length] in Hlen. rewrite enc_tables_length in Hlen.
    destruct i as [|[|i']];
      try (cbn [Nat.even] in Hev; discriminate Hev);
      try (enc_cbn Hn; cbv delta [c_S c_I] in Hn; discriminate Hn).
    cbn [Nat.even] in Hev.
    cbn [encode_args enc_S app nth_error] in Hn.
    cbn [encode_args enc_S app read_body]. rewrite !replace_nth_cons.
    rewrite read_S_here. cbn [rbind].
    unfold read_tables. cbn [skipn]. apply failed_bind.
    apply (tables_replace_lift 1 t' (fun o => o = Some [c_I])).
    + lia.
    + intros t j. apply table_int_corrupted. exact Hp.
    + rewrite replace_nth_length, enc_tables_length. lia.
    + lia.
    + exact Hev.
    + exact Hn.
Qed.

Print Assumptions read_request_total.
Print Assumptions truncation_rejected.
Print Assumptions table_truncation_rejected_nnt.
Print Assumptions table_truncation_rejected_ntc.
Print Assumptions marker_replaced_rejected.
Print Assumptions int_corrupted_rejected.
Print Assumptions mode_corrupted_rejected.
Print Assumptions platform_corrupted_rejected.
Print Assumptions tables_marker_replaced_rejected.
Print Assumptions tables_int_corrupted_rejected.

(* ------------------------------------------------------------------ which mode tokens are accepted *)
(* a mode token is accepted only if it is the null / empty marker or EXACTLY the code of a mode: a longer token that
   merely begins with a mode letter ("Mx", "CD", "RAW") is an unknown mode *)
Lemma decode_modes_exact : forall t m, decode_modes t = DOk (Some m) -> t = mode_value m.
Proof.
  intros t m H. unfold decode_modes in H.
  destruct (bytes_eqb t null_value || bytes_eqb t empty_value); [discriminate|].
  unfold mode_of_token in H.
  destruct (find (fun m0 => bytes_eqb (mode_value m0) t) all_modes) as [m'|] eqn:F; [|discriminate].
  inversion H; subst m'. apply find_some in F. destruct F as [_ E].
  symmetry. apply bytes_eqb_true. exact E.
Qed.

Lemma decode_modes_none : forall t, decode_modes t = DOk None -> t = null_value \/ t = empty_value.
Proof.
  intros t H. unfold decode_modes in H.
  destruct (bytes_eqb t null_value) eqn:A; [left; apply bytes_eqb_true; exact A|].
  destruct (bytes_eqb t empty_value) eqn:B; [right; apply bytes_eqb_true; exact B|].
  cbn [orb] in H. destruct (mode_of_token t); discriminate.
Qed.

Lemma decode_modes_unknown : forall t,
  t <> null_value -> t <> empty_value -> (forall m, In m all_modes -> t <> mode_value m) ->
  exists e, decode_modes t = DErr e.
Proof.
  intros t Hn He Hm. destruct (decode_modes t) as [[m|]|e] eqn:D.
  - exfalso. apply (Hm m); [destruct m; cbn; auto|]. exact (decode_modes_exact _ _ D).
  - exfalso. destruct (decode_modes_none _ D); contradiction.
  - exists e. reflexivity.
Qed.

Example decode_modes_examples :
  decode_modes (bs "M") = DOk (Some ModeMerge) /\ decode_modes (bs "#") = DOk None /\
  decode_modes (bs "Mx") = DErr (bs "Unknown mode 'Mx' found") /\
  decode_modes (bs "CD") = DErr (bs "Unknown mode 'CD' found") /\
  decode_modes (bs "RAW") = DErr (bs "Unknown mode 'RAW' found") /\
  decode_modes [] = DErr (bs "Unknown mode '' found").
Proof. vm_compute. repeat split; reflexivity. Qed.
